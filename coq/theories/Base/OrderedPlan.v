(* Generic library: the incremental planner of boss_sync.rs:450-599 over the ordered map of
   ordered_map.rs (vec + map, lazy deletion, `update` fails on a missing key), parametric in the key
   type, the entry-details type and the two decision functions, together with its characterisation
   (the iterated action lists are functions of the two listings alone, for every interleaving).
   Ported from design-spikes/Plan_spike.v.  Instantiated in Model/Core.v. *)
From RJ Require Import Base.Prelude.

Section Plan.
Variable K : Type.
Variable K_eq_dec : forall a b : K, {a = b} + {a <> b}.
Variable Det : Type.               (* entry details *)
Variable needs_delete : Det -> Det -> bool.          (* src dest *)
Inductive creason := NotOnDest | DestNewer | DestOlder | SameTime.
Inductive dreason := NotOnSource | Incompatible.
Variable needs_copy : Det -> Det -> option creason.  (* src dest, only when not needs_delete *)

(* ---- ordered map exactly as ordered_map.rs: vec of keys + map; remove only removes from map *)
Definition amap V := list (K * V).
Fixpoint alookup {V} (k:K) (m:amap V) : option V :=
  match m with [] => None | (k',v)::r => if K_eq_dec k k' then Some v else alookup k r end.
Fixpoint aremove {V} (k:K) (m:amap V) : amap V :=
  match m with [] => [] | (k',v)::r => if K_eq_dec k k' then aremove k r else (k',v)::aremove k r end.
Definition ainsert {V} (k:K) (v:V) (m:amap V) : amap V := (k,v)::aremove k m.

Record omap V := { ovec : list K; omp : amap V }.
Arguments ovec {V}. Arguments omp {V}.
Definition oempty {V} : omap V := {| ovec := []; omp := [] |}.
Definition oadd {V} (k:K) (v:V) (o:omap V) := {| ovec := ovec o ++ [k]; omp := ainsert k v (omp o) |}.
Definition oremove {V} (k:K) (o:omap V) := {| ovec := ovec o; omp := aremove k (omp o) |}.
(* update: panics (None) if missing *)
Definition oupdate {V} (k:K) (v:V) (o:omap V) : option (omap V) :=
  match alookup k (omp o) with Some _ => Some {| ovec := ovec o; omp := ainsert k v (omp o) |} | None => None end.
Definition oiter {V} (o:omap V) : list (K*V) :=
  flat_map (fun k => match alookup k (omp o) with Some v => [(k,v)] | None => [] end) (ovec o).
Definition oreverse {V} (o:omap V) := {| ovec := rev (ovec o); omp := omp o |}.

Record pstate := { src_seen : amap Det; dest_seen : amap Det;
                   to_del : omap (Det*dreason); to_cp : omap (Det*creason) }.
Definition pinit := {| src_seen := []; dest_seen := []; to_del := oempty; to_cp := oempty |}.

(* boss_sync.rs:526-562 *)
Definition process_src (p:K) (s:Det) (st:pstate) : option pstate :=
  let st' :=
    match alookup p (dest_seen st) with
    | None => Some (to_del st, oadd p (s, NotOnDest) (to_cp st))
    | Some d =>
      if needs_delete s d then
        match oupdate p (d, Incompatible) (to_del st) with
        | Some td => Some (td, oadd p (s, NotOnDest) (to_cp st))
        | None => None end
      else
        let td := oremove p (to_del st) in
        match needs_copy s d with
        | Some r => Some (td, oadd p (s, r) (to_cp st))
        | None => Some (td, to_cp st) end
    end in
  match st' with
  | Some (td, tc) => Some {| src_seen := ainsert p s (src_seen st); dest_seen := dest_seen st; to_del := td; to_cp := tc |}
  | None => None end.

(* boss_sync.rs:564-599 *)
Definition process_dest (p:K) (d:Det) (st:pstate) : option pstate :=
  let st' :=
    match alookup p (src_seen st) with
    | None => Some (oadd p (d, NotOnSource) (to_del st), to_cp st)
    | Some s =>
      if needs_delete s d then Some (oadd p (d, Incompatible) (to_del st), to_cp st)
      else match needs_copy s d with
           | Some r => match oupdate p (s, r) (to_cp st) with Some tc => Some (to_del st, tc) | None => None end
           | None => Some (to_del st, oremove p (to_cp st)) end
    end in
  match st' with
  | Some (td, tc) => Some {| src_seen := src_seen st; dest_seen := ainsert p d (dest_seen st); to_del := td; to_cp := tc |}
  | None => None end.

Inductive arrival := FromSrc (p:K) (d:Det) | FromDest (p:K) (d:Det).
Definition step (st:option pstate) (a:arrival) : option pstate :=
  match st with None => None | Some st =>
    match a with FromSrc p d => process_src p d st | FromDest p d => process_dest p d st end end.
Definition plan (sg:list arrival) := fold_left step sg (Some pinit).

(* ---- spec: decisions as a function of the two listings only *)
Definition copy_decision (D:amap Det) (e:K*Det) : list (K*(Det*creason)) :=
  let (p,s) := e in
  match alookup p D with
  | None => [(p,(s,NotOnDest))]
  | Some d => if needs_delete s d then [(p,(s,NotOnDest))]
              else match needs_copy s d with Some r => [(p,(s,r))] | None => [] end end.
Definition delete_decision (S:amap Det) (e:K*Det) : list (K*(Det*dreason)) :=
  let (p,d) := e in
  match alookup p S with
  | None => [(p,(d,NotOnSource))]
  | Some s => if needs_delete s d then [(p,(d,Incompatible))] else [] end.

Definition srcs (sg:list arrival) : list (K*Det) := flat_map (fun a => match a with FromSrc p d => [(p,d)] | _ => [] end) sg.
Definition dests (sg:list arrival) : list (K*Det) := flat_map (fun a => match a with FromDest p d => [(p,d)] | _ => [] end) sg.

(* ---- alist facts *)
Lemma alookup_aremove_eq V k (m:amap V) : alookup k (aremove k m) = None.
Proof. induction m as [|[k' v] m IH]; simpl; auto. destruct (K_eq_dec k k'); simpl; auto.
  destruct (K_eq_dec k k'); congruence. Qed.
Lemma alookup_aremove_ne V k k' (m:amap V) : k <> k' -> alookup k (aremove k' m) = alookup k m.
Proof. intros Hne. induction m as [|[k'' v] m IH]; simpl; auto.
  destruct (K_eq_dec k' k''); simpl.
  - subst. destruct (K_eq_dec k k''); congruence.
  - destruct (K_eq_dec k k''); auto. Qed.
Lemma alookup_ainsert_eq V k v (m:amap V) : alookup k (ainsert k v m) = Some v.
Proof. unfold ainsert; simpl. destruct (K_eq_dec k k); congruence. Qed.
Lemma alookup_ainsert_ne V k k' v (m:amap V) : k <> k' -> alookup k (ainsert k' v m) = alookup k m.
Proof. intros; unfold ainsert; simpl. destruct (K_eq_dec k k'); try congruence. apply alookup_aremove_ne; auto. Qed.

(* alist built from a listing: last wins; with NoDup keys it is just lookup in the list *)
Definition of_list (l:list (K*Det)) : amap Det := fold_left (fun m e => ainsert (fst e) (snd e) m) l [].


Fixpoint assoc (k:K) (l:list (K*Det)) : option Det :=
  match l with [] => None | (k',v)::r => if K_eq_dec k k' then Some v else assoc k r end.
Definition keys (l:list (K*Det)) := map fst l.

Inductive subseq : list K -> list K -> Prop :=
| ss_nil : subseq [] []
| ss_skip x l1 l2 : subseq l1 l2 -> subseq l1 (x::l2)
| ss_take x l1 l2 : subseq l1 l2 -> subseq (x::l1) (x::l2).
Lemma subseq_app_r l1 l2 x : subseq l1 l2 -> subseq l1 (l2 ++ [x]).
Proof. induction 1; simpl. - apply ss_skip, ss_nil. - apply ss_skip; auto. - apply ss_take; auto. Qed.
Lemma subseq_app_both l1 l2 x : subseq l1 l2 -> subseq (l1 ++ [x]) (l2 ++ [x]).
Proof. induction 1; simpl. - apply ss_take, ss_nil. - apply ss_skip; auto. - apply ss_take; auto. Qed.
Lemma subseq_in l1 l2 x : subseq l1 l2 -> In x l1 -> In x l2.
Proof. induction 1; simpl; intuition. Qed.

Lemma flat_map_subseq {B} (f:K -> list B) l1 l2 :
  subseq l1 l2 -> (forall k, In k l2 -> ~ In k l1 -> f k = []) -> NoDup l2 ->
  flat_map f l1 = flat_map f l2.
Proof.
  induction 1 as [|x l1 l2 Hs IH|x l1 l2 Hs IH]; intros Hf Hnd; simpl; auto.
  - inversion Hnd; subst. rewrite (Hf x); simpl; auto.
    + apply IH; auto. intros k Hk Hn. apply Hf; simpl; auto.
    + intro Hin. apply (subseq_in _ _ _ Hs) in Hin. contradiction.
  - inversion Hnd; subst. f_equal. apply IH; auto.
    intros k Hk Hn. apply Hf; simpl; auto. intros [->|Hin]; [contradiction|auto].
Qed.

Lemma assoc_app_notin k l p d : ~ In p (keys l) -> assoc k (l ++ [(p,d)]) = if K_eq_dec k p then (match assoc k l with Some v => Some v | None => Some d end) else assoc k l.
Proof. induction l as [|[k' v] l IH]; simpl; intros Hn.
  - destruct (K_eq_dec k p); auto.
  - destruct (K_eq_dec k k'); subst.
    + destruct (K_eq_dec k' p); auto.
    + apply IH. intuition. Qed.
Lemma assoc_none_notin k l : ~ In k (keys l) -> assoc k l = None.
Proof. induction l as [|[k' v] l IH]; simpl; auto. intros Hn. destruct (K_eq_dec k k'); subst; [exfalso; auto| apply IH; auto]. Qed.

(* value of to_cp's map at k, as a function of what has been seen *)
Definition cp_val (As Ad:list (K*Det)) (k:K) : option (Det*creason) :=
  match assoc k As with None => None | Some s =>
    match copy_decision Ad (k,s) with (_,v)::_ => Some v | [] => None end end.
Definition del_val (As Ad:list (K*Det)) (k:K) : option (Det*dreason) :=
  match assoc k Ad with None => None | Some d =>
    match delete_decision As (k,d) with (_,v)::_ => Some v | [] => None end end.

Record Inv (As Ad:list (K*Det)) (st:pstate) : Prop := {
  i_src : forall k, alookup k (src_seen st) = assoc k As;
  i_dst : forall k, alookup k (dest_seen st) = assoc k Ad;
  i_cp  : forall k, alookup k (omp (to_cp st)) = cp_val As (dest_seen st) k;
  i_del : forall k, alookup k (omp (to_del st)) = del_val (src_seen st) Ad k;
  i_cpv : subseq (ovec (to_cp st)) (keys As);
  i_delv : subseq (ovec (to_del st)) (keys Ad);
  i_cpc : forall k, alookup k (omp (to_cp st)) <> None -> In k (ovec (to_cp st));
  i_delc : forall k, alookup k (omp (to_del st)) <> None -> In k (ovec (to_del st)) }.

Lemma keys_app l p d : keys (l ++ [(p,d)]) = keys l ++ [p].
Proof. unfold keys. rewrite map_app. reflexivity. Qed.

Ltac sim := cbn [omp ovec oadd oremove to_cp to_del src_seen dest_seen] in *.
Ltac dk k p := destruct (K_eq_dec k p) as [->|?].

Lemma inv_src As Ad st p s : Inv As Ad st -> ~ In p (keys As) ->
  exists st', process_src p s st = Some st' /\ Inv (As ++ [(p,s)]) Ad st'.
Proof.
  intros [Hs Hd Hcp Hdel Hcv Hdv Hcc Hdc] Hnin.
  assert (HpAs : assoc p As = None) by (apply assoc_none_notin; auto).
  assert (Hsrc' : forall k, alookup k (ainsert p s (src_seen st)) = assoc k (As ++ [(p,s)])).
  { intro k. rewrite assoc_app_notin by auto. dk k p.
    - rewrite alookup_ainsert_eq, HpAs. reflexivity.
    - rewrite alookup_ainsert_ne by auto. apply Hs. }
  assert (Hdelne : forall td k, k <> p -> (forall k, k <> p -> alookup k (omp td) = alookup k (omp (to_del st))) ->
            alookup k (omp td) = del_val (ainsert p s (src_seen st)) Ad k).
  { intros td k Hne Hsame. rewrite Hsame, Hdel by auto. unfold del_val, delete_decision.
    destruct (assoc k Ad); auto. rewrite alookup_ainsert_ne by auto. reflexivity. }
  assert (Hcpne : forall tc k, k <> p -> (forall k, k <> p -> alookup k (omp tc) = alookup k (omp (to_cp st))) ->
            alookup k (omp tc) = cp_val (As ++ [(p,s)]) (dest_seen st) k).
  { intros tc k Hne Hsame. rewrite Hsame, Hcp by auto. unfold cp_val.
    rewrite assoc_app_notin by auto. dk k p; [congruence|reflexivity]. }
  unfold process_src.
  destruct (alookup p (dest_seen st)) as [d|] eqn:HpD.
  - assert (HpAd : assoc p Ad = Some d) by (rewrite <- Hd; auto).
    destruct (needs_delete s d) eqn:Hnd.
    + (* incompatible: update reason, add copy *)
      assert (Hin : alookup p (omp (to_del st)) = Some (d, NotOnSource)).
      { rewrite Hdel. unfold del_val, delete_decision. rewrite HpAd, Hs, HpAs. reflexivity. }
      unfold oupdate. rewrite Hin. eexists; split; [reflexivity|].
      constructor; sim; auto.
      * intro k. dk k p.
        -- rewrite alookup_ainsert_eq. unfold cp_val, copy_decision.
           rewrite assoc_app_notin, HpAs by auto. destruct (K_eq_dec p p); [|congruence]. rewrite HpD, Hnd. reflexivity.
        -- apply (Hcpne (oadd p (s, NotOnDest) (to_cp st))); auto. intros; sim. apply alookup_ainsert_ne; auto.
      * intro k. dk k p.
        -- rewrite alookup_ainsert_eq. unfold del_val, delete_decision. rewrite HpAd, alookup_ainsert_eq, Hnd. reflexivity.
        -- apply (Hdelne {| ovec := ovec (to_del st); omp := ainsert p (d, Incompatible) (omp (to_del st)) |}); auto.
           intros; sim. apply alookup_ainsert_ne; auto.
      * rewrite keys_app. apply subseq_app_both; auto.
      * intros k Hk. apply in_or_app. dk k p; [right; left; reflexivity|left]. apply Hcc. rewrite alookup_ainsert_ne in Hk; auto.
      * intros k Hk. dk k p; [apply Hdc; congruence|]. apply Hdc. rewrite alookup_ainsert_ne in Hk; auto.
    + (* compatible: un-delete, maybe copy *)
      assert (Hdel' : forall k, alookup k (omp (oremove p (to_del st))) = del_val (ainsert p s (src_seen st)) Ad k).
      { intro k. dk k p.
        - sim. rewrite alookup_aremove_eq. unfold del_val, delete_decision. rewrite HpAd, alookup_ainsert_eq, Hnd. reflexivity.
        - apply Hdelne; auto. intros; sim. apply alookup_aremove_ne; auto. }
      assert (Hdc' : forall k, alookup k (omp (oremove p (to_del st))) <> None -> In k (ovec (oremove p (to_del st)))).
      { intros k Hk; sim. dk k p; [rewrite alookup_aremove_eq in Hk; congruence|]. apply Hdc. rewrite alookup_aremove_ne in Hk; auto. }
      destruct (needs_copy s d) as [r|] eqn:Hnc; (eexists; split; [reflexivity|]); constructor; sim; auto.
      * intro k. dk k p.
        -- rewrite alookup_ainsert_eq. unfold cp_val, copy_decision.
           rewrite assoc_app_notin, HpAs by auto. destruct (K_eq_dec p p); [|congruence]. rewrite HpD, Hnd, Hnc. reflexivity.
        -- apply (Hcpne (oadd p (s, r) (to_cp st))); auto. intros; sim. apply alookup_ainsert_ne; auto.
      * rewrite keys_app. apply subseq_app_both; auto.
      * intros k Hk. apply in_or_app. dk k p; [right; left; reflexivity|left]. apply Hcc. rewrite alookup_ainsert_ne in Hk; auto.
      * intro k. dk k p.
        -- rewrite Hcp. unfold cp_val at 1. rewrite HpAs. unfold cp_val, copy_decision.
           rewrite assoc_app_notin, HpAs by auto. destruct (K_eq_dec p p); [|congruence]. rewrite HpD, Hnd, Hnc. reflexivity.
        -- apply (Hcpne (to_cp st)); auto.
      * rewrite keys_app. apply subseq_app_r; auto.
  - (* dest not seen yet *)
    assert (HpAd : assoc p Ad = None) by (rewrite <- Hd; auto).
    eexists; split; [reflexivity|]. constructor; sim; auto.
    + intro k. dk k p.
      * rewrite alookup_ainsert_eq. unfold cp_val, copy_decision.
        rewrite assoc_app_notin, HpAs by auto. destruct (K_eq_dec p p); [|congruence]. rewrite HpD. reflexivity.
      * apply (Hcpne (oadd p (s, NotOnDest) (to_cp st))); auto. intros; sim. apply alookup_ainsert_ne; auto.
    + intro k. dk k p.
      * rewrite Hdel. unfold del_val. rewrite HpAd. reflexivity.
      * apply (Hdelne (to_del st)); auto.
    + rewrite keys_app. apply subseq_app_both; auto.
    + intros k Hk. apply in_or_app. dk k p; [right; left; reflexivity|left]. apply Hcc. rewrite alookup_ainsert_ne in Hk; auto.
Qed.

Lemma inv_dest As Ad st p d : Inv As Ad st -> ~ In p (keys Ad) ->
  exists st', process_dest p d st = Some st' /\ Inv As (Ad ++ [(p,d)]) st'.
Proof.
  intros [Hs Hd Hcp Hdel Hcv Hdv Hcc Hdc] Hnin.
  assert (HpAd : assoc p Ad = None) by (apply assoc_none_notin; auto).
  assert (Hdst' : forall k, alookup k (ainsert p d (dest_seen st)) = assoc k (Ad ++ [(p,d)])).
  { intro k. rewrite assoc_app_notin by auto. dk k p.
    - rewrite alookup_ainsert_eq, HpAd. reflexivity.
    - rewrite alookup_ainsert_ne by auto. apply Hd. }
  assert (Hcpne : forall tc k, k <> p -> (forall k, k <> p -> alookup k (omp tc) = alookup k (omp (to_cp st))) ->
            alookup k (omp tc) = cp_val As (ainsert p d (dest_seen st)) k).
  { intros tc k Hne Hsame. rewrite Hsame, Hcp by auto. unfold cp_val, copy_decision.
    destruct (assoc k As); auto. rewrite alookup_ainsert_ne by auto. reflexivity. }
  assert (Hdelne : forall td k, k <> p -> (forall k, k <> p -> alookup k (omp td) = alookup k (omp (to_del st))) ->
            alookup k (omp td) = del_val (src_seen st) (Ad ++ [(p,d)]) k).
  { intros td k Hne Hsame. rewrite Hsame, Hdel by auto. unfold del_val.
    rewrite assoc_app_notin by auto. dk k p; [congruence|reflexivity]. }
  unfold process_dest.
  destruct (alookup p (src_seen st)) as [s|] eqn:HpS.
  - assert (HpAs : assoc p As = Some s) by (rewrite <- Hs; auto).
    assert (Hcpold : alookup p (omp (to_cp st)) = Some (s, NotOnDest)).
    { rewrite Hcp. unfold cp_val, copy_decision. rewrite HpAs, Hd, HpAd. reflexivity. }
    destruct (needs_delete s d) eqn:Hnd.
    + eexists; split; [reflexivity|]. constructor; sim; auto.
      * intro k. dk k p.
        -- rewrite Hcpold. unfold cp_val, copy_decision. rewrite HpAs, alookup_ainsert_eq, Hnd. reflexivity.
        -- apply (Hcpne (to_cp st)); auto.
      * intro k. dk k p.
        -- rewrite alookup_ainsert_eq. unfold del_val, delete_decision.
           rewrite assoc_app_notin, HpAd by auto. destruct (K_eq_dec p p); [|congruence]. rewrite HpS, Hnd. reflexivity.
        -- apply (Hdelne (oadd p (d, Incompatible) (to_del st))); auto. intros; sim. apply alookup_ainsert_ne; auto.
      * rewrite keys_app. apply subseq_app_both; auto.
      * intros k Hk. apply in_or_app. dk k p; [right; left; reflexivity|left]. apply Hdc. rewrite alookup_ainsert_ne in Hk; auto.
    + assert (Hdel' : forall k, alookup k (omp (to_del st)) = del_val (src_seen st) (Ad ++ [(p,d)]) k).
      { intro k. dk k p.
        - rewrite Hdel. unfold del_val at 1. rewrite HpAd. unfold del_val, delete_decision.
          rewrite assoc_app_notin, HpAd by auto. destruct (K_eq_dec p p); [|congruence]. rewrite HpS, Hnd. reflexivity.
        - apply (Hdelne (to_del st)); auto. }
      destruct (needs_copy s d) as [r|] eqn:Hnc.
      * unfold oupdate. rewrite Hcpold. eexists; split; [reflexivity|]. constructor; sim; auto.
        -- intro k. dk k p.
           ++ rewrite alookup_ainsert_eq. unfold cp_val, copy_decision. rewrite HpAs, alookup_ainsert_eq, Hnd, Hnc. reflexivity.
           ++ apply (Hcpne {| ovec := ovec (to_cp st); omp := ainsert p (s, r) (omp (to_cp st)) |}); auto.
              intros; sim. apply alookup_ainsert_ne; auto.
        -- rewrite keys_app. apply subseq_app_r; auto.
        -- intros k Hk. dk k p; [apply Hcc; congruence|]. apply Hcc. rewrite alookup_ainsert_ne in Hk; auto.
      * eexists; split; [reflexivity|]. constructor; sim; auto.
        -- intro k. dk k p.
           ++ rewrite alookup_aremove_eq. unfold cp_val, copy_decision. rewrite HpAs, alookup_ainsert_eq, Hnd, Hnc. reflexivity.
           ++ apply (Hcpne (oremove p (to_cp st))); auto. intros; sim. apply alookup_aremove_ne; auto.
        -- rewrite keys_app. apply subseq_app_r; auto.
        -- intros k Hk. dk k p; [rewrite alookup_aremove_eq in Hk; congruence|]. apply Hcc. rewrite alookup_aremove_ne in Hk; auto.
  - assert (HpAs : assoc p As = None) by (rewrite <- Hs; auto).
    eexists; split; [reflexivity|]. constructor; sim; auto.
    + intro k. dk k p.
      * rewrite Hcp. unfold cp_val. rewrite HpAs. reflexivity.
      * apply (Hcpne (to_cp st)); auto.
    + intro k. dk k p.
      * rewrite alookup_ainsert_eq. unfold del_val, delete_decision.
        rewrite assoc_app_notin, HpAd by auto. destruct (K_eq_dec p p); [|congruence]. rewrite HpS. reflexivity.
      * apply (Hdelne (oadd p (d, NotOnSource) (to_del st))); auto. intros; sim. apply alookup_ainsert_ne; auto.
    + rewrite keys_app. apply subseq_app_both; auto.
    + intros k Hk. apply in_or_app. dk k p; [right; left; reflexivity|left]. apply Hdc. rewrite alookup_ainsert_ne in Hk; auto.
Qed.

Lemma inv_init : Inv [] [] pinit.
Proof. constructor; simpl; auto; try constructor; intros; congruence. Qed.

Lemma srcs_app sg a : srcs (sg ++ [a]) = srcs sg ++ match a with FromSrc p d => [(p,d)] | _ => [] end.
Proof. unfold srcs. rewrite flat_map_app. simpl. rewrite app_nil_r. reflexivity. Qed.
Lemma dests_app sg a : dests (sg ++ [a]) = dests sg ++ match a with FromDest p d => [(p,d)] | _ => [] end.
Proof. unfold dests. rewrite flat_map_app. simpl. rewrite app_nil_r. reflexivity. Qed.

Lemma NoDup_app_last (l:list K) x : NoDup (l ++ [x]) -> NoDup l /\ ~ In x l.
Proof. intros H. apply NoDup_remove in H. rewrite app_nil_r in H. exact H. Qed.

Theorem plan_inv sg : NoDup (keys (srcs sg)) -> NoDup (keys (dests sg)) ->
  exists st, plan sg = Some st /\ Inv (srcs sg) (dests sg) st.
Proof.
  induction sg as [|a sg IH] using rev_ind; intros Hns Hnd.
  - exists pinit. split; [reflexivity|apply inv_init].
  - rewrite srcs_app in Hns. rewrite dests_app in Hnd. unfold plan. rewrite fold_left_app. simpl.
    destruct a as [p d|p d].
    + rewrite keys_app in Hns. apply NoDup_app_last in Hns as [Hns Hnin]. rewrite app_nil_r in Hnd.
      destruct (IH Hns Hnd) as (st & Hp & HI). unfold plan in Hp. rewrite Hp. simpl.
      destruct (inv_src _ _ _ p d HI Hnin) as (st' & Hs' & HI'). exists st'. split; auto.
      rewrite srcs_app, dests_app, app_nil_r. exact HI'.
    + rewrite keys_app in Hnd. apply NoDup_app_last in Hnd as [Hnd Hnin]. rewrite app_nil_r in Hns.
      destruct (IH Hns Hnd) as (st & Hp & HI). unfold plan in Hp. rewrite Hp. simpl.
      destruct (inv_dest _ _ _ p d HI Hnin) as (st' & Hs' & HI'). exists st'. split; auto.
      rewrite srcs_app, dests_app, app_nil_r. exact HI'.
Qed.

(* The lists themselves depend only on the two listings, not on the interleaving. *)
Lemma oiter_char {V} (o:omap V) (L:list K) : subseq (ovec o) L -> NoDup L ->
  (forall k, alookup k (omp o) <> None -> In k (ovec o)) ->
  oiter o = flat_map (fun k => match alookup k (omp o) with Some v => [(k,v)] | None => [] end) L.
Proof.
  intros Hs Hnd Hc. unfold oiter. apply flat_map_subseq; auto.
  intros k _ Hn. destruct (alookup k (omp o)) eqn:E; auto. exfalso. apply Hn, Hc. congruence.
Qed.

Lemma flat_map_ext_in' {A B} (f g:A -> list B) l : (forall a, In a l -> f a = g a) -> flat_map f l = flat_map g l.
Proof. induction l; simpl; auto. intros H. rewrite H, IHl; auto. Qed.
Lemma rev_flat_map_short {A B} (f:A -> list B) l : (forall a, length (f a) <= 1) -> rev (flat_map f l) = flat_map f (rev l).
Proof. intros Hf. induction l as [|a l IH]; simpl; auto. rewrite rev_app_distr, IH, flat_map_app. simpl. rewrite app_nil_r. f_equal.
  specialize (Hf a). destruct (f a) as [|x [|y t]]; simpl in *; auto. lia. Qed.

Lemma flat_map_keys {B} (f:K -> Det -> list B) (l:list (K*Det)) : NoDup (keys l) ->
  flat_map (fun k => match assoc k l with Some v => f k v | None => [] end) (keys l) = flat_map (fun e => f (fst e) (snd e)) l.
Proof.
  induction l as [|[k v] l IH]; simpl; auto. intros Hnd. inversion Hnd; subst.
  destruct (K_eq_dec k k); [|congruence]. f_equal. rewrite <- IH by auto.
  apply flat_map_ext_in'. intros a Ha. destruct (K_eq_dec a k); [subst; contradiction|reflexivity].
Qed.

Theorem plan_deterministic sg st : NoDup (keys (srcs sg)) -> NoDup (keys (dests sg)) -> plan sg = Some st ->
  oiter (to_cp st)  = flat_map (copy_decision (dest_seen st)) (srcs sg) /\
  oiter (oreverse (to_del st)) = rev (flat_map (delete_decision (src_seen st)) (dests sg)).
Proof.
  intros Hns Hnd Hp. destruct (plan_inv sg Hns Hnd) as (st0 & Hp0 & HI). rewrite Hp in Hp0. injection Hp0 as <-.
  destruct HI as [Hs Hd Hcp Hdel Hcv Hdv Hcc Hdc]. split.
  - rewrite (oiter_char _ _ Hcv Hns Hcc).
    transitivity (flat_map (fun e => copy_decision (dest_seen st) (fst e, snd e)) (srcs sg));
      [|apply flat_map_ext; intros [k s]; reflexivity].
    rewrite <- (flat_map_keys (fun k s => copy_decision (dest_seen st) (k,s))) by auto.
    apply flat_map_ext. intro k. rewrite Hcp. unfold cp_val. destruct (assoc k (srcs sg)) as [s|]; auto.
    unfold copy_decision. destruct (alookup k (dest_seen st)); auto. destruct (needs_delete s d); auto. destruct (needs_copy s d); auto.
  - assert (E : oiter (oreverse (to_del st)) = rev (oiter (to_del st))).
    { unfold oiter, oreverse; simpl. symmetry. apply rev_flat_map_short. intro k. destruct (alookup k (omp (to_del st))); simpl; lia. }
    rewrite E. f_equal. rewrite (oiter_char _ _ Hdv Hnd Hdc).
    transitivity (flat_map (fun e => delete_decision (src_seen st) (fst e, snd e)) (dests sg));
      [|apply flat_map_ext; intros [k d]; reflexivity].
    rewrite <- (flat_map_keys (fun k d => delete_decision (src_seen st) (k,d))) by auto.
    apply flat_map_ext. intro k. rewrite Hdel. unfold del_val. destruct (assoc k (dests sg)) as [d|]; auto.
    unfold delete_decision. destruct (alookup k (src_seen st)); auto. destruct (needs_delete d0 d); auto.
Qed.

(* The characterisation stated over the two listings themselves (a listing is an association list). *)
Lemma assoc_alookup k (l:list (K*Det)) : assoc k l = alookup k l.
Proof. induction l as [|[k' v] l IH]; simpl; auto. destruct (K_eq_dec k k'); auto. Qed.
Lemma copy_decision_ext D D' e : (forall k, alookup k D = alookup k D') -> copy_decision D e = copy_decision D' e.
Proof. intros H. destruct e as [p s]. unfold copy_decision. rewrite H. reflexivity. Qed.
Lemma delete_decision_ext S S' e : (forall k, alookup k S = alookup k S') -> delete_decision S e = delete_decision S' e.
Proof. intros H. destruct e as [p d]. unfold delete_decision. rewrite H. reflexivity. Qed.

Theorem plan_char sg : NoDup (keys (srcs sg)) -> NoDup (keys (dests sg)) ->
  exists st, plan sg = Some st /\
    oiter (to_cp st) = flat_map (copy_decision (dests sg)) (srcs sg) /\
    oiter (oreverse (to_del st)) = rev (flat_map (delete_decision (srcs sg)) (dests sg)).
Proof.
  intros Hns Hnd. destruct (plan_inv sg Hns Hnd) as (st & Hp & HI). exists st. split; [exact Hp|].
  destruct (plan_deterministic sg st Hns Hnd Hp) as [H1 H2]. destruct HI as [Hs Hd _ _ _ _ _ _].
  split.
  - rewrite H1. apply flat_map_ext. intro e. apply copy_decision_ext. intro k. rewrite Hd. apply assoc_alookup.
  - rewrite H2. f_equal. apply flat_map_ext. intro e. apply delete_decision_ext. intro k. rewrite Hs. apply assoc_alookup.
Qed.
End Plan.
