(* Shared prelude: imports, byte strings, small list helpers.  No axioms. *)
From Coq Require Export List Bool Arith NArith ZArith Lia Ascii.
From Coq Require Export ZifyBool ZifyNat ZifyN.
Export ListNotations.

Ltac Zify.zify_post_hook ::= Z.div_mod_to_equations.

Global Arguments N.add : simpl never.
Global Arguments N.sub : simpl never.
Global Arguments N.mul : simpl never.
Global Arguments N.eqb : simpl never.
Global Arguments N.ltb : simpl never.
Global Arguments N.leb : simpl never.
Global Arguments N.div : simpl never.
Global Arguments N.modulo : simpl never.
Global Arguments Z.add : simpl never.
Global Arguments Z.sub : simpl never.
Global Arguments Z.mul : simpl never.

(* Byte strings are lists of characters (extracted to OCaml [char list]). *)
Notation str := (list ascii) (only parsing).

Fixpoint str_eqb (a b : str) : bool :=
  match a, b with
  | [], [] => true
  | x :: a', y :: b' => Ascii.eqb x y && str_eqb a' b'
  | _, _ => false
  end.

Lemma str_eqb_eq (a b : str) : str_eqb a b = true <-> a = b.
Proof.
  revert b; induction a as [|x a IH]; intros [|y b]; cbn [str_eqb]; split; intros H;
    try reflexivity; try discriminate.
  - apply andb_true_iff in H as [H1 H2]. apply Ascii.eqb_eq in H1. apply IH in H2. now subst.
  - inversion H; subst. apply andb_true_iff; split; [apply Ascii.eqb_refl | now apply IH].
Qed.

Lemma str_eqb_refl (a : str) : str_eqb a a = true.
Proof. now apply str_eqb_eq. Qed.

Lemma str_eqb_neq (a b : str) : str_eqb a b = false <-> a <> b.
Proof.
  split; intros H.
  - intros ->. rewrite str_eqb_refl in H. discriminate.
  - destruct (str_eqb a b) eqn:E; [apply str_eqb_eq in E; contradiction | reflexivity].
Qed.

(* Outcome of an operation that may fail cleanly or panic in the implementation. *)
Inductive outcome (A : Type) : Type :=
| Ok (a : A)
| Err (e : str)
| Panic (site : str).
Arguments Ok {A} a.
Arguments Err {A} e.
Arguments Panic {A} site.

Definition obind {A B} (x : outcome A) (f : A -> outcome B) : outcome B :=
  match x with Ok a => f a | Err e => Err e | Panic s => Panic s end.

Definition is_ok {A} (x : outcome A) : bool := match x with Ok _ => true | _ => false end.
Definition is_panic {A} (x : outcome A) : bool := match x with Panic _ => true | _ => false end.
