From RJ Require Import Base.Prelude Model.Chunk.
From Coq Require Import Extraction ExtrOcamlBasic ExtrOcamlString.
Extraction Language OCaml.
Extraction "extracted/chunks.ml" read_chunks relay relay_unfixed write_cmds transfer lenN size_loop
  first_buf max_chunk short_buf e_size_changed e_lost.
