From RJ Require Import Base.Prelude Model.LE Model.Elf Model.Pe Model.DeployFile.
From Coq Require Import Extraction ExtrOcamlBasic ExtrOcamlString.
Extraction Language OCaml.
Extraction "extracted/exe.ml" add_elf_gen extract_elf_gen add_pe_gen extract_pe_gen deploy_trace.
