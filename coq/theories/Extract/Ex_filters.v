From RJ Require Import Base.Prelude Model.Regex Model.RegexParse Model.Filters.
From Coq Require Import Extraction ExtrOcamlBasic ExtrOcamlString.
Extraction Language OCaml.
Extraction "extracted/filters.ml" compile_filters doer_verdict boss_verdict own_ast spec_verdict parse fullmatch search walk entries included.
