From RJ Require Import Base.Prelude Model.Frame.
From Coq Require Import Extraction ExtrOcamlBasic ExtrOcamlString.
Extraction Language OCaml.
Extraction "extracted/frames.ml" toy_send toy_recv toy_log toy_session_log recv_eof r_init fail_name nonce lead after_lead le_value le_bytes frame_of.
