From RJ Require Import Base.Prelude Model.KeyHex Model.Handshake Model.Launch.
From Coq Require Import Extraction ExtrOcamlBasic ExtrOcamlString.
Extraction Language OCaml.
Extraction "extracted/launch.ml" key_line print_hex parse_hex_u128_be doer_key_of_line classify reader run is_noise causal
  parse_u16 completed_line started_line setup_comms_r connect_both deploy.
