From RJ Require Import Base.Prelude Model.Chunk Model.Bincode Model.Progress Model.Histogram Model.Meta.
From Coq Require Import Extraction ExtrOcamlBasic ExtrOcamlString.
Extraction Language OCaml.
Extraction "extracted/progress.ml" for_copy for_delete for_copy_partial progress_new exec_call exec_calls
  boss_calls boss_run stats_total hist_add_at hist_adds bucket_ideal hist_display decimal
  entry_of_meta send_listed send_root N.add N.mul N.div N.modulo N.compare N.sub.
