From RJ Require Import Base.Prelude Model.RemoteSession.
From Coq Require Import Extraction ExtrOcamlBasic ExtrOcamlString.
Extraction Language OCaml.
Extraction "extracted/remote.ml" run_to_end run_plan_to_end run_sched init stuck final mu next bexit all_actions frames_written.
