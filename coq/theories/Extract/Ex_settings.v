From RJ Require Import Base.Prelude Model.Settings.
From Coq Require Import Extraction ExtrOcamlBasic ExtrOcamlString.
Extraction Language OCaml.
Extraction "extracted/settings.ml" resolve_spec parse_remote_path parse_spec_doc default_sync default_spec resolve_beh.
