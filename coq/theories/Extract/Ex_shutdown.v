From RJ Require Import Base.Prelude Model.Shutdown.
From Coq Require Import Extraction ExtrOcamlBasic ExtrOcamlString.
Extraction Language OCaml.
Extraction "extracted/shutdown.ml" run_to_end run_sched init stuck final mu next.
