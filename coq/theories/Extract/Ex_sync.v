From RJ Require Import Base.Prelude Base.OrderedPlan Model.Settings Model.Core Model.Fs Model.Paths Model.Sync Model.SyncTop Model.SpecRun Model.DoerOps.
From Coq Require Import Extraction ExtrOcamlBasic ExtrOcamlString.
Extraction Language OCaml.
Extraction "extracted/sync.ml" run_top run_orders run_orders_w listing_top normalize_unix same_path_text needs_delete needs_copy denormalize run_spec sget doer_ops.
