From RJ Require Import Base.Prelude Model.Walker.
From Coq Require Import Extraction ExtrOcamlBasic ExtrOcamlString.
Extraction Language OCaml.
Extraction "extracted/walker.ml" admits has_error walk_spec walk_all parent_first_b perm_b sub_b.
