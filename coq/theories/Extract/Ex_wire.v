From RJ Require Import Base.Prelude Model.LEInt Model.Bincode Model.Channel Model.WireLink.
From Coq Require Import Extraction ExtrOcamlBasic ExtrOcamlString.
Extraction Language OCaml.
Extraction "extracted/wire.ml" encode_command encode_response serialized_size_command serialized_size_response
  send_size_command send_size_response decode_command decode_response wf_command wf_response
  chan_init chan_step chan_run link_class_command link_class_response link_class_name.
