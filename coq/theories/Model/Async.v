(* The destination side of a sync as TWO processes (boss_sync.rs:61-118, 296-325): the boss streams commands
   without waiting for their replies, looks at pending replies now and then (non-blocking), and at the end
   sends the final marker and blocks until its echo; the doer executes the queue in order and answers
   errors (and the marker) in order.  Relation, not function: every interleaving is a path.
   Over-approximations (they only add behaviours): the boss may send its next command at any time,
   whether or not a reply is pending (the real boss polls after every command); a source read may fail at
   any time; after the boss has given up the doer may still execute any part of what was queued. *)
From RJ Require Import Base.Prelude Model.Core Model.Fs Model.Sync.

Section Async.
Variable exec : dstate -> cmd -> dstate * option errc.    (* what the doer does with one command *)

Inductive reply := RErr (e : errc) | RDone.
Inductive qitem := QCmd (c : cmd) | QDone.
Inductive bmode := BRun (todo : list bstep) | BWait | BOk | BFail.

Record asys := mkA {
  a_boss : bmode;
  a_queue : list qitem;        (* sent, not yet looked at by the doer *)
  a_d : dstate;                (* the doer's world *)
  a_inbox : list reply;        (* answered, not yet looked at by the boss *)
  a_done : list cmd;           (* ghost: commands the doer has executed, in order *)
  a_errs : list errc }.        (* ghost: every error the doer has answered *)

Definition ainit (d0 : dstate) (steps : list bstep) : asys := mkA (BRun steps) [] d0 [] [] [].

Definition err_reply (e : option errc) : list reply := match e with Some x => [RErr x] | None => [] end.
Definition err_list (e : option errc) : list errc := match e with Some x => [x] | None => [] end.

Inductive astep : asys -> asys -> Prop :=
| st_doer_cmd b c q d i dn es :
    astep (mkA b (QCmd c :: q) d i dn es)
          (mkA b q (fst (exec d c)) (i ++ err_reply (snd (exec d c))) (dn ++ [c]) (es ++ err_list (snd (exec d c))))
| st_doer_done b q d i dn es :
    astep (mkA b (QDone :: q) d i dn es) (mkA b q d (i ++ [RDone]) dn es)
| st_boss_send c rest q d i dn es :
    astep (mkA (BRun (DestCmd c :: rest)) q d i dn es) (mkA (BRun rest) (q ++ [QCmd c]) d i dn es)
| st_boss_fetch p rest q d i dn es :
    astep (mkA (BRun (SrcFetch p :: rest)) q d i dn es) (mkA (BRun rest) q d i dn es)
| st_boss_fetch_fail p rest q d i dn es :
    astep (mkA (BRun (SrcFetch p :: rest)) q d i dn es) (mkA BFail q d i dn es)
| st_boss_finish q d i dn es :
    astep (mkA (BRun []) q d i dn es) (mkA BWait (q ++ [QDone]) d i dn es)
| st_boss_sees_error_running todo e i q d dn es :
    astep (mkA (BRun todo) q d (RErr e :: i) dn es) (mkA BFail q d i dn es)
| st_boss_sees_error_waiting e i q d dn es :
    astep (mkA BWait q d (RErr e :: i) dn es) (mkA BFail q d i dn es)
| st_boss_sees_done i q d dn es :
    astep (mkA BWait q d (RDone :: i) dn es) (mkA BOk q d i dn es).

Inductive areach (s0 : asys) : asys -> Prop :=
| ar_refl : areach s0 s0
| ar_step s s' : areach s0 s -> astep s s' -> areach s0 s'.

(* plain sequential execution *)
Fixpoint run_all (d : dstate) (cmds : list cmd) : dstate :=
  match cmds with [] => d | c :: r => run_all (fst (exec d c)) r end.
Fixpoint errs_all (d : dstate) (cmds : list cmd) : list errc :=
  match cmds with [] => [] | c :: r => err_list (snd (exec d c)) ++ errs_all (fst (exec d c)) r end.

End Async.
