(* Model of the boss<->doer message codec: serde derive on the types of
   src/boss_doer_interface.rs (+ src/profiling/mod.rs, src/root_relative_path.rs) under
   bincode 1.3.3 default options as used by `bincode::serialize`, `bincode::serialize_into`,
   `bincode::serialized_size` and `bincode::deserialize`
   (fixint, little endian, no size limit, trailing bytes allowed):
     enum            u32 variant index, then the fields in declaration order
     struct / tuple  the fields in order, nothing else
     u32 / u64       4 / 8 bytes little endian;  usize lengths as u64
     String, Vec<u8> with serde_bytes, Vec<T>, HashMap   u64 length prefix, then the elements
     Option          one tag byte 0 / 1, then the value
     bool            one byte 0 / 1          char    its UTF-8 bytes (1 to 4)
     SystemTime      u64 seconds + u32 nanoseconds since the epoch; serde *fails* to serialize a
                     time before the epoch ("SystemTime must be later than UNIX_EPOCH")
     Duration        u64 seconds + u32 nanoseconds
   Executable Gallina only; proofs are in Proofs/BincodeProofs.v.

   Representation choices:
   * a Rust `String` is a byte list that is valid UTF-8 ([utf8_valid]; the decoder checks it like
     `String::from_utf8`); a `char` is the byte list of its UTF-8 encoding ([char_ok]);
   * a `SystemTime` is the Unix timespec relative to the epoch: signed seconds, nanoseconds in
     [0, 10^9) - a time before the epoch has negative seconds;
   * `ProcessProfilingData` (private fields, only ever `default()` in a build without the
     `profiling` feature) is modelled structurally; the hash map is the list of its
     (key, value) pairs in wire order, so "intact" for it means the same pairs in the same
     wire order - the iteration order of a real HashMap is not modelled;
   * the `RegexSet` inside `Filters` travels as its pattern strings; the decoder of the real
     code re-compiles them and fails when one does not compile - that failure is outside the
     model (the patterns sent were compiled on the boss, so they do compile). *)
From RJ Require Import Base.Prelude Model.LEInt.
From Coq Require Import String.

Local Open Scope N_scope.

Definition wlit (s : string) : str := list_ascii_of_string s.

(* ---------------------------------------------------------------- message types *)
Record time := mkTime { t_sec : Z; t_nsec : N }.
Record duration := mkDur { d_sec : N; d_nsec : N }.

Inductive filter_kind := FInclude | FExclude.
Record filters := mkFilters { f_patterns : list bytes; f_kinds : list filter_kind }.

Inductive progress_phase :=
| PDeleting (num_entries_deleted : N)
| PCopying (num_entries_copied : N) (num_bytes_copied : N)
| PDone.
Record progress_marker := mkMarker { pm_completed_work : N; pm_phase : progress_phase }.

Inductive symlink_kind := SKFile | SKFolder | SKUnknown.
Inductive symlink_target := STNormalized (s : bytes) | STNotNormalized (s : bytes).

Inductive entry_details :=
| EDFile (modified_time : time) (size : N)
| EDFolder
| EDSymlink (kind : symlink_kind) (target : symlink_target).

Inductive command :=
| CSetRoot (root : bytes)
| CGetEntries (f : filters)
| CCreateRootAncestors
| CGetFileContent (path : bytes)
| CCreateOrUpdateFile (path : bytes) (data : bytes) (set_modified_time : option time) (more_to_follow : bool)
| CCreateSymlink (path : bytes) (kind : symlink_kind) (target : symlink_target)
| CCreateFolder (path : bytes)
| CDeleteFile (path : bytes)
| CDeleteFolder (path : bytes)
| CDeleteSymlink (path : bytes) (kind : symlink_kind)
| CProfilingTimeSync
| CMarker (m : progress_marker)
| CShutdown.

Record prof_entry := mkProfEntry { pe_scope : bytes; pe_start : duration; pe_end : duration; pe_duration : duration }.
Record prof_data := mkProfData { pd_offset : duration; pd_threads : list (bytes * list prof_entry) }.

Inductive response :=
| RRootDetails (root_details : option entry_details) (platform_differentiates_symlinks : bool)
               (platform_dir_separator : bytes)     (* a char, as its UTF-8 bytes *)
| REntry (path : bytes) (d : entry_details)
| REndOfEntries
| RFileContent (data : bytes) (more_to_follow : bool)
| RProfilingTimeSync (d : duration)
| RProfilingData (p : prof_data)
| RMarker (m : progress_marker)
| RError (s : bytes).

(* ---------------------------------------------------------------- UTF-8 (core::str::from_utf8) *)
Definition in_rng (lo hi n : N) : bool := (lo <=? n) && (n <=? hi).
Definition cont (n : N) : bool := in_rng 128 191 n.

(* bincode's UTF8_CHAR_WIDTH table *)
Definition utf8_width (n0 : N) : N :=
  if n0 <? 128 then 1
  else if in_rng 194 223 n0 then 2
  else if in_rng 224 239 n0 then 3
  else if in_rng 240 244 n0 then 4
  else 0.

Definition utf8_ok2 (n0 n1 : N) : bool := in_rng 194 223 n0 && cont n1.
Definition utf8_ok3 (n0 n1 n2 : N) : bool :=
  (((n0 =? 224) && in_rng 160 191 n1) || (in_rng 225 236 n0 && cont n1) ||
   ((n0 =? 237) && in_rng 128 159 n1) || (in_rng 238 239 n0 && cont n1)) && cont n2.
Definition utf8_ok4 (n0 n1 n2 n3 : N) : bool :=
  (((n0 =? 240) && in_rng 144 191 n1) || (in_rng 241 243 n0 && cont n1) ||
   ((n0 =? 244) && in_rng 128 143 n1)) && cont n2 && cont n3.

Fixpoint utf8_valid (l : bytes) : bool :=
  match l with
  | [] => true
  | b0 :: t0 =>
    let n0 := N_of_ascii b0 in
    if n0 <? 128 then utf8_valid t0 else
    match t0 with
    | [] => false
    | b1 :: t1 =>
      let n1 := N_of_ascii b1 in
      if in_rng 194 223 n0 then cont n1 && utf8_valid t1 else
      match t1 with
      | [] => false
      | b2 :: t2 =>
        let n2 := N_of_ascii b2 in
        if in_rng 224 239 n0 then utf8_ok3 n0 n1 n2 && utf8_valid t2 else
        match t2 with
        | [] => false
        | b3 :: t3 => utf8_ok4 n0 n1 n2 (N_of_ascii b3) && utf8_valid t3
        end
      end
    end
  end.

(* the UTF-8 encoding of exactly one scalar value *)
Definition char_ok (c : bytes) : bool :=
  match c with
  | [b0] => N_of_ascii b0 <? 128
  | [b0; b1] => utf8_ok2 (N_of_ascii b0) (N_of_ascii b1)
  | [b0; b1; b2] => in_rng 224 239 (N_of_ascii b0) && utf8_ok3 (N_of_ascii b0) (N_of_ascii b1) (N_of_ascii b2)
  | [b0; b1; b2; b3] => utf8_ok4 (N_of_ascii b0) (N_of_ascii b1) (N_of_ascii b2) (N_of_ascii b3)
  | _ => false
  end.

(* ---------------------------------------------------------------- well-formedness (value ranges) *)
Definition u32_ok (v : N) : bool := v <? 4294967296.
Definition u64_ok (v : N) : bool := v <? 18446744073709551616.
Definition buf_ok (s : bytes) : bool := u64_ok (lenN s).                  (* Vec<u8>: length fits usize *)
Definition str_ok (s : bytes) : bool := u64_ok (lenN s) && utf8_valid s.  (* String *)
Definition nanos_ok (n : N) : bool := n <? 1000000000.
(* a SystemTime that the codec carries: not before the epoch, seconds fit the i64 of a timespec *)
Definition time_encodable (t : time) : bool := (0 <=? t_sec t)%Z.
Definition time_ok (t : time) : bool :=
  time_encodable t && (t_sec t <? 9223372036854775808)%Z && nanos_ok (t_nsec t).
Definition dur_ok (d : duration) : bool := u64_ok (d_sec d) && nanos_ok (d_nsec d).

Definition filters_ok (f : filters) : bool :=
  u64_ok (lenN (f_patterns f)) && forallb str_ok (f_patterns f) && u64_ok (lenN (f_kinds f)).
Definition phase_ok (p : progress_phase) : bool :=
  match p with
  | PDeleting n => u32_ok n
  | PCopying n b => u32_ok n && u64_ok b
  | PDone => true
  end.
Definition marker_ok (m : progress_marker) : bool := u64_ok (pm_completed_work m) && phase_ok (pm_phase m).
Definition target_ok (t : symlink_target) : bool :=
  match t with STNormalized s => str_ok s | STNotNormalized s => str_ok s end.
Definition details_ok (d : entry_details) : bool :=
  match d with
  | EDFile mt sz => time_ok mt && u64_ok sz
  | EDFolder => true
  | EDSymlink _ t => target_ok t
  end.
Definition opt_ok {A} (ok : A -> bool) (o : option A) : bool :=
  match o with None => true | Some a => ok a end.

Definition wf_command (c : command) : bool :=
  match c with
  | CSetRoot r => str_ok r
  | CGetEntries f => filters_ok f
  | CCreateRootAncestors | CProfilingTimeSync | CShutdown => true
  | CGetFileContent p | CCreateFolder p | CDeleteFile p | CDeleteFolder p => str_ok p
  | CCreateOrUpdateFile p d mt _ => str_ok p && buf_ok d && opt_ok time_ok mt
  | CCreateSymlink p _ t => str_ok p && target_ok t
  | CDeleteSymlink p _ => str_ok p
  | CMarker m => marker_ok m
  end.

Definition prof_entry_ok (e : prof_entry) : bool :=
  str_ok (pe_scope e) && dur_ok (pe_start e) && dur_ok (pe_end e) && dur_ok (pe_duration e).
Definition prof_thread_ok (t : bytes * list prof_entry) : bool :=
  str_ok (fst t) && u64_ok (lenN (snd t)) && forallb prof_entry_ok (snd t).
Definition prof_ok (p : prof_data) : bool :=
  dur_ok (pd_offset p) && u64_ok (lenN (pd_threads p)) && forallb prof_thread_ok (pd_threads p).

Definition wf_response (r : response) : bool :=
  match r with
  | RRootDetails d _ c => opt_ok details_ok d && char_ok c
  | REntry p d => str_ok p && details_ok d
  | REndOfEntries => true
  | RFileContent d _ => buf_ok d
  | RProfilingTimeSync d => dur_ok d
  | RProfilingData p => prof_ok p
  | RMarker m => marker_ok m
  | RError s => str_ok s
  end.

(* Which values serde can serialize at all: every SystemTime inside is at or after the epoch.
   (Everything else always serializes.) *)
Definition details_encodable (d : entry_details) : bool :=
  match d with EDFile mt _ => time_encodable mt | _ => true end.
Definition command_encodable (c : command) : bool :=
  match c with
  | CCreateOrUpdateFile _ _ mt _ => opt_ok time_encodable mt
  | _ => true
  end.
Definition response_encodable (r : response) : bool :=
  match r with
  | RRootDetails d _ _ => opt_ok details_encodable d
  | REntry _ d => details_encodable d
  | _ => true
  end.

(* ---------------------------------------------------------------- encoders (byte producers)
   [enc_x] is the byte string written when serialization succeeds; [encode_command] /
   [encode_response] below say when it does. *)
Definition enc_u32 (v : N) : bytes := le_bytes 4 v.
Definition enc_u64 (v : N) : bytes := le_bytes 8 v.
Definition enc_bool (b : bool) : bytes := [ascii_of_N (if b then 1 else 0)].
Definition enc_buf (s : bytes) : bytes := enc_u64 (lenN s) ++ s.   (* String, serde_bytes Vec<u8> *)
Definition enc_option {A} (e : A -> bytes) (o : option A) : bytes :=
  match o with None => [ascii_of_N 0] | Some a => ascii_of_N 1 :: e a end.
Fixpoint enc_seq {A} (e : A -> bytes) (l : list A) : bytes :=
  match l with [] => [] | a :: t => e a ++ enc_seq e t end.
Definition enc_vec {A} (e : A -> bytes) (l : list A) : bytes := enc_u64 (lenN l) ++ enc_seq e l.

Definition enc_time (t : time) : bytes := enc_u64 (Z.to_N (t_sec t)) ++ enc_u32 (t_nsec t).
Definition enc_dur (d : duration) : bytes := enc_u64 (d_sec d) ++ enc_u32 (d_nsec d).
Definition enc_filter_kind (k : filter_kind) : bytes :=
  enc_u32 (match k with FInclude => 0 | FExclude => 1 end).
Definition enc_filters (f : filters) : bytes :=
  enc_vec enc_buf (f_patterns f) ++ enc_vec enc_filter_kind (f_kinds f).
Definition enc_phase (p : progress_phase) : bytes :=
  match p with
  | PDeleting n => enc_u32 0 ++ enc_u32 n
  | PCopying n b => enc_u32 1 ++ enc_u32 n ++ enc_u64 b
  | PDone => enc_u32 2
  end.
Definition enc_marker (m : progress_marker) : bytes := enc_u64 (pm_completed_work m) ++ enc_phase (pm_phase m).
Definition enc_kind (k : symlink_kind) : bytes :=
  enc_u32 (match k with SKFile => 0 | SKFolder => 1 | SKUnknown => 2 end).
Definition enc_target (t : symlink_target) : bytes :=
  match t with
  | STNormalized s => enc_u32 0 ++ enc_buf s
  | STNotNormalized s => enc_u32 1 ++ enc_buf s
  end.
Definition enc_details (d : entry_details) : bytes :=
  match d with
  | EDFile mt sz => enc_u32 0 ++ enc_time mt ++ enc_u64 sz
  | EDFolder => enc_u32 1
  | EDSymlink k t => enc_u32 2 ++ enc_kind k ++ enc_target t
  end.

Definition enc_command (c : command) : bytes :=
  match c with
  | CSetRoot r => enc_u32 0 ++ enc_buf r
  | CGetEntries f => enc_u32 1 ++ enc_filters f
  | CCreateRootAncestors => enc_u32 2
  | CGetFileContent p => enc_u32 3 ++ enc_buf p
  | CCreateOrUpdateFile p d mt more =>
      enc_u32 4 ++ enc_buf p ++ enc_buf d ++ enc_option enc_time mt ++ enc_bool more
  | CCreateSymlink p k t => enc_u32 5 ++ enc_buf p ++ enc_kind k ++ enc_target t
  | CCreateFolder p => enc_u32 6 ++ enc_buf p
  | CDeleteFile p => enc_u32 7 ++ enc_buf p
  | CDeleteFolder p => enc_u32 8 ++ enc_buf p
  | CDeleteSymlink p k => enc_u32 9 ++ enc_buf p ++ enc_kind k
  | CProfilingTimeSync => enc_u32 10
  | CMarker m => enc_u32 11 ++ enc_marker m
  | CShutdown => enc_u32 12
  end.

Definition enc_prof_entry (e : prof_entry) : bytes :=
  enc_buf (pe_scope e) ++ enc_dur (pe_start e) ++ enc_dur (pe_end e) ++ enc_dur (pe_duration e).
Definition enc_prof_thread (t : bytes * list prof_entry) : bytes :=
  enc_buf (fst t) ++ enc_vec enc_prof_entry (snd t).
Definition enc_prof (p : prof_data) : bytes :=
  enc_dur (pd_offset p) ++ enc_vec enc_prof_thread (pd_threads p).

Definition enc_response (r : response) : bytes :=
  match r with
  | RRootDetails d diff c => enc_u32 0 ++ enc_option enc_details d ++ enc_bool diff ++ c
  | REntry p d => enc_u32 1 ++ enc_buf p ++ enc_details d
  | REndOfEntries => enc_u32 2
  | RFileContent d more => enc_u32 3 ++ enc_buf d ++ enc_bool more
  | RProfilingTimeSync d => enc_u32 4 ++ enc_dur d
  | RProfilingData p => enc_u32 5 ++ enc_prof p
  | RMarker m => enc_u32 6 ++ enc_marker m
  | RError s => enc_u32 7 ++ enc_buf s
  end.

(* ---------------------------------------------------------------- serialized size, computed
   structurally like bincode's SizeChecker (it never builds the bytes) *)
Definition size_buf (s : bytes) : N := 8 + lenN s.
Definition size_option {A} (sz : A -> N) (o : option A) : N := match o with None => 1 | Some a => 1 + sz a end.
Definition size_vec {A} (sz : A -> N) (l : list A) : N := 8 + sumN (map sz l).
Definition size_filters (f : filters) : N :=
  size_vec size_buf (f_patterns f) + size_vec (fun _ => 4) (f_kinds f).
Definition size_phase (p : progress_phase) : N :=
  match p with PDeleting _ => 8 | PCopying _ _ => 16 | PDone => 4 end.
Definition size_marker (m : progress_marker) : N := 8 + size_phase (pm_phase m).
Definition size_target (t : symlink_target) : N :=
  match t with STNormalized s => 4 + size_buf s | STNotNormalized s => 4 + size_buf s end.
Definition size_details (d : entry_details) : N :=
  match d with
  | EDFile _ _ => 24      (* 4 + (8 + 4) + 8 *)
  | EDFolder => 4
  | EDSymlink _ t => 8 + size_target t
  end.
Definition size_command (c : command) : N :=
  match c with
  | CSetRoot r => 4 + size_buf r
  | CGetEntries f => 4 + size_filters f
  | CCreateRootAncestors | CProfilingTimeSync | CShutdown => 4
  | CGetFileContent p | CCreateFolder p | CDeleteFile p | CDeleteFolder p => 4 + size_buf p
  | CCreateOrUpdateFile p d mt _ => 4 + size_buf p + size_buf d + size_option (fun _ => 12) mt + 1
  | CCreateSymlink p _ t => 4 + size_buf p + 4 + size_target t
  | CDeleteSymlink p _ => 4 + size_buf p + 4
  | CMarker m => 4 + size_marker m
  end.
Definition size_prof_entry (e : prof_entry) : N := size_buf (pe_scope e) + 36.
Definition size_prof_thread (t : bytes * list prof_entry) : N := size_buf (fst t) + size_vec size_prof_entry (snd t).
Definition size_prof (p : prof_data) : N := 12 + size_vec size_prof_thread (pd_threads p).
Definition size_response (r : response) : N :=
  match r with
  | RRootDetails d _ c => 4 + size_option size_details d + 1 + lenN c
  | REntry p d => 4 + size_buf p + size_details d
  | REndOfEntries => 4
  | RFileContent d _ => 4 + size_buf d + 1
  | RProfilingTimeSync _ => 16
  | RProfilingData p => 4 + size_prof p
  | RMarker m => 4 + size_marker m
  | RError s => 4 + size_buf s
  end.

(* ---------------------------------------------------------------- the three entry points *)
Definition epoch_error : str := wlit "SystemTime must be later than UNIX_EPOCH".

(* bincode::serialize / serialize_into (encrypted_comms.rs:198) *)
Definition encode_command (c : command) : outcome bytes :=
  if command_encodable c then Ok (enc_command c) else Err epoch_error.
Definition encode_response (r : response) : outcome bytes :=
  if response_encodable r then Ok (enc_response r) else Err epoch_error.

(* bincode::serialized_size *)
Definition serialized_size_command (c : command) : outcome N :=
  if command_encodable c then Ok (size_command c) else Err epoch_error.
Definition serialized_size_response (r : response) : outcome N :=
  if response_encodable r then Ok (size_response r) else Err epoch_error.

(* memory_bound_channel.rs:41  `bincode::serialized_size(&msg).expect("Error in serialized_size")` *)
Definition expect_size (o : outcome N) : outcome N :=
  match o with
  | Ok n => Ok n
  | Err _ => Panic (wlit "Error in serialized_size")
  | Panic s => Panic s
  end.
Definition send_size_command (c : command) : outcome N := expect_size (serialized_size_command c).
Definition send_size_response (r : response) : outcome N := expect_size (serialized_size_response r).

(* ---------------------------------------------------------------- decoders
   A decoder consumes a prefix of the input and returns the value with the unread rest
   (bincode::deserialize allows trailing bytes).  None = any bincode/serde error. *)
Notation "'do' ( a , r ) <- d ; k" :=
  (match d with Some (a, r) => k | None => None end)
  (at level 200, a name, r name, d at level 100, k at level 200, only parsing).

Definition get_u32 (l : bytes) : option (N * bytes) :=
  do (a, r) <- take_nat 4 l; Some (of_le_bytes a, r).
Definition get_u64 (l : bytes) : option (N * bytes) :=
  do (a, r) <- take_nat 8 l; Some (of_le_bytes a, r).
Definition dec_bool (l : bytes) : option (bool * bytes) :=
  match l with
  | [] => None
  | b :: r => let n := N_of_ascii b in
              if n =? 0 then Some (false, r) else if n =? 1 then Some (true, r) else None
  end.
Definition dec_buf (l : bytes) : option (bytes * bytes) :=
  do (n, r) <- get_u64 l; take_N r n.
Definition dec_str (l : bytes) : option (bytes * bytes) :=
  do (s, r) <- dec_buf l; if utf8_valid s then Some (s, r) else None.
Definition dec_option {A} (d : bytes -> option (A * bytes)) (l : bytes) : option (option A * bytes) :=
  match l with
  | [] => None
  | b :: r => let n := N_of_ascii b in
              if n =? 0 then Some (None, r)
              else if n =? 1 then (do (a, r') <- d r; Some (Some a, r'))
              else None
  end.
(* n elements; every element takes at least one byte, so the input length bounds the recursion *)
Fixpoint dec_seq {A} (d : bytes -> option (A * bytes)) (fuel : nat) (n : N) (l : bytes)
  : option (list A * bytes) :=
  if n =? 0 then Some ([], l) else
  match fuel with
  | O => None
  | S f => do (a, r) <- d l; do (t, r') <- dec_seq d f (N.pred n) r; Some (a :: t, r')
  end.
Definition dec_vec {A} (d : bytes -> option (A * bytes)) (l : bytes) : option (list A * bytes) :=
  do (n, r) <- get_u64 l; dec_seq d (List.length r) n r.

Definition dec_char (l : bytes) : option (bytes * bytes) :=
  match l with
  | [] => None
  | b0 :: t =>
    let w := utf8_width (N_of_ascii b0) in
    if w =? 0 then None else
    do (tl, r) <- take_N t (N.pred w);
    if char_ok (b0 :: tl) then Some (b0 :: tl, r) else None
  end.

(* serde: Duration::new(secs, nanos) after check_overflow - nanoseconds >= 10^9 carry into the
   seconds, an overflow of the u64 seconds is an error *)
Definition dec_dur (l : bytes) : option (duration * bytes) :=
  do (s, r) <- get_u64 l; do (n, r') <- get_u32 r;
  let s' := s + n / 1000000000 in
  if u64_ok s' then Some (mkDur s' (n mod 1000000000), r') else None.
(* serde: UNIX_EPOCH.checked_add(duration); a Unix timespec has i64 seconds *)
Definition dec_time (l : bytes) : option (time * bytes) :=
  do (d, r) <- dec_dur l;
  if d_sec d <? 9223372036854775808 then Some (mkTime (Z.of_N (d_sec d)) (d_nsec d), r) else None.

Definition dec_filter_kind (l : bytes) : option (filter_kind * bytes) :=
  do (v, r) <- get_u32 l;
  match v with 0 => Some (FInclude, r) | 1 => Some (FExclude, r) | _ => None end.
Definition dec_filters (l : bytes) : option (filters * bytes) :=
  do (p, r) <- dec_vec dec_str l; do (k, r') <- dec_vec dec_filter_kind r; Some (mkFilters p k, r').
Definition dec_phase (l : bytes) : option (progress_phase * bytes) :=
  do (v, r) <- get_u32 l;
  match v with
  | 0 => do (n, r1) <- get_u32 r; Some (PDeleting n, r1)
  | 1 => do (n, r1) <- get_u32 r; do (b, r2) <- get_u64 r1; Some (PCopying n b, r2)
  | 2 => Some (PDone, r)
  | _ => None
  end.
Definition dec_marker (l : bytes) : option (progress_marker * bytes) :=
  do (w, r) <- get_u64 l; do (p, r') <- dec_phase r; Some (mkMarker w p, r').
Definition dec_kind (l : bytes) : option (symlink_kind * bytes) :=
  do (v, r) <- get_u32 l;
  match v with 0 => Some (SKFile, r) | 1 => Some (SKFolder, r) | 2 => Some (SKUnknown, r) | _ => None end.
Definition dec_target (l : bytes) : option (symlink_target * bytes) :=
  do (v, r) <- get_u32 l;
  match v with
  | 0 => do (s, r1) <- dec_str r; Some (STNormalized s, r1)
  | 1 => do (s, r1) <- dec_str r; Some (STNotNormalized s, r1)
  | _ => None
  end.
Definition dec_details (l : bytes) : option (entry_details * bytes) :=
  do (v, r) <- get_u32 l;
  match v with
  | 0 => do (mt, r1) <- dec_time r; do (sz, r2) <- get_u64 r1; Some (EDFile mt sz, r2)
  | 1 => Some (EDFolder, r)
  | 2 => do (k, r1) <- dec_kind r; do (t, r2) <- dec_target r1; Some (EDSymlink k t, r2)
  | _ => None
  end.

Definition decode_command (l : bytes) : option (command * bytes) :=
  do (v, r) <- get_u32 l;
  match v with
  | 0 => do (s, r1) <- dec_str r; Some (CSetRoot s, r1)
  | 1 => do (f, r1) <- dec_filters r; Some (CGetEntries f, r1)
  | 2 => Some (CCreateRootAncestors, r)
  | 3 => do (p, r1) <- dec_str r; Some (CGetFileContent p, r1)
  | 4 => do (p, r1) <- dec_str r; do (d, r2) <- dec_buf r1;
         do (mt, r3) <- dec_option dec_time r2; do (more, r4) <- dec_bool r3;
         Some (CCreateOrUpdateFile p d mt more, r4)
  | 5 => do (p, r1) <- dec_str r; do (k, r2) <- dec_kind r1; do (t, r3) <- dec_target r2;
         Some (CCreateSymlink p k t, r3)
  | 6 => do (p, r1) <- dec_str r; Some (CCreateFolder p, r1)
  | 7 => do (p, r1) <- dec_str r; Some (CDeleteFile p, r1)
  | 8 => do (p, r1) <- dec_str r; Some (CDeleteFolder p, r1)
  | 9 => do (p, r1) <- dec_str r; do (k, r2) <- dec_kind r1; Some (CDeleteSymlink p k, r2)
  | 10 => Some (CProfilingTimeSync, r)
  | 11 => do (m, r1) <- dec_marker r; Some (CMarker m, r1)
  | 12 => Some (CShutdown, r)
  | _ => None
  end.

Definition dec_prof_entry (l : bytes) : option (prof_entry * bytes) :=
  do (s, r) <- dec_str l; do (a, r1) <- dec_dur r; do (b, r2) <- dec_dur r1; do (c, r3) <- dec_dur r2;
  Some (mkProfEntry s a b c, r3).
Definition dec_prof_thread (l : bytes) : option ((bytes * list prof_entry) * bytes) :=
  do (s, r) <- dec_str l; do (es, r1) <- dec_vec dec_prof_entry r; Some ((s, es), r1).
Definition dec_prof (l : bytes) : option (prof_data * bytes) :=
  do (o, r) <- dec_dur l; do (ts, r1) <- dec_vec dec_prof_thread r; Some (mkProfData o ts, r1).

Definition decode_response (l : bytes) : option (response * bytes) :=
  do (v, r) <- get_u32 l;
  match v with
  | 0 => do (d, r1) <- dec_option dec_details r; do (diff, r2) <- dec_bool r1; do (c, r3) <- dec_char r2;
         Some (RRootDetails d diff c, r3)
  | 1 => do (p, r1) <- dec_str r; do (d, r2) <- dec_details r1; Some (REntry p d, r2)
  | 2 => Some (REndOfEntries, r)
  | 3 => do (d, r1) <- dec_buf r; do (more, r2) <- dec_bool r1; Some (RFileContent d more, r2)
  | 4 => do (d, r1) <- dec_dur r; Some (RProfilingTimeSync d, r1)
  | 5 => do (p, r1) <- dec_prof r; Some (RProfilingData p, r1)
  | 6 => do (m, r1) <- dec_marker r; Some (RMarker m, r1)
  | 7 => do (s, r1) <- dec_str r; Some (RError s, r1)
  | _ => None
  end.
