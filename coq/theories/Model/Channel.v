(* Model of src/memory_bound_channel.rs: an unbounded FIFO queue of (message, size) pairs plus one
   shared byte counter, used by ONE sender thread and ONE receiver thread (Sender and Receiver are
   not Clone; every boss<->doer channel has one of each).

   Interleaving transition system; the atomic steps are the atomic operations of the code:
     send():  fetch_add(size)  [line 45]   - and the thread-local test `old_usage > capacity` [line 50]
              load()           [line 53]   - one iteration of the wait loop: `load - size > capacity` spins
              inner.send()     [line 58]   - the push on the crossbeam queue
     recv()/try_recv():  inner.recv()/try_recv() [lines 71, 80] - the pop (recv blocks on an empty queue:
                                             the step is not enabled; try_recv on an empty queue changes nothing)
                         fetch_sub(size) [lines 74, 83], then the message is returned to the caller
   `usize` is modelled by N.  The two subtractions of the code are checked explicitly:
   `load - size` (panics in a debug build, wraps in a release build) leads to the bad state
   [SUnderflow], a wrapping fetch_sub to [RUnderflow]; the theorems show neither is reachable.
   The counter wrapping upwards (fetch_add beyond 2^64) is not modelled: the theorems show the
   counter equals the number of live bytes, so it stays below 2^64 whenever those do.
   Relaxed orderings on the single counter are sound here (per-location coherence); the
   crossbeam queue is assumed FIFO and linearizable.
   Ghost fields ([c_handed], [c_delivered], [c_maxsz]) record history; no step reads them.
   Executable Gallina only; proofs are in Proofs/ChannelProofs.v. *)
From RJ Require Import Base.Prelude Model.LEInt.
Local Open Scope N_scope.

Inductive spc (M : Type) : Type :=
| SIdle                       (* not inside send() *)
| SWaiting (m : M) (sz : N)   (* counter incremented, old usage was above the capacity: in the wait loop *)
| SPush (m : M) (sz : N)      (* admitted, about to push *)
| SUnderflow.                 (* `load - size` underflowed *)
Inductive rpc (M : Type) : Type :=
| RIdle
| RPopped (m : M) (sz : N)    (* popped, about to fetch_sub and return the message *)
| RUnderflow.                 (* fetch_sub wrapped below zero *)
Arguments SIdle {M}. Arguments SWaiting {M}. Arguments SPush {M}. Arguments SUnderflow {M}.
Arguments RIdle {M}. Arguments RPopped {M}. Arguments RUnderflow {M}.

Record chan (M : Type) : Type := mkChan {
  c_cap : N;                  (* memory_capacity *)
  c_usage : N;                (* channel_memory_usage *)
  c_queue : list (M * N);     (* the crossbeam queue, head first *)
  c_spc : spc M;
  c_rpc : rpc M;
  c_handed : list M;          (* ghost: messages given to send(), in call order *)
  c_delivered : list M;       (* ghost: messages returned by recv()/try_recv(), in return order *)
  c_maxsz : N                 (* ghost: largest size given to send() so far *)
}.
Arguments mkChan {M}. Arguments c_cap {M}. Arguments c_usage {M}. Arguments c_queue {M}. Arguments c_spc {M}.
Arguments c_rpc {M}. Arguments c_handed {M}. Arguments c_delivered {M}. Arguments c_maxsz {M}.

Definition chan_init {M} (cap : N) : chan M := mkChan cap 0 [] SIdle RIdle [] [] 0.

Inductive op (M : Type) : Type :=
| OFetchAdd (m : M) (sz : N)
| OLoad
| OPush
| OPop
| OTryEmpty
| OFetchSub.
Arguments OFetchAdd {M}. Arguments OLoad {M}. Arguments OPush {M}. Arguments OPop {M}.
Arguments OTryEmpty {M}. Arguments OFetchSub {M}.

(* One atomic step; None when the step is not enabled in this state. *)
Definition chan_step {M} (s : chan M) (o : op M) : option (chan M) :=
  match o with
  | OFetchAdd m sz =>
      match c_spc s with
      | SIdle =>
          let old := c_usage s in
          Some (mkChan (c_cap s) (old + sz) (c_queue s)
                       (if c_cap s <? old then SWaiting m sz else SPush m sz)
                       (c_rpc s) (c_handed s ++ [m]) (c_delivered s) (N.max (c_maxsz s) sz))
      | _ => None
      end
  | OLoad =>
      match c_spc s with
      | SWaiting m sz =>
          let u := c_usage s in
          Some (mkChan (c_cap s) u (c_queue s)
                       (if u <? sz then SUnderflow
                        else if c_cap s <? u - sz then SWaiting m sz else SPush m sz)
                       (c_rpc s) (c_handed s) (c_delivered s) (c_maxsz s))
      | _ => None
      end
  | OPush =>
      match c_spc s with
      | SPush m sz =>
          Some (mkChan (c_cap s) (c_usage s) (c_queue s ++ [(m, sz)]) SIdle
                       (c_rpc s) (c_handed s) (c_delivered s) (c_maxsz s))
      | _ => None
      end
  | OPop =>
      match c_rpc s, c_queue s with
      | RIdle, (m, sz) :: t =>
          Some (mkChan (c_cap s) (c_usage s) t (c_spc s) (RPopped m sz)
                       (c_handed s) (c_delivered s) (c_maxsz s))
      | _, _ => None
      end
  | OTryEmpty =>
      match c_rpc s, c_queue s with
      | RIdle, [] => Some s
      | _, _ => None
      end
  | OFetchSub =>
      match c_rpc s with
      | RPopped m sz =>
          if c_usage s <? sz
          then Some (mkChan (c_cap s) (c_usage s) (c_queue s) (c_spc s) RUnderflow
                            (c_handed s) (c_delivered s) (c_maxsz s))
          else Some (mkChan (c_cap s) (c_usage s - sz) (c_queue s) (c_spc s) RIdle
                            (c_handed s) (c_delivered s ++ [m]) (c_maxsz s))
      | _ => None
      end
  end.

Definition step {M} (s s' : chan M) : Prop := exists o, chan_step s o = Some s'.

(* The same relation written rule by rule, for reading next to memory_bound_channel.rs
   ([step s s' <-> astep s s'] is proved in Proofs/ChannelProofs.v). *)
Definition upd {M} (s : chan M) (usage : N) (q : list (M * N)) (sp : spc M) (rp : rpc M)
  (handed delivered : list M) (maxsz : N) : chan M :=
  mkChan (c_cap s) usage q sp rp handed delivered maxsz.
Inductive astep {M} (s : chan M) : chan M -> Prop :=
| a_fetch_add_admit m sz :            (* line 45 + 50: old_usage <= capacity *)
    c_spc s = SIdle -> c_usage s <= c_cap s ->
    astep s (upd s (c_usage s + sz) (c_queue s) (SPush m sz) (c_rpc s) (c_handed s ++ [m]) (c_delivered s) (N.max (c_maxsz s) sz))
| a_fetch_add_wait m sz :             (* line 45 + 50: old_usage > capacity *)
    c_spc s = SIdle -> c_cap s < c_usage s ->
    astep s (upd s (c_usage s + sz) (c_queue s) (SWaiting m sz) (c_rpc s) (c_handed s ++ [m]) (c_delivered s) (N.max (c_maxsz s) sz))
| a_load_spin m sz :                  (* line 53: load - size > capacity *)
    c_spc s = SWaiting m sz -> sz <= c_usage s -> c_cap s < c_usage s - sz ->
    astep s (upd s (c_usage s) (c_queue s) (SWaiting m sz) (c_rpc s) (c_handed s) (c_delivered s) (c_maxsz s))
| a_load_pass m sz :                  (* line 53: load - size <= capacity *)
    c_spc s = SWaiting m sz -> sz <= c_usage s -> c_usage s - sz <= c_cap s ->
    astep s (upd s (c_usage s) (c_queue s) (SPush m sz) (c_rpc s) (c_handed s) (c_delivered s) (c_maxsz s))
| a_load_underflow m sz :             (* line 53: the subtraction underflows *)
    c_spc s = SWaiting m sz -> c_usage s < sz ->
    astep s (upd s (c_usage s) (c_queue s) SUnderflow (c_rpc s) (c_handed s) (c_delivered s) (c_maxsz s))
| a_push m sz :                       (* line 58 *)
    c_spc s = SPush m sz ->
    astep s (upd s (c_usage s) (c_queue s ++ [(m, sz)]) SIdle (c_rpc s) (c_handed s) (c_delivered s) (c_maxsz s))
| a_pop m sz t :                      (* lines 71 / 80 *)
    c_rpc s = RIdle -> c_queue s = (m, sz) :: t ->
    astep s (upd s (c_usage s) t (c_spc s) (RPopped m sz) (c_handed s) (c_delivered s) (c_maxsz s))
| a_try_empty :                       (* line 80 on an empty queue *)
    c_rpc s = RIdle -> c_queue s = [] -> astep s s
| a_fetch_sub m sz :                  (* lines 74 / 83, then Ok(msg) *)
    c_rpc s = RPopped m sz -> sz <= c_usage s ->
    astep s (upd s (c_usage s - sz) (c_queue s) (c_spc s) RIdle (c_handed s) (c_delivered s ++ [m]) (c_maxsz s))
| a_fetch_sub_underflow m sz :        (* lines 74 / 83 wrapping below zero *)
    c_rpc s = RPopped m sz -> c_usage s < sz ->
    astep s (upd s (c_usage s) (c_queue s) (c_spc s) RUnderflow (c_handed s) (c_delivered s) (c_maxsz s)).

Inductive reach {M} (cap : N) : chan M -> Prop :=
| reach_init : reach cap (chan_init cap)
| reach_step s s' : reach cap s -> step s s' -> reach cap s'.

(* ---- derived quantities the theorems speak about *)
Definition qbytes {M} (q : list (M * N)) : N := sumN (map snd q).
Definition s_inflight {M} (p : spc M) : N :=
  match p with SWaiting _ sz | SPush _ sz => sz | _ => 0 end.
Definition r_inflight {M} (p : rpc M) : N :=
  match p with RPopped _ sz => sz | _ => 0 end.
Definition s_msg {M} (p : spc M) : list M :=
  match p with SWaiting m _ | SPush m _ => [m] | _ => [] end.
Definition r_msg {M} (p : rpc M) : list M :=
  match p with RPopped m _ => [m] | _ => [] end.
(* bytes of the *other* messages, as seen by a sender inside send(): queued + popped-not-yet-subtracted *)
Definition others {M} (s : chan M) : N := qbytes (c_queue s) + r_inflight (c_rpc s).
(* messages handed to send() and not yet returned by recv(), oldest first *)
Definition in_transit {M} (s : chan M) : list M :=
  r_msg (c_rpc s) ++ map fst (c_queue s) ++ s_msg (c_spc s).
Definition quiescent {M} (s : chan M) : Prop :=
  c_queue s = [] /\ c_spc s = SIdle /\ c_rpc s = RIdle.
(* work the receiver still has in front of it *)
Definition rmeasure {M} (s : chan M) : nat :=
  2 * List.length (c_queue s) + match c_rpc s with RPopped _ _ => 1 | _ => 0 end.
Definition is_recv_op {M} (o : op M) : bool :=
  match o with OPop | OFetchSub => true | _ => false end.

(* ---- a run of atomic steps (for the judge): stops at the first step that is not enabled *)
Fixpoint chan_run {M} (s : chan M) (os : list (op M)) : chan M * list bool :=
  match os with
  | [] => (s, [])
  | o :: t => match chan_step s o with
              | Some s' => let (s'', l) := chan_run s' t in (s'', true :: l)
              | None => let (s'', l) := chan_run s t in (s'', false :: l)
              end
  end.
