(* Model of the chunked file transfer (C11):
     chunk reader   doer.rs  handle_get_file_contents        (lines 663-712)
     chunk relay    boss_sync.rs  copy_file                  (lines 941-1018)
     chunk writer   doer.rs  exec_command CreateOrUpdateFile (lines 401-460)
   Executable Gallina only; proofs are in Proofs/ChunkProofs.v.

   Numbers are unbounded [N] (the u64 addition `chunk_offset + chunk_size` of copy_file cannot
   overflow for data that fits in memory; not modelled).  Bytes are [ascii]. *)
From RJ Require Import Base.Prelude.
From Coq Require Import String.
Local Open Scope N_scope.

Notation bytes := (list ascii) (only parsing).

(* ---------------------------------------------------------------------------------------------- *)
(* helpers with binary counters, so that the extracted code never builds a unary 4 MiB number *)

Fixpoint lenN_acc {A} (l : list A) (acc : N) : N :=
  match l with [] => acc | _ :: l' => lenN_acc l' (N.succ acc) end.
Definition lenN {A} (l : list A) : N := lenN_acc l 0.

(* [split_at n l] = (first n elements, the rest); all of [l] when it is shorter than [n] *)
Fixpoint split_at {A} (n : N) (l : list A) : list A * list A :=
  match l with
  | [] => ([], [])
  | x :: l' => if n =? 0 then ([], l)
               else let (a, b) := split_at (N.pred n) l' in (x :: a, b)
  end.

Definition is_nil {A} (l : list A) : bool := match l with [] => true | _ => false end.

(* ---------------------------------------------------------------------------------------------- *)
(* constants of handle_get_file_contents; compared with the running code through Gen/Facts_chunks.v *)
Definition first_buf : N := 4096.        (* let mut chunk_size = 4 * 1024 *)
Definition max_chunk : N := 4194304.     (* std::cmp::min(chunk_size * 2, 1024*1024*4) *)
Definition short_buf : N := 32.          (* next_buf = vec![0; 32] after a short read *)

(* A FileContent response: data, more_to_follow *)
Definition chunk := (bytes * bool)%type.

(* One read(2) into a buffer of [buf] bytes when [avail] bytes remain in the file.
   0 exactly at end of file; otherwise anything from 1 to min buf avail bytes - the [choice]
   (an element of the short-read schedule) picks which; no choice = as much as fits. *)
Definition read_len (buf avail : N) (choice : option N) : N :=
  if avail =? 0 then 0
  else let cap := N.min buf avail in
       match choice with
       | None => cap
       | Some r => N.max 1 (N.min r cap)
       end.

(* The loop of handle_get_file_contents.
     cs     chunk_size
     buf    next_buf.len()
     prev   prev_buf[..prev_buf_valid]   (data read in the previous iteration, sent one iteration late)
     rest   what is left of the file
     sched  short-read schedule (exhausted schedule = full reads)
   [fuel] bounds the number of iterations; every non-final iteration consumes at least one byte,
   so [S (length rest)] is always enough (read_chunks_total).  None = out of fuel (never happens). *)
Fixpoint read_loop (fuel : nat) (cs buf : N) (prev rest : bytes) (sched : list N) : option (list chunk) :=
  match fuel with
  | O => None
  | S fuel' =>
    let choice := match sched with [] => None | r :: _ => Some r end in
    let sched' := match sched with [] => [] | _ :: s => s end in
    let n := read_len buf (lenN rest) choice in
    if n =? 0 then
      (* Ok(0): send what we got previously, more_to_follow = false *)
      Some [(prev, false)]
    else
      let (data, rest') := split_at n rest in
      (* if prev_buf_valid > 0 { send prev, more_to_follow = true } *)
      let emit := if is_nil prev then [] else [(prev, true)] in
      let next :=
        if n <? buf then
          (* short read: small buffer next time, chunk_size unchanged *)
          read_loop fuel' cs short_buf data rest' sched'
        else
          let cs' := N.min (cs * 2) max_chunk in
          read_loop fuel' cs' cs' data rest' sched' in
      match next with
      | Some out => Some (emit ++ out)
      | None => None
      end
  end.

Definition read_chunks (file : bytes) (sched : list N) : option (list chunk) :=
  read_loop (S (List.length file)) first_buf first_buf [] file sched.

(* ---------------------------------------------------------------------------------------------- *)
(* writer: CreateOrUpdateFile against one path of the destination *)

Record dfile := mkFile {
  d_content : bytes;
  d_mtime : option Z    (* Some t: stamped by set_file_mtime; None: whatever the clock said at the last write *)
}.

(* in_progress_file_receive = None (the path may or may not exist) / Some(handle) *)
Inductive wstate :=
| WClosed (f : option dfile)
| WOpen (f : dfile).

Record cmd := mkCmd {
  c_data : bytes;
  c_mtime : option Z;    (* set_modified_time *)
  c_more : bool          (* more_to_follow *)
}.

Definition write_cmd (st : wstate) (c : cmd) : wstate :=
  let content := match st with
                 | WOpen f => d_content f ++ c_data c     (* continuation: write_all on the kept handle *)
                 | WClosed _ => c_data c                  (* File::create: truncate or create *)
                 end in
  let f' := mkFile content (c_mtime c) in
  if c_more c then WOpen f' else WClosed (Some f').

Definition write_cmds (st : wstate) (cmds : list cmd) : wstate := fold_left write_cmd cmds st.

(* ---------------------------------------------------------------------------------------------- *)
(* relay: the loop of copy_file.  [fixed] = false is the code before the fix of F3 (the early
   `break` is not remembered), [fixed] = true the code after it. *)

Definition e_size_changed : str := list_ascii_of_string "Size of file has changed during the sync.".
Definition e_lost : str := list_ascii_of_string "Lost communication with src / unexpected response".

Definition cmd_of (mt : Z) (c : chunk) : cmd :=
  mkCmd (fst c) (if snd c then None else Some mt) (snd c).

(* [off] = chunk_offset; the list is what the source doer answers to GetFileContent. *)
Fixpoint relay_from (fixed : bool) (listed : N) (mt : Z) (off : N) (cs : list chunk) : list cmd * outcome unit :=
  match cs with
  | [] => ([], Err e_lost)     (* the stream ended without a final chunk: receive_response fails *)
  | c :: tl =>
    let sz := lenN (fst c) in
    if listed <? off + sz then
      (* early break; afterwards `chunk_offset != size` is the only test in the unfixed code *)
      ([], if fixed || negb (off =? listed) then Err e_size_changed else Ok tt)
    else if snd c then
      let (cmds, r) := relay_from fixed listed mt (off + sz) tl in (cmd_of mt c :: cmds, r)
    else
      ([cmd_of mt c], if off + sz =? listed then Ok tt else Err e_size_changed)
  end.

Definition relay (listed : N) (mt : Z) (cs : list chunk) := relay_from true listed mt 0 cs.
Definition relay_unfixed (listed : N) (mt : Z) (cs : list chunk) := relay_from false listed mt 0 cs.

(* ---------------------------------------------------------------------------------------------- *)
(* the whole transfer of one file: reader on the source, relay on the boss, writer on the destination *)
Definition transfer (listed : N) (mt : Z) (file : bytes) (sched : list N) (prev : option dfile)
  : option (wstate * outcome unit) :=
  match read_chunks file sched with
  | None => None
  | Some cs => let (cmds, r) := relay listed mt cs in Some (write_cmds (WClosed prev) cmds, r)
  end.

(* sizes only (for the ladder fact): the chunk sizes produced for a file of [len] bytes *)
Fixpoint size_loop (fuel : nat) (cs buf prev rest : N) (sched : list N) : option (list N) :=
  match fuel with
  | O => None
  | S fuel' =>
    let choice := match sched with [] => None | r :: _ => Some r end in
    let sched' := match sched with [] => [] | _ :: s => s end in
    let n := read_len buf rest choice in
    if n =? 0 then Some [prev]
    else
      let emit := if prev =? 0 then [] else [prev] in
      let next :=
        if n <? buf then size_loop fuel' cs short_buf n (rest - n) sched'
        else let cs' := N.min (cs * 2) max_chunk in size_loop fuel' cs' cs' n (rest - n) sched' in
      match next with Some out => Some (emit ++ out) | None => None end
  end.
