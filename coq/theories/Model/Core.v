(* Core of the sync model: paths, entries, the decision functions of boss_sync.rs:601-670, the planner
   instance, the confirmation pass (boss_sync.rs:672-833, boss_frontend.rs:908-968) and command
   generation (boss_sync.rs:296-333, 856-1018).  Executable Gallina only. *)
From RJ Require Import Base.Prelude Base.OrderedPlan Model.Settings.

(* ---------------------------------------------------------------------------------------------- *)
(* Paths: a root-relative path is the list of its components; [] is the root. *)
Definition path := list str.
Definition str_eq_dec : forall a b : str, {a = b} + {a <> b} := list_eq_dec ascii_dec.
Definition path_eq_dec : forall a b : path, {a = b} + {a <> b} := list_eq_dec str_eq_dec.
Definition path_eqb (a b : path) : bool := if path_eq_dec a b then true else false.

Fixpoint is_prefix (a b : path) : bool :=          (* a is a (non-strict) prefix of b *)
  match a, b with
  | [], _ => true
  | x :: a', y :: b' => if str_eq_dec x y then is_prefix a' b' else false
  | _ :: _, [] => false
  end.
Definition is_strict_prefix (a b : path) : bool := is_prefix a b && negb (path_eqb a b).
Definition parent (p : path) : path := removelast p.

(* ---------------------------------------------------------------------------------------------- *)
(* Entry details as the boss sees them (boss_doer_interface.rs EntryDetails). Times are ns since epoch. *)
Inductive skind := SKFile | SKFolder | SKUnknown.
Inductive target := TNorm (s : str) | TRaw (s : str).
Inductive entry :=
| EFile (mt : Z) (size : N)
| EFolder
| ESymlink (k : skind) (t : target).

Definition skind_eqb (a b : skind) : bool :=
  match a, b with SKFile, SKFile | SKFolder, SKFolder | SKUnknown, SKUnknown => true | _, _ => false end.
Definition target_eqb (a b : target) : bool :=
  match a, b with
  | TNorm x, TNorm y => str_eqb x y
  | TRaw x, TRaw y => str_eqb x y
  | _, _ => false
  end.

(* needs_delete, boss_sync.rs:604-629.  [diff] = the destination platform differentiates symlink kinds *)
Definition needs_delete (diff : bool) (s d : entry) : bool :=
  match s, d with
  | EFile _ _, EFile _ _ => false
  | EFolder, EFolder => false
  | ESymlink ks ts, ESymlink kd td =>
      if negb (target_eqb ts td) then true
      else if negb (skind_eqb ks kd) && diff then true else false
  | _, _ => true
  end.

(* needs_copy, boss_sync.rs:633-670.  [same_skip] = (files_same_time_behaviour == Skip) at planning time.
   Only called when needs_delete is false, i.e. on entries of the same kind (the Rust code panics
   "Wrong entry type" otherwise: unreachable, see CoreProofs.needs_copy_defined). *)
Definition needs_copy (same_skip : bool) (s d : entry) : option creason :=
  match s, d with
  | EFile ms _, EFile md _ =>
      match Z.compare ms md with
      | Eq => if same_skip then None else Some SameTime
      | Gt => Some DestOlder
      | Lt => Some DestNewer
      end
  | _, _ => None
  end.

(* ---------------------------------------------------------------------------------------------- *)
(* The planner instance. *)
Definition pstate_t := pstate path entry.
Definition arrival_t := arrival path entry.

Definition plan_c (diff same_skip : bool) (sg : list arrival_t) : option pstate_t :=
  plan path path_eq_dec entry (needs_delete diff) (needs_copy same_skip) sg.

Record actions := mkActions {
  a_delete : list (path * (entry * dreason));      (* in execution order (reversed arrival order) *)
  a_copy : list (path * (entry * creason)) }.       (* in execution order (arrival order) *)

(* query_entries: the result of draining both listings in interleaving [sg] (None = an unwrap in
   OrderedMap::update would panic - proved unreachable for duplicate-free listings). *)
Definition actions_of (diff same_skip : bool) (sg : list arrival_t) : option actions :=
  match plan_c diff same_skip sg with
  | Some st => Some (mkActions (oiter path path_eq_dec (oreverse path (to_del path entry st)))
                               (oiter path path_eq_dec (to_cp path entry st)))
  | None => None
  end.

(* ---------------------------------------------------------------------------------------------- *)
(* Confirmation pass.  Prompt answers are an explicit input: the k-th prompt consumes the k-th answer;
   an exhausted list is an unattended terminal (= cancel). *)
Inductive answer := AnsOnce (act : bool) | AnsAll (act : bool) | AnsCancel.
Definition beh_of_act (a : bool) : beh := if a then BAct else BSkip.

(* resolve_prompt with the "all occurrences" variants: (behaviour for this occurrence, behaviour
   remembered for later occurrences, remaining answers, whether a prompt was shown) *)
Definition resolve (cur : beh) (ans : list answer) : beh * beh * list answer * bool :=
  match cur with
  | BPrompt =>
      match ans with
      | [] => (BError, cur, [], true)
      | AnsCancel :: r => (BError, cur, r, true)
      | AnsOnce a :: r => (beh_of_act a, cur, r, true)
      | AnsAll a :: r => (beh_of_act a, beh_of_act a, r, true)
      end
  | x => (x, cur, ans, false)
  end.

(* the root prompt offers no "all occurrences" variants (boss_sync.rs:409-414) *)
Definition resolve_root (cur : beh) (ans : list answer) : beh * list answer * bool :=
  match cur with
  | BPrompt =>
      match ans with
      | [] => (BError, [], true)
      | AnsCancel :: r => (BError, r, true)
      | AnsOnce a :: r => (beh_of_act a, r, true)
      | AnsAll a :: r => (beh_of_act a, r, true)
      end
  | x => (x, ans, false)
  end.

Inductive prompt := PRoot | PDelete (p : path) | PCopy (p : path) (r : creason).

Record bstate := mkB { b_newer : beh; b_older : beh; b_same : beh; b_entry : beh }.

Inductive confirm_result :=
| CFail                                                       (* Err(..): error behaviour or cancelled prompt *)
| CDone (acts : actions) (skipped : list path) (b : bstate) (rest : list answer) (prompts : list prompt).

(* first loop: deletes *)
Fixpoint confirm_deletes (b : beh) (ans : list answer) (l : list (path * (entry * dreason))) (np : list prompt)
  : option (list path * beh * list answer * list prompt) :=          (* removed paths, ... ; None = Err *)
  match l with
  | [] => Some ([], b, ans, np)
  | (p, _) :: r =>
      let '(now, b', ans', shown) := resolve b ans in
      let np' := if shown then np ++ [PDelete p] else np in
      match now with
      | BError | BPrompt => None
      | BSkip => match confirm_deletes b' ans' r np' with
                 | Some (rm, b2, a2, n2) => Some (p :: rm, b2, a2, n2)
                 | None => None end
      | BAct => confirm_deletes b' ans' r np'
      end
  end.

Definition get_beh (b : bstate) (r : creason) : beh :=
  match r with NotOnDest => BAct | DestNewer => b_newer b | DestOlder => b_older b | SameTime => b_same b end.
Definition set_beh (b : bstate) (r : creason) (v : beh) : bstate :=
  match r with
  | NotOnDest => b
  | DestNewer => mkB v (b_older b) (b_same b) (b_entry b)
  | DestOlder => mkB (b_newer b) v (b_same b) (b_entry b)
  | SameTime => mkB (b_newer b) (b_older b) v (b_entry b)
  end.

(* second loop: copies *)
Fixpoint confirm_copies (b : bstate) (ans : list answer) (l : list (path * (entry * creason))) (np : list prompt)
  : option (list path * bstate * list answer * list prompt) :=
  match l with
  | [] => Some ([], b, ans, np)
  | (p, (_, NotOnDest)) :: r => confirm_copies b ans r np
  | (p, (_, rs)) :: r =>
      let '(now, cur', ans', shown) := resolve (get_beh b rs) ans in
      let b' := set_beh b rs cur' in
      let np' := if shown then np ++ [PCopy p rs] else np in
      match now with
      | BError | BPrompt => None
      | BSkip => match confirm_copies b' ans' r np' with
                 | Some (rm, b2, a2, n2) => Some (p :: rm, b2, a2, n2)
                 | None => None end
      | BAct => confirm_copies b' ans' r np'
      end
  end.

Definition remove_paths {V} (rm : list path) (l : list (path * V)) : list (path * V) :=
  filter (fun e => negb (existsb (path_eqb (fst e)) rm)) l.

(* Destination entries that are kept although a source entry needs their place (a skipped deletion
   whose reason is Incompatible), and the copies that are therefore dropped: the source entry itself
   and everything inside it (boss_sync.rs confirm_actions, after the delete loop). *)
Definition kept_in_the_way (rmd : list path) (dl : list (path * (entry * dreason))) : list path :=
  map fst (filter (fun e => existsb (path_eqb (fst e)) rmd &&
                            match snd (snd e) with Incompatible => true | NotOnSource => false end) dl).
Definition not_blocked {V} (kept : list path) (e : path * V) : bool :=
  negb (existsb (fun k => is_prefix k (fst e)) kept).

Definition confirm (b : bstate) (ans : list answer) (a : actions) : confirm_result :=
  match confirm_deletes (b_entry b) ans (a_delete a) [] with
  | None => CFail
  | Some (rmd, be, ans1, n1) =>
      let b1 := mkB (b_newer b) (b_older b) (b_same b) be in
      let copies1 := filter (not_blocked (kept_in_the_way rmd (a_delete a))) (a_copy a) in
      match confirm_copies b1 ans1 copies1 n1 with
      | None => CFail
      | Some (rmc, b2, ans2, n2) =>
          CDone (mkActions (remove_paths rmd (a_delete a)) (remove_paths rmc copies1)) (rmd ++ rmc) b2 ans2 n2
      end
  end.

(* ---------------------------------------------------------------------------------------------- *)
(* Commands sent to a doer (boss_doer_interface.rs Command), file data already joined per chunk. *)
Inductive cmd :=
| CSetRoot
| CGetEntries
| CCreateRootAncestors
| CGetFileContent (p : path)
| CCreateOrUpdateFile (p : path) (data : str) (set_mt : option Z) (more : bool)
| CCreateSymlink (p : path) (k : skind) (t : target)
| CCreateFolder (p : path)
| CDeleteFile (p : path)
| CDeleteFolder (p : path)
| CDeleteSymlink (p : path) (k : skind)
| CMarker
| CShutdown.

Definition mutating (c : cmd) : bool :=
  match c with
  | CCreateRootAncestors | CCreateOrUpdateFile _ _ _ _ | CCreateSymlink _ _ _ | CCreateFolder _
  | CDeleteFile _ | CDeleteFolder _ | CDeleteSymlink _ _ => true
  | _ => false
  end.
Definition read_only (c : cmd) : bool :=
  match c with CSetRoot | CGetEntries | CGetFileContent _ | CMarker | CShutdown => true | _ => false end.

Definition cmd_path (c : cmd) : option path :=
  match c with
  | CGetFileContent p | CCreateOrUpdateFile p _ _ _ | CCreateSymlink p _ _ | CCreateFolder p
  | CDeleteFile p | CDeleteFolder p | CDeleteSymlink p _ => Some p
  | _ => None
  end.

Definition delete_cmd (e : path * (entry * dreason)) : cmd :=
  match e with
  | (p, (EFile _ _, _)) => CDeleteFile p
  | (p, (EFolder, _)) => CDeleteFolder p
  | (p, (ESymlink k _, _)) => CDeleteSymlink p k
  end.

(* statistics of show_post_sync_stats *)
Record stats := mkStats {
  st_files_deleted : N; st_bytes_deleted : N; st_folders_deleted : N; st_symlinks_deleted : N;
  st_files_copied : N; st_bytes_copied : N; st_folders_created : N; st_symlinks_copied : N }.
Definition stats0 := mkStats 0 0 0 0 0 0 0 0.
Definition stats_delete (s : stats) (e : entry) : stats :=
  match e with
  | EFile _ sz => mkStats (st_files_deleted s + 1) (st_bytes_deleted s + sz) (st_folders_deleted s) (st_symlinks_deleted s)
                          (st_files_copied s) (st_bytes_copied s) (st_folders_created s) (st_symlinks_copied s)
  | EFolder => mkStats (st_files_deleted s) (st_bytes_deleted s) (st_folders_deleted s + 1) (st_symlinks_deleted s)
                       (st_files_copied s) (st_bytes_copied s) (st_folders_created s) (st_symlinks_copied s)
  | ESymlink _ _ => mkStats (st_files_deleted s) (st_bytes_deleted s) (st_folders_deleted s) (st_symlinks_deleted s + 1)
                            (st_files_copied s) (st_bytes_copied s) (st_folders_created s) (st_symlinks_copied s)
  end.
Definition stats_copy (s : stats) (e : entry) : stats :=
  match e with
  | EFile _ sz => mkStats (st_files_deleted s) (st_bytes_deleted s) (st_folders_deleted s) (st_symlinks_deleted s)
                          (st_files_copied s + 1) (st_bytes_copied s + sz) (st_folders_created s) (st_symlinks_copied s)
  | EFolder => mkStats (st_files_deleted s) (st_bytes_deleted s) (st_folders_deleted s) (st_symlinks_deleted s)
                       (st_files_copied s) (st_bytes_copied s) (st_folders_created s + 1) (st_symlinks_copied s)
  | ESymlink _ _ => mkStats (st_files_deleted s) (st_bytes_deleted s) (st_folders_deleted s) (st_symlinks_deleted s)
                            (st_files_copied s) (st_bytes_copied s) (st_folders_created s) (st_symlinks_copied s + 1)
  end.
Definition stats_nothing (s : stats) : bool :=
  N.eqb (st_files_deleted s + st_folders_deleted s + st_symlinks_deleted s +
         st_files_copied s + st_folders_created s + st_symlinks_copied s) 0.

(* "Would ..." lines of a dry run *)
Inductive would := WDelete (p : path) (e : entry) | WCopyFile (p : path) | WCreateFolder (p : path) | WCreateSymlink (p : path).
