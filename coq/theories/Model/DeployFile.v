(* Model of what a deployment does to the program file on the remote: with which permission bits
   the binary is staged, and the commands that follow.

   boss_deploy.rs:301-354  create_binary_for_target   [choose_staging], [staged_mode]
        target compatible with the native platform: std::fs::copy(current_exe, staged) - the
        permission bits of the running program are copied (fchmod, the umask plays no part);
        otherwise create_big_binary (402-414): std::fs::write(staged, bytes) - a new file,
        open(O_CREAT, 0o666) masked by the boss's umask.
   boss_deploy.rs:108-136  deploy_to_remote           [deploy_steps]
        scp -r <staging>/rjrssync <target>:<temp>, then ssh "cd <temp>/rjrssync && chmod +x rjrssync"
        unless the remote is Windows.
   boss_launch.rs:253      the launch after the deployment  ([SLaunch])

   scp, chmod and execve are not code of the repository.  Their documented behaviour is modelled
   ([scp_mode]: OpenSSH scp without -p; [chmod_plus_x]: chmod +x without a who; [can_exec]: execve
   permission check) and is what the fake remote of the check implements and logs; the differential
   run compares this model with the modes that the fake tools observed at every step.
   Permission bits are an N (0o777 = 511, 0o666 = 438, 0o111 = 73; bit 6 = the owner's x bit).
   Executable Gallina only; proofs are in Proofs/DeployFileProofs.v. *)
From RJ Require Import Base.Prelude.
Local Open Scope N_scope.

Inductive staging := StCopySelf | StGenerated.

Definition choose_staging (target_is_native : bool) : staging :=
  if target_is_native then StCopySelf else StGenerated.

Definition mask (m u : N) : N := N.ldiff m u.

Definition staged_mode (s : staging) (self_mode bumask : N) : N :=
  match s with
  | StCopySelf => N.land self_mode 4095
  | StGenerated => mask 438 bumask
  end.

(* scp without -p: a new file gets the source's permission bits masked by the remote umask; a file
   that exists is rewritten and keeps its mode. *)
Definition scp_mode (existing : option N) (src_mode rumask : N) : N :=
  match existing with
  | Some m => m
  | None => mask (N.land src_mode 511) rumask
  end.

(* chmod +x: the x bits that the umask does not mask are added. *)
Definition chmod_plus_x (m rumask : N) : N := N.lor m (mask 73 rumask).

(* execve: the owner needs the owner's x bit; root needs any x bit. *)
Definition can_exec (root : bool) (m : N) : bool :=
  if root then negb (N.land m 73 =? 0) else N.testbit m 6.

Inductive step := SScp | SChmod | SLaunch.

Definition deploy_steps (windows : bool) : list step :=
  SScp :: (if windows then [] else [SChmod]) ++ [SLaunch].

Record world := mkWorld {
  w_remote : option N;        (* permission bits of the remote program file; None = there is none *)
  w_started : option bool }.  (* Some b: a launch was attempted and the program started (b) or not *)

(* A Windows remote has no x bit: a file that exists can be started (modelled, not exercised). *)
Definition do_step (windows root : bool) (staged rumask : N) (w : world) (s : step) : world :=
  match s with
  | SScp => mkWorld (Some (scp_mode (w_remote w) staged rumask)) (w_started w)
  | SChmod => mkWorld (option_map (fun m => chmod_plus_x m rumask) (w_remote w)) (w_started w)
  | SLaunch => mkWorld (w_remote w)
                 (Some (match w_remote w with Some m => windows || can_exec root m | None => false end))
  end.

Definition run_steps (windows root : bool) (staged rumask : N) (w : world) (l : list step) : world :=
  fold_left (do_step windows root staged rumask) l w.

(* the world after every step (for the differential run) *)
Fixpoint trace_steps (windows root : bool) (staged rumask : N) (w : world) (l : list step) : list (step * world) :=
  match l with
  | [] => []
  | s :: t => let w' := do_step windows root staged rumask w s in
              (s, w') :: trace_steps windows root staged rumask w' t
  end.

Definition deploy_file (windows native root : bool) (self_mode bumask rumask : N) (existing : option N) : world :=
  run_steps windows root (staged_mode (choose_staging native) self_mode bumask) rumask
            (mkWorld existing None) (deploy_steps windows).

(* what the judge prints: the staged mode and the world after every step *)
Definition deploy_trace (windows native root : bool) (self_mode bumask rumask : N) (existing : option N)
  : N * list (step * world) :=
  let staged := staged_mode (choose_staging native) self_mode bumask in
  (staged, trace_steps windows root staged rumask (mkWorld existing None) (deploy_steps windows)).
