(* Arbitrary command sequences against the doer model (Model/Fs.v doer_exec): what the `doerops` unit driver compares the REAL doer
   thread with, command by command - not only the sequences a boss would send.  Definitions only. *)
From RJ Require Import Base.Prelude Model.Settings Model.Core Model.Fs.

Definition dstate0 (f : fs) : dstate := mkD f AncOk 0 None [] dext0.

Fixpoint doer_run (fl : flavour) (st : dstate) (cs : list cmd) : dstate * list (option errc) :=
  match cs with
  | [] => (st, [])
  | c :: rest =>
      let (st1, r) := doer_exec fl st c in
      let (st2, rs) := doer_run fl st1 rest in
      (st2, r :: rs)
  end.

Definition doer_ops (f : fs) (cs : list cmd) : dstate * list (option errc) := doer_run Unix (dstate0 f) cs.
