(* Model of the ELF64 half of exe_utils.rs:
     validate_elf_header       (lines 176-206)
     extract_section_from_elf  (lines 209-246)
     add_section_to_elf        (lines 249-333)
   [fx = false]: the pinned code (panic sites explicit, per build mode);
   [fx = true ]: the code after the `fix:` commit.  Executable Gallina only. *)
From RJ Require Import Base.Prelude Model.LE.
From Coq Require Import String.
Local Open Scope N_scope.

Definition validate_elf (fx : bool) (m : mode) (bs : list byte) : outcome unit :=
  magic <- read_field fx m 4 bs 0 ;;
  if negb (magic =? 1179403647) then Err eother else        (* 7F 45 4C 46 little-endian *)
  bitness <- read_field fx m 1 bs 4 ;;
  if negb (bitness =? 2) then Err eother else
  endian <- read_field fx m 1 bs 5 ;;
  if negb (endian =? 1) then Err eother else
  version <- read_field fx m 1 bs 6 ;;
  if negb (version =? 1) then Err eother else
  Ok tt.

(* for section_idx in idx .. idx+count *)
Fixpoint extract_elf_loop (fx : bool) (m : mode) (bs name : list byte) (shoff shentsize names_off idx : N)
    (count : nat) : outcome (list byte) :=
  match count with
  | O => Err enotfound
  | S c =>
    hdr <- uadd fx m two64 shoff (idx * shentsize) ;;
    nm <- read_field fx m 4 bs hdr ;;
    so <- uadd fx m two64 names_off nm ;;
    s <- read_string bs so 32 ;;
    if str_eqb s name then
      o18 <- uadd fx m two64 hdr 24 ;;
      off <- read_field fx m 8 bs o18 ;;
      o20 <- uadd fx m two64 hdr 32 ;;
      size <- read_field fx m 8 bs o20 ;;
      split_trunc fx bs off size
    else extract_elf_loop fx m bs name shoff shentsize names_off (idx + 1) c
  end.

Definition extract_elf_gen (fx : bool) (m : mode) (bs name : list byte) : outcome (list byte) :=
  _ <- validate_elf fx m bs ;;
  shoff <- read_field fx m 8 bs 40 ;;          (* 0x28 e_shoff *)
  shentsize <- read_field fx m 2 bs 58 ;;      (* 0x3A e_shentsize *)
  shnum <- read_field fx m 2 bs 60 ;;          (* 0x3C e_shnum *)
  shstrndx <- read_field fx m 2 bs 62 ;;       (* 0x3E e_shstrndx *)
  a <- uadd fx m two64 shoff (shstrndx * shentsize) ;;
  b <- uadd fx m two64 a 24 ;;
  names_off <- read_field fx m 8 bs b ;;
  extract_elf_loop fx m bs name shoff shentsize names_off 0 (N.to_nat shnum).

(* for section_idx in idx .. idx+count: sh_offset += k *)
Fixpoint bump_offsets (fx : bool) (m : mode) (sht : list byte) (shentsize k idx : N) (count : nat)
    : outcome (list byte) :=
  match count with
  | O => Ok sht
  | S c =>
    let oo := idx * shentsize + 24 in
    orig <- read_field fx m 8 sht oo ;;
    new <- uadd fx m two64 orig k ;;
    sht' <- write_field fx m 8 sht oo new ;;
    bump_offsets fx m sht' shentsize k (idx + 1) c
  end.

Definition add_elf_gen (fx : bool) (m : mode) (bs name payload : list byte) : outcome (list byte) :=
  _ <- validate_elf fx m bs ;;
  shoff <- read_field fx m 8 bs 40 ;;
  shentsize <- read_field fx m 2 bs 58 ;;
  shnum <- read_field fx m 2 bs 60 ;;
  shstrndx <- read_field fx m 2 bs 62 ;;
  tot <- uadd fx m two64 shoff (shnum * shentsize) ;;
  if negb (flen bs =? tot) then Err eother else
  (* split_off(section_header_table_offset) *)
  if negb (shoff <=? flen bs) then (if fx then Err eother else Panic (slit "split")) else
  let body := takeN shoff bs in
  let sht := dropN shoff bs in
  names_off <- read_field fx m 8 sht (shstrndx * shentsize + 24) ;;
  names_size <- read_field fx m 8 sht (shstrndx * shentsize + 32) ;;
  let ins := name ++ [zero] in
  let k := flen ins in
  pos <- uadd fx m two64 names_off names_size ;;
  body1 <- splice_ins fx body pos ins ;;
  names_size' <- uadd fx m two64 names_size k ;;
  sht1 <- write_field fx m 8 sht (shstrndx * shentsize + 32) names_size' ;;
  sht2 <- bump_offsets fx m sht1 shentsize k (shstrndx + 1) (N.to_nat (shnum - (shstrndx + 1))) ;;
  let new_off := flen body1 in
  let body2 := body1 ++ payload in
  let hdr0 := zerosN shentsize in
  nsz32 <- ucast fx two32 names_size ;;
  hdr1 <- write_field fx m 4 hdr0 0 nsz32 ;;
  hdr2 <- write_field fx m 4 hdr1 4 2147483648 ;;
  hdr3 <- write_field fx m 8 hdr2 24 new_off ;;
  hdr4 <- write_field fx m 8 hdr3 32 (flen payload) ;;
  let sht3 := sht2 ++ hdr4 in
  let new_shoff := flen body2 in
  let bs1 := body2 ++ sht3 in
  bs2 <- write_field fx m 8 bs1 40 new_shoff ;;
  n16 <- ucast fx two16 (shnum + 1) ;;
  write_field fx m 2 bs2 60 n16.

(* the pinned code / the fixed code *)
Definition add_elf0 := add_elf_gen false.
Definition extract_elf0 := extract_elf_gen false.
Definition add_elf := add_elf_gen true.
Definition extract_elf := extract_elf_gen true.
