(* Filters (C06): what compile_filters (boss_sync.rs:216-240) and apply_filters (doer.rs:555-585) do,
   the shipping of the compiled set to the doers (boss_doer_interface.rs:37-63: the pattern *texts*
   travel and are compiled again), the documented rule they are supposed to implement, and a
   sequential view of the directory walk that applies them (doer.rs:588-611, parallel_walk_dir.rs).
   Definitions only; proofs in Proofs/FiltersProofs.v. *)
From RJ Require Import Base.Prelude Model.Regex Model.RegexParse.
From Coq Require Import String.
Local Open Scope char_scope.

Inductive sign := Inc | Exc.
Definition opposite (s : sign) : sign := match s with Inc => Exc | Exc => Inc end.

(* ---- the code ---- *)
(* format!("^(?:{pattern})$")  (after the fix of F1) *)
Definition wrap (p : str) : str := ["^"; "("; "?"; ":"] ++ p ++ [")"; "$"].
(* format!("^{pattern}$")  (the pinned tree) *)
Definition wrap_old (p : str) : str := ["^"] ++ p ++ ["$"].

Definition split_sign (f : str) : option (sign * str) :=
  match f with
  | "+" :: pat => Some (Inc, pat)
  | "-" :: pat => Some (Exc, pat)
  | _ => None
  end.

Fixpoint all_some {A} (l : list (option A)) : option (list A) :=
  match l with
  | [] => Some []
  | Some a :: l' => option_map (cons a) (all_some l')
  | None :: _ => None
  end.

(* What Filters holds and what is serialised: the pattern texts and the kinds. *)
Record filters := mkFilters { fl_patterns : list str; fl_kinds : list sign }.

Definition e_sign : str := list_ascii_of_string "sign".
Definition e_regex : str := list_ascii_of_string "regex".
Definition e_kinds : str := list_ascii_of_string "kinds index out of range".

(* RegexSet::new on the texts: every one must compile *)
Definition regex_set (pats : list str) : option (list re) := all_some (map parse pats).

(* [w] = how the pattern text is wrapped before it is handed to the regex crate *)
Definition compile_filters_w (w : str -> str) (fs : list str) : outcome filters :=
  match all_some (map split_sign fs) with
  | None => Err e_sign                       (* checked for every filter before any regex is compiled *)
  | Some sp =>
      let pats := map (fun x => w (snd x)) sp in
      match regex_set pats with
      | None => Err e_regex
      | Some _ => Ok (mkFilters pats (map fst sp))
      end
  end.

Definition compile_filters : list str -> outcome filters := compile_filters_w wrap.

(* the loop over RegexSet matches in index order; kinds[idx] panics when out of range *)
Fixpoint last_match (kinds : list sign) (res : list re) (p : str) (st : sign) : outcome sign :=
  match res with
  | [] => Ok st
  | r :: res' =>
      match kinds with
      | k :: kinds' => last_match kinds' res' p (if search r p then k else st)
      | [] => if search r p then Panic e_kinds else last_match [] res' p st
      end
  end.

Definition apply_filters (kinds : list sign) (res : list re) (p : str) : outcome sign :=
  match p with
  | [] => Ok Inc                              (* the root is always included *)
  | _ => last_match kinds res p (match kinds with Inc :: _ => Exc | Exc :: _ => Inc | [] => Inc end)
  end.

(* a doer: deserialise (compile the texts again), then apply *)
Definition doer_verdict (fl : filters) (p : str) : outcome sign :=
  match regex_set (fl_patterns fl) with
  | None => Err e_regex
  | Some res => apply_filters (fl_kinds fl) res p
  end.

(* the boss keeps the set it compiled itself (local doers receive it unserialised) *)
Definition boss_verdict (fs : list str) (p : str) : outcome sign := obind (compile_filters fs) (fun fl => doer_verdict fl p).
Definition model_verdict := boss_verdict.
(* the pinned tree, before the fix of F1 *)
Definition old_verdict (fs : list str) (p : str) : outcome sign := obind (compile_filters_w wrap_old fs) (fun fl => doer_verdict fl p).

(* ---- the documented rule, over each pattern's own AST ---- *)
Fixpoint last_matching (fs : list (sign * re)) (p : str) : option sign :=
  match fs with
  | [] => None
  | (sg, r) :: tl =>
      match last_matching tl p with
      | Some x => Some x
      | None => if fullmatch r p then Some sg else None
      end
  end.

Definition spec_verdict (fs : list (sign * re)) (p : str) : sign :=
  match p with
  | [] => Inc
  | _ => match last_matching fs p with
         | Some sg => sg
         | None => match fs with (sg, _) :: _ => opposite sg | [] => Inc end
         end
  end.

(* a filter text of the subset: sign character followed by a pattern the subset parser accepts *)
Definition own_ast (f : str) : option (sign * re) :=
  match split_sign f with
  | Some (sg, pat) => option_map (pair sg) (parse pat)
  | None => None
  end.

(* ---- the walk ---- *)
Inductive tree := File | Link | Dir (children : list (str * tree)).

Definition join (prefix name : str) : str :=
  match prefix with [] => name | _ => prefix ++ "/" :: name end.

(* Sequential view of parallel_walk_dir + filter_func: an entry is reported iff the filter keeps it,
   and only kept folders are descended into.  [inc] is the verdict on a rendered root-relative path. *)
Fixpoint walk (inc : str -> bool) (prefix : str) (t : tree) : list str :=
  match t with
  | Dir ch =>
      (fix go (l : list (str * tree)) : list str :=
         match l with
         | [] => []
         | (nm, c) :: l' =>
             (if inc (join prefix nm) then join prefix nm :: walk inc (join prefix nm) c else []) ++ go l'
         end) ch
  | _ => []
  end.

(* every entry below the root, with the chain of its proper ancestors below the root *)
Fixpoint entries (prefix : str) (anc : list str) (t : tree) : list (str * list str) :=
  match t with
  | Dir ch =>
      (fix go (l : list (str * tree)) : list (str * list str) :=
         match l with
         | [] => []
         | (nm, c) :: l' =>
             (join prefix nm, anc) :: entries (join prefix nm) (join prefix nm :: anc) c ++ go l'
         end) ch
  | _ => []
  end.

Definition survives (inc : str -> bool) (e : str * list str) : bool := inc (fst e) && forallb inc (snd e).

Definition included (fl : filters) (p : str) : bool :=
  match doer_verdict fl p with Ok Inc => true | _ => false end.

(* ---- the property text, as a proposition over the relational regex semantics ---- *)
Definition no_match (p : str) (x : sign * re) : Prop := ~ matches_whole (snd x) p.
(* "the starting state is the opposite of the first filter's sign, every filter whose regular
   expression matches the entire path sets the state to its sign, and the last such filter decides" *)
Definition decides (asts : list (sign * re)) (p : str) (sg : sign) : Prop :=
  (exists pre r post, asts = pre ++ (sg, r) :: post /\ matches_whole r p /\ Forall (no_match p) post)
  \/ (Forall (no_match p) asts /\ sg = match asts with (s0, _) :: _ => opposite s0 | [] => Inc end).
(* "the root always does" *)
Definition takes_part (asts : list (sign * re)) (p : str) : Prop := p = [] \/ decides asts p Inc.
