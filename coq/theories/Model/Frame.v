(* Frame codec and sender / receiver automata of the boss-doer TCP link
   (encrypted_comms.rs: send 186-229, receive 231-278, the two thread loops 49-71, 85-114).
   Definitions only.  The AEAD is abstract: every definition takes [seal] / [open] as parameters
   (Section variables); a toy ideal functionality at the end instantiates them.

   Frame on the wire   = 8-byte little-endian length of the ciphertext ++ ciphertext.
   Nonce of a frame    = counter as 8 little-endian bytes ++ 4 zero bytes, counter = lsb + 2*index,
                         lsb 0 for boss -> doer, 1 for doer -> boss (boss_launch.rs 305-311, doer.rs 263-268).
   [bump] selects the code as it is on the pinned tree ([false]: the result of
   [checked_add(2)] is discarded, the counter never advances - finding F2) or as repaired ([true]). *)
From Coq Require Import String.
From RJ Require Import Base.Prelude.
Local Open Scope N_scope.

Notation bytes := (list ascii) (only parsing).

Definition blit (s : string) : bytes := list_ascii_of_string s.

(* ---------------------------------------------------------------- little-endian integers *)
Fixpoint le_bytes (k : nat) (n : N) : bytes :=
  match k with
  | O => []
  | S k' => ascii_of_N (n mod 256) :: le_bytes k' (n / 256)
  end.

Fixpoint le_value (b : bytes) : N :=
  match b with
  | [] => 0
  | c :: r => N_of_ascii c + 256 * le_value r
  end.

Definition blen (b : bytes) : N := N.of_nat (length b).

(* ---------------------------------------------------------------- constants of the code *)
Definition buf_size : N := 8388608.            (* vec![0u8; 8192 * 1024] in both threads *)
Definition u64_limit : N := 18446744073709551616.   (* 2^64 *)
Definition idx_limit : N := 9223372036854775808.    (* 2^63 frames per direction *)

Inductive dir := BossToDoer | DoerToBoss.
Definition lsb (d : dir) : N := match d with BossToDoer => 0 | DoerToBoss => 1 end.
Definition other (d : dir) : dir := match d with BossToDoer => DoerToBoss | DoerToBoss => BossToDoer end.
Definition dir_eqb (a b : dir) : bool :=
  match a, b with BossToDoer, BossToDoer | DoerToBoss, DoerToBoss => true | _, _ => false end.

Definition nonce_of (ctr : N) : bytes := le_bytes 8 ctr ++ repeat zero 4.
Definition nonce (d : dir) (i : N) : bytes := nonce_of (lsb d + 2 * i).

Definition frame_of (c : bytes) : bytes := le_bytes 8 (blen c) ++ c.

(* Why a receiver stopped for good.  The first three are panics of the receiving thread
   (slice index / assert / unwrap), the others are the Err(..) returns of [receive]. *)
Inductive fail_reason :=
| FOversize        (* &mut buffer[0..encrypted_len] with encrypted_len > 8 MiB: slice index panic *)
| FParity          (* assert!(counter % 2 == nonce_lsb) *)
| FCounterOverflow (* checked_add(2).unwrap() *)
| FDecrypt         (* "Error decrypting" *)
| FDeserialize     (* "Error deserializing" *)
| FEof.            (* read_exact: connection closed inside / between frames *)

Inductive rphase :=
| RLen (acc : bytes)                 (* bytes of the length header read so far, newest first, < 8 *)
| RBody (remaining : N) (acc : bytes). (* ciphertext bytes still to read (>= 1), bytes read newest first *)

Inductive rstatus :=
| RRun (ph : rphase)
| RFailed (why : fail_reason)
| RFinished.                         (* the final message was delivered: the thread returned Ok *)

Record rstate := mkR { r_ctr : N; r_st : rstatus }.

Definition opt_cons {A} (o : option A) (l : list A) : list A :=
  match o with Some a => a :: l | None => l end.

Section Link.
  (* the AEAD, for the one key of the session *)
  Variable seal : bytes -> bytes -> bytes.            (* nonce -> plaintext -> ciphertext *)
  Variable open : bytes -> bytes -> option bytes.     (* nonce -> ciphertext -> plaintext *)
  (* message layer, abstract here (Bincode.v owns it): does the plaintext deserialize, is it the
     final message of its direction (Command::Shutdown / Response::ProfilingData) *)
  Variable wf : bytes -> bool.
  Variable fin : bytes -> bool.
  Variable bump : bool.

  Definition next_ctr (ctr : N) : N := if bump then ctr + 2 else ctr.

  (* -------------------------------------------------------------- sender (fn send) *)
  Definition send_step (d : dir) (ctr : N) (m : bytes) : outcome (N * bytes) :=
    if buf_size - 8 <? blen m then Err (blit "Error serializing command")     (* serialize_into(&mut buffer[8..]) *)
    else if negb (ctr mod 2 =? lsb d) then Panic (blit "assert nonce parity")
    else if u64_limit <=? ctr + 2 then Panic (blit "checked_add(2).unwrap()")
    else let c := seal (nonce_of ctr) m in
         if buf_size - 8 <? blen c then Panic (blit "SliceBuffer::extend_from_slice") (* the tag does not fit *)
         else Ok (next_ctr ctr, frame_of c).

  Fixpoint send_all (d : dir) (ctr : N) (ms : list bytes) : outcome (N * list bytes) :=
    match ms with
    | [] => Ok (ctr, [])
    | m :: r => obind (send_step d ctr m) (fun x =>
                obind (send_all d (fst x) r) (fun y => Ok (fst y, snd x :: snd y)))
    end.

  (* what the sender handed to the AEAD: (nonce, plaintext, ciphertext), oldest first *)
  Fixpoint seal_log (ctr : N) (ms : list bytes) : list (bytes * bytes * bytes) :=
    match ms with
    | [] => []
    | m :: r => (nonce_of ctr, m, seal (nonce_of ctr) m) :: seal_log (next_ctr ctr) r
    end.

  (* the ciphertexts of an honest sender that starts at [ctr] *)
  Fixpoint seal_cts (ctr : N) (ms : list bytes) : list bytes :=
    match ms with
    | [] => []
    | m :: r => seal (nonce_of ctr) m :: seal_cts (next_ctr ctr) r
    end.

  (* -------------------------------------------------------------- receiver (fn receive + thread loop) *)
  (* a complete ciphertext [c] has been read; the counter is stepped before the decryption *)
  Definition finish_frame (d : dir) (ctr : N) (c : bytes) : rstate * option bytes :=
    if negb (ctr mod 2 =? lsb d) then (mkR ctr (RFailed FParity), None)
    else if u64_limit <=? ctr + 2 then (mkR ctr (RFailed FCounterOverflow), None)
    else match open (nonce_of ctr) c with
         | None => (mkR (next_ctr ctr) (RFailed FDecrypt), None)
         | Some m =>
             if wf m then (mkR (next_ctr ctr) (if fin m then RFinished else RRun (RLen [])), Some m)
             else (mkR (next_ctr ctr) (RFailed FDeserialize), None)
         end.

  (* one byte arrives from the socket *)
  Definition recv_byte (d : dir) (st : rstate) (b : ascii) : rstate * option bytes :=
    match r_st st with
    | RFailed _ | RFinished => (st, None)
    | RRun (RLen acc) =>
        let acc' := b :: acc in
        if (length acc' <? 8)%nat then (mkR (r_ctr st) (RRun (RLen acc')), None)
        else let len := le_value (rev acc') in
             if buf_size <? len then (mkR (r_ctr st) (RFailed FOversize), None)
             else if len =? 0 then finish_frame d (r_ctr st) []
             else (mkR (r_ctr st) (RRun (RBody len [])), None)
    | RRun (RBody remaining acc) =>
        let acc' := b :: acc in
        if remaining =? 1 then finish_frame d (r_ctr st) (rev acc')
        else (mkR (r_ctr st) (RRun (RBody (remaining - 1) acc')), None)
    end.

  (* a TCP segment (any number of bytes) arrives *)
  Fixpoint recv_bytes (d : dir) (st : rstate) (w : bytes) : rstate * list bytes :=
    match w with
    | [] => (st, [])
    | b :: w' =>
        let r := recv_byte d st b in
        let r' := recv_bytes d (fst r) w' in
        (fst r', opt_cons (snd r) (snd r'))
    end.

  Fixpoint recv_segments (d : dir) (st : rstate) (segs : list bytes) : rstate * list bytes :=
    match segs with
    | [] => (st, [])
    | s :: r =>
        let a := recv_bytes d st s in
        let b := recv_segments d (fst a) r in
        (fst b, snd a ++ snd b)
    end.

  (* the peer closes the connection *)
  Definition recv_eof (st : rstate) : rstate :=
    match r_st st with
    | RRun _ => mkR (r_ctr st) (RFailed FEof)
    | _ => st
    end.

  Definition r_init (d : dir) : rstate := mkR (lsb d) (RRun (RLen [])).

  Definition is_failed (st : rstate) : bool := match r_st st with RFailed _ => true | _ => false end.
  Definition is_waiting (st : rstate) : bool := match r_st st with RRun _ => true | _ => false end.

  (* the frame layer without the AEAD view: messages of a stream, for C14 *)
  Definition decode_stream (d : dir) (segs : list bytes) : list bytes := snd (recv_segments d (r_init d) segs).
End Link.

(* ---------------------------------------------------------------- specification-side helpers *)
Fixpoint starts_with (p w : bytes) : bool :=
  match p, w with
  | [], _ => true
  | a :: p', b :: w' => Ascii.eqb a b && starts_with p' w'
  | _ :: _, [] => false
  end.

(* number of leading frames of [w] that are, in order, the frames [fs] *)
Fixpoint lead (fs : list bytes) (w : bytes) : nat :=
  match fs with
  | [] => O
  | f :: r => if starts_with f w then S (lead r (skipn (length f) w)) else O
  end.

(* the bytes of [w] after its leading frames *)
Fixpoint after_lead (fs : list bytes) (w : bytes) : bytes :=
  match fs with
  | [] => w
  | f :: r => if starts_with f w then after_lead r (skipn (length f) w) else w
  end.

(* [w] begins with one complete frame whose length field is acceptable, or with a length field
   that is not acceptable: the receiver has enough bytes to decide *)
Definition decidable_head (w : bytes) : bool :=
  (8 <=? length w)%nat &&
  (let len := le_value (firstn 8 w) in
   (buf_size <? len) || (len <=? N.of_nat (length w - 8))).

(* messages up to and including the first final one *)
Fixpoint upto_final (fin : bytes -> bool) (ms : list bytes) : list bytes :=
  match ms with
  | [] => []
  | m :: r => if fin m then [m] else m :: upto_final fin r
  end.


(* ---------------------------------------------------------------- premises of the C10 theorems *)
(* the honest sender of direction [d] (repaired code) sealed and framed [ms] without failing *)
Definition honest_run (seal : bytes -> bytes -> bytes) (d : dir) (ms frames : list bytes) : Prop :=
  exists ctr', send_all seal true d (lsb d) ms = Ok (ctr', frames).

(* everything sealed under the session key: by the sender of [d] and by the sender of the other direction *)
Definition dir_log (seal : bytes -> bytes -> bytes) (d : dir) (sent_d sent_o : list bytes) :=
  seal_log seal true (lsb d) sent_d ++ seal_log seal true (lsb (other d)) sent_o.

(* H1 (what was sealed honestly opens) and H2 (ideal authenticity: only that opens) *)
Definition ideal_aead (open : bytes -> bytes -> option bytes) (log : list (bytes * bytes * bytes)) : Prop :=
  (forall n m c, In (n, m, c) log -> open n c = Some m) /\
  (forall n m c, open n c = Some m -> In (n, m, c) log).

(* ---------------------------------------------------------------- a toy ideal AEAD *)
(* seal = nonce (12) ++ 4 tag bytes derived from the key ++ plaintext: the same 16 bytes of
   expansion as AES-128-GCM, so that model and implementation frames have equal lengths.
   open is the ideal functionality: it accepts exactly what is in the log of honest seals. *)
Definition toy_tag (k : bytes) : bytes := firstn 4 (k ++ repeat zero 4).
Definition toy_seal (k : bytes) (n m : bytes) : bytes := n ++ toy_tag k ++ m.

Fixpoint toy_lookup (log : list (bytes * bytes * bytes)) (n c : bytes) : option bytes :=
  match log with
  | [] => None
  | (n', m, c') :: r => if str_eqb n n' && str_eqb c c' then Some m else toy_lookup r n c
  end.

Definition toy_wf (m : bytes) : bool := (12 <=? length m)%nat.          (* a (u32, Vec<u8>) in bincode *)
Definition toy_fin (m : bytes) : bool := starts_with (repeat (ascii_of_N 255) 4) m.   (* id 0xffffffff *)

(* the log of a session: everything either side sealed under the key; [c0] / [c1] are the
   counters the boss's / the doer's sender starts from (0 and 1 in the code) *)
Definition toy_log (bump : bool) (k : bytes) (c0 : N) (sent0 : list bytes) (c1 : N) (sent1 : list bytes) :=
  seal_log (toy_seal k) bump c0 sent0 ++ seal_log (toy_seal k) bump c1 sent1.

Definition toy_session_log (bump : bool) (k : bytes) (sent0 sent1 : list bytes) :=
  toy_log bump k (lsb BossToDoer) sent0 (lsb DoerToBoss) sent1.

Definition toy_open (log : list (bytes * bytes * bytes)) : bytes -> bytes -> option bytes := toy_lookup log.

Definition toy_send (bump : bool) (k : bytes) (d : dir) (ctr : N) (ms : list bytes) :=
  send_all (toy_seal k) bump d ctr ms.

Definition toy_recv (bump : bool) (log : list (bytes * bytes * bytes)) (d : dir) (st : rstate) (seg : bytes) :=
  recv_bytes (toy_open log) toy_wf toy_fin bump d st seg.

Definition fail_name (f : fail_reason) : bytes :=
  match f with
  | FOversize => blit "panic-oversize"
  | FParity => blit "panic-parity"
  | FCounterOverflow => blit "panic-overflow"
  | FDecrypt => blit "decrypt"
  | FDeserialize => blit "deserialize"
  | FEof => blit "eof"
  end.
