(* File-system model and the doer's command interpreter (doer.rs:369-547, 714-742), Unix flavour, with
   a Windows-flavour switch for the branches that differ.  A tree is an association list from
   root-relative paths to nodes; [] is the root object itself.  Effects that would leave the root
   (path resolution through a symlink) are recorded in an event log instead of being performed. *)
From RJ Require Import Base.Prelude Base.OrderedPlan Model.Settings Model.Core.

Inductive stamp := TSet (t : Z) | TNow (tick : N).   (* TNow: stamped by a write at run time (clock premise: never equal to a TSet) *)
Definition stamp_eqb (a b : stamp) : bool :=
  match a, b with TSet x, TSet y => Z.eqb x y | TNow x, TNow y => N.eqb x y | _, _ => false end.

Inductive node :=
| NFile (mt : stamp) (data : str)
| NFolder
| NLink (text : str) (k : skind).      (* k: what the link resolves to on this machine (file / folder / nothing) *)

Definition fs := list (path * node).
Definition fget (f : fs) (p : path) : option node := alookup path path_eq_dec p f.
Definition fset (f : fs) (p : path) (n : node) : fs := ainsert path path_eq_dec p n f.
Definition fdel (f : fs) (p : path) : fs := aremove path path_eq_dec p f.

Definition has_children (f : fs) (p : path) : bool :=
  existsb (fun e => is_strict_prefix p (fst e)) f.

Inductive anc := AncOk | AncMissing | AncBlocked.     (* state of the ancestors of the root path *)
Inductive event := Through (q : path) | CreatedAncestors.

Inductive flavour := Unix | Windows.

Inductive errc := EExist | ENoEnt | ENotDir | EIsDir | ENotEmpty | EUnexpectedContinue | EUnknownKind | EInjected | ERefused | EWrite | EKilled.

(* bookkeeping of file transfers: the transfer whose earlier chunk failed (failed_file_receive), and
   the write fault plan: which write_all calls (counted from 0) report a failure *)
Record dext := mkX { x_failed : option path; x_wfail : list N; x_nwrites : N;
                      x_faildel : list path }.   (* paths whose deletion failed: nothing at or below them is touched any more *)
Definition dext0 : dext := mkX None [] 0 [].

Record dstate := mkD {
  d_fs : fs;
  d_anc : anc;
  d_tick : N;
  d_open : option path;          (* in_progress_file_receive *)
  d_events : list event;
  d_x : dext }.

(* ---- path resolution of everything above the final component ---- *)
Inductive pres := PROk | PRThrough (q : path) | PRErr (e : errc).

(* [pre] is the prefix already checked (reversed use avoided: we carry it as a path), [rest] the remaining components
   including the final one *)
Fixpoint check_above (f : fs) (pre : path) (rest : path) : pres :=
  match rest with
  | [] => PROk
  | [_] => match fget f pre with
           | Some NFolder => PROk
           | Some (NLink _ SKFolder) => PRThrough pre
           | Some (NLink _ SKFile) => PRErr ENotDir
           | Some (NLink _ SKUnknown) => PRErr ENoEnt
           | Some (NFile _ _) => PRErr ENotDir
           | None => PRErr ENoEnt
           end
  | c :: rest' =>
      match fget f pre with
      | Some NFolder => check_above f (pre ++ [c]) rest'
      | Some (NLink _ SKFolder) => PRThrough pre
      | Some (NLink _ SKFile) => PRErr ENotDir
      | Some (NLink _ SKUnknown) => PRErr ENoEnt
      | Some (NFile _ _) => PRErr ENotDir
      | None => PRErr ENoEnt
      end
  end.

Definition resolve_above (st : dstate) (p : path) : pres :=
  match p with
  | [] => match d_anc st with AncOk => PROk | AncMissing => PRErr ENoEnt | AncBlocked => PRErr ENotDir end
  | _ => check_above (d_fs st) [] p
  end.

Definition with_fs (st : dstate) (f : fs) : dstate := mkD f (d_anc st) (d_tick st) (d_open st) (d_events st) (d_x st).
Definition with_event (st : dstate) (e : event) : dstate := mkD (d_fs st) (d_anc st) (d_tick st) (d_open st) (d_events st ++ [e]) (d_x st).
Definition with_open (st : dstate) (o : option path) : dstate := mkD (d_fs st) (d_anc st) (d_tick st) o (d_events st) (d_x st).
Definition tick (st : dstate) : dstate := mkD (d_fs st) (d_anc st) (d_tick st + 1) (d_open st) (d_events st) (d_x st).
Definition with_failed (st : dstate) (o : option path) : dstate :=
  mkD (d_fs st) (d_anc st) (d_tick st) (d_open st) (d_events st) (mkX o (x_wfail (d_x st)) (x_nwrites (d_x st)) (x_faildel (d_x st))).
Definition count_write (st : dstate) : dstate :=
  mkD (d_fs st) (d_anc st) (d_tick st) (d_open st) (d_events st) (mkX (x_failed (d_x st)) (x_wfail (d_x st)) (x_nwrites (d_x st) + 1) (x_faildel (d_x st))).
(* the F6b repair: a deletion that failed is remembered; queued commands for that path or anything inside it are refused *)
Definition note_faildel (st : dstate) (p : path) : dstate :=
  mkD (d_fs st) (d_anc st) (d_tick st) (d_open st) (d_events st)
      (mkX (x_failed (d_x st)) (x_wfail (d_x st)) (x_nwrites (d_x st)) (p :: x_faildel (d_x st))).
Definition blocked_at (st : dstate) (p : path) : bool := existsb (fun q => is_prefix q p) (x_faildel (d_x st)).
Definition write_fails (st : dstate) : bool := existsb (N.eqb (x_nwrites (d_x st))) (x_wfail (d_x st)).
Definition refuses (st : dstate) (p : path) : bool :=
  match x_failed (d_x st) with Some q => path_eqb q p | None => false end.

(* link text written by CreateSymlink (doer.rs:719-722): Normalized text gets the platform separator *)
Definition backslash : ascii := ascii_of_nat 92.
Definition slash : ascii := ascii_of_nat 47.
Definition denormalize (fl : flavour) (t : target) : str :=
  match t with
  | TRaw s => s
  | TNorm s => match fl with Unix => s | Windows => map (fun c => if Ascii.eqb c slash then backslash else c) s end
  end.

(* CreateOrUpdateFile, step 1: the continuation of an open transfer, or File::create (which follows a
   symlink in the final component, truncates an existing file, creates a missing one). *)
Inductive open_res := OpFile (st : dstate) | OpOutside (st : dstate) | OpErr (e : errc).
Definition open_for_write (st : dstate) (p : path) : open_res :=
  match d_open st with
  | Some q =>
      if path_eqb q p then
        match fget (d_fs st) p with
        | Some (NFile _ _) => OpFile (with_open st None)
        | _ => OpOutside (with_open st None)            (* the handle points outside the tree *)
        end
      else OpErr EUnexpectedContinue
  | None =>
      match resolve_above st p with
      | PRErr e => OpErr e
      | PRThrough q => OpOutside (with_event st (Through q))
      | PROk =>
          match fget (d_fs st) p with
          | Some (NLink _ SKFolder) | Some NFolder => OpErr EIsDir
          | Some (NLink _ _) => OpOutside (with_event st (Through p))
          | Some (NFile _ _) | None => OpFile (tick (with_fs st (fset (d_fs st) p (NFile (TNow (d_tick st)) []))))
          end
      end
  end.
Definition file_data (f : fs) (p : path) : str := match fget f p with Some (NFile _ d) => d | _ => [] end.
(* step 2: write_all appends and stamps the file with the current time *)
Definition write_chunk (st : dstate) (p : path) (data : str) : dstate :=
  tick (with_fs st (fset (d_fs st) p (NFile (TNow (d_tick st)) (file_data (d_fs st) p ++ data)))).
(* step 4: set_file_mtime *)
Definition stamp_file (st : dstate) (p : path) (t : Z) : dstate :=
  with_fs st (fset (d_fs st) p (NFile (TSet t) (file_data (d_fs st) p))).

(* One command.  Result: new state and the error reported to the boss, if any. *)
Definition doer_exec (fl : flavour) (st : dstate) (c : cmd) : dstate * option errc :=
  match c with
  | CSetRoot | CGetEntries | CGetFileContent _ | CMarker | CShutdown => (st, None)
  | CCreateRootAncestors =>
      match d_anc st with
      | AncOk => (st, None)
      | AncMissing => (with_event (mkD (d_fs st) AncOk (d_tick st) (d_open st) (d_events st) (d_x st)) CreatedAncestors, None)
      | AncBlocked => (st, Some ENotDir)
      end
  | CCreateFolder p =>
      if blocked_at st p then (st, Some ERefused) else
      match resolve_above st p with
      | PRErr e => (st, Some e)
      | PRThrough q => (with_event st (Through q), None)
      | PROk => match fget (d_fs st) p with
                | Some _ => (st, Some EExist)
                | None => (with_fs st (fset (d_fs st) p NFolder), None)
                end
      end
  | CDeleteFile p =>
      if blocked_at st p then (st, Some ERefused) else
      match resolve_above st p with
      | PRErr e => (note_faildel st p, Some e)
      | PRThrough q => (with_event st (Through q), None)
      | PROk => match fget (d_fs st) p with
                | Some (NFile _ _) | Some (NLink _ _) => (with_fs st (fdel (d_fs st) p), None)
                | Some NFolder => (note_faildel st p, Some EIsDir)
                | None => (note_faildel st p, Some ENoEnt)
                end
      end
  | CDeleteFolder p =>
      if blocked_at st p then (st, Some ERefused) else
      match resolve_above st p with
      | PRErr e => (note_faildel st p, Some e)
      | PRThrough q => (with_event st (Through q), None)
      | PROk => match fget (d_fs st) p with
                | Some NFolder => if has_children (d_fs st) p then (note_faildel st p, Some ENotEmpty)
                                  else (with_fs st (fdel (d_fs st) p), None)
                | Some (NFile _ _) | Some (NLink _ _) => (note_faildel st p, Some ENotDir)
                | None => (note_faildel st p, Some ENoEnt)
                end
      end
  | CDeleteSymlink p k =>
      if blocked_at st p then (st, Some ERefused) else
      match fl, k with
      | Windows, SKUnknown => (note_faildel st p, Some EUnknownKind)
      | _, _ =>
        match resolve_above st p with
        | PRErr e => (note_faildel st p, Some e)
        | PRThrough q => (with_event st (Through q), None)
        | PROk => match fget (d_fs st) p with
                  | Some (NFile _ _) | Some (NLink _ _) => (with_fs st (fdel (d_fs st) p), None)   (* remove_file *)
                  | Some NFolder => (note_faildel st p, Some EIsDir)
                  | None => (note_faildel st p, Some ENoEnt)
                  end
        end
      end
  | CCreateSymlink p k t =>
      if blocked_at st p then (st, Some ERefused) else
      match fl, k with
      | Windows, SKUnknown => (st, Some EUnknownKind)
      | _, _ =>
        match resolve_above st p with
        | PRErr e => (st, Some e)
        | PRThrough q => (with_event st (Through q), None)
        | PROk => match fget (d_fs st) p with
                  | Some _ => (st, Some EExist)
                  | None => (with_fs st (fset (d_fs st) p (NLink (denormalize fl t) k)), None)
                  end
        end
      end
  | CCreateOrUpdateFile p data set_mt more =>
      if blocked_at st p then (st, Some ERefused) else
      (* the rest of a transfer whose earlier chunk failed is refused (until its last chunk has passed) *)
      if refuses st p then (with_failed st (if more then Some p else None), Some ERefused)
      else
      let st0 := with_failed st (if more then Some p else None) in     (* if this chunk fails, refuse the rest *)
      match open_for_write st0 p with
      | OpErr e => (with_open st0 None, Some e)
      | OpOutside st1 => (with_failed (with_open st1 (if more then Some p else None)) None, None)
      | OpFile st1 =>
          (* write_all appends; a failing write leaves what it wrote, closes the handle and keeps the refusal *)
          let stw := write_chunk (count_write st1) p data in
          if write_fails st1 then (with_open stw None, Some EWrite)
          else
            let st2 := with_failed (with_open stw (if more then Some p else None)) None in
            (match set_mt with Some t => stamp_file st2 p t | None => st2 end, None)
      end
  end.

(* ---- what a doer reports ---- *)
Section Listing.
Variable now_z : N -> Z.           (* the wall-clock value of a run-time stamp, when a later run lists it *)
Variable incl : path -> bool.      (* filter verdict on a non-root path *)

Definition stamp_z (s : stamp) : Z := match s with TSet t => t | TNow k => now_z k end.

(* Link text normalisation (doer.rs:58-64 with root_relative_path.rs:55-81) is in Model/Paths.v;
   here the listing takes it as a function. *)
Variable normalize : str -> target.

Definition entry_of (n : node) : entry :=
  match n with
  | NFile mt data => EFile (stamp_z mt) (N.of_nat (length data))
  | NFolder => EFolder
  | NLink text k => ESymlink k (normalize text)
  end.

(* all strict non-root prefixes of p are included folders *)
Fixpoint visible_above (f : fs) (pre rest : path) : bool :=
  match rest with
  | [] => true
  | [_] => true
  | c :: rest' =>
      let q := pre ++ [c] in
      incl q && match fget f q with Some NFolder => visible_above f q rest' | _ => false end
  end.
Definition visible (f : fs) (p : path) : bool :=
  match p with [] => false | _ => incl p && visible_above f [] p end.

(* a deterministic listing: by depth, then in association-list order *)
Definition max_depth (f : fs) : nat := fold_right (fun e m => Nat.max (length (fst e)) m) 0 f.
Definition list_fs (f : fs) : list (path * entry) :=
  match fget f [] with
  | Some NFolder =>
      flat_map (fun d => flat_map (fun e => if Nat.eqb (length (fst e)) d && visible f (fst e)
                                            then [(fst e, entry_of (snd e))] else []) f)
               (seq 1 (max_depth f))
  | _ => []
  end.
End Listing.
