(* Model of the launch handshake between the boss and a doer started through ssh.

   boss_launch.rs:422-466  output_reader_thread_main  - one reader thread per ssh stream:  [classify], [reader]
   boss_launch.rs:582-666  the receive loop of launch_doer_via_ssh                          [boss_step], [run_from]

   The two reader threads feed one mpsc channel; the main loop sees one sequence of
   (stream, message) pairs: some interleaving of the two per-stream message sequences.
   Executable Gallina only; proofs are in Proofs/HandshakeProofs.v. *)
From RJ Require Import Base.Prelude.
From Coq Require Import String.
Local Open Scope N_scope.

Definition hlit (s : string) : str := list_ascii_of_string s.

Inductive stream := Stdout | Stderr.

Definition stream_eqb (a b : stream) : bool :=
  match a, b with Stdout, Stdout | Stderr, Stderr => true | _, _ => false end.

(* One call of read_line on a stream: a line (what was appended to the buffer, including the
   terminating newline when there was one; never empty), end of stream, or an I/O error (this
   includes a line that is not valid UTF-8). *)
Inductive read := RLine (raw : str) | REof | RErr.

(* OutputReaderThreadMsg (without the stream handle carried by HandshakeCompleted). *)
Inductive msg :=
| MLine (l : str)
| MError
| MClosed
| MStarted (l : str)
| MCompleted (l : str).

(* Version string of this build and the two handshake prefixes (boss_doer_interface.rs);
   instantiated from Gen/Facts.v, i.e. from the running code. *)
Record hcfg := mkCfg { own_version : str; started_prefix : str; completed_prefix : str }.

Fixpoint starts_with (p s : str) : bool :=
  match p, s with
  | [], _ => true
  | _ :: _, [] => false
  | a :: p', b :: s' => Ascii.eqb a b && starts_with p' s'
  end.

Fixpoint contains (needle hay : str) : bool :=
  starts_with needle hay ||
  match hay with [] => false | _ :: t => contains needle t end.

(* The three "not present" texts the loop looks for (bash, cmd x 2). *)
Definition marker_unix : str := hlit "No such file or directory".
Definition marker_win_path : str := hlit "The system cannot find the path specified".
Definition marker_win_cmd : str := hlit "is not recognized as an internal or external command".

Definition has_marker (l : str) : bool :=
  contains marker_unix l || contains marker_win_path l || contains marker_win_cmd l.

(* l.pop() after read_line: removes the last character (the newline of a terminated line; the
   last real character of an unterminated final line - exact for ASCII, which is all a
   terminated line can end in). *)
Definition pop_line (raw : str) : str := removelast raw.

Definition classify (c : hcfg) (raw : str) : msg :=
  let l := pop_line raw in
  if starts_with (started_prefix c) l then MStarted l
  else if starts_with (completed_prefix c) l then MCompleted l
  else MLine l.

(* A reader thread: sends one message per read and stops after an error, the end of the stream
   or a Completed line.  When the reads run out the thread is blocked in read_line. *)
Fixpoint reader (c : hcfg) (rs : list read) : list msg :=
  match rs with
  | [] => []
  | RErr :: _ => [MError]
  | REof :: _ => [MClosed]
  | RLine raw :: t =>
      match classify c raw with
      | MCompleted l => [MCompleted l]
      | m => m :: reader c t
      end
  end.

(* str::parse::<u16>(): optional '+', then decimal digits, value <= 65535. *)
Definition dec_val (ch : ascii) : option N :=
  let n := N_of_ascii ch in
  if (48 <=? n) && (n <=? 57) then Some (n - 48) else None.

Fixpoint parse_dec (limit acc : N) (s : str) : option N :=
  match s with
  | [] => Some acc
  | ch :: t =>
      match dec_val ch with
      | None => None
      | Some d => let v := acc * 10 + d in
                  if v <? limit then parse_dec limit v t else None
      end
  end.

Definition parse_u16 (s : str) : option N :=
  match s with
  | [] => None
  | ch :: t =>
      if Ascii.eqb ch "+"%char
      then match t with [] => None | _ => parse_dec 65536 0 t end
      else parse_dec 65536 0 s
  end.

(* SshDoerLaunchResult, plus LBlocked: the loop waits for ever because a stream stays open and
   silent.  LSuccess carries the port and *which* generated key the boss remembered (the index
   of the key write: every write generates a fresh key). *)
Inductive lres :=
| LSuccess (port : N) (key_ix : nat)
| LIncompat (actual : str)
| LNotPresent
| LCommErr
| LExited
| LBlocked
| LFailedSsh.

(* State of the receive loop.  h_out / h_err: handshook_data.stdout / .stderr is Some;
   h_key: handshook_data.secret_key (index of the write that produced it); h_writes: keys generated
   and written so far; h_tout / h_terr: the reader thread of that stream has finished. *)
Record hs := mkHs {
  h_out : bool; h_err : bool; h_key : option nat; h_writes : nat; h_tout : bool; h_terr : bool }.

Definition hs_init : hs := mkHs false false None 0 false false.

Definition thread_done (s : stream) (st : hs) : hs :=
  match s with
  | Stdout => mkHs (h_out st) (h_err st) (h_key st) (h_writes st) true (h_terr st)
  | Stderr => mkHs (h_out st) (h_err st) (h_key st) (h_writes st) (h_tout st) true
  end.

Definition mark_completed (s : stream) (st : hs) : hs :=
  match s with
  | Stdout => mkHs true (h_err st) (h_key st) (h_writes st) true (h_terr st)
  | Stderr => mkHs (h_out st) true (h_key st) (h_writes st) (h_tout st) true
  end.

Definition key_written (st : hs) : hs :=
  mkHs (h_out st) (h_err st) (Some (h_writes st)) (S (h_writes st)) (h_tout st) (h_terr st).

(* The text after the prefix: line.split_at(PREFIX.len()).1 *)
Definition after_prefix (p l : str) : str := skipn (List.length p) l.

(* One iteration of the loop.  The flag says whether a key was generated and written to the
   doer's stdin in this iteration ([wok]: the write succeeds). *)
Inductive step_res := Continue (st : hs) (wrote : bool) | Done (r : lres) (wrote : bool).

Definition boss_step (c : hcfg) (wok : bool) (st : hs) (ev : stream * msg) : step_res :=
  let (s, m) := ev in
  match m with
  | MLine l => if has_marker l then Done LNotPresent false else Continue st false
  | MStarted l =>
      let v := after_prefix (started_prefix c) l in
      if negb (str_eqb v (own_version c)) then Done (LIncompat v) false
      else match s with
           | Stdout => if wok then Continue (key_written st) true else Done LCommErr true
           | Stderr => Continue st false
           end
  | MCompleted l =>
      let st' := mark_completed s st in
      match parse_u16 (after_prefix (completed_prefix c) l) with
      | None => Done LCommErr false
      | Some p =>
          if h_out st' && h_err st'
          then match h_key st' with
               | Some k => Done (LSuccess p k) false
               | None => Continue st' false
               end
          else Continue st' false
      end
  | MError => Done LCommErr false
  | MClosed => Continue (thread_done s st) false
  end.

(* The loop over everything the channel delivers.  Result and the positions (indices into the
   event sequence, counted from [i]) at which a key was written.  When the events run out:
   RecvError (both threads finished) gives ExitedUnexpectedly; otherwise the loop blocks. *)
Fixpoint run_from (c : hcfg) (wok : bool) (st : hs) (i : nat) (evs : list (stream * msg))
  : lres * list nat :=
  match evs with
  | [] => (if h_tout st && h_terr st then LExited else LBlocked, [])
  | ev :: t =>
      match boss_step c wok st ev with
      | Done r w => (r, if w then [i] else [])
      | Continue st' w =>
          let (r, ws) := run_from c wok st' (S i) t in
          (r, if w then i :: ws else ws)
      end
  end.

Definition run (c : hcfg) (wok : bool) (evs : list (stream * msg)) : lres * list nat :=
  run_from c wok hs_init 0 evs.

(* ---- what a doer process writes (doer.rs:142-252) ---- *)
Definition nl : str := ["010"%char].
Definition started_line (c : hcfg) (version : str) : str := started_prefix c ++ version.

Fixpoint print_dec_fuel (fuel : nat) (n : N) (acc : str) : str :=
  match fuel with
  | O => acc
  | S f => let acc' := ascii_of_N (48 + n mod 10) :: acc in
           if n / 10 =? 0 then acc' else print_dec_fuel f (n / 10) acc'
  end.
Definition print_dec (n : N) : str := print_dec_fuel 20 n [].
Definition completed_line (c : hcfg) (port : N) : str := completed_prefix c ++ print_dec port.

(* A line is *noise* when the loop only shows it to the user: it starts with neither handshake
   prefix and contains none of the three markers. *)
Definition is_noise (c : hcfg) (l : str) : bool :=
  negb (starts_with (started_prefix c) l) && negb (starts_with (completed_prefix c) l) &&
  negb (has_marker l).

Definition tag (s : stream) (ms : list msg) : list (stream * msg) := map (pair s) ms.

(* Every Completed message comes after a Started message on stdout: a doer prints its Completed
   lines only after it has read the key, and the boss writes the key only when it processes the
   stdout Started line. *)
Fixpoint causal_from (key_sent : bool) (evs : list (stream * msg)) : bool :=
  match evs with
  | [] => true
  | (s, MCompleted _) :: t => key_sent && causal_from key_sent t
  | (s, MStarted _) :: t => causal_from (key_sent || stream_eqb s Stdout) t
  | _ :: t => causal_from key_sent t
  end.
Definition causal (evs : list (stream * msg)) : bool := causal_from false evs.
