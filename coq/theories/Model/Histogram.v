(* Model of the file-size histogram (C18): src/histogram.rs FileSizeHistogram::add and its Display.

     pub fn add(&mut self, val: u64) {
         let bucket = (val as f64).log10() as usize;
         while self.buckets.len() <= bucket { self.buckets.push(0); }
         self.buckets[bucket] += 1;
     }

   The bucket index is a parameter of [hist_add_at]: the no-panic theorem holds for EVERY index (the
   loop makes the vector long enough whatever the float computation returned).  [bucket_ideal] is the
   mathematical floor(log10 v), with 0 for v = 0: `(0 as f64).log10()` is -inf and a float-to-integer
   `as` cast saturates, so -inf becomes 0 (a NaN would become 0 too; it cannot arise from a u64).
   The real index differs from the ideal one only just below a power of ten from 10^15 on, where
   `val as f64` or the rounding of log10 reaches the integer (e.g. 10^16 - 1 lands in bucket 16); the
   correspondence run reports the real index for such values and checks it is the ideal one or one more.

   Counts are u32: `+= 1` overflows after 2^32 - 1 files in one bucket (a panic in a debug build); the
   theorem carries the premise that fewer values than that are added.
   Executable Gallina only; proofs are in Proofs/HistMetaProofs.v. *)
From RJ Require Import Base.Prelude Model.Chunk Model.Progress.
From Coq Require Import String.
Local Open Scope N_scope.

Definition e_index : str := plit "index out of bounds".

(* the while loop: push zeros until len > bucket *)
Definition grow (h : list N) (bucket : N) : list N :=
  h ++ repeat 0 (N.to_nat (bucket + 1 - lenN h)).

(* self.buckets[i] += 1 *)
Fixpoint incr_at (h : list N) (i : N) : outcome (list N) :=
  match h with
  | [] => Panic e_index
  | x :: t =>
    if i =? 0 then (if x + 1 <? u32_lim then Ok (x + 1 :: t) else Panic e_add_overflow)
    else obind (incr_at t (N.pred i)) (fun t' => Ok (x :: t'))
  end.

Definition hist_add_at (h : list N) (bucket : N) : outcome (list N) := incr_at (grow h bucket) bucket.

(* floor(log10 v) for v >= 1, 0 for v = 0 *)
Fixpoint log10_fuel (fuel : nat) (v : N) : N :=
  match fuel with
  | O => 0
  | S f => if v <? 10 then 0 else 1 + log10_fuel f (v / 10)
  end.
Definition bucket_ideal (v : N) : N := log10_fuel (N.to_nat (N.size v)) v.

Fixpoint hist_adds (bucket_of : N -> N) (h : list N) (vals : list N) : outcome (list N) :=
  match vals with
  | [] => Ok h
  | v :: t => obind (hist_add_at h (bucket_of v)) (fun h' => hist_adds bucket_of h' t)
  end.

(* ---------------------------------------------------------------------------------------------- *)
(* Display.  `*self.buckets.iter().max().unwrap()` is reached only for a non-empty vector; the bar of
   bucket x is drawn in row y (0 = top, h = 5 rows) when  count / max > (h - y - 1) / h  - computed in
   f32 by the code, as the exact comparison  5 * count > (4 - y) * max  here (the two agree as long as
   the counts are far below 2^24; a zero maximum would only make the float quotient NaN or infinite,
   never a panic - and the theorem shows the maximum is positive anyway). *)
Definition list_max (h : list N) : N := fold_right N.max 0 h.

Definition digit_char (d : N) : ascii := ascii_of_N (48 + d).
Fixpoint dec_fuel (fuel : nat) (v : N) (acc : str) : str :=
  match fuel with
  | O => acc
  | S f => let acc' := digit_char (v mod 10) :: acc in
           if v <? 10 then acc' else dec_fuel f (v / 10) acc'
  end.
Definition decimal (v : N) : str := dec_fuel (S (N.to_nat (N.size v))) v [].

Definition axis_label (x : N) : str :=
  if x =? 3 then plit "K" else if x =? 6 then plit "M" else if x =? 9 then plit "G" else decimal x.

Fixpoint axis (h : list N) (x : N) : str :=
  match h with [] => [] | _ :: t => axis_label x ++ axis t (N.succ x) end.

Definition bar_row (h : list N) (m : N) (y : N) : str :=
  map (fun c => if (4 - y) * m <? 5 * c then "#"%char else " "%char) h.

(* Iterator::max *)
Definition max_opt (h : list N) : option N :=
  match h with [] => None | x :: t => Some (N.max x (list_max t)) end.

(* the lines after the leading empty line *)
Definition hist_display (h : list N) : outcome (list str) :=
  if is_nil h then Ok [plit "Empty"]
  else match max_opt h with
       | None => Panic (plit "called `Option::unwrap()` on a `None` value")
       | Some m => Ok (map (bar_row h m) [0; 1; 2; 3; 4] ++ [axis h 0])
       end.
