(* Model of the key codec used when a remote doer is launched.

   boss_launch.rs:618-620   let key = Aes128Gcm::generate_key(&mut OsRng);
                            let msg = format!("{:x}\n", key);
       [key] is a GenericArray<u8, U16>; its LowerHex (generic-array 0.14.6, src/hex.rs:27-46) writes,
       without a precision, for every byte c the two characters LOWER_CHARS[c >> 4], LOWER_CHARS[c & 0xF]
       (LOWER_CHARS = "0123456789abcdef"): always two digits per byte, leading zero bytes kept.
   doer.rs:190-206          read_line; secret.pop();
                            u128::from_str_radix(&secret, 16)  ->  Ok(b) => b.to_be_bytes() | Err => exit 23

   Bytes are [N]; a byte string is well formed when every element is < 256 (stated as a premise
   where it matters).  Executable Gallina only; proofs are in Proofs/KeyHexProofs.v. *)
From RJ Require Import Base.Prelude.
Local Open Scope N_scope.

(* LOWER_CHARS[n] for n < 16: '0'..'9' are 48..57, 'a'..'f' are 97..102. *)
Definition hex_char (n : N) : ascii := ascii_of_N (if n <? 10 then 48 + n else 87 + n).

(* c >> 4 is c / 16 and c & 0xF is c mod 16 on a u8. *)
Definition print_byte (b : N) : str := [hex_char (b / 16); hex_char (b mod 16)].

Definition print_hex (k : list N) : str := flat_map print_byte k.

(* The line the boss writes to the doer's stdin. *)
Definition key_line (k : list N) : str := print_hex k ++ ["010"%char].

(* char::to_digit(16): 0-9, a-f and A-F. *)
Definition digit_val (c : ascii) : option N :=
  let n := N_of_ascii c in
  if (48 <=? n) && (n <=? 57) then Some (n - 48)
  else if (97 <=? n) && (n <=? 102) then Some (n - 87)
  else if (65 <=? n) && (n <=? 70) then Some (n - 55)
  else None.

Definition u128_limit : N := 340282366920938463463374607431768211456.   (* 2^128 *)

(* Digit loop of from_str_radix with checked arithmetic: an invalid digit or a value that does
   not fit in 128 bits is an error. *)
Fixpoint parse_digits (acc : N) (s : str) : option N :=
  match s with
  | [] => Some acc
  | c :: t =>
      match digit_val c with
      | None => None
      | Some d => let v := acc * 16 + d in
                  if v <? u128_limit then parse_digits v t else None
      end
  end.

(* u128::from_str_radix(s, 16): empty -> Err(Empty); a lone sign -> Err(InvalidDigit); one leading
   '+' is accepted; '-' is not a digit for an unsigned type. *)
Definition from_str_radix16 (s : str) : option N :=
  match s with
  | [] => None
  | c :: t =>
      if Ascii.eqb c "+"%char
      then match t with [] => None | _ => parse_digits 0 t end
      else parse_digits 0 s
  end.

(* The n least significant bytes of v, most significant first (u128::to_be_bytes for n = 16). *)
Fixpoint be_bytes (n : nat) (v : N) : list N :=
  match n with
  | O => []
  | S n' => be_bytes n' (v / 256) ++ [v mod 256]
  end.

(* What the doer makes of the key line (after the newline has been popped): the 16 key bytes, or
   None when it exits with code 23. *)
Definition parse_hex_u128_be (s : str) : option (list N) :=
  option_map (be_bytes 16) (from_str_radix16 s).

(* The value of a big-endian byte string continued from [acc]. *)
Definition be_val (acc : N) (k : list N) : N := fold_left (fun a b => a * 256 + b) k acc.

(* secret.pop(): drops the last character of the line read from stdin. *)
Definition pop_last (s : str) : str := removelast s.

Definition doer_key_of_line (line_with_newline : str) : option (list N) :=
  parse_hex_u128_be (pop_last line_with_newline).
