(* Byte-sequence primitives for the executable rewriters of exe_utils.rs (C19):
   N-indexed sublists, little-endian field codec, machine arithmetic with explicit
   overflow behaviour (debug build: panic, release build: wrap), bounds-checked field access.
   Executable Gallina only; lemmas are in Proofs/LEProofs.v.

   Every primitive takes [fx : bool]:
     fx = false  the code as it is on the pinned tree (a failing index / overflow is [Panic]),
     fx = true   the code after the `fix:` commit (checked arithmetic and `get`-style slicing: [Err]). *)
From RJ Require Import Base.Prelude.
From Coq Require Import String.
Local Open Scope N_scope.

Notation byte := ascii (only parsing).
Definition zero : byte := Ascii.zero.
Definition slit (s : string) : str := list_ascii_of_string s.

Notation "x <- a ;; b" := (obind a (fun x => b)) (at level 61, a at next level, right associativity).

Inductive mode := Debug | Release.

Notation two16 := 65536%N (only parsing).
Notation two32 := 4294967296%N (only parsing).
Notation two64 := 18446744073709551616%N (only parsing).

Definition eother : str := slit "other".
Definition enotfound : str := slit "notfound".

(* ---------------------------------------------------------------- N-indexed list operations *)
(* [lenN] is the specification of the length; [flen] computes the same number tail-recursively
   (the extracted model is run on files of several MiB) - flen_eq in Proofs/LEProofs.v. *)
Definition lenN {A} (l : list A) : N := N.of_nat (List.length l).
Fixpoint len_acc {A} (l : list A) (acc : N) : N :=
  match l with [] => acc | _ :: r => len_acc r (N.succ acc) end.
Definition flen {A} (l : list A) : N := len_acc l 0.
Definition takeN {A} (n : N) (l : list A) : list A := firstn (N.to_nat n) l.
Definition dropN {A} (n : N) (l : list A) : list A := skipn (N.to_nat n) l.
Definition zerosN (n : N) : list byte := repeat zero (N.to_nat n).
(* bytes [off, off+n) *)
Definition subN (bs : list byte) (off n : N) : list byte := takeN n (dropN off bs).
(* overwrite the bytes at [off, off + |vs|) *)
Definition updN (bs : list byte) (off : N) (vs : list byte) : list byte :=
  takeN off bs ++ vs ++ dropN (off + lenN vs) bs.
(* insert [vs] at position [off] *)
Definition insN (bs : list byte) (off : N) (vs : list byte) : list byte :=
  takeN off bs ++ vs ++ dropN off bs.
(* Vec::resize(n, 0) *)
Definition resizeN (bs : list byte) (n : N) : list byte :=
  if n <=? flen bs then takeN n bs else bs ++ zerosN (n - flen bs).

(* ---------------------------------------------------------------- little-endian codec *)
Definition b2n (b : byte) : N := N_of_ascii b.
Definition n2b (n : N) : byte := ascii_of_N (n mod 256).

Fixpoint decode_le (bs : list byte) : N :=
  match bs with [] => 0 | b :: r => b2n b + 256 * decode_le r end.
Fixpoint encode_le (n : nat) (v : N) : list byte :=
  match n with O => [] | S k => n2b v :: encode_le k (v / 256) end.

(* ---------------------------------------------------------------- machine arithmetic *)
(* [M] is the modulus of the type (two16 / two32 / two64 for u16 / u32 / usize,u64). *)
Definition uadd (fx : bool) (m : mode) (M a b : N) : outcome N :=
  if a + b <? M then Ok (a + b)
  else if fx then Err eother
  else match m with Debug => Panic (slit "add") | Release => Ok ((a + b) mod M) end.
Definition usub (fx : bool) (m : mode) (M a b : N) : outcome N :=
  if b <=? a then Ok (a - b)
  else if fx then Err eother
  else match m with Debug => Panic (slit "sub") | Release => Ok ((a + M - b) mod M) end.
Definition umul (fx : bool) (m : mode) (M a b : N) : outcome N :=
  if a * b <? M then Ok (a * b)
  else if fx then Err eother
  else match m with Debug => Panic (slit "mul") | Release => Ok ((a * b) mod M) end.
Definition udiv (fx : bool) (a b : N) : outcome N :=
  if b =? 0 then (if fx then Err eother else Panic (slit "div")) else Ok (a / b).
(* `x as uNN`: truncating in the original, `try_from` in the fixed code *)
Definition ucast (fx : bool) (M x : N) : outcome N :=
  if x <? M then Ok x else if fx then Err eother else Ok (x mod M).

(* exe_utils.rs `align`: ((x - 1) / multiple + 1) * multiple in the arithmetic of the type.
   Fixed code: a zero multiple or a result that does not fit is an error, align(0, m) = 0. *)
Definition align (fx : bool) (m : mode) (M x mult : N) : outcome N :=
  if fx then
    if mult =? 0 then Err eother
    else if x =? 0 then Ok 0
    else let r := ((x - 1) / mult + 1) * mult in if r <? M then Ok r else Err eother
  else
    a <- usub fx m M x 1 ;;
    q <- udiv fx a mult ;;
    r <- uadd fx m M q 1 ;;
    umul fx m M r mult.

(* ---------------------------------------------------------------- field access *)
(* read_field::<T>(bytes, offset): `offset + size` is a usize addition (debug: overflow panics;
   release: wraps to a value below `offset`, so the range is empty-reversed and `get` yields None). *)
Definition read_field (fx : bool) (m : mode) (sz : nat) (bs : list byte) (off : N) : outcome N :=
  if two64 <=? off + N.of_nat sz then
    (if fx then Err eother else match m with Debug => Panic (slit "add") | Release => Err eother end)
  else if off + N.of_nat sz <=? flen bs then Ok (decode_le (subN bs off (N.of_nat sz)))
  else Err eother.

Definition write_field (fx : bool) (m : mode) (sz : nat) (bs : list byte) (off v : N) : outcome (list byte) :=
  if two64 <=? off + N.of_nat sz then
    (if fx then Err eother else match m with Debug => Panic (slit "add") | Release => Err eother end)
  else if off + N.of_nat sz <=? flen bs then Ok (updN bs off (encode_le sz v))
  else Err eother.

(* read_string(bytes, offset, max): NUL-terminated, at most [fuel] bytes; running off the end is an error.
   (No panic is possible: the first `get(offset)` fails unless offset < len <= isize::MAX.) *)
Fixpoint rs (bs : list byte) (fuel : nat) {struct fuel} : outcome (list byte) :=
  match fuel with
  | O => Ok []
  | S f => match bs with
           | [] => Err eother
           | c :: r => if Ascii.eqb c zero then Ok []
                       else match rs r f with Ok s => Ok (c :: s) | e => e end
           end
  end.
Definition read_string (bs : list byte) (off : N) (fuel : nat) : outcome (list byte) :=
  if off <? flen bs then rs (dropN off bs) fuel else Err eother.

(* Vec::split_off(at) then truncate(size): panics when at > len *)
Definition split_trunc (fx : bool) (bs : list byte) (at_ size : N) : outcome (list byte) :=
  if at_ <=? flen bs then
    let rest := dropN at_ bs in
    Ok (if size <? flen rest then takeN size rest else rest)
  else if fx then Err eother else Panic (slit "split").

(* Vec::splice(pos..pos, ins): panics when pos > len *)
Definition splice_ins (fx : bool) (bs : list byte) (pos : N) (ins : list byte) : outcome (list byte) :=
  if pos <=? flen bs then Ok (insN bs pos ins)
  else if fx then Err eother else Panic (slit "index").

(* bytes[off..off+|vs|].copy_from_slice(vs): panics when the range is outside *)
Definition overwrite (fx : bool) (bs : list byte) (off : N) (vs : list byte) : outcome (list byte) :=
  if off + flen vs <=? flen bs then Ok (updN bs off vs)
  else if fx then Err eother else Panic (slit "index").
