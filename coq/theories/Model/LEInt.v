(* Little-endian fixed-width integers over byte lists, and the list primitives the wire codecs use.
   Executable Gallina only; lemmas are in Proofs/LEIntProofs.v.
   A byte is an [ascii] (extracted to an OCaml [char]); byte strings are [list ascii]. *)
From RJ Require Import Base.Prelude.

Local Open Scope N_scope.

Definition bytes := list ascii.

(* [le_bytes n v]: the n low-order bytes of v, least significant first
   (bincode fixint encoding: u32 -> 4 bytes, u64/usize -> 8 bytes). *)
Fixpoint le_bytes (n : nat) (v : N) : bytes :=
  match n with
  | O => []
  | S n' => ascii_of_N (v mod 256) :: le_bytes n' (v / 256)
  end.

Fixpoint of_le_bytes (l : bytes) : N :=
  match l with
  | [] => 0
  | b :: t => N_of_ascii b + 256 * of_le_bytes t
  end.

(* length as an N, without going through Peano numbers (payloads are megabytes) *)
Fixpoint lenN {A} (l : list A) : N :=
  match l with [] => 0 | _ :: t => N.succ (lenN t) end.

(* [take_nat n l]: the first n bytes and the rest; None when fewer than n bytes are there. *)
Fixpoint take_nat (n : nat) (l : bytes) : option (bytes * bytes) :=
  match n with
  | O => Some ([], l)
  | S n' => match l with
            | [] => None
            | b :: t => match take_nat n' t with
                        | Some (a, r) => Some (b :: a, r)
                        | None => None
                        end
            end
  end.

(* Same with an N count (structural on the list). *)
Fixpoint take_N (l : bytes) (n : N) : option (bytes * bytes) :=
  match l with
  | [] => if N.eqb n 0 then Some ([], []) else None
  | b :: t => if N.eqb n 0 then Some ([], l)
              else match take_N t (N.pred n) with
                   | Some (a, r) => Some (b :: a, r)
                   | None => None
                   end
  end.

(* sum of a list of N *)
Fixpoint sumN (l : list N) : N :=
  match l with [] => 0 | x :: t => x + sumN t end.
