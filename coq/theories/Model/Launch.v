(* Model of the launch / deploy decision.

   boss_launch.rs:181-267   setup_comms          [setup_comms_r], [setup_comms]
   boss_deploy.rs:20-142    deploy_to_remote     [deploy]
   boss_frontend.rs:781-809 both doers           [connect_both]

   Everything outside the decision (what ssh/scp answer, what the user answers) is an explicit
   input; the output is the list of externally visible actions in order and the result.
   Executable Gallina only; proofs are in Proofs/LaunchProofs.v. *)
From RJ Require Import Base.Prelude Model.Handshake.
From Coq Require Import String.
Local Open Scope string_scope.
Local Open Scope list_scope.

Inductive dbeh := DbPrompt | DbError | DbOk | DbForce.     (* DeployBehaviour *)
Inductive answer := AnsDeploy | AnsCancel.                 (* the deploy prompt: "Deploy" / "Cancel sync" (also: unattended) *)

Inductive action :=
| ALaunch        (* ssh <target> "<...>/rjrssync --doer ..."  *)
| AOsTest        (* ssh <target> "echo Remote system is ..."  *)
| APrompt        (* the deploy prompt is shown *)
| AUpload        (* scp -r <staging>/rjrssync <target>:<temp> *)
| AChmod         (* ssh <target> "cd <temp>/rjrssync && chmod +x rjrssync" *)
| AConnect.      (* TCP connection to the doer: sync traffic may follow *)

(* What the world answers during deploy_to_remote. *)
Inductive os_answer :=
| OsFail                           (* ssh could not be run or exited non-zero *)
| OsOk (windows : bool) (binary_available : bool).   (* create_binary_for_target succeeds or not *)

Record denv := mkDenv {
  d_os : os_answer;
  d_staging_ok : bool;      (* the temporary staging directory could be created *)
  d_answer : answer;        (* what the user answers if asked *)
  d_scp_ok : bool;          (* scp ran and exited 0 *)
  d_chmod_ok : bool }.      (* the chmod ssh ran and exited 0 *)

(* deploy_to_remote: lines 90-106 resolve the behaviour; Prompt and Force cannot remain
   (the code panics there) - kept as an explicit Panic outcome and proved unreachable. *)
Definition resolve_deploy (b : dbeh) (a : answer) : dbeh * list action :=
  match b with
  | DbPrompt => (match a with AnsDeploy => DbOk | AnsCancel => DbError end, [APrompt])
  | DbForce => (DbOk, [])
  | x => (x, [])
  end.

Definition deploy (b : dbeh) (e : denv) : list action * outcome unit :=
  match d_os e with
  | OsFail => ([AOsTest], Err (hlit "os test"))
  | OsOk windows avail =>
      if negb (d_staging_ok e) then ([AOsTest], Err (hlit "staging")) else
      if negb avail then ([AOsTest], Err (hlit "binary")) else
      let (r, pa) := resolve_deploy b (d_answer e) in
      match r with
      | DbPrompt | DbForce => (AOsTest :: pa, Panic (hlit "Should have been alredy resolved!"))
      | DbError => (AOsTest :: pa, Err (hlit "Will not deploy"))
      | DbOk =>
          if negb (d_scp_ok e) then (AOsTest :: pa ++ [AUpload], Err (hlit "scp")) else
          if windows then (AOsTest :: pa ++ [AUpload], Ok tt) else
          if d_chmod_ok e then (AOsTest :: pa ++ [AUpload; AChmod], Ok tt)
          else (AOsTest :: pa ++ [AUpload; AChmod], Err (hlit "chmod"))
      end
  end.

(* Result of setup_comms for a remote host. *)
Inductive sres :=
| SConnected (launch_no : nat)   (* Ok(Comms::Remote): connected to the doer of launch 1 or 2 *)
| SErr                           (* Err(..) *)
| SPanic
| SHang.                         (* a launch blocked for ever *)

Definition after_success (n : nat) (connect_ok : bool) : list action * sres :=
  ([AConnect], if connect_ok then SConnected n else SErr).

(* The second attempt, after a deployment (lines 251-266). *)
Definition second_launch (l2 : lres) (c2 : bool) : list action * sres :=
  match l2 with
  | LSuccess _ _ => let (a, r) := after_success 2 c2 in (ALaunch :: a, r)
  | LBlocked => ([ALaunch], SHang)
  | _ => ([ALaunch], SErr)
  end.

Definition deploy_and_retry (b : dbeh) (e : denv) (l2 : lres) (c2 : bool) : list action * sres :=
  let (da, dr) := deploy b e in
  match dr with
  | Ok _ => let (a, r) := second_launch l2 c2 in (da ++ a, r)
  | Err _ => (da, SErr)
  | Panic _ => (da, SPanic)
  end.

(* setup_comms on the results of the (at most two) launches. *)
Definition setup_comms_r (b : dbeh) (l1 l2 : lres) (c1 c2 : bool) (e : denv) : list action * sres :=
  match b with
  | DbForce => deploy_and_retry b e l2 c2
  | _ =>
      match l1 with
      | LFailedSsh | LCommErr | LExited => ([ALaunch], SErr)
      | LBlocked => ([ALaunch], SHang)
      | LSuccess _ _ => let (a, r) := after_success 1 c1 in (ALaunch :: a, r)
      | LNotPresent | LIncompat _ =>
          let (a, r) := deploy_and_retry b e l2 c2 in (ALaunch :: a, r)
      end
  end.

(* ... and on what the two ssh processes deliver to the handshake loop. *)
Definition setup_comms (c : hcfg) (b : dbeh) (evs1 evs2 : list (stream * msg)) (c1 c2 : bool) (e : denv)
  : list action * sres :=
  setup_comms_r b (fst (run c true evs1)) (fst (run c true evs2)) c1 c2 e.

Fixpoint count_action (a : action) (l : list action) : nat :=
  match l with
  | [] => 0
  | x :: t => (match a, x with
               | ALaunch, ALaunch | AOsTest, AOsTest | APrompt, APrompt | AUpload, AUpload
               | AChmod, AChmod | AConnect, AConnect => 1 | _, _ => 0 end + count_action a t)%nat
  end.

(* Both doers (boss_frontend.rs:781-809): source first; exit code 10 / 11 when a side fails,
   otherwise the syncs run. *)
Inductive both_res := BothConnected | BothExit (code : N) | BothPanic | BothHang.

Definition connect_both (src dest : list action * sres) : list action * both_res :=
  match snd src with
  | SConnected _ =>
      match snd dest with
      | SConnected _ => (fst src ++ fst dest, BothConnected)
      | SErr => (fst src ++ fst dest, BothExit 11)
      | SPanic => (fst src ++ fst dest, BothPanic)
      | SHang => (fst src ++ fst dest, BothHang)
      end
  | SErr => (fst src, BothExit 10)
  | SPanic => (fst src, BothPanic)
  | SHang => (fst src, BothHang)
  end.
