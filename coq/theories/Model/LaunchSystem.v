(* The boss's handshake loop composed with the doer side, as a transition system.

   The doer side (ssh, the doer process, the two pipes and the two reader threads) is reduced to
   what matters for the order in which the loop can receive messages:
     * each stream delivers its messages in order (a pipe and a reader thread are FIFO),
     * the two streams are independent of each other (any interleaving),
     * a Completed message can only be delivered once the boss has written a key: the doer prints
       its Completed lines after `read_line` on stdin has returned (doer.rs:190-236).
   A schedule is a list of stream choices; choosing a stream whose next message is not
   deliverable (or after the loop has returned) does nothing.  Executable Gallina only. *)
From RJ Require Import Base.Prelude Model.Handshake.

Record sys := mkSys {
  s_ro : list msg;          (* not yet delivered, stdout *)
  s_re : list msg;          (* not yet delivered, stderr *)
  s_st : hs;                (* state of the boss's loop *)
  s_res : option lres;      (* Some r: the loop has returned r *)
  s_writes : nat }.         (* key lines written to the doer's stdin so far *)

Definition is_completed (m : msg) : bool := match m with MCompleted _ => true | _ => false end.
Definition key_available (st : hs) : bool := match h_key st with Some _ => true | None => false end.

Definition deliverable (st : hs) (q : list msg) : bool :=
  match q with [] => false | m :: _ => negb (is_completed m) || key_available st end.

Definition queue_of (s : stream) (y : sys) : list msg := match s with Stdout => s_ro y | Stderr => s_re y end.

Definition sys_step (c : hcfg) (s : stream) (y : sys) : option sys :=
  match s_res y with
  | Some _ => None
  | None =>
      if deliverable (s_st y) (queue_of s y) then
        match queue_of s y with
        | [] => None
        | m :: q' =>
            let ro' := match s with Stdout => q' | Stderr => s_ro y end in
            let re' := match s with Stdout => s_re y | Stderr => q' end in
            Some match boss_step c true (s_st y) (s, m) with
                 | Continue st' w => mkSys ro' re' st' None (s_writes y + (if w then 1 else 0))
                 | Done r w => mkSys ro' re' (s_st y) (Some r) (s_writes y + (if w then 1 else 0))
                 end
        end
      else None
  end.

Fixpoint sys_run (c : hcfg) (sched : list stream) (y : sys) : sys :=
  match sched with
  | [] => y
  | s :: t => match sys_step c s y with Some y' => sys_run c t y' | None => sys_run c t y end
  end.

Definition sys_init (ro re : list msg) : sys := mkSys ro re hs_init None 0.

Definition sys_measure (y : sys) : nat := (List.length (s_ro y) + List.length (s_re y))%nat.
Definition sys_stuck (c : hcfg) (y : sys) : bool :=
  match sys_step c Stdout y, sys_step c Stderr y with None, None => true | _, _ => false end.
