(* Model of the decision of src/doer.rs entry_details_from_metadata (C18): which EntryDetails - or which
   error - the doer derives from the lstat result of a root or of a listed entry.

     m.is_dir()      -> Folder
     m.is_file()     -> File { modified_time, size }      Err when modified() fails,
                        and (after the repair of F8)      Err when the time is before the epoch
     m.is_symlink()  -> Symlink { kind, target }          Err when read_link fails
     anything else   -> Err "Unknown file type"           (fifo, socket, character / block device)

   [fixed] = false is the code before the repair "a file dated before 1970 is reported as an error
   instead of panicking the doer and the boss", [fixed] = true the code after it.
   A `SystemTime` is the Unix timespec (Model/Bincode.v [time]): signed seconds, nanoseconds in [0, 10^9);
   `modified_time < UNIX_EPOCH` is "the seconds are negative".
   The link text normalisation (RootRelativePath::try_from, to_string_lossy) is C12's business; here
   the result of read_link + normalisation + the kind found by following the link is an input.
   Executable Gallina only; proofs are in Proofs/HistMetaProofs.v. *)
From RJ Require Import Base.Prelude Model.Chunk Model.Bincode Model.Progress.
From Coq Require Import String.
Local Open Scope N_scope.

Inductive ftype := FTDir | FTFile | FTSymlink | FTOther.

Record metadata := mkMeta {
  m_type : ftype;
  m_mtime : option time;                            (* None: Metadata::modified() fails (never on Unix) *)
  m_size : N;                                       (* Metadata::len() *)
  m_link : option (symlink_kind * symlink_target)   (* None: read_link fails *)
}.

Definition e_no_mtime : str := plit "Unknown modified time".
Definition e_pre_epoch : str := plit "Modified time is before 1970, which is not supported".
Definition e_read_link : str := plit "Unable to read symlink target".
Definition e_file_type : str := plit "Unknown file type".

Definition entry_of_meta (fixed : bool) (m : metadata) : outcome entry_details :=
  match m_type m with
  | FTDir => Ok EDFolder
  | FTFile =>
    match m_mtime m with
    | None => Err e_no_mtime
    | Some t => if fixed && negb (time_encodable t) then Err e_pre_epoch else Ok (EDFile t (m_size m))
    end
  | FTSymlink =>
    match m_link m with
    | None => Err e_read_link
    | Some kt => Ok (EDSymlink (fst kt) (snd kt))
    end
  | FTOther => Err e_file_type
  end.

(* What happens to the result in handle_set_root / handle_get_entries: an Err becomes a Response::Error,
   an Ok entry is sent - and sending computes the message size with expect() (memory_bound_channel.rs). *)
Definition send_listed (fixed : bool) (path : bytes) (m : metadata) : outcome N :=
  match entry_of_meta fixed m with
  | Ok d => send_size_response (REntry path d)
  | Err e => send_size_response (RError e)
  | Panic p => Panic p
  end.
Definition send_root (fixed : bool) (m : metadata) (diff : bool) (sep : bytes) : outcome N :=
  match entry_of_meta fixed m with
  | Ok d => send_size_response (RRootDetails (Some d) diff sep)
  | Err e => send_size_response (RError e)
  | Panic p => Panic p
  end.

(* The commands the boss builds (boss_sync.rs): the only one that carries a time is
   CreateOrUpdateFile, whose set_modified_time is the modified_time of a listed source entry (on the
   last chunk) or None.  [cmd_from_listed listed c]: every time inside [c] is the time of a listed file. *)
Definition cmd_from_listed (listed : list entry_details) (c : command) : Prop :=
  match c with
  | CCreateOrUpdateFile _ _ (Some t) _ => exists sz, In (EDFile t sz) listed
  | _ => True
  end.
