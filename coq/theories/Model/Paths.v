(* Link-text normalisation: doer.rs:58-64 (entry_details_from_metadata) through
   root_relative_path.rs:55-81 (TryFrom<&Path>), for a Unix source (std::path component iteration:
   split on '/', empty components dropped, "." dropped except as the very first component, a
   leading '/' makes the path absolute) and, modelled only, for a Windows source (both separators). *)
From RJ Require Import Base.Prelude Model.Core Model.Fs.

Fixpoint split_on (sep : ascii) (s : str) : list str :=
  match s with
  | [] => [[]]
  | c :: r => if Ascii.eqb c sep then [] :: split_on sep r
              else match split_on sep r with
                   | [] => [[c]]
                   | w :: ws => (c :: w) :: ws
                   end
  end.

Fixpoint join_with (sep : ascii) (l : list str) : str :=
  match l with
  | [] => []
  | [x] => x
  | x :: r => x ++ sep :: join_with sep r
  end.

Definition nonempty (s : str) : bool := match s with [] => false | _ => true end.
Definition dot : str := ["."%char].
Definition is_dot (s : str) : bool := str_eqb s dot.
Definition contains (c : ascii) (s : str) : bool := existsb (Ascii.eqb c) s.

(* UTF-8 well-formedness (Unicode table 3-7), bytes as numbers *)
Definition b (c : ascii) : nat := nat_of_ascii c.
Definition cont (c : ascii) : bool := Nat.leb 128 (b c) && Nat.leb (b c) 191.
Fixpoint utf8_valid_fuel (fuel : nat) (s : str) : bool :=
  match fuel with
  | O => true
  | S fuel' =>
    match s with
    | [] => true
    | c0 :: r =>
        let n := b c0 in
        if Nat.leb n 127 then utf8_valid_fuel fuel' r
        else if Nat.leb 194 n && Nat.leb n 223 then
          match r with c1 :: r1 => cont c1 && utf8_valid_fuel fuel' r1 | _ => false end
        else if Nat.leb 224 n && Nat.leb n 239 then
          match r with
          | c1 :: c2 :: r2 =>
              let lo := if Nat.eqb n 224 then 160 else 128 in
              let hi := if Nat.eqb n 237 then 159 else 191 in
              Nat.leb lo (b c1) && Nat.leb (b c1) hi && cont c2 && utf8_valid_fuel fuel' r2
          | _ => false end
        else if Nat.leb 240 n && Nat.leb n 244 then
          match r with
          | c1 :: c2 :: c3 :: r3 =>
              let lo := if Nat.eqb n 240 then 144 else 128 in
              let hi := if Nat.eqb n 244 then 143 else 191 in
              Nat.leb lo (b c1) && Nat.leb (b c1) hi && cont c2 && cont c3 && utf8_valid_fuel fuel' r3
          | _ => false end
        else false
    end
  end.
Definition utf8_valid (s : str) : bool := utf8_valid_fuel (S (length s)) s.

(* components as std::path::Path::iter yields them on Unix, for a relative path *)
Definition unix_components (s : str) : list str :=
  let comps := filter nonempty (split_on slash s) in
  match comps with
  | c :: r => if is_dot c then c :: filter (fun x => negb (is_dot x)) r
              else filter (fun x => negb (is_dot x)) comps
  | [] => []
  end.

Definition is_absolute_unix (s : str) : bool :=
  match s with c :: _ => Ascii.eqb c slash | [] => false end.

(* The text carried by NotNormalized: String::from_utf8_lossy (core::str::lossy::Utf8Chunks): well-formed
   sequences are kept; every maximal prefix of an ill-formed sequence (the lead byte plus the
   continuation bytes that were still acceptable) is replaced by one U+FFFD (EF BF BD). *)
Definition fffd : str := [ascii_of_nat 239; ascii_of_nat 191; ascii_of_nat 189].
Definition in_range (lo hi : nat) (c : ascii) : bool := Nat.leb lo (b c) && Nat.leb (b c) hi.
Fixpoint lossy_fuel (fuel : nat) (s : str) : str :=
  match fuel with
  | O => []
  | S fuel' =>
    match s with
    | [] => []
    | c0 :: r =>
        let n := b c0 in
        if Nat.leb n 127 then c0 :: lossy_fuel fuel' r
        else if Nat.leb 194 n && Nat.leb n 223 then
          match r with
          | c1 :: r1 => if cont c1 then c0 :: c1 :: lossy_fuel fuel' r1 else fffd ++ lossy_fuel fuel' r
          | [] => fffd
          end
        else if Nat.leb 224 n && Nat.leb n 239 then
          let lo := if Nat.eqb n 224 then 160 else 128 in
          let hi := if Nat.eqb n 237 then 159 else 191 in
          match r with
          | c1 :: r1 =>
              if in_range lo hi c1 then
                match r1 with
                | c2 :: r2 => if cont c2 then c0 :: c1 :: c2 :: lossy_fuel fuel' r2 else fffd ++ lossy_fuel fuel' r1
                | [] => fffd
                end
              else fffd ++ lossy_fuel fuel' r
          | [] => fffd
          end
        else if Nat.leb 240 n && Nat.leb n 244 then
          let lo := if Nat.eqb n 240 then 144 else 128 in
          let hi := if Nat.eqb n 244 then 143 else 191 in
          match r with
          | c1 :: r1 =>
              if in_range lo hi c1 then
                match r1 with
                | c2 :: r2 =>
                    if cont c2 then
                      match r2 with
                      | c3 :: r3 => if cont c3 then c0 :: c1 :: c2 :: c3 :: lossy_fuel fuel' r3 else fffd ++ lossy_fuel fuel' r2
                      | [] => fffd
                      end
                    else fffd ++ lossy_fuel fuel' r1
                | [] => fffd
                end
              else fffd ++ lossy_fuel fuel' r
          | [] => fffd
          end
        else fffd ++ lossy_fuel fuel' r
    end
  end.
Definition lossy (s : str) : str := lossy_fuel (S (length s)) s.

Definition normalize_unix (s : str) : target :=
  if is_absolute_unix s then TRaw (lossy s)
  else
    let comps := unix_components s in
    if forallb utf8_valid comps && negb (existsb (contains backslash) comps)
    then TNorm (join_with slash comps)
    else TRaw (lossy s).

(* What the destination writes back and then reads again on the next run *)
Definition roundtrip_unix (t : target) : target := normalize_unix (denormalize Unix t).

(* "identical symlink text up to redundant separators in relative targets": equal as component sequences *)
Definition same_path_text (a b : str) : bool :=
  if is_absolute_unix a || is_absolute_unix b then str_eqb a b
  else if list_eq_dec str_eq_dec (unix_components a) (unix_components b) then true else false.
