(* Model of the PE half of exe_utils.rs:
     validate_pe_signature    (lines 27-42)
     extract_section_from_pe  (lines 45-76)
     add_section_to_pe        (lines 79-173)
   [fx = false]: the pinned code; [fx = true]: after the `fix:` commit.  Executable Gallina only. *)
From RJ Require Import Base.Prelude Model.LE.
From Coq Require Import String.
Local Open Scope N_scope.

Definition validate_pe (fx : bool) (m : mode) (bs : list byte) : outcome N :=
  so <- read_field fx m 4 bs 60 ;;             (* 0x3c e_lfanew *)
  sig <- read_field fx m 4 bs so ;;
  if negb (sig =? 17744) then Err eother else   (* "PE\0\0" *)
  Ok (so + 4).

Fixpoint extract_pe_loop (fx : bool) (m : mode) (bs name : list byte) (sh idx : N) (count : nat)
    : outcome (list byte) :=
  match count with
  | O => Err enotfound
  | S c =>
    let h := sh + idx * 40 in
    s <- read_string bs h 8 ;;
    if str_eqb s name then
      size <- read_field fx m 4 bs (h + 16) ;;
      ptr <- read_field fx m 4 bs (h + 20) ;;
      split_trunc fx bs ptr size
    else extract_pe_loop fx m bs name sh (idx + 1) c
  end.

Definition extract_pe_gen (fx : bool) (m : mode) (bs name : list byte) : outcome (list byte) :=
  fh <- validate_pe fx m bs ;;
  n <- read_field fx m 2 bs (fh + 2) ;;
  soh <- read_field fx m 2 bs (fh + 16) ;;
  let sh := fh + 20 + soh in
  extract_pe_loop fx m bs name sh 0 (N.to_nat n).

(* for section_idx in idx .. idx+count: PointerToRawData += file_alignment (u32) *)
Fixpoint bump_ptrs (fx : bool) (m : mode) (bs : list byte) (sh fa idx : N) (count : nat)
    : outcome (list byte) :=
  match count with
  | O => Ok bs
  | S c =>
    let po := sh + idx * 40 + 20 in
    orig <- read_field fx m 4 bs po ;;
    new <- uadd fx m two32 orig fa ;;
    bs' <- write_field fx m 4 bs po new ;;
    bump_ptrs fx m bs' sh fa (idx + 1) c
  end.

Definition add_pe_gen (fx : bool) (m : mode) (bs name payload : list byte) : outcome (list byte) :=
  fh <- validate_pe fx m bs ;;
  n <- read_field fx m 2 bs (fh + 2) ;;
  n1 <- uadd fx m two16 n 1 ;;
  bs1 <- write_field fx m 2 bs (fh + 2) n1 ;;
  soh <- read_field fx m 2 bs1 (fh + 16) ;;
  let oh := fh + 20 in
  sa <- read_field fx m 4 bs1 (oh + 32) ;;
  fa <- read_field fx m 4 bs1 (oh + 36) ;;
  let sh := oh + soh in
  let hend := sh + n * 40 in
  al <- align fx m two64 hend fa ;;
  gap <- usub fx m two64 al hend ;;
  bs2 <- (if gap <? 40 then
            (* pinned code: shift by one FileAlignment (too little room for the 40-byte header when
               FileAlignment < 40); fixed code: by align(40, FileAlignment), the same for FileAlignment >= 40 *)
            bump <- (if fx then align fx m two64 40 fa else Ok fa) ;;
            b <- splice_ins fx bs1 hend (zerosN bump) ;;
            bump_ptrs fx m b sh bump 0 (N.to_nat n)
          else Ok bs1) ;;
  (* assert!(new_section_name.len() <= 8) *)
  if 8 <? flen name then (if fx then Err eother else Panic (slit "assert")) else
  let hdr0 := name ++ zerosN (40 - flen name) in
  hdr1 <- write_field fx m 4 hdr0 8 1 ;;
  nm1 <- usub fx m two64 n 1 ;;
  t <- umul fx m two64 nm1 40 ;;
  t2 <- uadd fx m two64 sh t ;;
  pva_off <- uadd fx m two64 t2 12 ;;
  pva <- read_field fx m 4 bs2 pva_off ;;
  pvs_off <- uadd fx m two64 t2 8 ;;
  pvs <- read_field fx m 4 bs2 pvs_off ;;
  s <- uadd fx m two32 pva pvs ;;
  nva <- align fx m two32 s sa ;;
  hdr2 <- write_field fx m 4 hdr1 12 nva ;;
  plen32 <- ucast fx two32 (flen payload) ;;
  nraw <- align fx m two32 plen32 fa ;;
  hdr3 <- write_field fx m 4 hdr2 16 nraw ;;
  hdr4 <- write_field fx m 4 hdr3 36 64 ;;
  bs3 <- overwrite fx bs2 hend hdr4 ;;
  noff <- align fx m two64 (flen bs3) fa ;;
  let bs4 := resizeN bs3 noff in
  let bs5 := bs4 ++ resizeN payload nraw in
  noff32 <- ucast fx two32 noff ;;
  bs6 <- write_field fx m 4 bs5 (hend + 20) noff32 ;;
  nsoi0 <- uadd fx m two32 nva 1 ;;
  nsoi <- align fx m two32 nsoi0 sa ;;
  bs7 <- write_field fx m 4 bs6 (oh + 56) nsoi ;;
  nsoh <- align fx m two64 (hend + 40) fa ;;
  nsoh32 <- ucast fx two32 nsoh ;;
  write_field fx m 4 bs7 (oh + 60) nsoh32.

Definition add_pe0 := add_pe_gen false.
Definition extract_pe0 := extract_pe_gen false.
Definition add_pe := add_pe_gen true.
Definition extract_pe := extract_pe_gen true.
