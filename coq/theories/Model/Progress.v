(* Model of the boss's progress accounting (C18):
     src/boss_progress.rs   ProgressValues (for_copy, for_copy_partial, for_delete, add_assign),
                            Progress::new (the total), delete_sent / copy_sent / copy_sent_partial,
                            get_progress_marker_limited, get_progress_marker, all_work_sent
                            with their three debug assertions
     src/boss_sync.rs       the order in which sync_impl / delete_dest_entry / copy_entry / copy_file
                            call them ([boss_calls]), and the byte totals of the statistics
   Executable Gallina only; proofs are in Proofs/ProgressProofs.v.

   Numbers carry the widths of the code: `work` and `copy_bytes` are u64, `delete` and `copy` are u32.
   [arith] says what a u64 addition of the byte/work totals does when the sum does not fit:
     Checked     `+=` in a build with overflow checks (the code before the repair
                 "byte totals of huge files saturate instead of overflowing"): a panic
     Saturating  `saturating_add` (the code after it): u64::MAX
   The u32 counters and the u64 addition `chunk_start + chunk_size` inside for_copy_partial are plain
   `+` in both versions: an overflow is a Panic (debug build; the assertions are debug-build only too,
   the model describes the debug build, which is the stricter one). *)
From RJ Require Import Base.Prelude Model.Chunk Model.Bincode Gen.Facts_progress.
From Coq Require Import String.
Local Open Scope N_scope.

Definition plit (s : string) : str := list_ascii_of_string s.

(* The constants of boss_progress.rs ARE the values the running code reports (Gen/Facts_progress.v is
   regenerated on every run): a changed constant re-checks every theorem for the new value - the
   proofs use nothing about them except that they are u64 values ([consts_fit]). *)
Definition min_file_size : N := impl_min_file_size.         (* MIN_FILE_SIZE *)
Definition marker_threshold : N := impl_marker_threshold.   (* MARKER_THRESHOLD *)
Definition delete_work : N := impl_delete_work.             (* DELETE_WORK *)

Definition u64_max : N := 18446744073709551615.
Definition u32_lim : N := 4294967296.
Definition consts_fit : bool := (min_file_size <=? u64_max) && (delete_work <=? u64_max) && (marker_threshold <=? u64_max).

Inductive arith := Checked | Saturating.

Definition e_add_overflow : str := plit "attempt to add with overflow".
Definition e_sub_overflow : str := plit "attempt to subtract with overflow".
Definition e_assert_delete : str := plit "assertion failed: self.sent.delete <= self.total.delete".
Definition e_assert_copy : str := plit "assertion failed: self.sent.copy <= self.total.copy".
Definition e_assert_total : str := plit "assertion `left == right` failed (total, sent)".

(* the additions of the byte / work totals *)
Definition add64 (a : arith) (x y : N) : outcome N :=
  if x + y <=? u64_max then Ok (x + y)
  else match a with Checked => Panic e_add_overflow | Saturating => Ok u64_max end.
(* every other u64 `+` and the u32 counters *)
Definition add64_plain (x y : N) : outcome N :=
  if x + y <=? u64_max then Ok (x + y) else Panic e_add_overflow.
Definition add32 (x y : N) : outcome N :=
  if x + y <? u32_lim then Ok (x + y) else Panic e_add_overflow.

Record pv := mkPV { pv_work : N; pv_delete : N; pv_copy : N; pv_bytes : N }.
Definition pv_zero : pv := mkPV 0 0 0 0.
Definition pv_eqb (x y : pv) : bool :=
  (pv_work x =? pv_work y) && (pv_delete x =? pv_delete y) && (pv_copy x =? pv_copy y) && (pv_bytes x =? pv_bytes y).

(* impl AddAssign for ProgressValues (work, delete, copy, copy_bytes in this order) *)
Definition pv_add (a : arith) (x y : pv) : outcome pv :=
  obind (add64 a (pv_work x) (pv_work y)) (fun w =>
  obind (add32 (pv_delete x) (pv_delete y)) (fun d =>
  obind (add32 (pv_copy x) (pv_copy y)) (fun c =>
  obind (add64 a (pv_bytes x) (pv_bytes y)) (fun b =>
  Ok (mkPV w d c b))))).

(* ProgressValues::for_copy *)
Definition for_copy (e : entry_details) : pv :=
  match e with
  | EDFile _ size => mkPV (N.max size min_file_size) 0 1 size
  | EDFolder | EDSymlink _ _ => mkPV min_file_size 0 1 0
  end.

(* ProgressValues::for_copy_partial(chunk_start, chunk_size, file_size) *)
Definition for_copy_partial (chunk_start chunk_size file_size : N) : outcome pv :=
  obind (add64_plain chunk_start chunk_size) (fun e =>
  if e <? file_size then
    Ok (mkPV (if min_file_size <? file_size then chunk_size else 0) 0 0 chunk_size)
  else
    Ok (mkPV (if min_file_size <? file_size then chunk_size else min_file_size) 0 1 chunk_size)).

(* ProgressValues::for_delete *)
Definition for_delete : pv := mkPV delete_work 1 0 0.

(* The part of `Progress` that the arithmetic and the assertions look at. *)
Record pstate := mkPS {
  ps_total : pv;
  ps_sent : pv;
  ps_last : N;           (* last_progress_marker *)
  ps_detailed : bool
}.
Definition set_sent (s : pstate) (v : pv) : pstate := mkPS (ps_total s) v (ps_last s) (ps_detailed s).

Fixpoint sum_pv (a : arith) (acc : pv) (l : list pv) : outcome pv :=
  match l with
  | [] => Ok acc
  | x :: t => obind (pv_add a acc x) (fun acc' => sum_pv a acc' t)
  end.

(* Progress::new: the total is the sum over to_delete, then over to_copy.  [detailed] is what is
   left of the parameter after `if progress_bar.is_hidden() { detailed = false }`. *)
Definition progress_new (a : arith) (detailed : bool) (dels copies : list entry_details) : outcome pstate :=
  obind (sum_pv a pv_zero (map (fun _ => for_delete) dels ++ map for_copy copies)) (fun t =>
  Ok (mkPS t pv_zero 0 detailed)).

(* Progress::get_progress_marker *)
Definition get_marker (s : pstate) : outcome (pstate * progress_marker) :=
  let t := ps_total s in let v := ps_sent s in
  if negb (pv_delete v <=? pv_delete t) then Panic e_assert_delete
  else if negb (pv_copy v <=? pv_copy t) then Panic e_assert_copy
  else Ok (mkPS t v (pv_work v) (ps_detailed s),
           mkMarker (pv_work v)
             (if pv_delete v <? pv_delete t then PDeleting (pv_delete v)
              else PCopying (pv_copy v) (pv_bytes v))).

(* Progress::get_progress_marker_limited *)
Definition get_marker_limited (s : pstate) : outcome (pstate * option progress_marker) :=
  if negb (ps_detailed s) then Ok (s, None)
  else if pv_work (ps_sent s) <? ps_last s then Panic e_sub_overflow
  else if pv_work (ps_sent s) - ps_last s <? marker_threshold then Ok (s, None)
  else obind (get_marker s) (fun sm => Ok (fst sm, Some (snd sm))).

(* Progress::all_work_sent *)
Definition all_work_sent (s : pstate) : outcome progress_marker :=
  if pv_eqb (ps_total s) (ps_sent s) then Ok (mkMarker (pv_work (ps_sent s)) PDone)
  else Panic e_assert_total.

(* One call of the boss into the Progress object. *)
Inductive call :=
| KLimited                                   (* get_progress_marker_limited (send_progress_marker_limited) *)
| KMarker                                    (* get_progress_marker *)
| KDelete                                    (* delete_sent *)
| KCopy (e : entry_details)                  (* copy_sent *)
| KPartial (chunk_start chunk_size file_size : N)   (* copy_sent_partial *)
| KAllSent.                                  (* all_work_sent *)

Definition sent_plus (a : arith) (s : pstate) (x : pv) : outcome (pstate * option progress_marker) :=
  obind (pv_add a (ps_sent s) x) (fun v => Ok (set_sent s v, None)).

Definition exec_call (a : arith) (s : pstate) (c : call) : outcome (pstate * option progress_marker) :=
  match c with
  | KLimited => get_marker_limited s
  | KMarker => obind (get_marker s) (fun sm => Ok (fst sm, Some (snd sm)))
  | KDelete => sent_plus a s for_delete
  | KCopy e => sent_plus a s (for_copy e)
  | KPartial st sz fs => obind (for_copy_partial st sz fs) (fun x => sent_plus a s x)
  | KAllSent => obind (all_work_sent s) (fun m => Ok (s, Some m))
  end.

(* The markers produced are collected in order. *)
Fixpoint exec_calls (a : arith) (s : pstate) (cs : list call) : outcome (pstate * list progress_marker) :=
  match cs with
  | [] => Ok (s, [])
  | c :: t =>
    obind (exec_call a s c) (fun r =>
    obind (exec_calls a (fst r) t) (fun r' =>
    Ok (fst r', match snd r with Some m => m :: snd r' | None => snd r' end)))
  end.

(* ---------------------------------------------------------------------------------------------- *)
(* The calls the boss makes (boss_sync.rs sync_impl, delete_dest_entry, copy_entry, copy_file).
   An answer of the source doer to GetFileContent is a list of (data length, more_to_follow). *)
Definition answer := list (N * bool).

Definition e_size : str := plit "Size of file has changed during the sync.".
Definition e_lost_src : str := plit "Lost communication with src / unexpected response".

(* The chunk loop of copy_file from `chunk_offset = off`:  marker at the loop head, then the reply.
   (`chunk_offset + chunk_size > size` is computed in N: chunk_offset <= size, a chunk is at most the
   8 MiB frame, so the u64 addition overflows only for a listed size above 2^64 - 8 MiB.) *)
Fixpoint file_calls (size off : N) (ans : answer) : list call * outcome unit :=
  match ans with
  | [] => ([KLimited], Err e_lost_src)                 (* the reply never comes: receive_response fails *)
  | (n, more) :: tl =>
    if size <? off + n then ([KLimited], Err e_size)   (* size_exceeded: break, then the error *)
    else if more then
      let r := file_calls size (off + n) tl in
      (KLimited :: KPartial off n size :: fst r, snd r)
    else
      ([KLimited; KPartial off n size], if off + n =? size then Ok tt else Err e_size)
  end.

(* copy_file *)
Definition copy_file_calls (dry : bool) (size : N) (ans : option answer) : list call * outcome unit :=
  if dry then ([KLimited; KPartial 0 size size], Ok tt)
  else match ans with
       | None => ([KLimited; KLimited], Err e_lost_src)     (* no reply at all *)
       | Some an => let r := file_calls size 0 an in (KLimited :: fst r, snd r)
       end.

(* the loop over to_copy: [answers] are the replies to the GetFileContent commands, in order
   (none are requested in a dry run) *)
Fixpoint copies_calls (dry : bool) (copies : list entry_details) (answers : list answer) : list call * outcome unit :=
  match copies with
  | [] => ([], Ok tt)
  | EDFile _ size :: tl =>
    let here := copy_file_calls dry size (if dry then None else hd_error answers) in
    match snd here with
    | Ok _ => let r := copies_calls dry tl (if dry then answers else List.tl answers) in
              (fst here ++ fst r, snd r)
    | _ => here
    end
  | e :: tl =>
    let r := copies_calls dry tl answers in (KLimited :: KCopy e :: fst r, snd r)
  end.

Fixpoint delete_calls (dels : list entry_details) : list call :=
  match dels with [] => [] | _ :: tl => KLimited :: KDelete :: delete_calls tl end.

(* sync_impl from `Progress::new` on, when no command fails to be sent and the destination reports
   no error (an early return of that kind cuts the sequence short: a prefix of this list) *)
Definition boss_calls (dry : bool) (dels copies : list entry_details) (answers : list answer) : list call * outcome unit :=
  let r := copies_calls dry copies answers in
  (delete_calls dels ++ KMarker :: fst r ++ (if is_ok (snd r) then [KAllSent] else []), snd r).

(* The whole: Progress::new, then the calls.  Ok = the markers sent to the destination doer
   (sync Ok), Err = the sync fails with a message, Panic = a panic. *)
Definition boss_run (a : arith) (detailed dry : bool) (dels copies : list entry_details) (answers : list answer)
  : outcome (list progress_marker) :=
  obind (progress_new a detailed dels copies) (fun s =>
  let bc := boss_calls dry dels copies answers in
  obind (exec_calls a s (fst bc)) (fun r =>
  match snd bc with
  | Ok _ => Ok (snd r)
  | Err e => Err e
  | Panic p => Panic p
  end)).

(* ---------------------------------------------------------------------------------------------- *)
(* the byte totals of the statistics (boss_sync.rs: src_total_bytes, dest_total_bytes,
   num_bytes_deleted, num_bytes_copied): a running sum of listed sizes *)
Fixpoint stats_total (a : arith) (acc : N) (sizes : list N) : outcome N :=
  match sizes with
  | [] => Ok acc
  | x :: t => obind (add64 a acc x) (fun acc' => stats_total a acc' t)
  end.

(* the chunk lengths and flags of an answer of the real reader (Model/Chunk.v) *)
Definition answer_of (cs : list chunk) : answer := map (fun c => (lenN (fst c), snd c)) cs.
