(* Regular expressions for C06: the subset of regex 1.7 / regex-syntax 0.6 syntax that the filter
   theorems cover, over 7-bit text.
     - AST [re]
     - character classes with concrete membership ([cls_mem])
     - relational semantics [mt s r i j] : r matches s between positions i and j
     - executable semantics [ends r s i] : all j with [mt s r i j]   (Proofs/RegexProofs.v: ends_correct)
     - [fullmatch], [search] (what RegexSet::matches asks of one pattern: is there a match anywhere)
   Greedy and lazy quantifiers denote the same set of matches, so laziness is not recorded.
   Definitions only; proofs are in Proofs/RegexProofs.v. *)
From RJ Require Import Base.Prelude.
Local Open Scope nat_scope.

(* ------------------------------------------------------------------------------------------ *)
(* characters and classes *)
Definition code (c : ascii) : N := N_of_ascii c.
Definition chr_of (n : N) : ascii := ascii_of_N n.

Definition in_range (lo hi c : ascii) : bool := (code lo <=? code c)%N && (code c <=? code hi)%N.
Definition is_upper (c : ascii) : bool := (65 <=? code c)%N && (code c <=? 90)%N.
Definition is_lower (c : ascii) : bool := (97 <=? code c)%N && (code c <=? 122)%N.
Definition is_digit (c : ascii) : bool := (48 <=? code c)%N && (code c <=? 57)%N.
(* the other member of the simple case-folding orbit of an ASCII letter *)
Definition swapcase (c : ascii) : ascii :=
  if is_upper c then chr_of (code c + 32)%N else if is_lower c then chr_of (code c - 32)%N else c.

Inductive perl := PDigit | PWord | PSpace.
Definition perl_mem (k : perl) (c : ascii) : bool :=
  match k with
  | PDigit => is_digit c
  | PWord => is_digit c || is_upper c || is_lower c || (code c =? 95)%N
  | PSpace => ((9 <=? code c)%N && (code c <=? 13)%N) || (code c =? 32)%N
  end.

Inductive citem :=
| IChar (c : ascii)
| IRange (lo hi : ascii)
| IPerl (neg : bool) (k : perl).

(* [c_ci]: case-insensitive flag in force where the class/literal was written; negation applies
   after case folding (as in regex-syntax: fold, then negate). *)
Record cls := mkCls { c_neg : bool; c_ci : bool; c_items : list citem }.

Definition item_mem (ci : bool) (it : citem) (c : ascii) : bool :=
  match it with
  | IChar a => Ascii.eqb a c || (ci && Ascii.eqb a (swapcase c))
  | IRange lo hi => in_range lo hi c || (ci && in_range lo hi (swapcase c))
  | IPerl neg k => xorb neg (perl_mem k c)
  end.
Definition cls_mem (cl : cls) (c : ascii) : bool :=
  xorb (c_neg cl) (existsb (fun it => item_mem (c_ci cl) it c) (c_items cl)).

(* ------------------------------------------------------------------------------------------ *)
Inductive re :=
| Eps
| Chr (c : cls)
| Bol | Eol                                   (* ^ and $ without the multi-line flag: start / end of the text *)
| Cat (a b : re)
| Alt (a b : re)
| Rep (r : re) (lo : nat) (hi : option nat)   (* r{lo,hi}; * = {0,}, + = {1,}, ? = {0,1} *)
| Group (r : re).

(* n-ary concatenation / alternation as the parser builds them *)
Definition cats (l : list re) : re := fold_right Cat Eps l.
Fixpoint alts (a : re) (l : list re) : re :=
  match l with [] => a | b :: l' => Alt a (alts b l') end.

(* ------------------------------------------------------------------------------------------ *)
(* relational semantics: positions are indices into the whole text (anchors look at them) *)
Inductive ipow (R : nat -> nat -> Prop) : nat -> nat -> nat -> Prop :=
| P0 i : ipow R 0 i i
| PS k i j l : R i j -> ipow R k j l -> ipow R (S k) i l.

Definition hi_ok (hi : option nat) (k : nat) : Prop := match hi with Some h => k <= h | None => True end.

Inductive mt (s : str) : re -> nat -> nat -> Prop :=
| MEps i : mt s Eps i i
| MChr c i a : nth_error s i = Some a -> cls_mem c a = true -> mt s (Chr c) i (S i)
| MBol : mt s Bol 0 0
| MEol : mt s Eol (length s) (length s)
| MCat a b i j k : mt s a i j -> mt s b j k -> mt s (Cat a b) i k
| MAltL a b i j : mt s a i j -> mt s (Alt a b) i j
| MAltR a b i j : mt s b i j -> mt s (Alt a b) i j
| MRep r lo hi k i j : lo <= k -> hi_ok hi k -> ipow (mt s r) k i j -> mt s (Rep r lo hi) i j
| MGroup r i j : mt s r i j -> mt s (Group r) i j.

(* the regular expression matches the entire text *)
Definition matches_whole (r : re) (s : str) : Prop := mt s r 0 (length s).
(* the regular expression matches somewhere in the text *)
Definition matches_somewhere (r : re) (s : str) : Prop := exists i j, i <= length s /\ mt s r i j.

(* ------------------------------------------------------------------------------------------ *)
(* executable semantics *)
Definition dedup (l : list nat) : list nat := nodup Nat.eq_dec l.
Definition sstep (f : nat -> list nat) (X : list nat) : list nat := dedup (flat_map f X).
(* exactly k applications *)
Fixpoint iter_step (f : nat -> list nat) (k : nat) (X : list nat) : list nat :=
  match k with 0 => X | S k' => iter_step f k' (sstep f X) end.
(* 0 .. d applications *)
Fixpoint upto (f : nat -> list nat) (d : nat) (X : list nat) : list nat :=
  match d with 0 => X | S d' => X ++ upto f d' (sstep f X) end.

Fixpoint ends (r : re) (s : str) (i : nat) : list nat :=
  match r with
  | Eps => [i]
  | Chr c => match nth_error s i with
             | Some a => if cls_mem c a then [S i] else []
             | None => []
             end
  | Bol => if i =? 0 then [i] else []
  | Eol => if i =? length s then [i] else []
  | Cat a b => dedup (flat_map (ends b s) (ends a s i))
  | Alt a b => ends a s i ++ ends b s i
  | Rep r lo hi =>
      let X := iter_step (ends r s) lo [i] in
      match hi with
      | None => dedup (upto (ends r s) (length s) X)      (* fuel |s| suffices: RegexProofs.ends_correct *)
      | Some h => if h <? lo then [] else dedup (upto (ends r s) (h - lo) X)
      end
  | Group r => ends r s i
  end.

Definition fullmatch (r : re) (s : str) : bool := existsb (Nat.eqb (length s)) (ends r s 0).
Definition nonempty {A} (l : list A) : bool := match l with [] => false | _ => true end.
Definition search (r : re) (s : str) : bool :=
  existsb (fun i => nonempty (ends r s i)) (List.seq 0 (S (length s))).
