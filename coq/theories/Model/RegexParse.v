(* Character-driven stack-machine parser for the regex subset of C06 (mirrors the part of
   regex-syntax 0.6 `ast::parse` + `hir::translate` that the subset needs).

   State: a stack of frames (one per open group, the bottom one is the whole pattern), each with the
   finished alternatives, the current concatenation and the case-insensitivity flag in force, plus a
   lexer mode.  One character = one [step].  [step] decides from the *top frame and the mode only*
   ([step_top]) which of three stack actions to take; that is what makes text-level wrapping
   ("^(?:" ++ pat ++ ")$") provably the same as AST-level wrapping (Proofs/RegexParseProofs.v).

   [None] = not in the subset (either the regex crate rejects the text too, or the construct is
   outside what is modelled: Unicode classes, \x escapes, \b, flags other than i, named groups,
   nested / POSIX / set-operation classes, spaces inside {m,n}, counts above 1000, ...).
   Definitions only. *)
From RJ Require Import Base.Prelude Model.Regex.
From Coq Require Import String.
Local Open Scope char_scope.
Local Open Scope nat_scope.

Record frame := mkFrame {
  f_alts : list re;     (* finished alternatives of this group, most recent first *)
  f_cur  : list re;     (* current concatenation, most recent first *)
  f_ci   : bool }.      (* case-insensitive flag in force *)

(* what has been read of a bracketed class item that may still become a range *)
Inductive pending := PNone | PChar (c : ascii) | PDash (c : ascii) | PTrail.

Inductive mode :=
| Normal
| Quant                       (* just after a quantifier: a following ? only makes it lazy *)
| AfterFlags                  (* just after (?i) / (?-i): a quantifier here is an error *)
| Esc                         (* after a backslash *)
| Open                        (* after ( *)
| OpenQ                       (* after (? *)
| FlagNeg                     (* after (?- *)
| Flags (on : bool)           (* after (?i or (?-i *)
| ClsOpen                     (* after [ *)
| ClsFirst (neg : bool)       (* after [ or [^ : nothing read yet *)
| Cls (neg : bool) (items : list citem) (p : pending)      (* items most recent first *)
| ClsEsc (neg : bool) (items : list citem) (p : pending)   (* after a backslash inside a class *)
| RepLo (d : option nat)      (* after { and some digits *)
| RepHi (lo : nat) (d : option nat).   (* after {lo, and some digits *)

Record pst := mkPst { stk : list frame; md : mode }.

Definition newframe (ci : bool) : frame := mkFrame [] [] ci.
Definition push_atom (a : re) (f : frame) : frame := mkFrame (f_alts f) (a :: f_cur f) (f_ci f).
Definition set_ci (on : bool) (f : frame) : frame := mkFrame (f_alts f) (f_cur f) on.
Definition next_alt (f : frame) : frame := mkFrame (cats (rev (f_cur f)) :: f_alts f) [] (f_ci f).
Definition postfix (k : re -> re) (f : frame) : option frame :=
  match f_cur f with
  | [] => None                                 (* repetition operator missing expression *)
  | a :: r => Some (mkFrame (f_alts f) (k a :: r) (f_ci f))
  end.
(* the AST of a finished group body *)
Definition close (f : frame) : re :=
  match rev (cats (rev (f_cur f)) :: f_alts f) with
  | [] => Eps                                   (* unreachable: the list is never empty *)
  | a :: l => alts a l
  end.

Definition lit (ci : bool) (c : ascii) : re := Chr (mkCls false ci [IChar c]).
Definition dot : re := Chr (mkCls true false [IChar "010"]).
Definition perl_cls (neg : bool) (k : perl) : re := Chr (mkCls false false [IPerl neg k]).

(* regex-syntax 0.6 is_meta_character *)
Definition is_meta (c : ascii) : bool :=
  existsb (Ascii.eqb c) ["\"; "."; "+"; "*"; "?"; "("; ")"; "|"; "["; "]"; "{"; "}"; "^"; "$"; "#"; "&"; "-"; "~"].
Definition perl_of (c : ascii) : option (bool * perl) :=
  if Ascii.eqb c "d" then Some (false, PDigit) else if Ascii.eqb c "D" then Some (true, PDigit)
  else if Ascii.eqb c "w" then Some (false, PWord) else if Ascii.eqb c "W" then Some (true, PWord)
  else if Ascii.eqb c "s" then Some (false, PSpace) else if Ascii.eqb c "S" then Some (true, PSpace)
  else None.
(* \n \t \r and escaped punctuation denote a single character *)
Definition esc_char (c : ascii) : option ascii :=
  if is_meta c then Some c
  else if Ascii.eqb c "n" then Some "010" else if Ascii.eqb c "t" then Some "009"
  else if Ascii.eqb c "r" then Some "013" else None.
(* the atom an escape sequence \c stands for outside a class *)
Definition escape_atom (ci : bool) (c : ascii) : option re :=
  match esc_char c with
  | Some x => Some (lit ci x)
  | None =>
    match perl_of c with
    | Some (neg, k) => Some (perl_cls neg k)
    | None => if Ascii.eqb c "A" then Some Bol else if Ascii.eqb c "z" then Some Eol else None
    end
  end.

Definition digit_val (c : ascii) : option nat :=
  if is_digit c then Some (N.to_nat (code c - 48)%N) else None.
Definition max_count : nat := 1000.
Definition add_digit (d : option nat) (v : nat) : option nat :=
  let n := match d with Some n => 10 * n + v | None => v end in
  if max_count <? n then None else Some n.

(* ---- what a character does, as seen from the top frame only ---- *)
Inductive nact :=                        (* actions of the normal mode: never push *)
| NSet (f : frame) (m : mode)            (* replace the top frame *)
| NPop (a : re) (m : mode).              (* pop the top frame, append atom a to the one below *)
Inductive act :=
| ASet (f : frame) (m : mode)
| APush (f : frame) (n : frame) (m : mode)   (* replace the top frame by f and push n above it *)
| APop (a : re) (m : mode).

Definition lift (x : option nact) : option act :=
  match x with Some (NSet f m) => Some (ASet f m) | Some (NPop a m) => Some (APop a m) | None => None end.

Definition quantify (k : re -> re) (f : frame) : option nact :=
  option_map (fun f' => NSet f' Quant) (postfix k f).

Definition normal_step (f : frame) (c : ascii) : option nact :=
  if Ascii.eqb c "(" then Some (NSet f Open)
  else if Ascii.eqb c ")" then Some (NPop (Group (close f)) Normal)
  else if Ascii.eqb c "|" then Some (NSet (next_alt f) Normal)
  else if Ascii.eqb c "*" then quantify (fun a => Rep a 0 None) f
  else if Ascii.eqb c "+" then quantify (fun a => Rep a 1 None) f
  else if Ascii.eqb c "?" then quantify (fun a => Rep a 0 (Some 1)) f
  else if Ascii.eqb c "{" then match f_cur f with [] => None | _ => Some (NSet f (RepLo None)) end
  else if Ascii.eqb c "^" then Some (NSet (push_atom Bol f) Normal)
  else if Ascii.eqb c "$" then Some (NSet (push_atom Eol f) Normal)
  else if Ascii.eqb c "." then Some (NSet (push_atom dot f) Normal)
  else if Ascii.eqb c "\" then Some (NSet f Esc)
  else if Ascii.eqb c "[" then Some (NSet f ClsOpen)
  else Some (NSet (push_atom (lit (f_ci f) c) f) Normal).

Definition is_quant_char (c : ascii) : bool :=
  Ascii.eqb c "*" || Ascii.eqb c "+" || Ascii.eqb c "?" || Ascii.eqb c "{".

(* finished items of a class, flushing what is pending *)
Definition flush (items : list citem) (p : pending) : list citem :=
  match p with
  | PNone => items
  | PChar c => IChar c :: items
  | PDash c => IChar "-" :: IChar c :: items
  | PTrail => IChar "-" :: items
  end.
Definition cls_atom (ci neg : bool) (items : list citem) : re := Chr (mkCls neg ci (rev items)).
(* The regex crate refuses a class that denotes the empty set.  In the subset a class that is not
   negated never is empty; a negated one can only be when it contains \D, \W or \S (nothing else
   reaches the non-ASCII characters outside \w and \s).  Such classes are left out of the subset. *)
Definition is_neg_perl (it : citem) : bool := match it with IPerl true _ => true | _ => false end.
Definition cls_allowed (neg : bool) (items : list citem) : bool := negb (neg && existsb is_neg_perl items).

(* a single (possibly escaped) character x read inside a class *)
Definition cls_char (neg : bool) (items : list citem) (p : pending) (x : ascii) : option mode :=
  match p with
  | PNone => Some (Cls neg items (PChar x))
  | PChar c => Some (Cls neg (IChar c :: items) (PChar x))
  | PDash c => if (code x <? code c)%N then None else Some (Cls neg (IRange c x :: items) PNone)
  | PTrail => None
  end.

Definition cls_step (ci : bool) (f : frame) (neg : bool) (items : list citem) (p : pending) (c : ascii) : option act :=
  if Ascii.eqb c "]" then
    match flush items p with
    | [] => None
    | its => if cls_allowed neg its then Some (ASet (push_atom (cls_atom ci neg its) f) Normal) else None
    end
  else if Ascii.eqb c "\" then Some (ASet f (ClsEsc neg items p))
  else if Ascii.eqb c "[" || Ascii.eqb c "&" || Ascii.eqb c "~" then None
  else if Ascii.eqb c "-" then
    match p with
    | PChar a => Some (ASet f (Cls neg items (PDash a)))
    | PNone => match items with [] => None | _ => Some (ASet f (Cls neg items PTrail)) end
    | _ => None
    end
  else option_map (ASet f) (cls_char neg items p c).

Definition step_top (f : frame) (m : mode) (c : ascii) : option act :=
  match m with
  | Normal => lift (normal_step f c)
  | Quant => if Ascii.eqb c "?" then Some (ASet f Normal) else lift (normal_step f c)
  | AfterFlags => if is_quant_char c then None else lift (normal_step f c)
  | Esc => option_map (fun a => ASet (push_atom a f) Normal) (escape_atom (f_ci f) c)
  | Open =>
      if Ascii.eqb c "?" then Some (ASet f OpenQ)
      else match normal_step (newframe (f_ci f)) c with
           | Some (NSet n m') => Some (APush f n m')
           | Some (NPop a m') => Some (ASet (push_atom a f) m')
           | None => None
           end
  | OpenQ =>
      if Ascii.eqb c ":" then Some (APush f (newframe (f_ci f)) Normal)
      else if Ascii.eqb c "i" then Some (ASet f (Flags true))
      else if Ascii.eqb c "-" then Some (ASet f FlagNeg)
      else None
  | FlagNeg => if Ascii.eqb c "i" then Some (ASet f (Flags false)) else None
  | Flags on =>
      if Ascii.eqb c ")" then Some (ASet (set_ci on f) AfterFlags)
      else if Ascii.eqb c ":" then Some (APush f (newframe on) Normal)
      else None
  | ClsOpen =>
      if Ascii.eqb c "^" then Some (ASet f (ClsFirst true))
      else if Ascii.eqb c "]" then None
      else if Ascii.eqb c "-" then Some (ASet f (Cls false [IChar "-"] PNone))
      else cls_step (f_ci f) f false [] PNone c
  | ClsFirst neg =>
      if Ascii.eqb c "]" then None
      else if Ascii.eqb c "-" then Some (ASet f (Cls neg [IChar "-"] PNone))
      else cls_step (f_ci f) f neg [] PNone c
  | Cls neg items p => cls_step (f_ci f) f neg items p c
  | ClsEsc neg items p =>
      match esc_char c with
      | Some x => option_map (ASet f) (cls_char neg items p x)
      | None =>
        match perl_of c, p with
        | Some (ng, k), PNone => Some (ASet f (Cls neg (IPerl ng k :: items) PNone))
        | Some (ng, k), PChar a => Some (ASet f (Cls neg (IPerl ng k :: IChar a :: items) PNone))
        | _, _ => None
        end
      end
  | RepLo d =>
      match digit_val c with
      | Some v => option_map (fun n => ASet f (RepLo (Some n))) (add_digit d v)
      | None =>
        match d with
        | None => None
        | Some n =>
          if Ascii.eqb c "}" then option_map (fun f' => ASet f' Quant) (postfix (fun a => Rep a n (Some n)) f)
          else if Ascii.eqb c "," then Some (ASet f (RepHi n None))
          else None
        end
      end
  | RepHi lo d =>
      match digit_val c with
      | Some v => option_map (fun n => ASet f (RepHi lo (Some n))) (add_digit d v)
      | None =>
        if Ascii.eqb c "}" then
          match d with
          | None => option_map (fun f' => ASet f' Quant) (postfix (fun a => Rep a lo None) f)
          | Some h => if h <? lo then None
                      else option_map (fun f' => ASet f' Quant) (postfix (fun a => Rep a lo (Some h)) f)
          end
        else None
      end
  end.

Definition apply_act (a : act) (below : list frame) : option pst :=
  match a with
  | ASet f m => Some (mkPst (f :: below) m)
  | APush f n m => Some (mkPst (n :: f :: below) m)
  | APop x m => match below with
                | [] => None                       (* unmatched ) *)
                | g :: b => Some (mkPst (push_atom x g :: b) m)
                end
  end.

Definition step (s : pst) (c : ascii) : option pst :=
  match stk s with
  | [] => None
  | f :: below => match step_top f (md s) c with
                  | Some a => apply_act a below
                  | None => None
                  end
  end.

Definition ostep (o : option pst) (c : ascii) : option pst :=
  match o with Some s => step s c | None => None end.
Definition run (s : pst) (t : str) : option pst := fold_left ostep t (Some s).

Definition init : pst := mkPst [newframe false] Normal.
(* modes in which a pattern (or a group body) may end *)
Definition final_mode (m : mode) : bool :=
  match m with Normal | Quant | AfterFlags => true | _ => false end.

Definition parse (t : str) : option re :=
  match run init t with
  | Some (mkPst [f] m) => if final_mode m then Some (close f) else None
  | _ => None
  end.
