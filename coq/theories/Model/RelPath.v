(* String-level view of root_relative_path.rs: a RootRelativePath is ONE string, the components joined with '/'
   (TryFrom<&Path>), "" for the root.  The string operations used by RootRelativePath::is_same_or_inside under the
   names tools/rs2coq.py emits (Gen/FactsTransPath.v).  Strings are byte lists; a Rust `s[n..]` panics when n is beyond
   the end or not on a UTF-8 character boundary (the byte at n is a continuation byte 0x80..0xBF).  Definitions only. *)
From RJ Require Import Base.Prelude Model.Core Model.Fs Model.Paths Model.TransSupport.
Local Open Scope char_scope.

Definition render (p : path) : str := join_with "/" p.                (* the inner string of a path *)

Definition str_is_empty (s : str) : bool := match s with [] => true | _ => false end.
Definition str_len (s : str) : nat := length s.
Fixpoint str_starts_with (p s : str) : bool :=                          (* s.starts_with(p) *)
  match p, s with
  | [], _ => true
  | x :: p', y :: s' => Ascii.eqb x y && str_starts_with p' s'
  | _ :: _, [] => false
  end.
Definition str_starts_with_char (c : ascii) (s : str) : bool :=
  match s with x :: _ => Ascii.eqb x c | [] => false end.
Fixpoint str_skip (n : nat) (s : str) : option str :=                   (* &s[n..] *)
  match n, s with
  | O, [] => Some []
  | O, c :: _ => if cont c then None else Some s                         (* not a character boundary: panic *)
  | S n', _ :: r => str_skip n' r
  | S _, [] => None                                                      (* beyond the end: panic *)
  end.

(* the components of a root-relative path as TryFrom<&Path> produces them: non-empty, no '/' *)
Definition wf_name (n : str) : Prop := n <> [] /\ ~ In "/" n.
