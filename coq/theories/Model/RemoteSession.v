(* One boss <-> one REMOTE doer session of rjrssync as an interleaving transition system (C09, C14, C10).
   Definitions only.

   Code modelled (fixed tree, i.e. with the F5 repair):
     encrypted_comms.rs  AsyncEncryptedComms::new (sending thread, receiving thread), shutdown,
                         shutdown_with_final_message_sent_after_threads_joined, send, receive
     boss_launch.rs      Comms::send_command / receive_response / try_receive_response, Comms::shutdown (Remote)
     doer.rs             doer_main after the accept: message_loop, exit 20, the final message, stdin_reading_thread
     memory_bound_channel.rs  the capacity wait with the receiver_alive flag

   Processes (one atomic step = one atomic operation of the code; a blocking operation = a guarded step):
     boss main      the application protocol given as a list of operations [op] (send a command / blocking
                    receive / polling receive), then Comms::shutdown: send Shutdown (error ignored), blocking
                    receive of the final message (whatever arrives first is taken as "the final message"),
                    drop(sender), join the sending thread, drop(receiver), join the receiving thread, [all boss
                    handles of the socket are gone], drop(stdin/stdout), join the stderr reader + wait for ssh.
     sending thread (both sides, same code: [snd_step])  recv from its channel | on disconnect end Ok;
                    write the frame | on a socket error end Err; ending drops its channel end.
     receiving thread (both sides: [rcv_step])  read a frame | error, bad frame, unexpected nonce -> end Err;
                    push into its channel (capacity wait; fails when the receiver was dropped); final message -> Ok.
     doer main      message_loop: send the pending responses one by one (a failed send -> Err -> exit 20),
                    recv a command (a DISCONNECTED channel ends the loop with Ok - doer.rs:364-368 -, Shutdown
                    ends it with Ok), execute = the responses listed in the command, or one Error when the
                    fault plan says so; then drop(sender), join, drop(receiver), join, write the final message
                    DIRECTLY on the socket with the nonce counter RETURNED by the sending thread; exit 0.
     stdin watchdog of the doer: stdin closed -> the whole process exits with status 65 (exit(321)).
   Socket: one FIFO of frames per direction, capacity [S (sck c)] frames (any value >= 1); a cut makes every
   later write fail and every read of an EMPTY direction fail (frames that already arrived stay readable - frames
   lost in flight are the "bad frame" fault); a closed peer does the same.
   Channels: memory_bound_channel = (queue, receiver alive, sender alive); the capacity wait + inner.send is ONE
   guarded step [can_send] (sound: one sender per channel, the receiver never reads the counter - as in
   Model/Shutdown.v).  Capacity: any N, 0 included.
   Faults (finite budget, enabled at any moment): TCP cut; the next frame written in a direction is bad (replaced /
   dropped / duplicated on the wire: under the ideal-AEAD reading of Model/Frame.v the receiver's [receive] fails at
   that position); the doer process is killed; the boss side closes the doer's stdin early; a command is answered
   with an Error (plan [eplan], consumed one entry per command).

   Steps merged (and why that is sound):
     * fetch_add / capacity wait / inner.send of memory_bound_channel (see above);
     * "join the stderr reader" and "wait for ssh": both wait for the same event (the doer process is gone) and
       change nothing else, no other process observes the state between them;
     * the three socket handles of a side close together: the boss's when Comms::shutdown has joined both threads
       (the main handle is dropped when AsyncEncryptedComms::shutdown returns, one instruction later), the doer's
       when its process ends (its main handle lives until then);
     * a read of one frame (length, body, decrypt, deserialize) is one step: no other process can observe a
       partially read frame, and a partially WRITTEN frame is a bad frame for its reader.
   Ghost fields (never read by a guard): hsent / hgot (what a main thread handed to / took from its channels),
   dexec (commands executed), nfault. *)
From RJ Require Import Base.Prelude.

Inductive msg :=
| MCmd (id : N) (rs : list N)     (* command: identifier, identifiers of the responses its execution emits *)
| MShut                           (* Command::Shutdown - the final message boss -> doer *)
| MResp (id : N)
| MErr (id : N)                   (* Response::Error *)
| MFinal                          (* Response::ProfilingData - the final message doer -> boss *)
| MGarb.                          (* what an adversary put on the wire *)

Definition is_final (m : msg) : bool := match m with MShut | MFinal => true | _ => false end.
Definition is_resp (m : msg) : bool := match m with MResp _ => true | _ => false end.

Inductive op := OSend (id : N) (rs : list N) | ORecv | OTry.

Record config := mkCfg { cap : N; sck : nat; w : msg -> N }.

Record chan := mkChan { q : list msg; rxa : bool; txa : bool }.

Fixpoint qsum (f : msg -> N) (l : list msg) : N :=
  match l with [] => 0%N | m :: t => (f m + qsum f t)%N end.

(* the capacity wait followed by inner.send is enabled (fixed tree: the wait ends when the receiver is gone) *)
Definition can_send (c : config) (ch : chan) : bool := (qsum (w c) (q ch) <=? cap c)%N || negb (rxa ch).

Definition push (ch : chan) (m : msg) : chan := mkChan (q ch ++ [m]) (rxa ch) (txa ch).
Definition setq (ch : chan) (l : list msg) : chan := mkChan l (rxa ch) (txa ch).
Definition drop_rx (ch : chan) : chan := mkChan (q ch) false (txa ch).
Definition drop_tx (ch : chan) : chan := mkChan (q ch) (rxa ch) false.

Inductive sth := SIdle | SHold (m : msg) | SOk | SErr.
Inductive rth := RIdle | RHold (m : msg) | ROk | RErr.
Definition snd_ended (t : sth) : bool := match t with SOk | SErr => true | _ => false end.
Definition rcv_ended (t : rth) : bool := match t with ROk | RErr => true | _ => false end.

Record frame := mkFr { fnonce : N; fpay : msg; fgood : bool }.

(* one side of the connection: its two comms threads, the two channels between them and the main thread,
   the nonce counters *)
Record endpoint := mkEp {
  snd_t : sth; rcv_t : rth;
  outc : chan;            (* main thread -> sending thread *)
  inc : chan;             (* receiving thread -> main thread *)
  sn : N;                 (* sending nonce counter (returned by the sending thread when it ends Ok) *)
  rn : N;                 (* receiving nonce counter *)
  hsent : list msg;       (* ghost: what the main thread handed over, in order *)
  hgot : list msg }.      (* ghost: what the main thread took from its channel, in order *)

Definition set_snd (e : endpoint) (t : sth) := mkEp t (rcv_t e) (outc e) (inc e) (sn e) (rn e) (hsent e) (hgot e).
Definition set_rcv (e : endpoint) (t : rth) := mkEp (snd_t e) t (outc e) (inc e) (sn e) (rn e) (hsent e) (hgot e).
Definition set_outc (e : endpoint) (ch : chan) := mkEp (snd_t e) (rcv_t e) ch (inc e) (sn e) (rn e) (hsent e) (hgot e).
Definition set_inc (e : endpoint) (ch : chan) := mkEp (snd_t e) (rcv_t e) (outc e) ch (sn e) (rn e) (hsent e) (hgot e).
Definition set_sn (e : endpoint) (n : N) := mkEp (snd_t e) (rcv_t e) (outc e) (inc e) n (rn e) (hsent e) (hgot e).
Definition set_rn (e : endpoint) (n : N) := mkEp (snd_t e) (rcv_t e) (outc e) (inc e) (sn e) n (hsent e) (hgot e).
Definition add_sent (e : endpoint) (m : msg) := mkEp (snd_t e) (rcv_t e) (outc e) (inc e) (sn e) (rn e) (hsent e ++ [m]) (hgot e).
Definition add_got (e : endpoint) (m : msg) := mkEp (snd_t e) (rcv_t e) (outc e) (inc e) (sn e) (rn e) (hsent e) (hgot e ++ [m]).

(* encrypted_comms::send on a socket: [broken] = the write fails; [bad] = the adversary replaces this frame *)
Definition has_space (c : config) (wire : list frame) : bool := (length wire <=? sck c)%nat.
Definition wframe (e : endpoint) (m : msg) (bad : bool) : frame := mkFr (sn e) (if bad then MGarb else m) (negb bad).

(* the sending thread *)
Definition snd_step (c : config) (e : endpoint) (wire : list frame) (broken bad : bool)
  : option (endpoint * list frame * bool) :=
  match snd_t e with
  | SIdle =>
      match q (outc e) with
      | m :: t => Some (set_snd (set_outc e (setq (outc e) t)) (SHold m), wire, bad)
      | [] => if txa (outc e) then None
              else Some (set_snd (set_outc e (drop_rx (outc e))) SOk, wire, bad)
      end
  | SHold m =>
      if broken then Some (set_snd (set_outc e (drop_rx (outc e))) SErr, wire, bad)
      else if has_space c wire
           then Some (set_sn (set_snd e SIdle) (sn e + 2)%N, wire ++ [wframe e m bad], false)
           else None
  | _ => None
  end.

(* the receiving thread; [eof] = a read of the empty direction fails (cut, or the peer closed) *)
Definition rcv_step (c : config) (e : endpoint) (wire : list frame) (eof : bool)
  : option (endpoint * list frame) :=
  match rcv_t e with
  | RIdle =>
      match wire with
      | f :: t =>
          if fgood f && (fnonce f =? rn e)%N
          then Some (set_rn (set_rcv e (RHold (fpay f))) (rn e + 2)%N, t)
          else Some (set_rcv (set_inc e (drop_tx (inc e))) RErr, t)
      | [] => if eof then Some (set_rcv (set_inc e (drop_tx (inc e))) RErr, []) else None
      end
  | RHold m =>
      if can_send c (inc e) then
        if rxa (inc e)
        then Some (if is_final m then set_rcv (set_inc e (drop_tx (push (inc e) m))) ROk
                   else set_rcv (set_inc e (push (inc e) m)) RIdle, wire)
        else Some (set_rcv (set_inc e (drop_tx (inc e))) RErr, wire)
      else None
  | _ => None
  end.

(* a main thread's Sender::send: None = waiting for capacity, Some None = disconnected *)
Definition main_send (c : config) (e : endpoint) (m : msg) : option (option endpoint) :=
  if can_send c (outc e) then
    if rxa (outc e) then Some (Some (add_sent (set_outc e (push (outc e) m)) m)) else Some None
  else None.

(* a main thread's Receiver::recv: None = blocked, Some None = disconnected and empty *)
Definition main_recv (e : endpoint) : option (option (msg * endpoint)) :=
  match q (inc e) with
  | m :: t => Some (Some (m, add_got (set_inc e (setq (inc e) t)) m))
  | [] => if txa (inc e) then None else Some None
  end.

Inductive bpc := BApp | BShut | BFinal | BDropS | BJoinS | BDropR | BJoinR | BClose | BWait | BEnd.
Record bmain := mkB {
  pc : bpc;
  bops : list op;
  berr : bool;        (* an application operation failed: the sync returns Err, exit status 12 *)
  bfin : bool }.      (* the message taken at "wait for the final message" was the final message *)

Inductive dpc := DLoop | DDropS | DJoinS | DDropR | DJoinR | DFinal | DExit (code : N).
Record dmain := mkD {
  dp : dpc;
  dpend : list msg;   (* responses of the current command still to send *)
  eplan : list bool;  (* fault plan: the k-th command is answered with an Error *)
  dexec : list N }.   (* ghost: the commands executed, in order *)

Record env := mkEnv {
  cut : bool;             (* the TCP connection is cut *)
  dalive : bool;          (* the doer process exists *)
  dstat : option N;       (* its exit status: 0, 20, 65 (stdin closed), 137 (killed) *)
  stdin_open : bool;      (* the doer's stdin (through ssh) *)
  bsock : bool;           (* the boss still holds its end of the socket *)
  bad_b2d : bool; bad_d2b : bool;      (* the next frame written in that direction is bad *)
  f_cut : bool; f_kill : bool; f_stdin : bool; f_bad : nat;   (* fault budget *)
  nfault : nat }.         (* ghost: fault steps taken *)

Record st := mkSt { bm : bmain; be : endpoint; dm : dmain; de : endpoint;
                    b2d : list frame; d2b : list frame; ev : env }.

Definition set_bm (s : st) (b : bmain) := mkSt b (be s) (dm s) (de s) (b2d s) (d2b s) (ev s).
Definition set_be (s : st) (e : endpoint) := mkSt (bm s) e (dm s) (de s) (b2d s) (d2b s) (ev s).
Definition set_dm (s : st) (d : dmain) := mkSt (bm s) (be s) d (de s) (b2d s) (d2b s) (ev s).
Definition set_de (s : st) (e : endpoint) := mkSt (bm s) (be s) (dm s) e (b2d s) (d2b s) (ev s).
Definition set_b2d (s : st) (l : list frame) := mkSt (bm s) (be s) (dm s) (de s) l (d2b s) (ev s).
Definition set_d2b (s : st) (l : list frame) := mkSt (bm s) (be s) (dm s) (de s) (b2d s) l (ev s).
Definition set_ev (s : st) (v : env) := mkSt (bm s) (be s) (dm s) (de s) (b2d s) (d2b s) v.

Definition goto (b : bmain) (p : bpc) := mkB p (bops b) (berr b) (bfin b).
Definition bfail (b : bmain) := mkB BShut (bops b) true (bfin b).      (* sync() returned Err: error!(..), then the shutdown *)
Definition setops (b : bmain) (l : list op) := mkB (pc b) l (berr b) (bfin b).
Definition gotfinal (b : bmain) (m : msg) := mkB BDropS (bops b) (berr b) (match m with MFinal => true | _ => false end).
Definition bexit (b : bmain) : N := if berr b then 12%N else 0%N.

Definition dgoto (d : dmain) (p : dpc) := mkD p (dpend d) (eplan d) (dexec d).
Definition setpend (d : dmain) (l : list msg) := mkD (dp d) l (eplan d) (dexec d).
Definition plan_hd (l : list bool) : bool := match l with b :: _ => b | [] => false end.
Definition exec (d : dmain) (id : N) (rs : list N) :=
  mkD (dp d) (if plan_hd (eplan d) then [MErr id] else map MResp rs) (tl (eplan d)) (dexec d ++ [id]).

Definition ev_cut (v : env) := mkEnv true (dalive v) (dstat v) (stdin_open v) (bsock v) (bad_b2d v) (bad_d2b v) false (f_kill v) (f_stdin v) (f_bad v) (S (nfault v)).
Definition ev_end (v : env) (code : N) := mkEnv (cut v) false (Some code) (stdin_open v) (bsock v) (bad_b2d v) (bad_d2b v) (f_cut v) (f_kill v) (f_stdin v) (f_bad v) (nfault v).
Definition ev_kill (v : env) := mkEnv (cut v) false (Some 137%N) (stdin_open v) (bsock v) (bad_b2d v) (bad_d2b v) (f_cut v) false (f_stdin v) (f_bad v) (S (nfault v)).
Definition ev_stdin (v : env) := mkEnv (cut v) (dalive v) (dstat v) false (bsock v) (bad_b2d v) (bad_d2b v) (f_cut v) (f_kill v) (f_stdin v) (f_bad v) (nfault v).
Definition ev_fstdin (v : env) := mkEnv (cut v) (dalive v) (dstat v) false (bsock v) (bad_b2d v) (bad_d2b v) (f_cut v) (f_kill v) false (f_bad v) (S (nfault v)).
Definition ev_bsock (v : env) := mkEnv (cut v) (dalive v) (dstat v) (stdin_open v) false (bad_b2d v) (bad_d2b v) (f_cut v) (f_kill v) (f_stdin v) (f_bad v) (nfault v).
Definition ev_badb (v : env) (b : bool) := mkEnv (cut v) (dalive v) (dstat v) (stdin_open v) (bsock v) b (bad_d2b v) (f_cut v) (f_kill v) (f_stdin v) (f_bad v) (nfault v).
Definition ev_badd (v : env) (b : bool) := mkEnv (cut v) (dalive v) (dstat v) (stdin_open v) (bsock v) (bad_b2d v) b (f_cut v) (f_kill v) (f_stdin v) (f_bad v) (nfault v).
Definition ev_fbad (v : env) (d : bool) :=
  mkEnv (cut v) (dalive v) (dstat v) (stdin_open v) (bsock v) (if d then bad_b2d v else true) (if d then true else bad_d2b v)
        (f_cut v) (f_kill v) (f_stdin v) (pred (f_bad v)) (S (nfault v)).

(* the boss's writes fail / its reads of the empty direction fail: cut, or the doer process is gone *)
Definition b_broken (s : st) : bool := cut (ev s) || negb (dalive (ev s)).
(* the doer's: cut, or the boss has closed its end *)
Definition d_broken (s : st) : bool := cut (ev s) || negb (bsock (ev s)).

(* what the boss does with a message it received in the application protocol: an ordinary response lets it
   continue, anything else (Error, unexpected) makes the sync fail *)
Definition app_took (b : bmain) (t : list op) (m : msg) : bmain := if is_resp m then setops b t else bfail b.

Definition boss_step (c : config) (s : st) : option st :=
  let b := bm s in let e := be s in
  match pc b with
  | BApp =>
      match bops b with
      | [] => Some (set_bm s (goto b BShut))
      | OSend id rs :: t =>
          match main_send c e (MCmd id rs) with
          | None => None
          | Some None => Some (set_bm s (bfail b))                       (* "Lost communication" *)
          | Some (Some e') => Some (set_be (set_bm s (setops b t)) e')
          end
      | ORecv :: t =>
          match main_recv e with
          | None => None
          | Some None => Some (set_bm s (bfail b))
          | Some (Some (m, e')) => Some (set_be (set_bm s (app_took b t m)) e')
          end
      | OTry :: t =>
          match main_recv e with
          | None => Some (set_bm s (setops b t))                         (* Empty *)
          | Some None => Some (set_bm s (bfail b))                       (* Disconnected *)
          | Some (Some (m, e')) => Some (set_be (set_bm s (app_took b t m)) e')
          end
      end
  | BShut =>                                  (* let _ = self.send_command(Command::Shutdown) *)
      match main_send c e MShut with
      | None => None
      | Some None => Some (set_bm s (goto b BFinal))
      | Some (Some e') => Some (set_be (set_bm s (goto b BFinal)) e')
      end
  | BFinal =>                                 (* match encrypted_comms.receiver.recv() { .. } *)
      match main_recv e with
      | None => None
      | Some None => Some (set_bm s (goto b BDropS))
      | Some (Some (m, e')) => Some (set_be (set_bm s (gotfinal b m)) e')
      end
  | BDropS => Some (set_be (set_bm s (goto b BJoinS)) (set_outc e (drop_tx (outc e))))
  | BJoinS => if snd_ended (snd_t e) then Some (set_bm s (goto b BDropR)) else None
  | BDropR => Some (set_be (set_bm s (goto b BJoinR)) (set_inc e (drop_rx (inc e))))
  | BJoinR => if rcv_ended (rcv_t e) then Some (set_ev (set_bm s (goto b BClose)) (ev_bsock (ev s))) else None
  | BClose => Some (set_ev (set_bm s (goto b BWait)) (ev_stdin (ev s)))        (* drop(stdin); drop(stdout) *)
  | BWait => if dalive (ev s) then None else Some (set_bm s (goto b BEnd))    (* stderr reader, ssh.wait() *)
  | BEnd => None
  end.

Definition doer_step (c : config) (s : st) : option st :=
  let d := dm s in let e := de s in
  match dp d with
  | DLoop =>
      match dpend d with
      | r :: rest =>
          match main_send c e r with
          | None => None
          | Some None => Some (set_dm s (dgoto d (DExit 20%N)))          (* message_loop returns Err *)
          | Some (Some e') => Some (set_de (set_dm s (setpend d rest)) e')
          end
      | [] =>
          match main_recv e with
          | None => None
          | Some None => Some (set_dm s (dgoto d DDropS))                (* "Boss disconnected": the loop ends with Ok *)
          | Some (Some (m, e')) =>
              match m with
              | MCmd id rs => Some (set_de (set_dm s (exec d id rs)) e')
              | MShut => Some (set_de (set_dm s (dgoto d DDropS)) e')
              | _ => Some (set_de (set_dm s (dgoto d (DExit 101%N))) e')   (* not a command: cannot be deserialized as one *)
              end
          end
      end
  | DDropS => Some (set_de (set_dm s (dgoto d DJoinS)) (set_outc e (drop_tx (outc e))))
  | DJoinS => if snd_ended (snd_t e) then Some (set_dm s (dgoto d DDropR)) else None
  | DDropR => Some (set_de (set_dm s (dgoto d DJoinR)) (set_inc e (drop_rx (inc e))))
  | DJoinR => if rcv_ended (rcv_t e) then Some (set_dm s (dgoto d DFinal)) else None
  | DFinal =>
      match snd_t e with
      | SOk =>                                 (* send(final message) directly on the socket; an error is only logged *)
          if d_broken s then Some (set_dm s (dgoto d (DExit 0%N)))
          else if has_space c (d2b s)
               then Some (set_ev (set_d2b (set_de (set_dm s (dgoto d (DExit 0%N))) (add_sent (set_sn e (sn e + 2)%N) MFinal))
                                          (d2b s ++ [wframe e MFinal (bad_d2b (ev s))]))
                                 (ev_badd (ev s) false))
               else None
      | _ => Some (set_dm s (dgoto d (DExit 0%N)))   (* "Unable to send final message" *)
      end
  | DExit code => Some (set_ev s (ev_end (ev s) code))
  end.

Definition at_end (s : st) : bool := match pc (bm s) with BEnd => true | _ => false end.
Definition final (s : st) : bool := at_end s && negb (dalive (ev s)).

Inductive action :=
| ABoss | ABSnd | ABRcv                 (* boss main, its sending thread, its receiving thread *)
| ADoer | ADSnd | ADRcv | AWatch        (* doer main, its comms threads, its stdin watchdog *)
| FCut | FKill | FStdin | FBad (d2b_dir : bool).

Definition next (c : config) (a : action) (s : st) : option st :=
  if final s then None else
  match a with
  | ABoss => boss_step c s
  | ABSnd =>
      if at_end s then None else
      match snd_step c (be s) (b2d s) (b_broken s) (bad_b2d (ev s)) with
      | Some (e', wr, bad') => Some (set_ev (set_b2d (set_be s e') wr) (ev_badb (ev s) bad'))
      | None => None
      end
  | ABRcv =>
      if at_end s then None else
      match rcv_step c (be s) (d2b s) (b_broken s) with
      | Some (e', wr) => Some (set_d2b (set_be s e') wr)
      | None => None
      end
  | ADoer => if dalive (ev s) then doer_step c s else None
  | ADSnd =>
      if dalive (ev s) then
        match snd_step c (de s) (d2b s) (d_broken s) (bad_d2b (ev s)) with
        | Some (e', wr, bad') => Some (set_ev (set_d2b (set_de s e') wr) (ev_badd (ev s) bad'))
        | None => None
        end
      else None
  | ADRcv =>
      if dalive (ev s) then
        match rcv_step c (de s) (b2d s) (d_broken s) with
        | Some (e', wr) => Some (set_b2d (set_de s e') wr)
        | None => None
        end
      else None
  | AWatch => if dalive (ev s) && negb (stdin_open (ev s)) then Some (set_ev s (ev_end (ev s) 65%N)) else None
  | FCut => if f_cut (ev s) && negb (cut (ev s)) then Some (set_ev s (ev_cut (ev s))) else None
  | FKill => if f_kill (ev s) && dalive (ev s) then Some (set_ev s (ev_kill (ev s))) else None
  | FStdin => if f_stdin (ev s) && stdin_open (ev s) then Some (set_ev s (ev_fstdin (ev s))) else None
  | FBad d =>
      match f_bad (ev s) with
      | O => None
      | S _ => if (if d then bad_d2b (ev s) else bad_b2d (ev s)) then None else Some (set_ev s (ev_fbad (ev s) d))
      end
  end.

Definition step (c : config) (s s' : st) : Prop := exists a, next c a s = Some s'.

Record scenario := mkSc {
  sc_ops : list op;          (* the boss's application protocol on this connection *)
  sc_eplan : list bool;      (* which commands answer Error *)
  sc_cut : bool; sc_kill : bool; sc_stdin : bool; sc_bad : nat }.    (* fault budget *)

Definition ch0 : chan := mkChan [] true true.
Definition init (x : scenario) : st :=
  mkSt (mkB BApp (sc_ops x) false false)
       (mkEp SIdle RIdle ch0 ch0 0%N 1%N [] [])      (* boss: even sending nonces, expects odd ones *)
       (mkD DLoop [] (sc_eplan x) [])
       (mkEp SIdle RIdle ch0 ch0 1%N 0%N [] [])      (* doer: AsyncEncryptedComms::new(.., 1, 0, ..) *)
       [] []
       (mkEnv false true None true true false false (sc_cut x) (sc_kill x) (sc_stdin x) (sc_bad x) 0).

Inductive reach (c : config) (x : scenario) : st -> Prop :=
| reach_init : reach c x (init x)
| reach_step s s' : reach c x s -> step c s s' -> reach c x s'.

Definition all_actions : list action :=
  [ABoss; ABSnd; ABRcv; ADoer; ADSnd; ADRcv; AWatch; FCut; FKill; FStdin; FBad false; FBad true].
Definition is_none {A} (o : option A) : bool := match o with None => true | Some _ => false end.
Definition stuck (c : config) (s : st) : bool :=
  negb (final s) && forallb (fun a => is_none (next c a s)) all_actions.

(* ---------------------------------------------------------------------------------------------- *)
(* Executable runs *)
Fixpoint run_sched (c : config) (s : st) (l : list action) : st :=
  match l with
  | [] => s
  | a :: r => match next c a s with Some s' => run_sched c s' r | None => run_sched c s r end
  end.

Fixpoint first_enabled (c : config) (s : st) (ord : list action) : option st :=
  match ord with
  | [] => None
  | a :: r => match next c a s with Some s' => Some s' | None => first_enabled c s r end
  end.
Fixpoint run_prio (c : config) (fuel : nat) (ord : list action) (s : st) : st :=
  match fuel with
  | O => s
  | S n => match first_enabled c s ord with Some s' => run_prio c n ord s' | None => s end
  end.

(* a fault at a chosen position: the priority run goes on until the trigger holds, then the fault action is
   taken (if enabled), then the priority run continues to the end *)
Inductive trig :=
| TFrames (d2b_dir : bool) (n : N)    (* at least n frames were written in that direction *)
| TExec (n : nat)                     (* the doer has executed at least n commands *)
| TSteps (n : nat).                   (* after n steps *)
Definition frames_written (s : st) (d : bool) : N :=
  if d then ((sn (de s) - 1) / 2)%N else (sn (be s) / 2)%N.
Definition trig_ok (t : trig) (s : st) (steps : nat) : bool :=
  match t with
  | TFrames d n => (n <=? frames_written s d)%N
  | TExec n => (n <=? length (dexec (dm s)))%nat
  | TSteps n => (n <=? steps)%nat
  end.
Fixpoint run_plan (c : config) (fuel : nat) (ord : list action) (pl : list (trig * action)) (steps : nat) (s : st) : st :=
  match fuel with
  | O => s
  | S n =>
      match pl with
      | (t, a) :: rest =>
          if trig_ok t s steps
          then match next c a s with
               | Some s' => run_plan c n ord rest (S steps) s'
               | None => run_plan c n ord rest steps s
               end
          else match first_enabled c s ord with
               | Some s' => run_plan c n ord pl (S steps) s'
               | None => s
               end
      | [] => match first_enabled c s ord with Some s' => run_plan c n ord [] (S steps) s' | None => s end
      end
  end.

(* ---------------------------------------------------------------------------------------------- *)
(* Termination measure: every message weighted by the steps it can still cause where it is. *)
Definition mw (m : msg) : nat := match m with MCmd _ rs => 7 * S (length rs) | _ => 0 end.
Fixpoint lw (k : nat) (l : list msg) : nat := match l with [] => 0 | m :: t => k + mw m + lw k t end.
Fixpoint fw (l : list frame) : nat := match l with [] => 0 | f :: t => 4 + mw (fpay f) + fw t end.
Definition sthw (t : sth) : nat := match t with SIdle => 1 | SHold m => 6 + mw m | _ => 0 end.
Definition rthw (t : rth) : nat := match t with RIdle => 1 | RHold m => 4 + mw m | _ => 0 end.
Definition epw (e : endpoint) : nat := sthw (snd_t e) + rthw (rcv_t e) + lw 6 (q (outc e)) + lw 2 (q (inc e)).
Definition opw (o : op) : nat := match o with OSend id rs => 7 + mw (MCmd id rs) | _ => 1 end.
Fixpoint opsw (l : list op) : nat := match l with [] => 0 | o :: t => opw o + opsw t end.
Definition bpcw (p : bpc) : nat :=
  match p with
  | BEnd => 0 | BWait => 1 | BClose => 2 | BJoinR => 3 | BDropR => 4 | BJoinS => 5 | BDropS => 6 | BFinal => 7
  | BShut => 14 | BApp => 15
  end.
Definition dpcw (p : dpc) : nat :=
  match p with
  | DExit _ => 0 | DFinal => 5 | DJoinR => 6 | DDropR => 7 | DJoinS => 8 | DDropS => 9 | DLoop => 10
  end.
Definition b2n (b : bool) : nat := if b then 1 else 0.
Definition envw (v : env) : nat :=
  b2n (dalive v) + b2n (f_cut v) + b2n (f_kill v) + b2n (f_stdin v) + f_bad v.
Definition mu (s : st) : nat :=
  bpcw (pc (bm s)) + opsw (bops (bm s)) + epw (be s)
  + dpcw (dp (dm s)) + lw 7 (dpend (dm s)) + epw (de s)
  + fw (b2d s) + fw (d2b s) + envw (ev s).

Definition run_to_end (c : config) (ord : list action) (s : st) : st := run_prio c (S (mu s)) ord s.
Definition run_plan_to_end (c : config) (ord : list action) (pl : list (trig * action)) (s : st) : st :=
  run_plan c (S (mu s) + length pl) ord pl 0 s.

(* ---------------------------------------------------------------------------------------------- *)
(* Premises of the no-stuck theorem (see design.d/C09.md).
   resp_ok: everything the doer can ever send back on this connection - the responses of every command (or the
   Error that replaces them) and the final message - fits into the channel capacity in total, so the boss's
   receiving thread never waits for the boss main thread.  The command direction is unrestricted (below, at,
   above capacity).
   covered: the boss never blocks for a response that no command of its protocol produces. *)
Definition zerr (c : config) (id : N) : N := w c (MErr id).
Fixpoint respw (c : config) (id : N) (rs : list N) : N :=
  match rs with [] => 0%N | r :: t => (w c (MResp r) + respw c id t)%N end.
Definition cmdw (c : config) (id : N) (rs : list N) : N := (respw c id rs + zerr c id)%N.
Fixpoint opsrw (c : config) (l : list op) : N :=
  match l with
  | [] => 0%N
  | OSend id rs :: t => (cmdw c id rs + opsrw c t)%N
  | _ :: t => opsrw c t
  end.
Definition resp_ok (c : config) (x : scenario) : Prop := (opsrw c (sc_ops x) + w c MFinal <= cap c)%N.

Fixpoint covered (avail : nat) (l : list op) : bool :=
  match l with
  | [] => true
  | OSend _ rs :: t => covered (avail + length rs) t
  | ORecv :: t => match avail with O => false | S n => covered n t end
  | OTry :: t => covered (pred avail) t
  end.
