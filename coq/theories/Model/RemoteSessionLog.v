(* Remote session model with a ghost log of every frame ever written to the socket, per direction (C10: nonces).
   Definitions only.  A NEW layer over Model/RemoteSession.v: the logged system takes exactly the steps of the
   base system ([lnext] = [next] on the base state) and appends to the log of a direction whatever that step appended
   to the wire of that direction (a step either appends one frame to a wire, or removes its head, or leaves it alone). *)
From RJ Require Import Base.Prelude Model.RemoteSession.

Record lst := mkL { base : st; lb2d : list frame; ld2b : list frame }.

Definition appended (old new : list frame) : list frame := skipn (length old) new.

Definition lnext (c : config) (a : action) (l : lst) : option lst :=
  match next c a (base l) with
  | Some s' => Some (mkL s' (lb2d l ++ appended (b2d (base l)) (b2d s')) (ld2b l ++ appended (d2b (base l)) (d2b s')))
  | None => None
  end.

Definition lstep (c : config) (l l' : lst) : Prop := exists a, lnext c a l = Some l'.
Definition linit (x : scenario) : lst := mkL (init x) [] [].

Inductive lreach (c : config) (x : scenario) : lst -> Prop :=
| lreach_init : lreach c x (linit x)
| lreach_step l l' : lreach c x l -> lstep c l l' -> lreach c x l'.

(* nonces a, a+2, a+4, ... *)
Fixpoint chained (a : N) (w : list frame) : Prop :=
  match w with [] => True | f :: t => fnonce f = a /\ chained (a + 2)%N t end.
Definition nend (a : N) (w : list frame) : N := (a + 2 * N.of_nat (length w))%N.

Fixpoint run_sched_l (c : config) (l : lst) (sch : list action) : lst :=
  match sch with
  | [] => l
  | a :: r => match lnext c a l with Some l' => run_sched_l c l' r | None => run_sched_l c l r end
  end.
