(* Where a file or symlink source lands when the destination is spelled with a trailing slash:
   get_root_details, boss_sync.rs:374-395

       let src_has_backslash_separator = ctx.src_dir_separator == Some('\\');
       let src_filename = ctx.src_root.split(|c| c == '/' || (c == '\\' && src_has_backslash_separator)).last();
       ctx.dest_root = ctx.dest_root.clone() + c;

   [win] = the source doer reported '\' as its separator (a Windows source).  [src_file_name_old] is the pinned tree
   (F14): it split at a backslash whatever the source platform.  Definitions only. *)
From RJ Require Import Base.Prelude.
Local Open Scope char_scope.

Definition is_sep (win : bool) (c : ascii) : bool :=
  Ascii.eqb c "/" || (win && Ascii.eqb c "\").

(* str::split(pred).last(): the text after the last separator; the whole text when there is none *)
Fixpoint last_piece (win : bool) (s acc : str) : str :=
  match s with
  | [] => acc
  | c :: r => if is_sep win c then last_piece win r [] else last_piece win r (acc ++ [c])
  end.

Definition src_file_name (win : bool) (src_root : str) : str := last_piece win src_root [].
Definition src_file_name_old (src_root : str) : str := last_piece true src_root [].

(* the destination root after the rewrite *)
Definition inside_root (win : bool) (src_root dest_root : str) : str := dest_root ++ src_file_name win src_root.
Definition inside_root_old (src_root dest_root : str) : str := dest_root ++ src_file_name_old src_root.

(* POSIX: the last component of a path - the text after the last '/' *)
Definition posix_basename (p : str) : str := last_piece false p [].
