(* Where the source lands: get_root_details of boss_sync.rs:336-398 with validate_trailing_slash
   (lines 48-59), as a decision on (source kind, source trailing slash, destination kind, destination
   trailing slash).  The kinds are what the doer's SetRoot reports for the path as spelled (on Linux a
   symlink spelled with a trailing slash is reported as the folder it points to - the '*' of the table). *)
From RJ Require Import Base.Prelude.

Inductive rkind := RFile | RLink | RFolder.
Inductive landing := Reject | Replace | Inside.     (* Inside: the source is placed at DEST/<source name> *)

Definition nonfolder (k : rkind) : bool := match k with RFolder => false | _ => true end.

Definition root_decision (src : rkind) (src_slash : bool) (dest : option rkind) (dest_slash : bool) : landing :=
  if nonfolder src && src_slash then Reject                                   (* "src path ... referred to with a trailing slash" *)
  else if match dest with Some d => nonfolder d && dest_slash | None => false end then Reject   (* same for dest *)
  else if nonfolder src && dest_slash then Inside                             (* dest root rewritten to dest + file name *)
  else Replace.

(* The table of docs/notes.md:111-133, transcribed cell by cell (rows: source kind / slash, columns:
   destination non-existent, file or symlink, folder, each without and with a trailing slash). *)
Definition notes_table (src : rkind) (src_slash : bool) (dest : option rkind) (dest_slash : bool) : landing :=
  match src, src_slash with
  | RFolder, _ =>
      match dest, dest_slash with
      | None, _ => Replace
      | Some RFolder, _ => Replace
      | Some _, false => Replace        (* b! *)
      | Some _, true => Reject
      end
  | _, true => Reject
  | _, false =>
      match dest, dest_slash with
      | None, false => Replace
      | None, true => Inside
      | Some RFolder, false => Replace  (* b! *)
      | Some RFolder, true => Inside
      | Some _, false => Replace
      | Some _, true => Reject
      end
  end.
