(* Model of the settings resolution of boss_frontend.rs:
     parse_sync_spec / parse_spec_file   (lines 422-506)   on a YAML *tree*
     RemotePathDesc::from_str            (lines 260-303)
     resolve_spec                        (lines 647-756)
   Executable Gallina only; proofs are in Proofs/SettingsProofs.v. *)
From RJ Require Import Base.Prelude.
From Coq Require Import String.
Local Open Scope char_scope.

(* The four values every behaviour enum has, in declaration order.  Position 3 is
   Overwrite / Delete / Ok(deploy) depending on the enum; position 2 is Skip (Error=1, Prompt=0);
   the deploy enum is separate because its values are Prompt, Error, Ok, Force. *)
Inductive beh := BPrompt | BError | BSkip | BAct.
Inductive deploy := DPrompt | DError | DOk | DForce.
Inductive allb := APrompt | AError | ASkip | AProceed.

Definition beh_eqb (a b : beh) : bool :=
  match a, b with
  | BPrompt, BPrompt | BError, BError | BSkip, BSkip | BAct, BAct => true
  | _, _ => false
  end.

Definition conv (a : allb) : beh :=
  match a with APrompt => BPrompt | AError => BError | ASkip => BSkip | AProceed => BAct end.

Record sync_spec := mkSync {
  s_src : str; s_dest : str; s_filters : list str;
  s_newer : beh; s_older : beh; s_same : beh; s_entry : beh; s_root : beh }.

Record spec := mkSpec {
  sp_src_host : str; sp_src_user : str; sp_dest_host : str; sp_dest_user : str;
  sp_deploy : deploy; sp_syncs : list sync_spec }.

(* SyncSpec::default() and Spec::default() - compared with the running code through Gen/Facts.v. *)
Definition default_sync : sync_spec :=
  mkSync [] [] [] BPrompt BAct BSkip BAct BPrompt.
Definition default_spec : spec := mkSpec [] [] [] [] DPrompt [].

(* Command line after clap: every option is optional. *)
Record cli := mkCli {
  c_src : option (str * str * str);    (* user, host, path of SRC  (after RemotePathDesc::from_str) *)
  c_dest : option (str * str * str);
  c_filters : list str;
  c_deploy : option deploy;
  c_newer : option beh; c_older : option beh; c_same : option beh; c_entry : option beh; c_root : option beh;
  c_all : option allb }.

(* resolve_spec lines 686-733: one behaviour under --all-destructive-behaviour *)
Definition apply_all (a : option allb) (cur : beh) : beh :=
  match a with
  | Some b => if beh_eqb cur BSkip then cur else conv b
  | None => cur
  end.
(* lines 738-752 *)
Definition apply_cli (c : option beh) (cur : beh) : beh :=
  match c with Some b => b | None => cur end.

Definition resolve_beh (c : option beh) (a : option allb) (cur : beh) : beh :=
  apply_cli c (apply_all a cur).

Definition resolve_sync (c : cli) (s : sync_spec) : sync_spec :=
  mkSync (s_src s) (s_dest s)
         (match c_filters c with [] => s_filters s | f => f end)
         (resolve_beh (c_newer c) (c_all c) (s_newer s))
         (resolve_beh (c_older c) (c_all c) (s_older s))
         (resolve_beh (c_same c) (c_all c) (s_same s))
         (resolve_beh (c_entry c) (c_all c) (s_entry s))
         (resolve_beh (c_root c) (c_all c) (s_root s)).

(* The starting spec when no --spec is given (lines 659-674). *)
Definition spec_of_args (c : cli) : option spec :=
  match c_src c, c_dest c with
  | Some (su, sh, sp), Some (du, dh, dp) =>
      Some (mkSpec sh su dh du (sp_deploy default_spec)
              [mkSync sp dp [] (s_newer default_sync) (s_older default_sync) (s_same default_sync)
                      (s_entry default_sync) (s_root default_sync)])
  | _, _ => None
  end.

Definition resolve_over (c : cli) (base : spec) : spec :=
  mkSpec (sp_src_host base) (sp_src_user base) (sp_dest_host base) (sp_dest_user base)
         (match c_deploy c with Some d => d | None => sp_deploy base end)
         (map (resolve_sync c) (sp_syncs base)).

(* ---------------------------------------------------------------------------------------- *)
(* YAML trees as yaml-rust delivers them (only the shapes parse_spec_file distinguishes). *)
Inductive yaml :=
| YHash (kvs : list (yaml * yaml))
| YArray (es : list yaml)
| YString (s : str)
| YOther.                     (* Integer, Real, Boolean, Null, Alias, BadValue *)

Definition lit (s : string) : str := list_ascii_of_string s.

(* clap's ValueEnum::from_str(_, ignore_case = true) for the kebab-case names *)
Definition lower (c : ascii) : ascii :=
  let n := nat_of_ascii c in
  if andb (Nat.leb 65 n) (Nat.leb n 90) then ascii_of_nat (n + 32) else c.
Definition str_ieqb (a b : str) : bool := str_eqb (map lower a) (map lower b).

Definition beh_of_str (act : string) (s : str) : option beh :=
  if str_ieqb s (lit "prompt") then Some BPrompt
  else if str_ieqb s (lit "error") then Some BError
  else if str_ieqb s (lit "skip") then Some BSkip
  else if str_ieqb s (lit act) then Some BAct
  else None.
Definition deploy_of_str (s : str) : option deploy :=
  if str_ieqb s (lit "prompt") then Some DPrompt
  else if str_ieqb s (lit "error") then Some DError
  else if str_ieqb s (lit "ok") then Some DOk
  else if str_ieqb s (lit "force") then Some DForce
  else None.

Definition parse_string (y : yaml) : option str :=
  match y with YString s => Some s | _ => None end.

Fixpoint parse_filters (es : list yaml) : option (list str) :=
  match es with
  | [] => Some []
  | YString s :: r => match parse_filters r with Some l => Some (s :: l) | None => None end
  | _ => None
  end.

Definition parse_beh_field (act : string) (v : yaml) : option beh :=
  match parse_string v with Some s => beh_of_str act s | None => None end.

(* One key of a sync entry (the body of the for loop in parse_sync_spec). *)
Definition sync_field (acc : sync_spec) (k v : yaml) : option sync_spec :=
  match k with
  | YString x =>
      if str_eqb x (lit "src") then
        match parse_string v with Some s => Some (mkSync s (s_dest acc) (s_filters acc) (s_newer acc) (s_older acc) (s_same acc) (s_entry acc) (s_root acc)) | None => None end
      else if str_eqb x (lit "dest") then
        match parse_string v with Some s => Some (mkSync (s_src acc) s (s_filters acc) (s_newer acc) (s_older acc) (s_same acc) (s_entry acc) (s_root acc)) | None => None end
      else if str_eqb x (lit "filters") then
        match v with
        | YArray es => match parse_filters es with
                       | Some l => Some (mkSync (s_src acc) (s_dest acc) (s_filters acc ++ l) (s_newer acc) (s_older acc) (s_same acc) (s_entry acc) (s_root acc))
                       | None => None end
        | _ => None end
      else if str_eqb x (lit "dest_file_newer_behaviour") then
        match parse_beh_field "overwrite" v with Some b => Some (mkSync (s_src acc) (s_dest acc) (s_filters acc) b (s_older acc) (s_same acc) (s_entry acc) (s_root acc)) | None => None end
      else if str_eqb x (lit "dest_file_older_behaviour") then
        match parse_beh_field "overwrite" v with Some b => Some (mkSync (s_src acc) (s_dest acc) (s_filters acc) (s_newer acc) b (s_same acc) (s_entry acc) (s_root acc)) | None => None end
      else if str_eqb x (lit "files_same_time_behaviour") then
        match parse_beh_field "overwrite" v with Some b => Some (mkSync (s_src acc) (s_dest acc) (s_filters acc) (s_newer acc) (s_older acc) b (s_entry acc) (s_root acc)) | None => None end
      else if str_eqb x (lit "dest_entry_needs_deleting_behaviour") then
        match parse_beh_field "delete" v with Some b => Some (mkSync (s_src acc) (s_dest acc) (s_filters acc) (s_newer acc) (s_older acc) (s_same acc) b (s_root acc)) | None => None end
      else if str_eqb x (lit "dest_root_needs_deleting_behaviour") then
        match parse_beh_field "delete" v with Some b => Some (mkSync (s_src acc) (s_dest acc) (s_filters acc) (s_newer acc) (s_older acc) (s_same acc) (s_entry acc) b) | None => None end
      else None
  | _ => None
  end.

Fixpoint sync_fields (acc : sync_spec) (kvs : list (yaml * yaml)) : option sync_spec :=
  match kvs with
  | [] => Some acc
  | (k, v) :: r => match sync_field acc k v with Some acc' => sync_fields acc' r | None => None end
  end.

Definition parse_sync_spec (y : yaml) : option sync_spec :=
  match y with
  | YHash kvs =>
      match sync_fields default_sync kvs with
      | Some s => match s_src s, s_dest s with
                  | [], _ => None
                  | _, [] => None
                  | _, _ => Some s
                  end
      | None => None
      end
  | _ => None
  end.

Fixpoint parse_syncs (es : list yaml) : option (list sync_spec) :=
  match es with
  | [] => Some []
  | e :: r => match parse_sync_spec e with
              | Some s => match parse_syncs r with Some l => Some (s :: l) | None => None end
              | None => None
              end
  end.

Definition spec_field (acc : spec) (k v : yaml) : option spec :=
  match k with
  | YString x =>
      if str_eqb x (lit "src_hostname") then
        match parse_string v with Some s => Some (mkSpec s (sp_src_user acc) (sp_dest_host acc) (sp_dest_user acc) (sp_deploy acc) (sp_syncs acc)) | None => None end
      else if str_eqb x (lit "src_username") then
        match parse_string v with Some s => Some (mkSpec (sp_src_host acc) s (sp_dest_host acc) (sp_dest_user acc) (sp_deploy acc) (sp_syncs acc)) | None => None end
      else if str_eqb x (lit "dest_hostname") then
        match parse_string v with Some s => Some (mkSpec (sp_src_host acc) (sp_src_user acc) s (sp_dest_user acc) (sp_deploy acc) (sp_syncs acc)) | None => None end
      else if str_eqb x (lit "dest_username") then
        match parse_string v with Some s => Some (mkSpec (sp_src_host acc) (sp_src_user acc) (sp_dest_host acc) s (sp_deploy acc) (sp_syncs acc)) | None => None end
      else if str_eqb x (lit "deploy_behaviour") then
        match parse_string v with
        | Some s => match deploy_of_str s with
                    | Some d => Some (mkSpec (sp_src_host acc) (sp_src_user acc) (sp_dest_host acc) (sp_dest_user acc) d (sp_syncs acc))
                    | None => None end
        | None => None end
      else if str_eqb x (lit "syncs") then
        match v with
        | YArray es => match parse_syncs es with
                       | Some l => Some (mkSpec (sp_src_host acc) (sp_src_user acc) (sp_dest_host acc) (sp_dest_user acc) (sp_deploy acc) (sp_syncs acc ++ l))
                       | None => None end
        | _ => None end
      else None
  | _ => None
  end.

Fixpoint spec_fields (acc : spec) (kvs : list (yaml * yaml)) : option spec :=
  match kvs with
  | [] => Some acc
  | (k, v) :: r => match spec_field acc k v with Some acc' => spec_fields acc' r | None => None end
  end.

(* parse_spec_file applied to the first YAML document. *)
Definition parse_spec_doc (doc : yaml) : option spec :=
  match doc with
  | YHash kvs => spec_fields default_spec kvs
  | _ => None
  end.

(* resolve_spec: [specdoc] is Some (result of reading+scanning the --spec file) when --spec is
   given: None inside means the file could not be read/scanned/has no document. *)
Definition resolve_spec (c : cli) (specdoc : option (option yaml)) : option spec :=
  match specdoc with
  | Some None => None
  | Some (Some doc) => match parse_spec_doc doc with Some s => Some (resolve_over c s) | None => None end
  | None => match spec_of_args c with Some s => Some (resolve_over c s) | None => None end
  end.

(* ---------------------------------------------------------------------------------------- *)
(* RemotePathDesc::from_str *)
Fixpoint split_once (sep : ascii) (s : str) : option (str * str) :=
  match s with
  | [] => None
  | c :: r => if Ascii.eqb c sep then Some ([], r)
              else match split_once sep r with Some (a, b) => Some (c :: a, b) | None => None end
  end.

Definition starts_with_backslash (s : str) : bool :=
  match s with c :: _ => Ascii.eqb c "\" | [] => false end.
Definition is_nil {A} (l : list A) : bool := match l with [] => true | _ => false end.

(* result: (user, host, path) *)
Definition parse_remote_path (s : str) : option (str * str * str) :=
  let finish (u h p : str) := if is_nil p then None else Some (u, h, p) in
  match split_once ":" s with
  | None => finish [] [] s
  | Some (a, b) =>
      if andb (Nat.eqb (List.length a) 1) (orb (is_nil b) (starts_with_backslash b)) then finish [] [] s
      else
        match split_once "@" a with
        | None => if is_nil a then None else finish [] a b
        | Some (u, h) => if is_nil u then None else if is_nil h then None else finish u h b
        end
  end.
