(* Shutdown protocol of rjrssync, local placement (C09).  Definitions only.

   Processes: boss main thread, source doer thread, destination doer thread
   (boss_frontend.rs execute_spec, boss_sync.rs sync_impl/copy_file/process_dest_responses,
    boss_launch.rs Comms::shutdown, doer.rs message_loop/exec_command/handle_get_file_contents).
   Channels: four memory_bound_channels  cs (boss->src commands), rs (src->boss responses),
   cd (boss->dest commands), rd (dest->boss responses).

   A channel is (queue, receiver alive, sender alive); the accounted usage is the sum of the accounted
   sizes of the queued messages.  memory_bound_channel::Sender::send is
       old = fetch_add(m); if old > cap { while load - m > cap { [repair: if !receiver_alive break] snooze } };
       inner.send(..)   (fails iff the receiver was dropped)
   There is one sender per channel (Sender is not Clone), so `load - m` is exactly the sum over the queue and
   `old > cap` implies the loop condition on entry: the send is enabled iff  usage <= cap  (or, with the
   repair, the receiver is gone).  It is modelled as ONE guarded atomic step (a blocked wait is a step
   that is not enabled; "spins forever" in the code = "stuck" here).

   [fixed] selects the tree: false = pinned tree, true = with the F5 repair
   (receiver_alive flag tested in the capacity wait; Comms::shutdown drops its receiver before the join).

   Faults: destination command k answers Error (dplan), GetFileContent k answers Error (gplan), a doer
   thread dies (panics) at any moment (one kill step per doer, from a budget), the source sends a chunk
   sequence that differs from the listed size (file grew / shrank: fexp vs chunks). *)
From RJ Require Import Base.Prelude.

Inductive scmd := SGet | SShut.
Inductive sresp := SChunk (len : N) (last : bool) | SErr.
Inductive dcmd := DData (len : N) | DDone | DShut.
Inductive dresp := DErr | DEcho.

Record config := mkCfg {
  fixed : bool;
  cap : N;
  wsc : scmd -> N;       (* accounted (serialized) sizes *)
  wsr : sresp -> N;
  wdc : dcmd -> N;
  wdr : dresp -> N }.

Record chan (A : Type) := mkChan { q : list A; rxa : bool; txa : bool }.
Arguments mkChan {A} _ _ _.
Arguments q {A} _.
Arguments rxa {A} _.
Arguments txa {A} _.

Fixpoint qsum {A} (w : A -> N) (l : list A) : N :=
  match l with [] => 0%N | m :: t => (w m + qsum w t)%N end.

(* The capacity wait followed by inner.send is enabled: *)
Definition can_send {A} (c : config) (w : A -> N) (ch : chan A) : bool :=
  (qsum w (q ch) <=? cap c)%N || (fixed c && negb (rxa ch)).

Definition push {A} (ch : chan A) (m : A) : chan A := mkChan (q ch ++ [m]) (rxa ch) (txa ch).
Definition setq {A} (ch : chan A) (l : list A) : chan A := mkChan l (rxa ch) (txa ch).
Definition drop_rx {A} (ch : chan A) : chan A := mkChan (q ch) false (txa ch).
Definition drop_tx {A} (ch : chan A) : chan A := mkChan (q ch) (rxa ch) false.

(* A source file: listed size (what the boss expects) and the chunk data lengths the doer will read
   (non-empty: an empty file is one empty chunk; the final chunk carries more_to_follow = false). *)
Record file := mkFile { fexp : N; fhd : N; ftl : list N }.

Fixpoint chunks_from (hd : N) (tl : list N) : list sresp :=
  match tl with
  | [] => [SChunk hd true]
  | x :: r => SChunk hd false :: chunks_from x r
  end.
Definition fchunks (f : file) : list sresp := chunks_from (fhd f) (ftl f).

Inductive life := Run | ExitOk | ExitErr | Dead.
Definition running (l : life) : bool := match l with Run => true | _ => false end.
Definition is_dead (l : life) : bool := match l with Dead => true | _ => false end.

Inductive bpc :=
| BPre                     (* next leading destination command (root ancestors, folders) *)
| BPrePoll
| BNext                    (* next file: send GetFileContent, or all files done *)
| BRecv                    (* copy_file: receive_response from the source *)
| BFwd (len : N) (last : bool)   (* send CreateOrUpdateFile to the destination *)
| BPoll (last : bool)      (* process_dest_responses(non-blocking) *)
| BSendDone                (* the Done marker *)
| BWait                    (* process_dest_responses(block_until_done) *)
| BShutS | BJoinS          (* src_comms.shutdown(): send Shutdown [repair: drop receiver]; join *)
| BShutD | BJoinD          (* dest_comms.shutdown() *)
| BEnd.                    (* the process has returned / panicked *)

Record boss := mkBoss {
  pc : bpc;
  bpre : list N;           (* data lengths of the leading destination commands still to send *)
  bfiles : list N;         (* listed sizes of the files still to request *)
  bexp : N; boff : N;      (* current file: listed size, offset *)
  berr : bool;             (* the sync returned Err: exit status 12 *)
  bexit : N }.             (* exit status, meaningful at BEnd *)

Record sdoer := mkS {
  slife : life;
  spend : list sresp;      (* responses of the current command still to send *)
  sfiles : list file;      (* what the source tree will deliver for the successive GetFileContent *)
  gplan : list bool;       (* fault plan: the k-th GetFileContent is answered with an Error *)
  skill : bool }.          (* fault budget: the thread may still die *)

Record ddoer := mkD {
  dlife : life;
  dpend : list dresp;
  dplan : list bool;       (* fault plan: the k-th data command is answered with an Error *)
  dkill : bool }.

Record st := mkSt { bo : boss; sd : sdoer; dd : ddoer;
                    cs : chan scmd; rs : chan sresp; cd : chan dcmd; rd : chan dresp }.

Definition goto (b : boss) (p : bpc) : boss :=
  mkBoss p (bpre b) (bfiles b) (bexp b) (boff b) (berr b) (bexit b).
Definition bfail (b : boss) : boss :=          (* sync() returned Err: error!(..), then the shutdowns *)
  mkBoss BShutS (bpre b) (bfiles b) (bexp b) (boff b) true (bexit b).
Definition bend (b : boss) (code : N) : boss :=
  mkBoss BEnd (bpre b) (bfiles b) (bexp b) (boff b) (berr b) code.

Definition is_derr (r : dresp) : bool := match r with DErr => true | DEcho => false end.
(* a non-blocking process_dest_responses finds an error: an Error reply, or the channel disconnected *)
Definition poll_err (ch : chan dresp) : bool := existsb is_derr (q ch) || negb (txa ch).

Definition plan_hd (l : list bool) : bool := match l with b :: _ => b | [] => false end.

Inductive action := ABoss | ASrc | ADest | AKillS | AKillD.

(* the doer thread ends: both its channel ends are dropped *)
Definition s_exit (s : st) (how : life) : st :=
  mkSt (bo s) (mkS how (spend (sd s)) (sfiles (sd s)) (gplan (sd s)) (skill (sd s))) (dd s)
       (drop_rx (cs s)) (drop_tx (rs s)) (cd s) (rd s).
Definition d_exit (s : st) (how : life) : st :=
  mkSt (bo s) (sd s) (mkD how (dpend (dd s)) (dplan (dd s)) (dkill (dd s)))
       (cs s) (rs s) (drop_rx (cd s)) (drop_tx (rd s)).

Definition src_step (c : config) (s : st) : option st :=
  let d := sd s in
  if negb (running (slife d)) then None else
  match spend d with
  | r :: rest =>                                  (* send_response, blocking in the capacity wait *)
      if can_send c (wsr c) (rs s) then
        if rxa (rs s)
        then Some (mkSt (bo s) (mkS Run rest (sfiles d) (gplan d) (skill d)) (dd s)
                        (cs s) (push (rs s) r) (cd s) (rd s))
        else Some (s_exit s ExitErr)              (* "Lost communication": message_loop returns Err *)
      else None
  | [] =>                                         (* receive_command *)
      match q (cs s) with
      | SGet :: t =>
          let cs' := setq (cs s) t in
          match sfiles d with
          | [] => Some (mkSt (bo s) (mkS Run [SErr] [] (tl (gplan d)) (skill d)) (dd s) cs' (rs s) (cd s) (rd s))
          | f :: fs =>
              Some (mkSt (bo s) (mkS Run (if plan_hd (gplan d) then [SErr] else fchunks f) fs (tl (gplan d)) (skill d))
                         (dd s) cs' (rs s) (cd s) (rd s))
          end
      | SShut :: t => Some (s_exit (mkSt (bo s) d (dd s) (setq (cs s) t) (rs s) (cd s) (rd s)) ExitOk)
      | [] => if txa (cs s) then None else Some (s_exit s ExitOk)     (* boss disconnected *)
      end
  end.

Definition dest_step (c : config) (s : st) : option st :=
  let d := dd s in
  if negb (running (dlife d)) then None else
  match dpend d with
  | r :: rest =>
      if can_send c (wdr c) (rd s) then
        if rxa (rd s)
        then Some (mkSt (bo s) (sd s) (mkD Run rest (dplan d) (dkill d)) (cs s) (rs s) (cd s) (push (rd s) r))
        else Some (d_exit s ExitErr)
      else None
  | [] =>
      match q (cd s) with
      | DData _ :: t =>
          Some (mkSt (bo s) (sd s) (mkD Run (if plan_hd (dplan d) then [DErr] else []) (tl (dplan d)) (dkill d))
                     (cs s) (rs s) (setq (cd s) t) (rd s))
      | DDone :: t =>
          Some (mkSt (bo s) (sd s) (mkD Run [DEcho] (dplan d) (dkill d)) (cs s) (rs s) (setq (cd s) t) (rd s))
      | DShut :: t => Some (d_exit (mkSt (bo s) (sd s) d (cs s) (rs s) (setq (cd s) t) (rd s)) ExitOk)
      | [] => if txa (cd s) then None else Some (d_exit s ExitOk)
      end
  end.

Definition with_bo (s : st) (b : boss) : st := mkSt b (sd s) (dd s) (cs s) (rs s) (cd s) (rd s).

(* send a command to the destination, then continue at [p] with boss fields [b]; a failed send is an error *)
Definition send_dest (c : config) (s : st) (m : dcmd) (b : boss) : option st :=
  if can_send c (wdc c) (cd s) then
    if rxa (cd s)
    then Some (mkSt b (sd s) (dd s) (cs s) (rs s) (push (cd s) m) (rd s))
    else Some (with_bo s (bfail (bo s)))
  else None.

(* after the last chunk of a file: the size check of copy_file *)
Definition after_file (b : boss) : boss :=
  if (boff b =? bexp b)%N then goto b BNext else bfail b.

Definition boss_step (c : config) (s : st) : option st :=
  let b := bo s in
  match pc b with
  | BPre =>
      match bpre b with
      | [] => Some (with_bo s (goto b BNext))
      | n :: r => send_dest c s (DData n) (mkBoss BPrePoll r (bfiles b) (bexp b) (boff b) (berr b) (bexit b))
      end
  | BPrePoll =>
      Some (mkSt (if poll_err (rd s) then bfail b else goto b BPre) (sd s) (dd s) (cs s) (rs s) (cd s) (setq (rd s) []))
  | BNext =>
      match bfiles b with
      | [] => Some (with_bo s (goto b BSendDone))
      | e :: r =>
          if can_send c (wsc c) (cs s) then
            if rxa (cs s)
            then Some (mkSt (mkBoss BRecv (bpre b) r e 0%N (berr b) (bexit b)) (sd s) (dd s)
                            (push (cs s) SGet) (rs s) (cd s) (rd s))
            else Some (with_bo s (bfail b))
          else None
      end
  | BRecv =>
      match q (rs s) with
      | SErr :: t => Some (mkSt (bfail b) (sd s) (dd s) (cs s) (setq (rs s) t) (cd s) (rd s))   (* unexpected response *)
      | SChunk len last :: t =>
          let b' := if (bexp b <? boff b + len)%N
                    then (if (boff b =? bexp b)%N then goto b BNext else bfail b)     (* the early break of copy_file *)
                    else goto b (BFwd len last) in
          Some (mkSt b' (sd s) (dd s) (cs s) (setq (rs s) t) (cd s) (rd s))
      | [] => if txa (rs s) then None else Some (with_bo s (bfail b))                 (* lost communication *)
      end
  | BFwd len last =>
      send_dest c s (DData len) (mkBoss (BPoll last) (bpre b) (bfiles b) (bexp b) (boff b + len)%N (berr b) (bexit b))
  | BPoll last =>
      let b' := if poll_err (rd s) then bfail b else if last then after_file b else goto b BRecv in
      Some (mkSt b' (sd s) (dd s) (cs s) (rs s) (cd s) (setq (rd s) []))
  | BSendDone => send_dest c s DDone (goto b BWait)
  | BWait =>
      match q (rd s) with
      | DErr :: _ => Some (mkSt (bfail b) (sd s) (dd s) (cs s) (rs s) (cd s) (setq (rd s) []))   (* stop blocking, drain, Err *)
      | DEcho :: t => Some (mkSt (goto b BShutS) (sd s) (dd s) (cs s) (rs s) (cd s) (setq (rd s) t))
      | [] => if txa (rd s) then None else Some (with_bo s (bfail b))
      end
  | BShutS =>                       (* let _ = send_command(Shutdown); [repair: drop(receiver)] *)
      if can_send c (wsc c) (cs s) then
        let cs' := if rxa (cs s) then push (cs s) SShut else cs s in
        let rs' := if fixed c then drop_rx (rs s) else rs s in
        Some (mkSt (goto b BJoinS) (sd s) (dd s) cs' rs' (cd s) (rd s))
      else None
  | BJoinS =>                       (* thread.join().expect(..): a panicked doer thread panics the boss *)
      match slife (sd s) with
      | Run => None
      | Dead => Some (with_bo s (bend b 101%N))
      | _ => Some (mkSt (goto b BShutD) (sd s) (dd s) (drop_tx (cs s)) (drop_rx (rs s)) (cd s) (rd s))
      end
  | BShutD =>
      if can_send c (wdc c) (cd s) then
        let cd' := if rxa (cd s) then push (cd s) DShut else cd s in
        let rd' := if fixed c then drop_rx (rd s) else rd s in
        Some (mkSt (goto b BJoinD) (sd s) (dd s) (cs s) (rs s) cd' rd')
      else None
  | BJoinD =>
      match dlife (dd s) with
      | Run => None
      | Dead => Some (with_bo s (bend b 101%N))
      | _ => Some (with_bo s (bend b (if berr b then 12%N else 0%N)))
      end
  | BEnd => None
  end.

Definition final (s : st) : bool := match pc (bo s) with BEnd => true | _ => false end.

Definition next (c : config) (a : action) (s : st) : option st :=
  if final s then None else        (* the process is gone: its threads with it *)
  match a with
  | ABoss => boss_step c s
  | ASrc => src_step c s
  | ADest => dest_step c s
  | AKillS => if running (slife (sd s)) && skill (sd s)
              then Some (s_exit (mkSt (bo s) (mkS Run (spend (sd s)) (sfiles (sd s)) (gplan (sd s)) false) (dd s)
                                      (cs s) (rs s) (cd s) (rd s)) Dead)
              else None
  | AKillD => if running (dlife (dd s)) && dkill (dd s)
              then Some (d_exit (mkSt (bo s) (sd s) (mkD Run (dpend (dd s)) (dplan (dd s)) false)
                                      (cs s) (rs s) (cd s) (rd s)) Dead)
              else None
  end.

Definition step (c : config) (s s' : st) : Prop := exists a, next c a s = Some s'.

(* A scenario: what the trees and the fault plan look like. *)
Record scenario := mkSc {
  sc_pre : list N;           (* data lengths of the leading destination commands *)
  sc_files : list file;
  sc_gplan : list bool;
  sc_dplan : list bool;
  sc_skill : bool; sc_dkill : bool }.

Definition init (x : scenario) : st :=
  mkSt (mkBoss BPre (sc_pre x) (map fexp (sc_files x)) 0%N 0%N false 0%N)
       (mkS Run [] (sc_files x) (sc_gplan x) (sc_skill x))
       (mkD Run [] (sc_dplan x) (sc_dkill x))
       (mkChan [] true true) (mkChan [] true true) (mkChan [] true true) (mkChan [] true true).

Inductive reach (c : config) (x : scenario) : st -> Prop :=
| reach_init : reach c x (init x)
| reach_step s s' : reach c x s -> step c s s' -> reach c x s'.

Definition all_actions : list action := [ABoss; ASrc; ADest; AKillS; AKillD].
Definition is_none {A} (o : option A) : bool := match o with None => true | Some _ => false end.
Definition stuck (c : config) (s : st) : bool :=
  negb (final s) && forallb (fun a => is_none (next c a s)) all_actions.

(* Executable runs: a schedule is a list of actions (a disabled one is skipped) ... *)
Fixpoint run_sched (c : config) (s : st) (l : list action) : st :=
  match l with
  | [] => s
  | a :: r => match next c a s with Some s' => run_sched c s' r | None => run_sched c s r end
  end.

(* ... or a priority order: the first enabled action of [ord] moves, until none is enabled. *)
Fixpoint first_enabled (c : config) (s : st) (ord : list action) : option st :=
  match ord with
  | [] => None
  | a :: r => match next c a s with Some s' => Some s' | None => first_enabled c s r end
  end.
Fixpoint run_prio (c : config) (fuel : nat) (ord : list action) (s : st) : st :=
  match fuel with
  | O => s
  | S n => match first_enabled c s ord with Some s' => run_prio c n ord s' | None => s end
  end.

(* Termination measure: every message still to be produced, queued or held, weighted by the number of
   steps it can still cause, plus the boss's position in its script and the live threads. *)
Definition pcw (p : bpc) : nat :=
  match p with
  | BEnd => 0 | BJoinD => 1 | BShutD => 6 | BJoinS => 7 | BShutS => 16 | BWait => 17 | BSendDone => 21
  | BNext => 22 | BRecv => 23 | BPoll _ => 24 | BFwd _ _ => 28 | BPre => 23 | BPrePoll => 24
  end.
Definition lw (l : life) : nat := match l with Run => 1 | _ => 0 end.
Definition fw (f : file) : nat := 7 * S (length (ftl f)).
Fixpoint fsw (l : list file) : nat := match l with [] => 0 | f :: r => fw f + fsw r end.

Definition mu (s : st) : nat :=
  pcw (pc (bo s)) + 5 * length (bpre (bo s)) + 10 * length (bfiles (bo s))
  + 8 * length (q (cs s)) + fsw (sfiles (sd s)) + 7 * length (spend (sd s)) + 6 * length (q (rs s))
  + 3 * length (q (cd s)) + 2 * length (dpend (dd s)) + length (q (rd s))
  + lw (slife (sd s)) + lw (dlife (dd s)).

Definition run_to_end (c : config) (ord : list action) (s : st) : st := run_prio c (S (mu s)) ord s.

(* Control traffic bound (premise of the no-stuck theorem): the small messages - commands to the source,
   replies of the destination - stay below the capacity in total; the data-carrying channels
   (source replies, destination commands) are unrestricted.
   cspot / rdpot bound everything that can still arrive in cs / rd: what is queued plus the largest
   control message for every token that can still turn into one. *)
Fixpoint nchunks (l : list file) : nat := match l with [] => 0 | f :: r => S (length (ftl f)) + nchunks r end.
Definition zr (c : config) : N := N.max (wdr c DErr) (wdr c DEcho).
Definition zs (c : config) : N := N.max (wsc c SGet) (wsc c SShut).
(* control messages the boss will still send: Done marker, Shutdown to the source, Shutdown to the destination *)
Definition pend (p : bpc) : nat :=
  match p with
  | BEnd | BJoinD => 0 | BShutD | BJoinS => 1 | BShutS | BWait => 2 | _ => 3
  end.
Definition spd (p : bpc) : nat :=      (* Shutdown to the source still to be sent *)
  match p with BEnd | BJoinD | BShutD | BJoinS => 0 | _ => 1 end.
Definition hand (p : bpc) : nat := match p with BFwd _ _ => 1 | _ => 0 end.
Definition toks (s : st) : nat :=
  length (bpre (bo s)) + length (bfiles (bo s)) + length (q (cs s)) + nchunks (sfiles (sd s))
  + length (spend (sd s)) + length (q (rs s)) + hand (pc (bo s)) + length (q (cd s)) + pend (pc (bo s)).
Definition cspot (c : config) (s : st) : N :=
  (qsum (wsc c) (q (cs s)) + zs c * N.of_nat (length (bfiles (bo s)) + spd (pc (bo s))))%N.
Definition rdpot (c : config) (s : st) : N :=
  (qsum (wdr c) (q (rd s)) + qsum (wdr c) (dpend (dd s)) + zr c * N.of_nat (toks s))%N.
Definition ctl_ok (c : config) (x : scenario) : Prop :=
  (cspot c (init x) <= cap c)%N /\ (rdpot c (init x) <= cap c)%N.

(* Data traffic bound (premise of C09_holds_below_capacity): everything that can ever be queued in the
   two data-carrying channels - source replies (rs) and destination commands (cd) - fits in the capacity. *)
Definition dw (c : config) (r : sresp) : N := match r with SChunk n _ => wdc c (DData n) | SErr => 0%N end.
Definition filew (c : config) (f : file) : N := (wsr c SErr + qsum (wsr c) (fchunks f))%N.
Fixpoint filesw (c : config) (l : list file) : N := match l with [] => 0%N | f :: r => (filew c f + filesw c r)%N end.
Fixpoint filesdw (c : config) (l : list file) : N := match l with [] => 0%N | f :: r => (qsum (dw c) (fchunks f) + filesdw c r)%N end.
Definition handw (c : config) (p : bpc) : N := match p with BFwd n _ => wdc c (DData n) | _ => 0%N end.
Definition ctlw (c : config) (p : bpc) : N :=
  match p with
  | BEnd | BJoinD => 0%N
  | BShutD | BJoinS | BShutS | BWait => wdc c DShut
  | _ => (wdc c DDone + wdc c DShut)%N
  end.
Definition rspot (c : config) (s : st) : N :=
  (qsum (wsr c) (q (rs s)) + qsum (wsr c) (spend (sd s)) + filesw c (sfiles (sd s))
   + wsr c SErr * N.of_nat (length (q (cs s)) + length (bfiles (bo s)) + spd (pc (bo s))))%N.
Definition cdpot (c : config) (s : st) : N :=
  (qsum (wdc c) (q (cd s)) + handw c (pc (bo s)) + qsum (dw c) (q (rs s)) + qsum (dw c) (spend (sd s))
   + filesdw c (sfiles (sd s)) + qsum (fun n => wdc c (DData n)) (bpre (bo s)) + ctlw c (pc (bo s)))%N.

Definition data_ok (c : config) (x : scenario) : Prop :=
  (rspot c (init x) <= cap c)%N /\ (cdpot c (init x) <= cap c)%N.

