(* A spec with several syncs (boss_frontend.rs execute_spec): the syncs run one after the other over the same
   two doers; each begins with SetRoot, which gives the doer a fresh context (doer.rs handle_set_root); the
   first sync that fails ends the run with exit status 12 and the remaining syncs are not started; exit
   status 0 only after all of them.  Definitions only.

   The trees taking part are kept in a store indexed by root number: two syncs that name the same root see
   the same tree (what an earlier sync wrote is what a later one reads).  Domain, as in the properties: the
   roots are pairwise not nested inside one another, and a sync's source and destination differ. *)
From RJ Require Import Base.Prelude Base.OrderedPlan Model.Settings Model.Core Model.Fs Model.Paths Model.Sync Model.SyncTop.

Record job := mkJob {
  j_src : nat; j_dst : nat;
  j_cfg : config; j_anc : anc;
  j_ans : list answer; j_bits : list bool; j_ex : list path; j_ft : faults }.

Definition store := list (nat * fs).
Fixpoint sget (st : store) (i : nat) : fs :=
  match st with
  | [] => []
  | (k, f) :: rest => if Nat.eqb i k then f else sget rest i
  end.
Fixpoint sset (st : store) (i : nat) (f : fs) : store :=
  match st with
  | [] => [(i, f)]
  | (k, g) :: rest => if Nat.eqb i k then (k, f) :: rest else (k, g) :: sset rest i f
  end.

Definition run_job (j : job) (st : store) : result :=
  run_top (j_cfg j) (sget st (j_src j)) (sget st (j_dst j)) (j_anc j) (j_ans j) (j_bits j) (j_ex j) (j_ft j).

Record spec_result := mkSpecRes {
  sp_ok : bool;                 (* exit status 0 (true) or 12 (false) *)
  sp_store : store;             (* the trees at the end *)
  sp_runs : list result }.      (* the syncs that were started, in order *)

Fixpoint run_spec (jobs : list job) (st : store) : spec_result :=
  match jobs with
  | [] => mkSpecRes true st []
  | j :: rest =>
      let r := run_job j st in
      let st' := sset st (j_dst j) (d_fs (r_dest r)) in
      if r_ok r then
        let sr := run_spec rest st' in
        mkSpecRes (sp_ok sr) (sp_store sr) (r :: sp_runs sr)
      else mkSpecRes false st' [r]
  end.

(* the store each started sync began with *)
Fixpoint stores_before (jobs : list job) (st : store) : list store :=
  match jobs with
  | [] => []
  | j :: rest =>
      let r := run_job j st in
      st :: (if r_ok r then stores_before rest (sset st (j_dst j) (d_fs (r_dest r))) else [])
  end.
