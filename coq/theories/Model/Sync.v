(* One sync, end to end on the model: sync_impl of boss_sync.rs:242-334 composed with the two doers.
   Inputs that the real run takes from its environment are explicit arguments: the two listings
   (any order a walker may produce), the interleaving of their arrival, prompt answers, a fault plan
   and the lag with which the boss notices an asynchronous destination error. *)
From RJ Require Import Base.Prelude Base.OrderedPlan Model.Settings Model.Core Model.Fs.

Record config := mkCfg {
  cf_diff : bool;        (* destination platform differentiates file/folder symlinks *)
  cf_fl : flavour;       (* destination flavour *)
  cf_b : bstate;         (* newer / older / same-time / entry-deletion behaviours *)
  cf_root : beh;         (* root-deletion behaviour *)
  cf_dry : bool }.

Record faults := mkFaults {
  ft_dest : list nat;    (* indices (among mutating destination commands) answered with an injected error *)
  ft_src : list nat;     (* indices (among GetFileContent requests) that fail on the source *)
  ft_lag : nat;          (* how many further boss steps happen before a destination error is noticed *)
  ft_stop : option nat }. (* Some n: the destination doer dies (process killed, link cut, or the boss exiting
                             ahead of it) after n mutating commands: later ones are never executed *)
Definition no_faults := mkFaults [] [] 0 None.

Record result := mkRes {
  r_ok : bool;                   (* sync() returned Ok *)
  r_dest : dstate;
  r_src_trace : list cmd;
  r_dest_trace : list cmd;       (* commands sent to the destination, in order, markers omitted *)
  r_errs : list errc;
  r_src_failed : bool;
  r_stats : stats;
  r_would : list would;
  r_prompts : list prompt;
  r_skipped : list path;
  r_root_skipped : bool;
  r_confirm_failed : bool;
  r_panic : bool }.

Section Sync.
Variable now_z : N -> Z.
Variable incl : path -> bool.
Variable normalize : str -> target.
Variable chunker : str -> list str.          (* how the source doer cuts file content (never returns []) *)

Notation entry_of := (entry_of now_z normalize).

(* arrivals: the root entries first (query_entries adds them before anything is received), then the
   two listings merged by [bits] (true = the next source entry is received first) *)
Fixpoint interleave (bits : list bool) (ls ld : list (path * entry)) : list arrival_t :=
  match bits, ls, ld with
  | _, [], _ => map (fun e => FromDest path entry (fst e) (snd e)) ld
  | _, _, [] => map (fun e => FromSrc path entry (fst e) (snd e)) ls
  | [], _, _ => map (fun e => FromSrc path entry (fst e) (snd e)) ls ++ map (fun e => FromDest path entry (fst e) (snd e)) ld
  | true :: bs, e :: ls', _ => FromSrc path entry (fst e) (snd e) :: interleave bs ls' ld
  | false :: bs, _, e :: ld' => FromDest path entry (fst e) (snd e) :: interleave bs ls ld'
  end.

(* boss steps of the execution phase *)
Inductive bstep := DestCmd (c : cmd) | SrcFetch (p : path).

Fixpoint chunk_cmds (p : path) (mt : Z) (chunks : list str) : list bstep :=
  match chunks with
  | [] => []
  | [c] => [DestCmd (CCreateOrUpdateFile p c (Some mt) false)]
  | c :: r => DestCmd (CCreateOrUpdateFile p c None true) :: chunk_cmds p mt r
  end.

Definition copy_steps (S : fs) (e : path * (entry * creason)) : list bstep :=
  match e with
  | (p, (EFile mt _, _)) =>
      match fget S p with
      | Some (NFile _ data) => SrcFetch p :: chunk_cmds p mt (chunker data)
      | _ => [SrcFetch p]
      end
  | (p, (EFolder, _)) => [DestCmd (CCreateFolder p)]
  | (p, (ESymlink k t, _)) => [DestCmd (CCreateSymlink p k t)]
  end.

Definition exec_steps (S : fs) (a : actions) : list bstep :=
  map (fun e => DestCmd (delete_cmd e)) (a_delete a) ++ flat_map (copy_steps S) (a_copy a).

Definition would_lines (a : actions) : list would :=
  map (fun e => WDelete (fst e) (fst (snd e))) (a_delete a) ++
  map (fun e => match fst (snd e) with
                | EFile _ _ => WCopyFile (fst e) | EFolder => WCreateFolder (fst e) | ESymlink _ _ => WCreateSymlink (fst e)
                end) (a_copy a).

Definition plan_stats (a : actions) : stats :=
  fold_left (fun s e => stats_copy s (fst (snd e))) (a_copy a)
    (fold_left (fun s e => stats_delete s (fst (snd e))) (a_delete a) stats0).

(* Running the boss steps against the destination doer.  [budget]: None while no error has been
   seen by the doer; Some n = an error happened and the boss performs n more steps before noticing. *)
Record rstate := mkR {
  rs_d : dstate; rs_sent : list cmd; rs_src : list cmd; rs_errs : list errc; rs_srcfail : bool;
  rs_mut : nat; rs_get : nat; rs_budget : option nat }.

Definition mem_nat (n : nat) (l : list nat) : bool := existsb (Nat.eqb n) l.
Definition is_chunk (c : cmd) : bool := match c with CCreateOrUpdateFile _ _ _ _ => true | _ => false end.

(* an injected failure of a deletion is a failed deletion: the doer remembers it (F6b repair) *)
Definition inj_state (st : dstate) (c : cmd) : dstate :=
  match c with
  | CDeleteFile p | CDeleteFolder p | CDeleteSymlink p _ => note_faildel st p
  | _ => st
  end.

Definition do_step (fl : flavour) (ft : faults) (r : rstate) (s : bstep) : rstate :=
  let budget' := match rs_budget r with Some (S n) => Some n | x => x end in
  match s with
  | SrcFetch p =>
      mkR (rs_d r) (rs_sent r) (rs_src r ++ [CGetFileContent p]) (rs_errs r) (mem_nat (rs_get r) (ft_src ft))
          (rs_mut r) (S (rs_get r)) budget'
  | DestCmd c =>
      (* injected command-level failures stand for failures inside a handler that leave nothing behind; a
         chunk's own failures are the write faults of Model/Fs.v (they set the doer's failed-transfer flag) *)
      let injected := mutating c && negb (is_chunk c) && mem_nat (rs_mut r) (ft_dest ft) in
      let stopped := mutating c && match ft_stop ft with Some n => Nat.leb n (rs_mut r) | None => false end in
      let de := if stopped then (rs_d r, Some EKilled)
                else if injected then (inj_state (rs_d r) c, Some EInjected) else doer_exec fl (rs_d r) c in
      let mut' := if mutating c then S (rs_mut r) else rs_mut r in
      match snd de with
      | None => mkR (fst de) (rs_sent r ++ [c]) (rs_src r) (rs_errs r) false mut' (rs_get r) budget'
      | Some e => mkR (fst de) (if stopped then rs_sent r else rs_sent r ++ [c]) (rs_src r) (rs_errs r ++ [e]) false mut' (rs_get r)
                      (match budget' with None => Some (ft_lag ft) | x => x end)
      end
  end.

Definition run_step (fl : flavour) (ft : faults) (r : rstate) (s : bstep) : rstate :=
  if rs_srcfail r then r else
  match rs_budget r with
  | Some O => r
  | _ => do_step fl ft r s
  end.

Definition run_steps (fl : flavour) (ft : faults) (r : rstate) (steps : list bstep) : rstate :=
  fold_left (run_step fl ft) steps r.

Definition fail_result (D : dstate) (src_trace dest_trace : list cmd) (np : list prompt) (cf rootskip panic : bool) : result :=
  mkRes (rootskip && negb panic && negb cf) D src_trace dest_trace [] false stats0 [] np [] rootskip cf panic.

Definition sync_one (cfg : config) (S : fs) (D : dstate) (ans : list answer) (bits : list bool)
           (ls ld : list (path * entry)) (ft : faults) : result :=
  match fget S [] with
  | None => fail_result D [CSetRoot] [] [] false false false           (* "src path doesn't exist" *)
  | Some sn =>
    let sroot := entry_of sn in
    let droot := option_map entry_of (fget (d_fs D) []) in
    (* root gate *)
    let gate : (list answer * list prompt) + (bool * list prompt) (* inr true = skip, inr false = error *) :=
      match droot with
      | Some d => if needs_delete (cf_diff cfg) sroot d then
                    match resolve_root (cf_root cfg) ans with
                    | (BAct, ans', shown) => inl (ans', if shown then [PRoot] else [])
                    | (BSkip, _, shown) => inr (true, if shown then [PRoot] else [])
                    | (_, _, shown) => inr (false, if shown then [PRoot] else [])
                    end
                  else inl (ans, [])
      | None => inl (ans, [])
      end in
    match gate with
    | inr (true, np) => fail_result D [CSetRoot] [CSetRoot] np false true false
    | inr (false, np) => fail_result D [CSetRoot] [CSetRoot] np false false false
    | inl (ans1, np1) =>
      (* CreateRootAncestors *)
      let pre := match droot with None => if cf_dry cfg then [] else [DestCmd CCreateRootAncestors] | Some _ => [] end in
      let src_listing := match sroot with EFolder => ls | _ => [] end in
      let dest_listing := match droot with Some EFolder => ld | _ => [] end in
      let src_trace0 := CSetRoot :: match sroot with EFolder => [CGetEntries] | _ => [] end in
      let dest_trace0 := CSetRoot :: match droot with Some EFolder => [CGetEntries] | _ => [] end in
      let arrivals := FromSrc path entry [] sroot ::
                      match droot with Some d => [FromDest path entry [] d] | None => [] end ++
                      interleave bits src_listing dest_listing in
      let same_skip := beh_eqb (b_same (cf_b cfg)) BSkip in
      let r0 := mkR D dest_trace0 src_trace0 [] false 0 0 None in
      let r1 := run_steps (cf_fl cfg) ft r0 pre in
      match actions_of (cf_diff cfg) same_skip arrivals with
      | None => fail_result (rs_d r1) (rs_src r1) (rs_sent r1) np1 false false true
      | Some acts =>
        match confirm (cf_b cfg) ans1 acts with
        | CFail => mkRes false (rs_d r1) (rs_src r1) (rs_sent r1) (rs_errs r1) false stats0 [] np1 [] false true false
        | CDone acts' skipped _ _ np =>
          if cf_dry cfg then
            mkRes true (rs_d r1) (rs_src r1) (rs_sent r1) [] false (plan_stats acts') (would_lines acts') (np1 ++ np) skipped false false false
          else
            let r2 := run_steps (cf_fl cfg) ft r1 (exec_steps S acts') in
            let ok := match rs_errs r2 with [] => negb (rs_srcfail r2) | _ => false end in
            mkRes ok (rs_d r2) (rs_src r2) (rs_sent r2) (rs_errs r2) (rs_srcfail r2)
                  (plan_stats acts') [] (np1 ++ np) skipped false false false
        end
      end
    end
  end.

End Sync.
