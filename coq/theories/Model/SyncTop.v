(* Closed, executable instances of the sync model for extraction and for concrete examples. *)
From RJ Require Import Base.Prelude Base.OrderedPlan Model.Settings Model.Core Model.Fs Model.Paths Model.Sync.

Definition excl_incl (ex : list path) (p : path) : bool := negb (existsb (path_eqb p) ex).
Definition now_far (k : N) : Z := (4000000000000000000 + Z.of_N k)%Z.

Fixpoint chunk_fuel (fuel n : nat) (s : str) : list str :=
  match fuel with
  | O => [s]
  | S fuel' => if Nat.leb (length s) n then [s] else firstn n s :: chunk_fuel fuel' n (skipn n s)
  end.
Definition chunk_every (n : nat) (s : str) : list str := chunk_fuel (length s) (Nat.max n 1) s.

Definition run_top (cfg : config) (S D : fs) (a : anc) (ans : list answer) (bits : list bool)
           (ex : list path) (ft : faults) : result :=
  let incl := excl_incl ex in
  let ls := list_fs now_far incl normalize_unix S in
  let ld := list_fs now_far incl normalize_unix D in
  sync_one now_far normalize_unix (chunk_every 4096) cfg S (mkD D a 0 None []) ans bits ls ld ft.

(* with explicit listing orders (scripted driver: the harness dictates the order of arrival) *)
Definition run_orders (cfg : config) (S D : fs) (a : anc) (ans : list answer) (bits : list bool)
           (ls ld : list (path * entry)) (ft : faults) : result :=
  sync_one now_far normalize_unix (chunk_every 4096) cfg S (mkD D a 0 None []) ans bits ls ld ft.

Definition listing_top (ex : list path) (f : fs) : list (path * entry) :=
  list_fs now_far (excl_incl ex) normalize_unix f.
