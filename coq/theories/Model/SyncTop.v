(* Closed, executable instances of the sync model for extraction and for concrete examples. *)
From RJ Require Import Base.Prelude Base.OrderedPlan Model.Settings Model.Core Model.Fs Model.Paths Model.Sync.

Definition excl_incl (ex : list path) (p : path) : bool := negb (existsb (path_eqb p) ex).
Definition now_far (k : N) : Z := (4000000000000000000 + Z.of_N k)%Z.

(* doer.rs handle_get_file_contents on a regular file (every read fills its buffer until the end of the
   file): the first buffer is 4 KiB, each full read doubles the next one up to 4 MiB, and the piece that
   reaches the end of the file is the one sent with more_to_follow = false. *)
Definition buf_size (k : nat) : nat := 4096 * 2 ^ (Nat.min k 10).
Fixpoint chunk_grow (fuel k : nat) (s : str) : list str :=
  match fuel with
  | O => [s]
  | S fuel' => let n := buf_size k in
               if Nat.leb (length s) n then [s] else firstn n s :: chunk_grow fuel' (S k) (skipn n s)
  end.
Definition chunk_real (s : str) : list str := chunk_grow (length s) 0 s.

(* the initial destination world: nothing open, nothing logged; [fw] = indices of failing writes *)
Definition world (D : fs) (a : anc) (fw : list N) : dstate := mkD D a 0 None [] (mkX None fw 0 []).

Definition run_top (cfg : config) (S D : fs) (a : anc) (ans : list answer) (bits : list bool)
           (ex : list path) (ft : faults) : result :=
  let incl := excl_incl ex in
  let ls := list_fs now_far incl normalize_unix S in
  let ld := list_fs now_far incl normalize_unix D in
  sync_one now_far normalize_unix chunk_real cfg S (world D a []) ans bits ls ld ft.

(* with explicit listing orders (scripted driver: the harness dictates the order of arrival) *)
Definition run_orders (cfg : config) (S D : fs) (a : anc) (ans : list answer) (bits : list bool)
           (ls ld : list (path * entry)) (ft : faults) : result :=
  sync_one now_far normalize_unix chunk_real cfg S (world D a []) ans bits ls ld ft.

(* with write faults as well *)
Definition run_orders_w (cfg : config) (S D : fs) (a : anc) (fw : list N) (ans : list answer) (bits : list bool)
           (ls ld : list (path * entry)) (ft : faults) : result :=
  sync_one now_far normalize_unix chunk_real cfg S (world D a fw) ans bits ls ld ft.

Definition listing_top (ex : list path) (f : fs) : list (path * entry) :=
  list_fs now_far (excl_incl ex) normalize_unix f.
