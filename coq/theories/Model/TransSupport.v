(* Support definitions for Gen/FactsTransPlan.v, the Gallina text that tools/rs2coq.py regenerates on every run
   from the SOURCE TEXT of boss_sync.rs (needs_delete, needs_copy, process_src_entry, process_dest_entry).
   Hand-written and stable: the result type of a translated function (a Rust function either returns or panics)
   and the methods of ordered_map.rs (OrderedMap<RootRelativePath, V>) under the names the translator emits.
   Definitions only. *)
From RJ Require Import Base.Prelude Base.OrderedPlan Model.Settings Model.Core.

Inductive tres (A : Type) := TVal (a : A) | TPanic.
Arguments TVal {A} a.
Arguments TPanic {A}.

(* OrderedMap<RootRelativePath, V>: vec of keys + map (Base/OrderedPlan.v models ordered_map.rs) *)
Definition tmap (V : Type) := omap path V.
Definition t_new {V} : tmap V := oempty path.
Definition t_add {V} (k : path) (v : V) (o : tmap V) : tmap V := oadd path path_eq_dec k v o.          (* add(k, v)      *)
Definition t_remove {V} (k : path) (o : tmap V) : tmap V := oremove path path_eq_dec k o.               (* remove(&k)     *)
Definition t_update {V} (k : path) (v : V) (o : tmap V) : option (tmap V) := oupdate path path_eq_dec k v o.  (* update(&k, v): get_mut(k).unwrap() *)
Definition t_lookup {V} (k : path) (o : tmap V) : option V := alookup path path_eq_dec k (omp path V o).  (* lookup(&k)     *)

(* std::cmp::Ord::cmp on two SystemTime values (ns since the epoch in the model) *)
Definition time_cmp (a b : Z) : comparison := Z.compare a b.
Definition time_eqb (a b : Z) : bool := Z.eqb a b.
Definition size_eqb (a b : N) : bool := N.eqb a b.
