(* C17 - the parallel directory walk (parallel_walk_dir.rs:17-188) and its consumer
   (doer.rs handle_get_entries).  Definitions only.

   Part 1: directory trees, the sequential reference walk, the executable judge [admits].
   Part 2: the N-worker transition system: unbounded FIFO job queue, the atomic counter
           num_unfinished_jobs, a bounded FIFO result queue of capacity C, one consumer. *)
From RJ Require Import Base.Prelude.

Definition name := str.
Definition path := list name.

Inductive kind := KFile | KLink | KDir | KOther.
(* What a directory entry that is not a real directory can be.  [LBad]: the per-entry error
   branches of the worker loop (iterator item error, filter_func error, file_type error): an Err
   is sent and the loop goes on.  A symlink (also to a directory) is a leaf: file_type().is_dir()
   is false for it. *)
Inductive lkind := LFile | LLink | LOther | LBad.

(* [Dir readable children]: children in read_dir order, each with the result of the filter
   ([true] = skip).  [readable = false]: std::fs::read_dir fails.  The root may be any tree
   (read_dir of something that is not a directory fails as well). *)
Inductive tree :=
| Leaf (k : lkind)
| Dir (readable : bool) (children : list (name * (bool * tree))).

Definition child := (name * (bool * tree))%type.
Definition entry := (path * kind)%type.
Inductive result := REntry (e : entry) | RErr.

Definition leaf_items (q : path) (k : lkind) : list result :=
  match k with
  | LFile => [REntry (q, KFile)] | LLink => [REntry (q, KLink)] | LOther => [REntry (q, KOther)]
  | LBad => [RErr]
  end.

(* Everything the workers send for the job (p, t), as a list in sequential (one worker, depth
   first) order: entries and errors. *)
Fixpoint walk_all (p : path) (t : tree) : list result :=
  match t with
  | Dir true ch =>
      flat_map (fun c : child => match c with (n, (sk, sub)) =>
        if sk then [] else
        match sub with
        | Leaf k => leaf_items (p ++ [n]) k
        | Dir _ _ => REntry (p ++ [n], KDir) :: walk_all (p ++ [n]) sub
        end end) ch
  | _ => [RErr]
  end.

Definition child_items (p : path) (c : child) : list result :=
  match c with (n, (sk, sub)) =>
    if sk then [] else
    match sub with
    | Leaf k => leaf_items (p ++ [n]) k
    | Dir _ _ => REntry (p ++ [n], KDir) :: walk_all (p ++ [n]) sub
    end end.

(* The sequential reference walk, written directly from the property text: every entry the
   filters keep, a folder before what is inside it, no descent into excluded folders or links. *)
Fixpoint walk_spec (p : path) (t : tree) : list entry :=
  match t with
  | Dir true ch =>
      flat_map (fun c : child => match c with (n, (sk, sub)) =>
        if sk then [] else
        match sub with
        | Leaf LFile => [(p ++ [n], KFile)]
        | Leaf LLink => [(p ++ [n], KLink)]
        | Leaf LOther => [(p ++ [n], KOther)]
        | Leaf LBad => []
        | Dir _ _ => (p ++ [n], KDir) :: walk_spec (p ++ [n]) sub
        end end) ch
  | _ => []
  end.

Definition is_err (r : result) : bool := match r with RErr => true | _ => false end.
(* Some directory that the walk has to read cannot be read (or an entry cannot be examined). *)
Definition has_error (t : tree) : bool := existsb is_err (walk_all [] t).

(* ---- specification vocabulary ---------------------------------------------------------------- *)
Definition is_dir (t : tree) : bool := match t with Dir _ _ => true | Leaf _ => false end.
Definition kind_of_tree (t : tree) : option kind :=
  match t with
  | Leaf LFile => Some KFile | Leaf LLink => Some KLink | Leaf LOther => Some KOther | Leaf LBad => None
  | Dir _ _ => Some KDir
  end.

(* [dir_at root p t]: t is the directory at path p, reached from the root by descending only through
   readable real directories (never a link: links are leaves) that the filters keep. *)
Inductive dir_at (root : tree) : path -> tree -> Prop :=
| da_root : dir_at root [] root
| da_child p ch n sub : dir_at root p (Dir true ch) -> In (n, (false, sub)) ch -> is_dir sub = true ->
    dir_at root (p ++ [n]) sub.

(* an entry that the filters keep, inside such a directory *)
Definition included (root : tree) (e : entry) : Prop :=
  exists p ch n sub, dir_at root p (Dir true ch) /\ In (n, (false, sub)) ch /\
                     fst e = p ++ [n] /\ kind_of_tree sub = Some (snd e).

(* What is found at a path, whatever the filters say and whether or not directories are readable. *)
Inductive at_path : tree -> path -> bool * tree -> Prop :=
| ap_one r ch n c : In (n, c) ch -> at_path (Dir r ch) [n] c
| ap_more r ch n c p c' : In (n, c) ch -> p <> [] -> at_path (snd c) p c' -> at_path (Dir r ch) (n :: p) c'.
(* sibling names are unique (as in a real directory) *)
Inductive unique_names : tree -> Prop :=
| un_leaf k : unique_names (Leaf k)
| un_dir r ch : NoDup (map fst ch) -> Forall (fun c : child => unique_names (snd (snd c))) ch -> unique_names (Dir r ch).

(* every entry below the top level is preceded by the entry of its folder *)
Definition parent_first (l : list entry) : Prop :=
  forall a b p n k, l = a ++ (p ++ [n], k) :: b -> p <> [] -> In (p, KDir) a.
(* ... hence by the entries of all the folders it is inside of *)
Definition ancestors_first (l : list entry) : Prop :=
  forall a b q r k, l = a ++ (q ++ r, k) :: b -> q <> [] -> r <> [] -> In (q, KDir) a.

Definition ents (l : list result) : list entry :=
  flat_map (fun r => match r with REntry e => [e] | RErr => [] end) l.

(* ---- executable judge of an observed listing ---------------------------------------------- *)
Definition kind_eqb (a b : kind) : bool :=
  match a, b with KFile, KFile | KLink, KLink | KDir, KDir | KOther, KOther => true | _, _ => false end.
Fixpoint path_eqb (a b : path) : bool :=
  match a, b with
  | [], [] => true
  | x :: a', y :: b' => str_eqb x y && path_eqb a' b'
  | _, _ => false
  end.
Definition entry_eqb (a b : entry) : bool := path_eqb (fst a) (fst b) && kind_eqb (snd a) (snd b).

Fixpoint remove1 (x : entry) (l : list entry) : option (list entry) :=
  match l with
  | [] => None
  | y :: l' => if entry_eqb x y then Some l'
               else match remove1 x l' with Some r => Some (y :: r) | None => None end
  end.
(* l1 is a permutation of l2 *)
Fixpoint perm_b (l1 l2 : list entry) : bool :=
  match l1 with
  | [] => match l2 with [] => true | _ => false end
  | x :: l1' => match remove1 x l2 with Some l2' => perm_b l1' l2' | None => false end
  end.
(* l1 is a sub-multiset of l2 *)
Fixpoint sub_b (l1 l2 : list entry) : bool :=
  match l1 with
  | [] => true
  | x :: l1' => match remove1 x l2 with Some l2' => sub_b l1' l2' | None => false end
  end.
(* every entry below the top level comes after the entry of its parent folder *)
Fixpoint pf_go (seen l : list entry) : bool :=
  match l with
  | [] => true
  | e :: r =>
      (match removelast (fst e) with
       | [] => true
       | p => existsb (entry_eqb (p, KDir)) seen
       end) && pf_go (e :: seen) r
  end.
Definition parent_first_b (l : list entry) : bool := pf_go [] l.

(* A complete listing (ended by the end-of-list marker) is admitted iff the tree has no error
   and the listing is a permutation of the reference walk with parents first.
   A failed listing (ended by an error) is admitted iff the tree has an error and what was
   listed before it is a parents-first sub-multiset of the reference walk. *)
Definition admits (t : tree) (ended : bool) (l : list entry) : bool :=
  if ended then negb (has_error t) && perm_b l (walk_spec [] t) && parent_first_b l
  else has_error t && sub_b l (walk_spec [] t) && parent_first_b l.

(* ---- the transition system ------------------------------------------------------------- *)
Inductive job := JDir (p : path) (t : tree) | JDone.

(* Program counter + locals of one worker thread (worker_main). *)
Inductive wpc :=
| WIdle                                               (* at job_receiver.recv() *)
| WRead (p : path) (t : tree)                         (* has job Dir(p); at read_dir *)
| WIter (p : path) (rest : list child)                (* in `for entry in iter`; rest = entries to come; [] = at fetch_sub *)
| WAdd (p : path) (n : name) (sub : tree) (rest : list child)   (* folder entry sent; at fetch_add *)
| WPush (p : path) (n : name) (sub : tree) (rest : list child)  (* counter incremented; at job_sender.send(Dir) *)
| WAssert                                             (* saw prev_count == 1; at assert_eq!(job_sender.len(), 0) *)
| WBcast (k : nat)                                    (* k Job::Done still to send *)
| WExit                                               (* got Job::Done, returned Ok(()) - senders dropped *)
| WGone                                               (* result send failed (receiver dropped), returned through `?` *)
| WBad.                                               (* panicked: assertion failed or the counter wrapped *)

(* Shared memory.  [leaked] is a ghost (history) variable: how many directory jobs were abandoned
   without the fetch_sub - no guard reads it. *)
Record glob := mkG { jobs : list job; cnt : nat; rq : list result; leaked : nat }.

Definition readable (t : tree) : bool := match t with Dir true _ => true | _ => false end.

Section System.
Variable N : nat.   (* num_threads *)
Variable C : nat.   (* capacity of the result queue (1000 in the code) *)

(* One atomic action of one worker.  [alive]: the consumer still holds the result receiver. *)
Inductive wstep (alive : bool) : glob -> wpc -> glob -> wpc -> Prop :=
| ws_pop_dir g p t js : jobs g = JDir p t :: js ->
    wstep alive g WIdle (mkG js (cnt g) (rq g) (leaked g)) (WRead p t)
| ws_pop_done g js : jobs g = JDone :: js ->
    wstep alive g WIdle (mkG js (cnt g) (rq g) (leaked g)) WExit
| ws_read_ok g p ch :
    wstep alive g (WRead p (Dir true ch)) g (WIter p ch)
| ws_read_fail g p t : readable t = false -> alive = true -> length (rq g) < C ->
    (* send Err; `continue` the outer loop: NO fetch_sub *)
    wstep alive g (WRead p t) (mkG (jobs g) (cnt g) (rq g ++ [RErr]) (S (leaked g))) WIdle
| ws_read_fail_gone g p t : readable t = false -> alive = false ->
    wstep alive g (WRead p t) (mkG (jobs g) (cnt g) (rq g) (S (leaked g))) WGone
| ws_skip g p n sub rest :
    wstep alive g (WIter p ((n, (true, sub)) :: rest)) g (WIter p rest)
| ws_leaf g p n k rest : alive = true -> length (rq g) < C ->
    wstep alive g (WIter p ((n, (false, Leaf k)) :: rest))
          (mkG (jobs g) (cnt g) (rq g ++ leaf_items (p ++ [n]) k) (leaked g)) (WIter p rest)
| ws_dir g p n r ch rest : alive = true -> length (rq g) < C ->
    wstep alive g (WIter p ((n, (false, Dir r ch)) :: rest))
          (mkG (jobs g) (cnt g) (rq g ++ [REntry (p ++ [n], KDir)]) (leaked g)) (WAdd p n (Dir r ch) rest)
| ws_send_gone g p n sub rest : alive = false ->
    wstep alive g (WIter p ((n, (false, sub)) :: rest)) (mkG (jobs g) (cnt g) (rq g) (S (leaked g))) WGone
| ws_add g p n sub rest :
    wstep alive g (WAdd p n sub rest) (mkG (jobs g) (S (cnt g)) (rq g) (leaked g)) (WPush p n sub rest)
| ws_push g p n sub rest :
    wstep alive g (WPush p n sub rest) (mkG (jobs g ++ [JDir (p ++ [n]) sub]) (cnt g) (rq g) (leaked g)) (WIter p rest)
| ws_dec_more g p c : cnt g = S (S c) ->
    wstep alive g (WIter p []) (mkG (jobs g) (S c) (rq g) (leaked g)) WIdle
| ws_dec_last g p : cnt g = 1 ->
    wstep alive g (WIter p []) (mkG (jobs g) 0 (rq g) (leaked g)) WAssert
| ws_dec_wrap g p : cnt g = 0 ->
    wstep alive g (WIter p []) g WBad
| ws_assert_ok g : jobs g = [] ->
    wstep alive g WAssert g (WBcast N)
| ws_assert_fail g : jobs g <> [] ->
    wstep alive g WAssert g WBad
| ws_bcast g k :
    wstep alive g (WBcast (S k)) (mkG (jobs g ++ [JDone]) (cnt g) (rq g) (leaked g)) (WBcast k)
| ws_bcast_end g :
    wstep alive g (WBcast 0) g WIdle.

(* The consumer: handle_get_entries. *)
Inductive cstate :=
| CRun        (* in `while let Ok(entry) = entry_receiver.recv()` *)
| CErr        (* got an Err entry: returns Err(..) - Response::Error to the boss *)
| CDropped    (* ... and the receiver has been dropped *)
| CEos.       (* recv() reported disconnect: sends Response::EndOfEntries *)

Definition alive (c : cstate) : bool := match c with CDropped => false | _ => true end.
Definition exited (w : wpc) : bool := match w with WExit | WGone | WBad => true | _ => false end.

Record state := mkS { gl : glob; ws : list wpc; cons : cstate; recvd : list entry }.

Inductive step : state -> state -> Prop :=
| st_worker s a w b g' w' : ws s = a ++ w :: b -> wstep (alive (cons s)) (gl s) w g' w' ->
    step s (mkS g' (a ++ w' :: b) (cons s) (recvd s))
| st_pop_ok s e r : cons s = CRun -> rq (gl s) = REntry e :: r ->
    step s (mkS (mkG (jobs (gl s)) (cnt (gl s)) r (leaked (gl s))) (ws s) CRun (recvd s ++ [e]))
| st_pop_err s r : cons s = CRun -> rq (gl s) = RErr :: r ->
    step s (mkS (mkG (jobs (gl s)) (cnt (gl s)) r (leaked (gl s))) (ws s) CErr (recvd s))
| st_drop s : cons s = CErr ->
    step s (mkS (mkG (jobs (gl s)) (cnt (gl s)) [] (leaked (gl s))) (ws s) CDropped (recvd s))
| st_eos s : cons s = CRun -> rq (gl s) = [] -> forallb exited (ws s) = true ->
    step s (mkS (gl s) (ws s) CEos (recvd s)).

Definition init (root : tree) : state :=
  mkS (mkG [JDir [] root] 1 [] 0) (repeat WIdle N) CRun [].

Inductive reach (root : tree) : state -> Prop :=
| r_init : reach root (init root)
| r_step s s' : reach root s -> step s s' -> reach root s'.

End System.
