(* C14, the encrypted TCP leg: which messages of the boss<->doer protocol fit the fixed buffers of
   encrypted_comms.rs, and what the link does with one that does not.  Definitions only.

   The sending thread serializes into `buffer[8..]` of its `vec![0u8; 8192 * 1024]`, the AEAD appends a
   16-byte tag in place, the receiving thread reads the ciphertext into `buffer[0..encrypted_len]` of
   its own 8 MiB buffer ([Frame.buf_size], [Frame.send_step], [Frame.recv_byte]).  A message of the
   protocol carries at most one chunk of file data ([max_chunk], the top of the ladder of
   doer.rs handle_get_file_contents) plus strings: root-relative paths, link targets, the root, filter
   patterns, an error text.  [legit_command] / [legit_response] bound the data by the largest chunk and
   ALL the strings of the message together by [other_max] = 4 MiB - 1 KiB - three orders of magnitude
   above PATH_MAX (4096 on Linux, 32767 UTF-16 units = at most 98301 UTF-8 bytes on Windows). *)
From RJ Require Import Base.Prelude Model.LEInt Model.Bincode.
From RJ Require Model.Frame.
From Coq Require Import String.
Local Open Scope N_scope.

Definition tag_len : N := 16.              (* AES-128-GCM tag appended by encrypt_in_place *)
Definition len_prefix : N := 8.            (* the length header, buffer[0..8] *)
Definition max_chunk : N := 4194304.       (* doer.rs: chunk sizes double from 4 KiB up to 4 MiB *)
Definition other_max : N := 4193280.       (* 4 MiB - 1 KiB for all strings of one message together *)
Definition fixed_max : N := 64.            (* upper bound of the fixed-size fields of any message *)

(* what the link does with ONE message handed to the sending side *)
Inductive link_class :=
| LDelivered      (* sealed, framed, accepted by the receiving thread *)
| LSerialize      (* serialize_into(&mut buffer[8..]) runs out of room: send returns Err, the sending thread ends *)
| LTagPanic       (* the plaintext fits but the tag does not: SliceBuffer::extend_from_slice panics *)
| LUnencodable.   (* serde refuses the value (a time before the epoch); the channel send panics before *)

Definition link_class_of (encodable : bool) (sz : N) : link_class :=
  if negb encodable then LUnencodable
  else if Frame.buf_size - len_prefix <? sz then LSerialize
  else if Frame.buf_size - len_prefix <? sz + tag_len then LTagPanic
  else LDelivered.

Definition link_class_command (c : command) : link_class := link_class_of (command_encodable c) (size_command c).
Definition link_class_response (r : response) : link_class := link_class_of (response_encodable r) (size_response r).

(* ---------------------------------------------------------------- the variable-length parts of a message *)
Definition target_len (t : symlink_target) : N :=
  match t with STNormalized s => lenN s | STNotNormalized s => lenN s end.
Definition details_var (d : entry_details) : N :=
  match d with EDSymlink _ t => target_len t | _ => 0 end.

Definition data_command (c : command) : N :=
  match c with CCreateOrUpdateFile _ d _ _ => lenN d | _ => 0 end.
Definition var_command (c : command) : N :=
  match c with
  | CSetRoot r => lenN r
  | CGetEntries f => size_filters f
  | CGetFileContent p | CCreateFolder p | CDeleteFile p | CDeleteFolder p => lenN p
  | CCreateOrUpdateFile p _ _ _ => lenN p
  | CCreateSymlink p _ t => lenN p + target_len t
  | CDeleteSymlink p _ => lenN p
  | CCreateRootAncestors | CProfilingTimeSync | CMarker _ | CShutdown => 0
  end.

Definition data_response (r : response) : N :=
  match r with RFileContent d _ => lenN d | _ => 0 end.
Definition var_response (r : response) : N :=
  match r with
  | RRootDetails d _ c => match d with Some x => details_var x | None => 0 end + lenN c
  | REntry p d => lenN p + details_var d
  | RProfilingData p => size_prof p
  | RError s => lenN s
  | REndOfEntries | RFileContent _ _ | RProfilingTimeSync _ | RMarker _ => 0
  end.

(* a message the protocol can produce: at most one full chunk of data, strings within [other_max] *)
Definition legit_command (c : command) : bool :=
  (data_command c <=? max_chunk) && (var_command c <=? other_max).
Definition legit_response (r : response) : bool :=
  (data_response r <=? max_chunk) && (var_response r <=? other_max).

(* the message layer of the frame automaton, instantiated: the plaintext deserializes *)
Definition deserializes_command (m : bytes) : bool :=
  match decode_command m with Some _ => true | None => false end.
Definition deserializes_response (m : bytes) : bool :=
  match decode_response m with Some _ => true | None => false end.

Definition link_class_name (k : link_class) : bytes :=
  match k with
  | LDelivered => wlit "delivered"%string
  | LSerialize => wlit "serialize"%string
  | LTagPanic => wlit "tag-panic"%string
  | LUnencodable => wlit "unencodable"%string
  end.
