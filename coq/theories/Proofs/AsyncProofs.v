(* The two-process model of Model/Async.v: exit 0 is sound and no error reply is ever lost, on EVERY
   interleaving of boss and doer. *)
From RJ Require Import Base.Prelude Model.Core Model.Fs Model.Sync Model.Async Proofs.DryProofs.

Section AsyncProofs.
Variable exec : dstate -> cmd -> dstate * option errc.
Notation astep := (astep exec).
Notation areach := (areach exec).
Notation run_all := (run_all exec).
Notation errs_all := (errs_all exec).

Lemma run_all_app d a b : run_all d (a ++ b) = run_all (run_all d a) b.
Proof. revert d; induction a as [|c r IH]; intros d; cbn [run_all app]; auto. Qed.
Lemma errs_all_app d a b : errs_all d (a ++ b) = errs_all d a ++ errs_all (run_all d a) b.
Proof. revert d; induction a as [|c r IH]; intros d; cbn [errs_all run_all app]; [reflexivity|]. rewrite IH, app_assoc. reflexivity. Qed.

Definition qcmds (q : list qitem) : list cmd := flat_map (fun x => match x with QCmd c => [c] | QDone => [] end) q.
Definition has_done (q : list qitem) : bool := existsb (fun x => match x with QDone => true | _ => false end) q.
Definition rerrs (i : list reply) : list errc := flat_map (fun x => match x with RErr e => [e] | RDone => [] end) i.
Definition has_rdone (i : list reply) : bool := existsb (fun x => match x with RDone => true | _ => false end) i.

Lemma qcmds_app a b : qcmds (a ++ b) = qcmds a ++ qcmds b. Proof. apply flat_map_app. Qed.
Lemma rerrs_app a b : rerrs (a ++ b) = rerrs a ++ rerrs b. Proof. apply flat_map_app. Qed.
Lemma has_done_app a b : has_done (a ++ b) = has_done a || has_done b. Proof. apply existsb_app. Qed.
Lemma has_rdone_app a b : has_rdone (a ++ b) = has_rdone a || has_rdone b. Proof. apply existsb_app. Qed.
Lemma rerrs_err_reply e : rerrs (err_reply e) = err_list e. Proof. destruct e; reflexivity. Qed.
Lemma has_rdone_err_reply e : has_rdone (err_reply e) = false. Proof. destruct e; reflexivity. Qed.

Variable d0 : dstate.
Variable steps : list bstep.

(* what the boss still intends to send *)
Definition todo_cmds (b : bmode) : list cmd := match b with BRun todo => dest_cmds todo | _ => [] end.
Definition running (b : bmode) : bool := match b with BRun _ => true | _ => false end.

Definition Inv (s : asys) : Prop :=
  (* the doer's world and ghost lists are the sequential execution of what it has executed *)
  a_d s = run_all d0 (a_done s) /\ a_errs s = errs_all d0 (a_done s) /\
  (* executed ++ queued ++ still to send is a prefix-compatible split of the plan *)
  (match a_boss s with
   | BRun todo => dest_cmds steps = a_done s ++ qcmds (a_queue s) ++ dest_cmds todo
   | BWait | BOk => dest_cmds steps = a_done s ++ qcmds (a_queue s)
   | BFail => True
   end) /\
  (* the final marker is queued / answered only once the boss waits, and it is the last thing *)
  (running (a_boss s) = true -> has_done (a_queue s) = false /\ has_rdone (a_inbox s) = false) /\
  (has_rdone (a_inbox s) = true -> a_queue s = [] /\ exists pre, a_inbox s = pre ++ [RDone] /\ has_rdone pre = false) /\
  (has_done (a_queue s) = true -> exists pre, a_queue s = pre ++ [QDone] /\ has_done pre = false) /\
  (* while the boss has not given up, it has read no error: every error the doer answered is still in the inbox;
     once it reports Ok, there was none *)
  (match a_boss s with
   | BRun _ | BWait => rerrs (a_inbox s) = a_errs s
   | BOk => a_errs s = [] /\ a_queue s = []
   | BFail => True
   end).

Lemma inv_init : Inv (ainit d0 steps).
Proof.
  unfold Inv, ainit. cbn. repeat split; auto; try discriminate.
Qed.

Lemma has_done_last pre : has_done (pre ++ [QDone]) = true.
Proof. rewrite has_done_app. cbn. apply orb_true_r. Qed.

Ltac split7 := split; [|split; [|split; [|split; [|split; [|split]]]]].

Lemma inv_step s s' : Inv s -> astep s s' -> Inv s'.
Proof.
  intros HI Hst. unfold Inv in HI. destruct HI as (I1 & I2 & I3 & I4 & I5 & I6 & I7).
  destruct Hst; cbn [a_boss a_queue a_d a_inbox a_done a_errs running] in *; unfold Inv;
    cbn [a_boss a_queue a_d a_inbox a_done a_errs running]; split7.
  (* ---- the doer executes a command ---- *)
  - rewrite run_all_app, <- I1. reflexivity.
  - rewrite errs_all_app, <- I2, <- I1. cbn [errs_all]. rewrite app_nil_r. reflexivity.
  - destruct b; try exact I; cbn [qcmds flat_map app] in I3; rewrite I3, <- !app_assoc; reflexivity.
  - intros Hr. destruct (I4 Hr) as [A B]. split; [exact A|].
    rewrite has_rdone_app, has_rdone_err_reply, B. reflexivity.
  - intros Hd. rewrite has_rdone_app, has_rdone_err_reply, orb_false_r in Hd. destruct (I5 Hd) as [A _]. discriminate.
  - intros Hd. assert (Hd' : has_done (QCmd c :: q) = true) by exact Hd. destruct (I6 Hd') as (pre & E & Hp).
    destruct pre as [|x pre']; [inversion E|]. inversion E; subst. exists pre'. split; [reflexivity|].
    exact Hp.
  - destruct b; try exact I.
    + rewrite rerrs_app, rerrs_err_reply, I7. reflexivity.
    + rewrite rerrs_app, rerrs_err_reply, I7. reflexivity.
    + destruct I7 as [_ Hq0]. discriminate.
  (* ---- the doer answers the final marker ---- *)
  - exact I1.
  - exact I2.
  - destruct b; try exact I; cbn [qcmds flat_map app] in *; exact I3.
  - intros Hr. destruct (I4 Hr) as [A _]. cbn in A. discriminate.
  - intros _.
    assert (Hdq : has_done (QDone :: q) = true) by reflexivity.
    destruct (I6 Hdq) as (pre & E & Hp).
    assert (Hq0 : q = []).
    { destruct pre as [|x pre']; [inversion E; reflexivity|]. inversion E; subst. cbn in Hp. discriminate. }
    split; [exact Hq0|]. exists i. split; [reflexivity|].
    destruct (has_rdone i) eqn:Er; [|reflexivity]. destruct (I5 eq_refl) as [A _]. discriminate.
  - intros Hd. assert (Hdq : has_done (QDone :: q) = true) by reflexivity.
    destruct (I6 Hdq) as (pre & E & Hp).
    destruct pre as [|x pre']; [inversion E; subst; discriminate|]. inversion E; subst. cbn in Hp. discriminate.
  - destruct b; try exact I.
    + rewrite rerrs_app. cbn [rerrs flat_map]. rewrite app_nil_r. exact I7.
    + rewrite rerrs_app. cbn [rerrs flat_map]. rewrite app_nil_r. exact I7.
    + destruct I7 as [_ Hq0]. discriminate.
  (* ---- the boss sends a command ---- *)
  - exact I1.
  - exact I2.
  - cbn [dest_cmds flat_map app] in I3. rewrite qcmds_app. cbn [qcmds flat_map app]. rewrite I3, <- !app_assoc. reflexivity.
  - intros _. destruct (I4 eq_refl) as [A B]. split; [|exact B]. rewrite has_done_app, A. reflexivity.
  - intros Hr. destruct (I4 eq_refl) as [A B]. rewrite B in Hr. discriminate.
  - intros Hd. destruct (I4 eq_refl) as [A B]. rewrite has_done_app, A in Hd. cbn in Hd. discriminate.
  - exact I7.
  (* ---- a source read ---- *)
  - exact I1.
  - exact I2.
  - exact I3.
  - intros _. exact (I4 eq_refl).
  - exact I5.
  - exact I6.
  - exact I7.
  (* ---- a failing source read ---- *)
  - exact I1.
  - exact I2.
  - exact I.
  - intros Hr. discriminate.
  - exact I5.
  - exact I6.
  - exact I.
  (* ---- everything sent: the final marker ---- *)
  - exact I1.
  - exact I2.
  - cbn [dest_cmds flat_map] in I3. rewrite app_nil_r in I3. rewrite qcmds_app. cbn [qcmds flat_map]. rewrite app_nil_r. exact I3.
  - intros Hr. discriminate.
  - intros Hr. destruct (I4 eq_refl) as [A B]. rewrite B in Hr. discriminate.
  - intros _. destruct (I4 eq_refl) as [A B]. exists q. split; [reflexivity|exact A].
  - exact I7.
  (* ---- the boss sees an error while running ---- *)
  - exact I1.
  - exact I2.
  - exact I.
  - intros Hr. discriminate.
  - intros Hr. destruct (I4 eq_refl) as [A B]. assert (B' : has_rdone i = false) by exact B. rewrite B' in Hr. discriminate.
  - exact I6.
  - exact I.
  (* ---- the boss sees an error while waiting ---- *)
  - exact I1.
  - exact I2.
  - exact I.
  - intros Hr. discriminate.
  - intros Hr. assert (Hr' : has_rdone (RErr e :: i) = true) by exact Hr. destruct (I5 Hr') as [A (pre & E & Hp)].
    split; [exact A|]. destruct pre as [|x pre']; [inversion E|]. inversion E; subst. exists pre'. split; [reflexivity|].
    exact Hp.
  - exact I6.
  - exact I.
  (* ---- the boss sees the echo of the final marker ---- *)
  - exact I1.
  - exact I2.
  - exact I3.
  - intros Hr. discriminate.
  - intros Hr. assert (Hr' : has_rdone (RDone :: i) = true) by reflexivity. destruct (I5 Hr') as [A (pre & E & Hp)].
    destruct pre as [|x pre']; [inversion E; subst; discriminate|]. inversion E; subst. cbn in Hp. discriminate.
  - exact I6.
  - assert (Hr' : has_rdone (RDone :: i) = true) by reflexivity. destruct (I5 Hr') as [A (pre & E & Hp)].
    assert (Hi : i = []).
    { destruct pre as [|x pre']; [inversion E; reflexivity|]. inversion E; subst. cbn in Hp. discriminate. }
    subst i. cbn [rerrs flat_map app] in I7. split; [symmetry; exact I7|exact A].
Qed.

Lemma inv_reach s : areach (ainit d0 steps) s -> Inv s.
Proof. induction 1 as [|s s' Hr IH Hs]; [apply inv_init|eapply inv_step; eauto]. Qed.

(* Exit status 0 on every interleaving: the doer has executed the whole plan, in order, nothing is left in
   the queue, and not one command was answered with an error. *)
Theorem async_ok_sound s :
  areach (ainit d0 steps) s -> a_boss s = BOk ->
  a_done s = dest_cmds steps /\ a_d s = run_all d0 (dest_cmds steps) /\ errs_all d0 (dest_cmds steps) = [] /\ a_queue s = [].
Proof.
  intros Hr Hb. destruct (inv_reach s Hr) as (I1 & I2 & I3 & _ & _ & _ & I7). rewrite Hb in *.
  destruct I7 as [He Hq]. rewrite Hq in I3. cbn [qcmds flat_map] in I3. rewrite app_nil_r in I3.
  rewrite I3. repeat split; auto. rewrite <- I2. exact He.
Qed.

(* No error is ever lost: if the doer answered any command with an error - however late - the boss does not report Ok. *)
Theorem async_no_error_lost s :
  areach (ainit d0 steps) s -> a_errs s <> [] -> a_boss s <> BOk.
Proof.
  intros Hr He Hb. destruct (inv_reach s Hr) as (_ & _ & _ & _ & _ & _ & I7). rewrite Hb in I7. destruct I7; contradiction.
Qed.

(* whenever the boss stops - Ok or not - the doer's world is the sequential execution of a PREFIX of the plan *)
Theorem async_prefix s :
  areach (ainit d0 steps) s -> a_d s = run_all d0 (a_done s) /\
  (a_boss s <> BFail -> exists rest, dest_cmds steps = a_done s ++ rest).
Proof.
  intros Hr. destruct (inv_reach s Hr) as (I1 & _ & I3 & _). split; [exact I1|].
  intros Hb. destruct (a_boss s) as [todo| | |]; [exists (qcmds (a_queue s) ++ dest_cmds todo); exact I3|eauto|eauto|contradiction].
Qed.

End AsyncProofs.

(* ---- termination: every interleaving of the two processes is finite ---- *)
Section AsyncTermination.
Variable exec : dstate -> cmd -> dstate * option errc.

Definition boss_weight (b : bmode) : nat :=
  match b with BRun todo => 3 * length todo + 4 | BWait => 1 | BOk => 0 | BFail => 0 end.
Definition ameasure (s : asys) : nat := boss_weight (a_boss s) + 2 * length (a_queue s) + length (a_inbox s).

Lemma err_reply_len e : length (err_reply e) <= 1.
Proof. destruct e; cbn; lia. Qed.

Theorem astep_decreases s s' : Async.astep exec s s' -> ameasure s' < ameasure s.
Proof.
  intros H. destruct H; unfold ameasure; cbn [a_boss a_queue a_inbox boss_weight length]; rewrite ?app_length; cbn [length];
    try (pose proof (err_reply_len (snd (exec d c)))); lia.
Qed.

(* a path of n steps *)
Inductive apath : nat -> asys -> asys -> Prop :=
| ap_nil s : apath 0 s s
| ap_cons n s s' s'' : Async.astep exec s s' -> apath n s' s'' -> apath (S n) s s''.

Theorem async_bounded n s s' : apath n s s' -> n + ameasure s' <= ameasure s.
Proof.
  induction 1 as [s|n s s1 s2 Hst Hp IH]; [lia|]. pose proof (astep_decreases s s1 Hst). lia.
Qed.

(* from the initial state no execution has more than 3 * (number of steps of the plan) + 4 transitions *)
Corollary async_terminates d0 steps n s : apath n (ainit d0 steps) s -> n <= 3 * length steps + 4.
Proof.
  intros H. pose proof (async_bounded n _ _ H) as Hb. unfold ameasure, ainit in Hb. cbn [a_boss a_queue a_inbox boss_weight length] in Hb. lia.
Qed.

End AsyncTermination.

(* ---- the two models of the destination side agree on successful runs ---- *)
From RJ Require Import Proofs.ExecProofs.
Section AsyncVsSync.
Variable fl : flavour.

Lemma run_all_exec_all cmds : forall d, run_all (doer_exec fl) d cmds = exec_all fl d cmds.
Proof. induction cmds as [|c r IH]; intros d; cbn [run_all exec_all]; auto. Qed.

Lemma errs_all_nil_all_ok cmds : forall d, errs_all (doer_exec fl) d cmds = [] -> all_ok fl d cmds.
Proof.
  induction cmds as [|c r IH]; intros d H; cbn [errs_all all_ok] in *; [exact I|].
  apply app_eq_nil in H as [H1 H2]. split; [destruct (snd (doer_exec fl d c)); [discriminate|reflexivity]|apply IH; exact H2].
Qed.

(* the synchronous model (Model/Sync.run_steps) without faults, on commands that all succeed, executes them all *)
Lemma run_steps_all_ok steps : forall r,
  rs_srcfail r = false -> rs_budget r = None -> all_ok fl (rs_d r) (dest_cmds steps) ->
  rs_d (run_steps fl no_faults r steps) = exec_all fl (rs_d r) (dest_cmds steps) /\
  rs_errs (run_steps fl no_faults r steps) = rs_errs r /\ rs_srcfail (run_steps fl no_faults r steps) = false.
Proof.
  induction steps as [|s rest IH]; intros r Hs Hb Hok; [repeat split; auto|].
  change (run_steps fl no_faults r (s :: rest)) with (run_steps fl no_faults (run_step fl no_faults r s) rest).
  unfold run_step. rewrite Hs, Hb. destruct s as [c|q].
  - unfold dest_cmds in *. cbn [flat_map app all_ok exec_all] in *. destruct Hok as [Hc Hrest].
    unfold do_step. cbn [no_faults ft_stop ft_dest mem_nat existsb]. rewrite !andb_false_r. cbv zeta. rewrite Hc.
    set (r1 := mkR _ _ _ _ _ _ _ _).
    assert (Hb1 : rs_budget r1 = None) by (unfold r1; cbn [rs_budget]; rewrite Hb; reflexivity).
    destruct (IH r1 eq_refl Hb1 Hrest) as (I1 & I2 & I3). repeat split; assumption.
  - unfold dest_cmds in *. cbn [flat_map app] in *. unfold do_step. cbn [no_faults ft_src mem_nat existsb].
    set (r1 := mkR _ _ _ _ _ _ _ _).
    assert (Hb1 : rs_budget r1 = None) by (unfold r1; cbn [rs_budget]; rewrite Hb; reflexivity).
    destruct (IH r1 eq_refl Hb1 Hok) as (I1 & I2 & I3). repeat split; assumption.
Qed.

Theorem async_ok_agrees_with_sync D t0 s0 steps s :
  areach (doer_exec fl) (ainit D steps) s -> a_boss s = BOk ->
  let r := run_steps fl no_faults (mkR D t0 s0 [] false 0 0 None) steps in
  a_d s = rs_d r /\ rs_errs r = [] /\ rs_srcfail r = false.
Proof.
  intros Hr Hb. destruct (async_ok_sound (doer_exec fl) D steps s Hr Hb) as (_ & Hd & He & _).
  destruct (run_steps_all_ok steps (mkR D t0 s0 [] false 0 0 None) eq_refl eq_refl (errs_all_nil_all_ok _ D He)) as (I1 & I2 & I3).
  cbv zeta. rewrite I1, Hd, run_all_exec_all. auto.
Qed.

End AsyncVsSync.

(* ---- every outcome of the two-process model is an outcome of the synchronous model for some fault plan ---- *)
Section AsyncCovered.
Variable fl : flavour.
Notation exec := (doer_exec fl).

(* executed ++ queued is always a prefix of the plan's commands *)
Lemma prefix_inv d0 steps s : areach exec (ainit d0 steps) s ->
  exists rest, dest_cmds steps = a_done s ++ qcmds (a_queue s) ++ rest.
Proof.
  induction 1 as [|s s' Hr IH Hst]; [exists (dest_cmds steps); reflexivity|].
  destruct IH as (rest & E). destruct Hst; cbn [a_done a_queue] in *.
  - exists rest. cbn [qcmds flat_map app] in E. rewrite E, <- !app_assoc. reflexivity.
  - exists rest. exact E.
  - (* boss_send: need the sent command to be the next of the plan *)
    destruct (inv_reach exec d0 steps _ Hr) as (_ & _ & I3 & _). cbn [a_boss a_done a_queue] in I3.
    exists (dest_cmds rest0). rewrite qcmds_app. cbn [qcmds flat_map app]. cbn [dest_cmds flat_map app] in I3.
    rewrite I3, <- !app_assoc. reflexivity.
  - exists rest. exact E.
  - exists rest. exact E.
  - exists rest. rewrite qcmds_app. cbn [qcmds flat_map]. rewrite app_nil_r. exact E.
  - exists rest. exact E.
  - exists rest. exact E.
  - exists rest. exact E.
Qed.

(* the synchronous model with "the doer dies after n commands" and an unbounded notice lag executes exactly the
   first n commands of the plan *)
Definition stop_plan (n lag : nat) : faults := mkFaults [] [] lag (Some n).

Lemma sync_stop_prefix steps : forall r n lag,
  (forall c, In c (dest_cmds steps) -> mutating c = true) ->
  rs_srcfail r = false ->
  (rs_budget r = None \/ exists k, rs_budget r = Some k /\ length steps < k) -> length steps < lag ->
  rs_d (run_steps fl (stop_plan n lag) r steps) = exec_all fl (rs_d r) (firstn (n - rs_mut r) (dest_cmds steps)).
Proof.
  induction steps as [|s rest IH]; intros r n lag Hmut Hs Hbud Hlag.
  - cbn. destruct (n - rs_mut r); reflexivity.
  - change (run_steps fl (stop_plan n lag) r (s :: rest)) with (run_steps fl (stop_plan n lag) (run_step fl (stop_plan n lag) r s) rest).
    assert (Hstep : run_step fl (stop_plan n lag) r s = do_step fl (stop_plan n lag) r s).
    { unfold run_step. rewrite Hs. destruct Hbud as [->|(k & -> & Hk)]; [reflexivity|]. destruct k; [cbn in Hk; lia|reflexivity]. }
    rewrite Hstep. cbn [length] in *.
    assert (Hbud' : forall r', rs_budget r' = match (match rs_budget r with Some (S m) => Some m | x => x end) with None => rs_budget r' | x => x end -> True) by auto.
    destruct s as [c|q].
    + assert (Hmc : mutating c = true) by (apply Hmut; unfold dest_cmds; cbn [flat_map app]; left; reflexivity).
      unfold dest_cmds in *. cbn [flat_map app] in *.
      unfold do_step. cbn [stop_plan ft_stop ft_dest ft_lag mem_nat existsb]. rewrite Hmc, !andb_false_r. cbn [andb]. cbv zeta.
      destruct (Nat.leb n (rs_mut r)) eqn:Estop.
      * (* stopped: nothing is executed now or later *)
        apply Nat.leb_le in Estop. assert (n - rs_mut r = 0) by lia. rewrite H. cbn [firstn exec_all fst snd].
        set (r1 := mkR _ _ _ _ _ _ _ _).
        rewrite (IH r1 n lag); [|intros c' Hc'; apply Hmut; right; exact Hc'|reflexivity| |lia].
        -- cbn [rs_d rs_mut r1]. assert (n - S (rs_mut r) = 0) by lia. rewrite H0. reflexivity.
        -- right. unfold r1. cbn [rs_budget]. destruct Hbud as [->|(k & -> & Hk)].
           ++ exists lag. split; [reflexivity|lia].
           ++ destruct k as [|k']; [lia|]. exists k'. split; [reflexivity|lia].
      * apply Nat.leb_gt in Estop. destruct (n - rs_mut r) as [|m] eqn:En; [lia|]. cbn [firstn exec_all].
        destruct (snd (doer_exec fl (rs_d r) c)) eqn:Esnd; cbn [fst snd].
        -- set (r1 := mkR _ _ _ _ _ _ _ _).
           rewrite (IH r1 n lag); [|intros c' Hc'; apply Hmut; right; exact Hc'|reflexivity| |lia].
           ++ cbn [rs_d rs_mut r1]. replace (n - S (rs_mut r)) with m by lia. reflexivity.
           ++ right. unfold r1. cbn [rs_budget]. destruct Hbud as [->|(k & -> & Hk)].
              ** exists lag. split; [reflexivity|lia].
              ** destruct k as [|k']; [lia|]. exists k'. split; [reflexivity|lia].
        -- set (r1 := mkR _ _ _ _ _ _ _ _).
           rewrite (IH r1 n lag); [|intros c' Hc'; apply Hmut; right; exact Hc'|reflexivity| |lia].
           ++ cbn [rs_d rs_mut r1]. replace (n - S (rs_mut r)) with m by lia. reflexivity.
           ++ unfold r1. cbn [rs_budget]. destruct Hbud as [->|(k & -> & Hk)]; [left; reflexivity|].
              destruct k as [|k']; [lia|]. right. exists k'. split; [reflexivity|lia].
    + unfold dest_cmds in *. cbn [flat_map app] in *. unfold do_step. cbn [stop_plan ft_src mem_nat existsb].
      set (r1 := mkR _ _ _ _ _ _ _ _).
      rewrite (IH r1 n lag); [|exact Hmut|reflexivity| |lia].
      * reflexivity.
      * unfold r1. cbn [rs_budget]. destruct Hbud as [->|(k & -> & Hk)]; [left; reflexivity|].
        destruct k as [|k']; [lia|]. right. exists k'. split; [reflexivity|lia].
Qed.

(* Whatever the two processes do, once the boss has stopped and the doer has nothing left in its queue the doer's
   world is what the synchronous model computes for the fault plan "the doer dies after n commands" (n = the
   number of commands it executed): every theorem proved for ALL fault plans of Model/Sync.run_steps covers
   every interleaving of the asynchronous system. *)
Theorem async_covered_by_sync D t0 s0 steps s :
  (forall c, In c (dest_cmds steps) -> mutating c = true) ->
  areach exec (ainit D steps) s ->
  a_d s = rs_d (run_steps fl (stop_plan (length (a_done s)) (S (length steps))) (mkR D t0 s0 [] false 0 0 None) steps).
Proof.
  intros Hmut Hr. destruct (inv_reach exec D steps s Hr) as (I1 & _). destruct (prefix_inv D steps s Hr) as (rest & E).
  rewrite (sync_stop_prefix steps (mkR D t0 s0 [] false 0 0 None) (length (a_done s)) (S (length steps)) Hmut eq_refl);
    [|left; reflexivity|lia].
  cbn [rs_d rs_mut]. rewrite Nat.sub_0_r, E, firstn_app, firstn_all, Nat.sub_diag. cbn [firstn]. rewrite app_nil_r.
  rewrite I1. apply run_all_exec_all.
Qed.

End AsyncCovered.
