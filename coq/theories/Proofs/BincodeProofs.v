(* Round trip and size lemmas of the message codec (Model/Bincode.v). *)
From RJ Require Import Base.Prelude Model.LEInt Model.Bincode Proofs.LEIntProofs.
Local Open Scope N_scope.

Ltac bsplit := repeat match goal with
  | H : andb _ _ = true |- _ => apply andb_true_iff in H; destruct H
  end.

(* ---------------------------------------------------------------- primitives *)
Lemma get_u32_enc v r : u32_ok v = true -> get_u32 (enc_u32 v ++ r) = Some (v, r).
Proof.
  intros H. unfold get_u32, enc_u32. rewrite take_nat_app by apply le_bytes_length.
  rewrite of_le_bytes_le_bytes; [reflexivity|]. unfold u32_ok in H. cbn [pow256]. lia.
Qed.

Lemma get_u64_enc v r : u64_ok v = true -> get_u64 (enc_u64 v ++ r) = Some (v, r).
Proof.
  intros H. unfold get_u64, enc_u64. rewrite take_nat_app by apply le_bytes_length.
  rewrite of_le_bytes_le_bytes; [reflexivity|]. unfold u64_ok in H. cbn [pow256]. lia.
Qed.

Lemma dec_bool_enc b r : dec_bool (enc_bool b ++ r) = Some (b, r).
Proof. destruct b; reflexivity. Qed.

Lemma dec_buf_enc s r : buf_ok s = true -> dec_buf (enc_buf s ++ r) = Some (s, r).
Proof.
  intros H. unfold dec_buf, enc_buf. rewrite <- app_assoc, get_u64_enc by exact H. apply take_N_app.
Qed.

Lemma dec_str_enc s r : str_ok s = true -> dec_str (enc_buf s ++ r) = Some (s, r).
Proof.
  unfold str_ok. intros H. bsplit. unfold dec_str. rewrite dec_buf_enc by assumption.
  rewrite H0. reflexivity.
Qed.

Lemma dec_option_enc {A} (e : A -> bytes) d (ok : A -> bool) :
  (forall a r, ok a = true -> d (e a ++ r) = Some (a, r)) ->
  forall o r, opt_ok ok o = true -> dec_option d (enc_option e o ++ r) = Some (o, r).
Proof.
  intros Hd [a|] r H; cbn [enc_option app dec_option opt_ok] in *; cbv zeta.
  - change (N_of_ascii (ascii_of_N 1)) with 1.
    change (1 =? 0) with false. change (1 =? 1) with true. cbv beta iota.
    rewrite Hd by exact H. reflexivity.
  - reflexivity.
Qed.

Lemma enc_seq_length {A} (e : A -> bytes) (ok : A -> bool) :
  (forall a, ok a = true -> e a <> []) ->
  forall xs, forallb ok xs = true -> (List.length xs <= List.length (enc_seq e xs))%nat.
Proof.
  intros Hne xs; induction xs as [|a xs IH]; intros H; cbn [enc_seq List.length forallb] in *; [lia|].
  bsplit. rewrite app_length. specialize (IH H0). pose proof (Hne a H) as Ha.
  destruct (e a); [congruence|]. cbn [List.length]. lia.
Qed.

Lemma dec_seq_enc {A} (e : A -> bytes) d (ok : A -> bool) :
  (forall a r, ok a = true -> d (e a ++ r) = Some (a, r)) ->
  forall xs fuel r, forallb ok xs = true -> (List.length xs <= fuel)%nat ->
  dec_seq d fuel (lenN xs) (enc_seq e xs ++ r) = Some (xs, r).
Proof.
  intros Hd xs; induction xs as [|a xs IH]; intros fuel r H Hf; cbn [enc_seq lenN forallb List.length app] in *.
  - destruct fuel; cbn [dec_seq]; rewrite N.eqb_refl; reflexivity.
  - bsplit. destruct fuel as [|f]; [lia|]. cbn [dec_seq].
    destruct (N.eqb_spec (N.succ (lenN xs)) 0) as [E|_]; [lia|].
    rewrite <- app_assoc, Hd by assumption. rewrite N.pred_succ, IH by (assumption || lia). reflexivity.
Qed.

Lemma dec_vec_enc {A} (e : A -> bytes) d (ok : A -> bool) :
  (forall a r, ok a = true -> d (e a ++ r) = Some (a, r)) ->
  (forall a, ok a = true -> e a <> []) ->
  forall xs r, u64_ok (lenN xs) = true -> forallb ok xs = true ->
  dec_vec d (enc_vec e xs ++ r) = Some (xs, r).
Proof.
  intros Hd Hne xs r Hl H. unfold dec_vec, enc_vec. rewrite <- app_assoc, get_u64_enc by exact Hl.
  apply (dec_seq_enc e d ok Hd); [exact H|]. rewrite app_length.
  pose proof (enc_seq_length e ok Hne xs H). lia.
Qed.

(* ---------------------------------------------------------------- char *)
Lemma take_N_zero l : take_N l 0 = Some ([], l).
Proof. destruct l; reflexivity. Qed.

Lemma utf8_width_1 n0 : (n0 <? 128) = true -> utf8_width n0 = 1.
Proof. unfold utf8_width. intros ->. reflexivity. Qed.
Lemma utf8_width_2 n0 : in_rng 194 223 n0 = true -> utf8_width n0 = 2.
Proof. unfold utf8_width, in_rng. intros H. destruct (n0 <? 128) eqn:E; [lia|]. rewrite H. reflexivity. Qed.
Lemma utf8_width_3 n0 : in_rng 224 239 n0 = true -> utf8_width n0 = 3.
Proof.
  unfold utf8_width, in_rng. intros H. destruct (n0 <? 128) eqn:E; [lia|].
  destruct ((194 <=? n0) && (n0 <=? 223)) eqn:E2; [lia|]. rewrite H. reflexivity.
Qed.
Lemma utf8_width_4 n0 : in_rng 240 244 n0 = true -> utf8_width n0 = 4.
Proof.
  unfold utf8_width, in_rng. intros H. destruct (n0 <? 128) eqn:E; [lia|].
  destruct ((194 <=? n0) && (n0 <=? 223)) eqn:E2; [lia|].
  destruct ((224 <=? n0) && (n0 <=? 239)) eqn:E3; [lia|]. rewrite H. reflexivity.
Qed.
Lemma utf8_ok4_lead n0 n1 n2 n3 : utf8_ok4 n0 n1 n2 n3 = true -> in_rng 240 244 n0 = true.
Proof. unfold utf8_ok4, in_rng, cont, in_rng. lia. Qed.
Lemma utf8_ok2_lead n0 n1 : utf8_ok2 n0 n1 = true -> in_rng 194 223 n0 = true.
Proof. unfold utf8_ok2. intros H. bsplit. assumption. Qed.

Lemma dec_char_enc c r : char_ok c = true -> dec_char (c ++ r) = Some (c, r).
Proof.
  intros H. destruct c as [|b0 [|b1 [|b2 [|b3 [|b4 t]]]]]; cbn [char_ok] in H; try discriminate;
    cbn [app dec_char]; cbv zeta.
  - rewrite (utf8_width_1 _ H). change (1 =? 0) with false. change (N.pred 1) with 0.
    cbv beta iota. rewrite take_N_zero. cbn [char_ok]. rewrite H. reflexivity.
  - rewrite (utf8_width_2 _ (utf8_ok2_lead _ _ H)). change (2 =? 0) with false. change (N.pred 2) with (lenN [b1]).
    cbv beta iota. pose proof (take_N_app [b1] r) as T; cbn [app] in T; rewrite T. cbn [char_ok]. rewrite H. reflexivity.
  - bsplit. rewrite (utf8_width_3 _ H). change (3 =? 0) with false. change (N.pred 3) with (lenN [b1; b2]).
    cbv beta iota. pose proof (take_N_app [b1; b2] r) as T; cbn [app] in T; rewrite T. cbn [char_ok]. rewrite H, H0. reflexivity.
  - rewrite (utf8_width_4 _ (utf8_ok4_lead _ _ _ _ H)). change (4 =? 0) with false. change (N.pred 4) with (lenN [b1; b2; b3]).
    cbv beta iota. pose proof (take_N_app [b1; b2; b3] r) as T; cbn [app] in T; rewrite T. cbn [char_ok]. rewrite H. reflexivity.
Qed.

(* ---------------------------------------------------------------- times *)
Lemma dec_dur_enc d r : dur_ok d = true -> dec_dur (enc_dur d ++ r) = Some (d, r).
Proof.
  unfold dur_ok, nanos_ok. intros H. bsplit. unfold dec_dur, enc_dur.
  rewrite <- app_assoc, get_u64_enc by assumption.
  rewrite get_u32_enc by (unfold u32_ok; lia).
  rewrite N.div_small, N.mod_small by lia. rewrite N.add_0_r, H. destruct d; reflexivity.
Qed.

Lemma dec_time_enc t r : time_ok t = true -> dec_time (enc_time t ++ r) = Some (t, r).
Proof.
  unfold time_ok, time_encodable. intros H. bsplit.
  change (enc_time t) with (enc_dur (mkDur (Z.to_N (t_sec t)) (t_nsec t))).
  unfold dec_time. rewrite dec_dur_enc.
  - cbn [d_sec d_nsec]. destruct (N.ltb_spec (Z.to_N (t_sec t)) 9223372036854775808) as [_|E]; [|lia].
    rewrite Z2N.id by lia. destruct t; reflexivity.
  - unfold dur_ok, u64_ok. cbn [d_sec d_nsec]. apply andb_true_iff; split; [lia|assumption].
Qed.

(* ---------------------------------------------------------------- composite values *)
Ltac rt_side := first [ reflexivity | assumption ].
Ltac rt_step :=
  rewrite <- ?app_assoc;
  first
  [ rewrite get_u32_enc by rt_side
  | rewrite get_u64_enc by rt_side
  | rewrite dec_bool_enc
  | rewrite dec_str_enc by rt_side
  | rewrite dec_buf_enc by rt_side
  | rewrite dec_time_enc by rt_side
  | rewrite dec_dur_enc by rt_side ];
  cbv beta iota.

Lemma dec_filter_kind_enc k r : dec_filter_kind (enc_filter_kind k ++ r) = Some (k, r).
Proof. destruct k; unfold dec_filter_kind, enc_filter_kind; rt_step; reflexivity. Qed.

Lemma enc_u32_ne v : enc_u32 v <> [].
Proof. unfold enc_u32. cbn [le_bytes]. discriminate. Qed.
Lemma enc_u64_ne v : enc_u64 v <> [].
Proof. unfold enc_u64. cbn [le_bytes]. discriminate. Qed.
Lemma enc_buf_ne s : enc_buf s <> [].
Proof. unfold enc_buf, enc_u64. cbn [le_bytes app]. discriminate. Qed.

Lemma dec_filters_enc f r : filters_ok f = true -> dec_filters (enc_filters f ++ r) = Some (f, r).
Proof.
  unfold filters_ok. intros H. bsplit. unfold dec_filters, enc_filters. rewrite <- app_assoc.
  rewrite (dec_vec_enc enc_buf dec_str str_ok) by (assumption || (intros; apply dec_str_enc; assumption) || (intros; apply enc_buf_ne)).
  rewrite (dec_vec_enc enc_filter_kind dec_filter_kind (fun _ => true)).
  - destruct f; reflexivity.
  - intros; apply dec_filter_kind_enc.
  - intros a _. destruct a; apply enc_u32_ne.
  - assumption.
  - apply forallb_forall. reflexivity.
Qed.

Lemma dec_phase_enc p r : phase_ok p = true -> dec_phase (enc_phase p ++ r) = Some (p, r).
Proof.
  destruct p; cbn [phase_ok enc_phase]; intros H; bsplit; unfold dec_phase; repeat rt_step; reflexivity.
Qed.

Lemma dec_marker_enc m r : marker_ok m = true -> dec_marker (enc_marker m ++ r) = Some (m, r).
Proof.
  unfold marker_ok. intros H. bsplit. unfold dec_marker, enc_marker. rt_step.
  rewrite dec_phase_enc by assumption. destruct m; reflexivity.
Qed.

Lemma dec_kind_enc k r : dec_kind (enc_kind k ++ r) = Some (k, r).
Proof. destruct k; unfold dec_kind, enc_kind; rt_step; reflexivity. Qed.

Lemma dec_target_enc t r : target_ok t = true -> dec_target (enc_target t ++ r) = Some (t, r).
Proof. destruct t; cbn [target_ok enc_target]; intros H; unfold dec_target; repeat rt_step; reflexivity. Qed.

Lemma dec_details_enc d r : details_ok d = true -> dec_details (enc_details d ++ r) = Some (d, r).
Proof.
  destruct d; cbn [details_ok enc_details]; intros H; bsplit; unfold dec_details; repeat rt_step; try reflexivity.
  rewrite <- ?app_assoc, dec_kind_enc. cbv beta iota. rewrite dec_target_enc by assumption. reflexivity.
Qed.

Theorem decode_encode_command c rest :
  wf_command c = true -> decode_command (enc_command c ++ rest) = Some (c, rest).
Proof.
  destruct c; cbn [wf_command enc_command]; intros H; bsplit; unfold decode_command; repeat rt_step; try reflexivity.
  - (* GetEntries *) rewrite dec_filters_enc by assumption. reflexivity.
  - (* CreateOrUpdateFile *)
    rewrite <- ?app_assoc. rewrite (dec_option_enc enc_time dec_time time_ok) by (assumption || (intros; apply dec_time_enc; assumption)).
    rt_step. reflexivity.
  - (* CreateSymlink *) rewrite <- ?app_assoc, dec_kind_enc. cbv beta iota. rewrite dec_target_enc by assumption. reflexivity.
  - (* DeleteSymlink *) rewrite <- (app_nil_r (enc_kind kind)) at 1. rewrite <- ?app_assoc. rewrite dec_kind_enc. reflexivity.
  - (* Marker *) rewrite dec_marker_enc by assumption. reflexivity.
Qed.

Lemma dec_prof_entry_enc e r : prof_entry_ok e = true -> dec_prof_entry (enc_prof_entry e ++ r) = Some (e, r).
Proof.
  unfold prof_entry_ok. intros H. bsplit. unfold dec_prof_entry, enc_prof_entry. repeat rt_step. destruct e; reflexivity.
Qed.

Lemma dec_prof_thread_enc t r : prof_thread_ok t = true -> dec_prof_thread (enc_prof_thread t ++ r) = Some (t, r).
Proof.
  unfold prof_thread_ok. intros H. bsplit. unfold dec_prof_thread, enc_prof_thread. rt_step.
  rewrite (dec_vec_enc enc_prof_entry dec_prof_entry prof_entry_ok); try assumption.
  - destruct t; reflexivity.
  - intros; apply dec_prof_entry_enc; assumption.
  - intros a _. unfold enc_prof_entry. intros E. apply app_eq_nil in E as [E _]. exact (enc_buf_ne _ E).
Qed.

Lemma dec_prof_enc p r : prof_ok p = true -> dec_prof (enc_prof p ++ r) = Some (p, r).
Proof.
  unfold prof_ok. intros H. bsplit. unfold dec_prof, enc_prof. rt_step.
  rewrite (dec_vec_enc enc_prof_thread dec_prof_thread prof_thread_ok); try assumption.
  - destruct p; reflexivity.
  - intros; apply dec_prof_thread_enc; assumption.
  - intros a _. unfold enc_prof_thread. intros E. apply app_eq_nil in E as [E _]. exact (enc_buf_ne _ E).
Qed.

Theorem decode_encode_response x rest :
  wf_response x = true -> decode_response (enc_response x ++ rest) = Some (x, rest).
Proof.
  destruct x; cbn [wf_response enc_response]; intros H; bsplit; unfold decode_response; repeat rt_step; try reflexivity.
  - (* RootDetails *)
    rewrite <- ?app_assoc. rewrite (dec_option_enc enc_details dec_details details_ok) by (assumption || (intros; apply dec_details_enc; assumption)).
    rt_step. rewrite dec_char_enc by assumption. reflexivity.
  - (* Entry *) rewrite dec_details_enc by assumption. reflexivity.
  - (* ProfilingData *) rewrite dec_prof_enc by assumption. reflexivity.
  - (* Marker *) rewrite dec_marker_enc by assumption. reflexivity.
Qed.

(* ---------------------------------------------------------------- sizes: |enc x| = size x, for every value *)
Lemma len_u32 v : lenN (enc_u32 v) = 4.
Proof. unfold enc_u32. rewrite lenN_le_bytes. reflexivity. Qed.
Lemma len_u64 v : lenN (enc_u64 v) = 8.
Proof. unfold enc_u64. rewrite lenN_le_bytes. reflexivity. Qed.
Lemma len_bool b : lenN (enc_bool b) = 1.
Proof. reflexivity. Qed.
Lemma len_buf s : lenN (enc_buf s) = size_buf s.
Proof. unfold enc_buf, size_buf. rewrite lenN_app, len_u64. reflexivity. Qed.
Lemma len_time t : lenN (enc_time t) = 12.
Proof. unfold enc_time. rewrite lenN_app, len_u64, len_u32. reflexivity. Qed.
Lemma len_dur d : lenN (enc_dur d) = 12.
Proof. unfold enc_dur. rewrite lenN_app, len_u64, len_u32. reflexivity. Qed.
Lemma len_option {A} (e : A -> bytes) sz o : (forall a, lenN (e a) = sz a) -> lenN (enc_option e o) = size_option sz o.
Proof. intros H. destruct o; cbn [enc_option size_option lenN]; [rewrite H; lia | reflexivity]. Qed.
Lemma len_seq {A} (e : A -> bytes) sz l : (forall a, lenN (e a) = sz a) -> lenN (enc_seq e l) = sumN (map sz l).
Proof. intros H. induction l as [|a l IH]; cbn [enc_seq map sumN]; [reflexivity|]. rewrite lenN_app, H, IH. reflexivity. Qed.
Lemma len_vec {A} (e : A -> bytes) sz l : (forall a, lenN (e a) = sz a) -> lenN (enc_vec e l) = size_vec sz l.
Proof. intros H. unfold enc_vec, size_vec. rewrite lenN_app, len_u64, (len_seq e sz l H). reflexivity. Qed.
Lemma len_kind k : lenN (enc_kind k) = 4.
Proof. apply len_u32. Qed.
Lemma len_filter_kind k : lenN (enc_filter_kind k) = 4.
Proof. apply len_u32. Qed.

Ltac len_simpl := rewrite ?lenN_app, ?len_u32, ?len_u64, ?len_bool, ?len_buf, ?len_time, ?len_dur, ?len_kind.

Lemma len_filters f : lenN (enc_filters f) = size_filters f.
Proof.
  unfold enc_filters, size_filters. rewrite lenN_app.
  rewrite (len_vec enc_buf size_buf) by apply len_buf.
  rewrite (len_vec enc_filter_kind (fun _ => 4)) by apply len_filter_kind. reflexivity.
Qed.
Lemma len_phase p : lenN (enc_phase p) = size_phase p.
Proof. destruct p; cbn [enc_phase size_phase]; len_simpl; lia. Qed.
Lemma len_marker m : lenN (enc_marker m) = size_marker m.
Proof. unfold enc_marker, size_marker. len_simpl. rewrite len_phase. reflexivity. Qed.
Lemma len_target t : lenN (enc_target t) = size_target t.
Proof. destruct t; cbn [enc_target size_target]; len_simpl; lia. Qed.
Lemma len_details d : lenN (enc_details d) = size_details d.
Proof. destruct d; cbn [enc_details size_details]; len_simpl; rewrite ?len_target; lia. Qed.

Theorem len_enc_command c : lenN (enc_command c) = size_command c.
Proof.
  destruct c; cbn [enc_command size_command]; len_simpl; rewrite ?len_target, ?len_marker, ?len_filters; try lia.
  rewrite (len_option enc_time (fun _ => 12)) by apply len_time. lia.
Qed.

Lemma len_prof_entry e : lenN (enc_prof_entry e) = size_prof_entry e.
Proof. unfold enc_prof_entry, size_prof_entry. len_simpl. lia. Qed.
Lemma len_prof_thread t : lenN (enc_prof_thread t) = size_prof_thread t.
Proof.
  unfold enc_prof_thread, size_prof_thread. len_simpl.
  rewrite (len_vec enc_prof_entry size_prof_entry) by apply len_prof_entry. reflexivity.
Qed.
Lemma len_prof p : lenN (enc_prof p) = size_prof p.
Proof.
  unfold enc_prof, size_prof. len_simpl.
  rewrite (len_vec enc_prof_thread size_prof_thread) by apply len_prof_thread. reflexivity.
Qed.

Theorem len_enc_response x : lenN (enc_response x) = size_response x.
Proof.
  destruct x; cbn [enc_response size_response]; len_simpl; rewrite ?len_details, ?len_marker, ?len_prof; try lia.
  rewrite (len_option enc_details size_details) by apply len_details. lia.
Qed.

(* ---------------------------------------------------------------- the entry points *)
Lemma wf_command_encodable c : wf_command c = true -> command_encodable c = true.
Proof.
  destruct c; cbn [wf_command command_encodable]; try reflexivity. intros H. bsplit.
  destruct set_modified_time as [t|]; cbn [opt_ok] in *; [|reflexivity]. unfold time_ok in *. bsplit. assumption.
Qed.

Lemma details_ok_encodable d : details_ok d = true -> details_encodable d = true.
Proof. destruct d; cbn [details_ok details_encodable]; try reflexivity. intros H. unfold time_ok in H. bsplit. assumption. Qed.

Lemma wf_response_encodable x : wf_response x = true -> response_encodable x = true.
Proof.
  destruct x; cbn [wf_response response_encodable]; try reflexivity; intros H; bsplit.
  - destruct root_details; cbn [opt_ok] in *; [apply details_ok_encodable; assumption | reflexivity].
  - apply details_ok_encodable; assumption.
Qed.

Theorem codec_command c rest : wf_command c = true ->
  exists b, encode_command c = Ok b /\ decode_command (b ++ rest) = Some (c, rest) /\
            serialized_size_command c = Ok (lenN b) /\ send_size_command c = Ok (lenN b).
Proof.
  intros H. exists (enc_command c). unfold send_size_command, encode_command, serialized_size_command.
  rewrite (wf_command_encodable c H), len_enc_command. cbn [expect_size].
  repeat split. apply decode_encode_command; exact H.
Qed.

Theorem codec_response x rest : wf_response x = true ->
  exists b, encode_response x = Ok b /\ decode_response (b ++ rest) = Some (x, rest) /\
            serialized_size_response x = Ok (lenN b) /\ send_size_response x = Ok (lenN b).
Proof.
  intros H. exists (enc_response x). unfold send_size_response, encode_response, serialized_size_response.
  rewrite (wf_response_encodable x H), len_enc_response. cbn [expect_size].
  repeat split. apply decode_encode_response; exact H.
Qed.

(* whatever serializes has exactly the announced size (no well-formedness needed) *)
Theorem size_is_length_command c b : encode_command c = Ok b -> serialized_size_command c = Ok (lenN b).
Proof.
  unfold encode_command, serialized_size_command. destruct (command_encodable c); [|discriminate].
  intros E. inversion E; subst. rewrite len_enc_command. reflexivity.
Qed.
Theorem size_is_length_response x b : encode_response x = Ok b -> serialized_size_response x = Ok (lenN b).
Proof.
  unfold encode_response, serialized_size_response. destruct (response_encodable x); [|discriminate].
  intros E. inversion E; subst. rewrite len_enc_response. reflexivity.
Qed.

(* encoding is injective on well-formed messages: different messages never share a wire form *)
Theorem encode_command_injective c1 c2 :
  wf_command c1 = true -> wf_command c2 = true -> enc_command c1 = enc_command c2 -> c1 = c2.
Proof.
  intros H1 H2 E. pose proof (decode_encode_command c1 [] H1) as D1. pose proof (decode_encode_command c2 [] H2) as D2.
  rewrite E in D1. rewrite D1 in D2. congruence.
Qed.
Theorem encode_response_injective x1 x2 :
  wf_response x1 = true -> wf_response x2 = true -> enc_response x1 = enc_response x2 -> x1 = x2.
Proof.
  intros H1 H2 E. pose proof (decode_encode_response x1 [] H1) as D1. pose proof (decode_encode_response x2 [] H2) as D2.
  rewrite E in D1. rewrite D1 in D2. congruence.
Qed.

(* C18-relevant: the size computation of the channel send never panics on a well-formed message ... *)
Theorem send_size_total_command c : wf_command c = true -> is_panic (send_size_command c) = false.
Proof. intros H. destruct (codec_command c [] H) as (b & _ & _ & _ & E). rewrite E. reflexivity. Qed.
Theorem send_size_total_response x : wf_response x = true -> is_panic (send_size_response x) = false.
Proof. intros H. destruct (codec_response x [] H) as (b & _ & _ & _ & E). rewrite E. reflexivity. Qed.

(* ... and does panic for a file dated before 1970 (defect F8 of property C18): a 1960 mtime. *)
Definition t1960 : time := mkTime (-315619200) 0.
Lemma size_panics_before_epoch :
  is_panic (send_size_command (CCreateOrUpdateFile [] [] (Some t1960) false)) = true /\
  is_panic (send_size_response (REntry [] (EDFile t1960 0))) = true /\
  is_panic (send_size_response (RRootDetails (Some (EDFile t1960 0)) false [ascii_of_N 47])) = true.
Proof. vm_compute. repeat split. Qed.
(* exactly the messages carrying a time before the epoch are affected *)
Theorem send_size_panics_iff_command c : is_panic (send_size_command c) = negb (command_encodable c).
Proof. unfold send_size_command, serialized_size_command. destruct (command_encodable c); reflexivity. Qed.
Theorem send_size_panics_iff_response x : is_panic (send_size_response x) = negb (response_encodable x).
Proof. unfold send_size_response, serialized_size_response. destruct (response_encodable x); reflexivity. Qed.
