(* The F6b repair in the model: a deletion that failed is remembered, and every later command for that path
   or anything inside it is refused without any effect - so whatever is still there (a symlink, say) is
   neither written to nor through by the commands the boss had already queued behind the deletion. *)
From RJ Require Import Base.Prelude Model.Core Model.Fs Model.Sync Proofs.FsProofs Proofs.PathLemmas.

Lemma is_prefix_trans a : forall b c, is_prefix a b = true -> is_prefix b c = true -> is_prefix a c = true.
Proof.
  induction a as [|x a IH]; intros b c H1 H2; [reflexivity|].
  destruct b as [|y b]; [discriminate|]. destruct c as [|z c]; [discriminate|].
  cbn [is_prefix] in *. destruct (str_eq_dec x y) as [->|]; [|discriminate].
  destruct (str_eq_dec y z) as [->|]; [|discriminate]. eapply IH; eauto.
Qed.
Lemma is_prefix_refl a : is_prefix a a = true.
Proof. induction a as [|x a IH]; [reflexivity|]. cbn [is_prefix]. destruct (str_eq_dec x x); [exact IH|congruence]. Qed.

Definition path_cmd (c : cmd) : option path :=
  match c with
  | CCreateOrUpdateFile p _ _ _ | CCreateSymlink p _ _ | CCreateFolder p | CDeleteFile p | CDeleteFolder p | CDeleteSymlink p _ => Some p
  | _ => None
  end.
Definition is_del (c : cmd) : bool := match c with CDeleteFile _ | CDeleteFolder _ | CDeleteSymlink _ _ => true | _ => false end.

(* a blocked command has no effect at all: not on the tree, not through a link, not on the event log *)
Theorem blocked_refused fl st c p : path_cmd c = Some p -> blocked_at st p = true -> doer_exec fl st c = (st, Some ERefused).
Proof. intros Hp Hb. destruct c; try discriminate Hp; inversion Hp; subst; cbn [doer_exec]; rewrite Hb; reflexivity. Qed.

(* blocking is inherited downwards and never lifted *)
Lemma blocked_below st p q : blocked_at st p = true -> is_prefix p q = true -> blocked_at st q = true.
Proof.
  unfold blocked_at. intros H Hpq. apply existsb_exists in H as (x & Hx & Hxp). apply existsb_exists.
  exists x. split; [exact Hx|]. eapply is_prefix_trans; eauto.
Qed.

Lemma faildel_grows fl st c x : In x (x_faildel (d_x st)) -> In x (x_faildel (d_x (fst (doer_exec fl st c)))).
Proof.
  intros Hin. destruct (doer_exec fl st c) as [st' e] eqn:H. cbn [fst].
  destruct c; cbn [doer_exec] in H; unfold open_for_write, write_chunk, stamp_file in H;
    repeat (break_match_hyp H; try discriminate); inv_pair H; cbn -[N.add]; auto.
Qed.
Lemma blocked_stays fl st c p : blocked_at st p = true -> blocked_at (fst (doer_exec fl st c)) p = true.
Proof.
  unfold blocked_at. intros H. apply existsb_exists in H as (x & Hx & Hxp). apply existsb_exists.
  exists x. split; [apply faildel_grows; exact Hx|exact Hxp].
Qed.

(* a deletion that is answered with an error blocks its path and everything inside it from then on *)
Theorem failed_delete_blocks fl st c p e q :
  is_del c = true -> path_cmd c = Some p -> snd (doer_exec fl st c) = Some e ->
  is_prefix p q = true -> blocked_at (fst (doer_exec fl st c)) q = true.
Proof.
  intros Hd Hp He Hpq.
  assert (Hnote : forall st0, blocked_at (note_faildel st0 p) q = true).
  { intros st0. unfold blocked_at, note_faildel. cbn. rewrite Hpq. reflexivity. }
  destruct c; try discriminate Hd; inversion Hp; subst; cbn [doer_exec] in *;
    (destruct (blocked_at st p) eqn:Hb; [cbn [fst]; eapply blocked_below; eauto|]);
    repeat match goal with
           | |- context [match ?x with _ => _ end] => destruct x eqn:?; cbn [fst snd] in *; try discriminate
           end; try apply Hnote.
Qed.

(* the same for a failure injected by the fault plan (the harness hook records it the same way) *)
Lemma injected_delete_blocks st c p q : is_del c = true -> path_cmd c = Some p -> is_prefix p q = true ->
  blocked_at (inj_state st c) q = true.
Proof.
  intros Hd Hp Hpq. destruct c; try discriminate Hd; inversion Hp; subst; unfold inj_state, blocked_at, note_faildel; cbn; rewrite Hpq; reflexivity.
Qed.
