(* C18 obligations against the facts regenerated from the running code
   (Gen/Facts_progress.v: the constants of boss_progress.rs; Gen/Facts_exits.v: every exit status
   literal of src/**/*.rs with its file and line). *)
From RJ Require Import Base.Prelude Model.Progress Gen.Facts_progress Gen.Facts_exits.
Local Open Scope N_scope.

Lemma progress_constants_match_code :
  min_file_size = impl_min_file_size /\ delete_work = impl_delete_work /\ marker_threshold = impl_marker_threshold.
Proof. repeat split; reflexivity. Qed.

(* the statuses the property names: 0, 2 (usage errors, produced inside clap), 10, 11, 12, 18, 19 *)
Definition documented_exits : list N := [0; 2; 10; 11; 12; 18; 19].
(* the statuses of a process started in doer mode (`--doer`): an internal protocol with the boss
   that the documentation does not list; 321 does not fit the 8 bits the OS keeps *)
Definition doer_internal_exits : list N := [20; 22; 23; 24; 25; 321].
Definition os_status (c : N) : N := c mod 256.

Definition memN (x : N) (l : list N) : bool := existsb (N.eqb x) l.
Lemma memN_In x l : memN x l = true <-> In x l.
Proof.
  unfold memN. rewrite existsb_exists. split.
  - intros (y & Hin & E). apply N.eqb_eq in E. now subst.
  - intros Hin. exists x. split; [assumption | apply N.eqb_refl].
Qed.

Lemma forallb_memN l allowed : forallb (fun c => memN c allowed) l = true -> forall c, In c l -> In c allowed.
Proof. intros H c Hin. apply memN_In. exact (proj1 (forallb_forall _ _) H c Hin). Qed.

(* every site has an integer literal, and every literal outside doer.rs is a documented status *)
Theorem boss_exits_documented :
  impl_exit_nonliteral = 0 /\ forall c, In c impl_exit_codes_boss -> In c documented_exits.
Proof. split; [reflexivity|]. apply forallb_memN. vm_compute. reflexivity. Qed.

(* every literal of doer.rs is a documented status or one of the six doer-internal ones *)
Theorem doer_exits_classified :
  forall c, In c impl_exit_codes_doer -> In c documented_exits \/ In c doer_internal_exits.
Proof.
  intros c Hin. apply in_app_or. revert c Hin. apply forallb_memN. vm_compute. reflexivity.
Qed.

(* the doer-internal statuses are NOT documented (the finding F10), and what the OS reports for them *)
Theorem doer_internal_undocumented : forall c, In c doer_internal_exits -> ~ In c documented_exits.
Proof.
  intros c Hin Hdoc.
  assert (H : forallb (fun c => negb (memN c documented_exits)) doer_internal_exits = true) by (vm_compute; reflexivity).
  pose proof (proj1 (forallb_forall _ _) H c Hin) as E. cbv beta in E.
  apply memN_In in Hdoc. rewrite Hdoc in E. discriminate.
Qed.

Theorem doer_internal_os_status : map os_status doer_internal_exits = [20; 22; 23; 24; 25; 65].
Proof. vm_compute. reflexivity. Qed.

Theorem exits_outside_known : forall c, In c (impl_exit_codes_boss ++ impl_exit_codes_doer) ->
  ~ In c doer_internal_exits -> In c documented_exits.
Proof.
  intros c Hin Hn. apply in_app_or in Hin as [Hb|Hd].
  - exact (proj2 boss_exits_documented c Hb).
  - destruct (doer_exits_classified c Hd); [assumption|contradiction].
Qed.
