(* Invariants of the byte-accounted channel (Model/Channel.v), for every interleaving. *)
From RJ Require Import Base.Prelude Model.LEInt Model.Channel Proofs.LEIntProofs.
Local Open Scope N_scope.

Section WithM.
Context {M : Type}.
Implicit Types (s : chan M) (q : list (M * N)).

Lemma qbytes_app q1 q2 : qbytes (q1 ++ q2) = qbytes q1 + qbytes q2.
Proof. unfold qbytes. rewrite map_app, sumN_app. reflexivity. Qed.

Lemma qbytes_cons (m : M) sz q : qbytes ((m, sz) :: q) = sz + qbytes q.
Proof. reflexivity. Qed.

Lemma qbytes_nil_iff q : qbytes q = 0 -> (forall x, In x q -> snd x = 0).
Proof.
  induction q as [|[m z] q IH]; intros H x Hin; [destruct Hin|].
  rewrite qbytes_cons in H. destruct Hin as [<-|Hin]; [cbn [snd]; lia | apply IH; [lia | exact Hin]].
Qed.

(* The invariant.  [others] is what a sender inside send() sees as "already queued". *)
Definition Inv (cap : N) s : Prop :=
  c_usage s = qbytes (c_queue s) + s_inflight (c_spc s) + r_inflight (c_rpc s) /\
  c_handed s = c_delivered s ++ in_transit s /\
  c_spc s <> SUnderflow /\ c_rpc s <> RUnderflow /\
  (forall m sz, c_spc s = SPush m sz -> others s <= c_cap s) /\
  others s <= c_cap s + c_maxsz s /\
  s_inflight (c_spc s) <= c_maxsz s /\
  c_cap s = cap.

Ltac fields :=
  unfold others, in_transit in *;
  cbn [c_cap c_usage c_queue c_spc c_rpc c_handed c_delivered c_maxsz others in_transit
       s_inflight r_inflight s_msg r_msg chan_init] in *.

Lemma inv_init cap : Inv cap (chan_init cap).
Proof.
  unfold Inv. fields. cbn [qbytes map sumN app]. repeat split; try discriminate; try lia.
Qed.

Ltac lst :=
  rewrite ?app_nil_r, ?map_app, <- ?app_assoc; cbn [map fst app];
  rewrite ?app_nil_r, <- ?app_assoc; reflexivity.
Ltac fin Hp :=
  unfold Inv; fields; repeat split; try discriminate; try assumption; try lia;
  try (let E := fresh "E" in intros ? ? E; try discriminate; try (specialize (Hp _ _ E)); lia);
  try lst.

Lemma inv_step cap s s' : Inv cap s -> step s s' -> Inv cap s'.
Proof.
  intros (Hu & Hh & Hs & Hr & Hp & Hb & Hm & Hc) [o Hst].
  destruct s as [cp u q sp rp h d mx]. fields. subst cp.
  destruct o as [m sz| | | | |]; cbn [chan_step] in Hst; fields.
  - (* fetch_add *)
    destruct sp; try discriminate. inversion Hst; subst; clear Hst. fields.
    destruct (N.ltb_spec cap (qbytes q + 0 + r_inflight rp)) as [Hlt|Hle]; fin Hp.
  - (* load in the wait loop *)
    destruct sp as [|m sz|m sz|]; try discriminate. inversion Hst; subst; clear Hst. fields.
    destruct (N.ltb_spec (qbytes q + sz + r_inflight rp) sz) as [Hlt|Hge]; [lia|].
    destruct (N.ltb_spec cap (qbytes q + sz + r_inflight rp - sz)) as [Hlt|Hle]; fin Hp.
  - (* push *)
    destruct sp as [|m sz|m sz|]; try discriminate. inversion Hst; subst; clear Hst. fields.
    specialize (Hp m sz eq_refl). unfold Inv. fields. rewrite qbytes_app, qbytes_cons. cbn [qbytes map sumN].
    fin Hp.
  - (* pop *)
    destruct rp as [|m sz|]; try discriminate. destruct q as [|[m sz] t]; try discriminate.
    inversion Hst; subst; clear Hst. fields. rewrite qbytes_cons in *. fin Hp.
  - (* try_recv on an empty queue *)
    destruct rp; try discriminate. destruct q; try discriminate. inversion Hst; subst; clear Hst.
    fin Hp.
  - (* fetch_sub *)
    destruct rp as [|m sz|]; try discriminate. fields.
    subst u. assert (E : (qbytes q + s_inflight sp + sz <? sz) = false) by (apply N.ltb_ge; lia).
    rewrite E in Hst. inversion Hst; subst; clear Hst. fin Hp.
Qed.

Theorem reach_inv cap s : reach cap s -> Inv cap s.
Proof. induction 1 as [|s s' _ IH Hst]; [apply inv_init | eapply inv_step; eassumption]. Qed.

(* ---------------------------------------------------------------- the theorems *)

(* exactly once, in order, the same messages: what was handed to send() is what recv() returned,
   followed by what is still in transit (popped, queued, being sent - in this order) *)
Theorem fifo cap s : reach cap s -> c_handed s = c_delivered s ++ in_transit s.
Proof. intros H. apply (reach_inv cap s H). Qed.

Theorem fifo_prefix cap s : reach cap s -> exists rest, c_handed s = c_delivered s ++ rest.
Proof. intros H. exists (in_transit s). apply (fifo cap s H). Qed.

Theorem fifo_quiescent cap s : reach cap s -> quiescent s -> c_delivered s = c_handed s.
Proof.
  intros H (Hq & Hs & Hr). rewrite (fifo cap s H). unfold in_transit. rewrite Hq, Hs, Hr.
  cbn [r_msg s_msg map app]. rewrite app_nil_r. reflexivity.
Qed.

Theorem account cap s : reach cap s ->
  c_usage s = qbytes (c_queue s) + s_inflight (c_spc s) + r_inflight (c_rpc s).
Proof. intros H. apply (reach_inv cap s H). Qed.

Theorem drained_zero cap s : reach cap s -> quiescent s -> c_usage s = 0.
Proof.
  intros H (Hq & Hs & Hr). rewrite (account cap s H), Hq, Hs, Hr. reflexivity.
Qed.

Theorem no_underflow cap s : reach cap s -> c_spc s <> SUnderflow /\ c_rpc s <> RUnderflow.
Proof. intros H. destruct (reach_inv cap s H) as (_ & _ & Hs & Hr & _). split; assumption. Qed.

(* the operands of the two subtractions of the code, at the moment they are executed *)
Theorem wait_loop_sub_ok cap s m sz : reach cap s -> c_spc s = SWaiting m sz -> sz <= c_usage s.
Proof. intros H E. rewrite (account cap s H), E. cbn [s_inflight]. lia. Qed.
Theorem fetch_sub_ok cap s m sz : reach cap s -> c_rpc s = RPopped m sz -> sz <= c_usage s.
Proof. intros H E. rewrite (account cap s H), E. cbn [r_inflight]. lia. Qed.

Theorem cap_constant cap s : reach cap s -> c_cap s = cap.
Proof. intros H. apply (reach_inv cap s H). Qed.

(* the counter never exceeds the live bytes: it stays below 2^64 whenever those do *)
Theorem no_overflow cap s : reach cap s ->
  qbytes (c_queue s) + s_inflight (c_spc s) + r_inflight (c_rpc s) < 18446744073709551616 ->
  c_usage s < 18446744073709551616.
Proof. intros H B. rewrite (account cap s H). exact B. Qed.

(* admission at the entry of send(): the sender waits iff more than the capacity is already queued *)
Theorem admission_entry cap s m sz s' : reach cap s -> chan_step s (OFetchAdd m sz) = Some s' ->
  c_usage s = others s /\
  (cap < others s -> c_spc s' = SWaiting m sz) /\
  (others s <= cap -> c_spc s' = SPush m sz).
Proof.
  intros H Hst. pose proof (account cap s H) as Hu. pose proof (cap_constant cap s H) as Hc.
  cbn [chan_step] in Hst. destruct (c_spc s) eqn:Es; try discriminate. inversion Hst; subst; clear Hst.
  cbn [c_spc s_inflight] in *. unfold others. try rewrite Es in Hu. cbn [s_inflight] in Hu.
  split; [lia|]. split; intros Hlt.
  - destruct (N.ltb_spec (c_cap s) (c_usage s)); [reflexivity | lia].
  - destruct (N.ltb_spec (c_cap s) (c_usage s)); [lia | reflexivity].
Qed.

(* admission inside the wait loop: one iteration keeps waiting iff more than the capacity is still queued *)
Theorem admission_loop cap s m sz s' : reach cap s -> c_spc s = SWaiting m sz ->
  chan_step s OLoad = Some s' ->
  c_usage s - sz = others s /\
  (cap < others s -> c_spc s' = SWaiting m sz) /\
  (others s <= cap -> c_spc s' = SPush m sz).
Proof.
  intros H Es Hst. pose proof (account cap s H) as Hu. pose proof (cap_constant cap s H) as Hc.
  cbn [chan_step] in Hst. rewrite Es in Hst. inversion Hst; subst; clear Hst.
  cbn [c_spc] in *. unfold others. try rewrite Es in Hu. cbn [s_inflight] in Hu.
  destruct (N.ltb_spec (c_usage s) sz) as [Hlt|Hge]; [lia|].
  split; [lia|]. split; intros Hlt.
  - destruct (N.ltb_spec (c_cap s) (c_usage s - sz)); [reflexivity | lia].
  - destruct (N.ltb_spec (c_cap s) (c_usage s - sz)); [lia | reflexivity].
Qed.

(* a message is admitted at once when nothing else is in the channel - whatever its size and
   whatever the capacity (0 included) *)
Theorem oversize cap s m sz s' : reach cap s -> c_queue s = [] -> c_rpc s = RIdle ->
  chan_step s (OFetchAdd m sz) = Some s' -> c_spc s' = SPush m sz.
Proof.
  intros H Hq Hr Hst. destruct (admission_entry cap s m sz s' H Hst) as (_ & _ & Hadm).
  apply Hadm. unfold others. rewrite Hq, Hr. cbn [qbytes map sumN r_inflight]. lia.
Qed.

(* once admitted, the push is never held back *)
Theorem admitted_pushes s m sz : c_spc s = SPush m sz -> exists s', chan_step s OPush = Some s'.
Proof. intros E. cbn [chan_step]. rewrite E. eexists; reflexivity. Qed.

(* progress: a sender that an iteration of the wait loop would keep waiting always has a receiver
   step in front of it (pop or fetch_sub is enabled) ... *)
Theorem progress cap s m sz : reach cap s -> c_spc s = SWaiting m sz -> cap < others s ->
  (exists s', chan_step s OPop = Some s') \/ (exists s', chan_step s OFetchSub = Some s').
Proof.
  intros H Es Hlt. pose proof (no_underflow cap s H) as [_ Hr]. unfold others in Hlt.
  destruct (c_rpc s) as [|m' sz'|] eqn:Er; [|right|congruence].
  - left. cbn [r_inflight] in Hlt. destruct (c_queue s) as [|[m' sz'] t] eqn:Eq.
    + cbn [qbytes map sumN] in Hlt. lia.
    + cbn [chan_step]. rewrite Er, Eq. eexists; reflexivity.
  - cbn [chan_step]. rewrite Er. destruct (c_usage s <? sz'); eexists; reflexivity.
Qed.

(* ... every receiver step consumes a finite measure that no step of the waiting sender replenishes ... *)
Theorem recv_step_decreases cap s o s' : reach cap s -> is_recv_op o = true -> chan_step s o = Some s' ->
  (rmeasure s' < rmeasure s)%nat.
Proof.
  intros H Ho Hst. destruct o; try discriminate; cbn [chan_step] in Hst.
  - destruct (c_rpc s) eqn:Er; try discriminate. destruct (c_queue s) as [|[m sz] t] eqn:Eq; try discriminate.
    inversion Hst; subst; clear Hst. unfold rmeasure. cbn [c_queue c_rpc]. rewrite Er, Eq. cbn [List.length]. lia.
  - destruct (c_rpc s) as [|m sz|] eqn:Er; try discriminate.
    pose proof (fetch_sub_ok cap s m sz H Er) as Hge.
    destruct (N.ltb_spec (c_usage s) sz) as [Hlt|_]; [lia|].
    inversion Hst; subst; clear Hst. unfold rmeasure. cbn [c_queue c_rpc]. rewrite Er. lia.
Qed.
Theorem waiting_sender_keeps_measure s m sz s' : c_spc s = SWaiting m sz -> chan_step s OLoad = Some s' ->
  rmeasure s' = rmeasure s.
Proof.
  intros Es Hst. cbn [chan_step] in Hst. rewrite Es in Hst. inversion Hst; subst. reflexivity.
Qed.
(* ... and when it is used up nothing else is queued, so the next iteration of the loop admits the sender *)
Theorem measure_zero_admits cap s m sz s' : reach cap s -> c_spc s = SWaiting m sz -> rmeasure s = 0%nat ->
  chan_step s OLoad = Some s' -> c_spc s' = SPush m sz.
Proof.
  intros H Es Hz Hst. destruct (admission_loop cap s m sz s' H Es Hst) as (_ & _ & Hadm). apply Hadm.
  unfold rmeasure in Hz. unfold others.
  destruct (c_queue s); [|cbn [List.length] in Hz; lia].
  destruct (c_rpc s); cbn [qbytes map sumN r_inflight]; try lia.
Qed.

(* the system as a whole is never stuck: the sender can always take its next step, and so can the
   receiver unless the queue is empty (where recv() legitimately blocks) *)
Theorem sender_never_stuck cap s : reach cap s ->
  match c_spc s with
  | SIdle => forall m sz, exists s', chan_step s (OFetchAdd m sz) = Some s'
  | SWaiting _ _ => exists s', chan_step s OLoad = Some s'
  | SPush _ _ => exists s', chan_step s OPush = Some s'
  | SUnderflow => False
  end.
Proof.
  intros H. pose proof (no_underflow cap s H) as [Hs _].
  destruct (c_spc s) eqn:Es; [intros m sz | | | congruence]; cbn [chan_step]; rewrite Es; eexists; reflexivity.
Qed.

(* bounded buffering: the bytes buffered for the receiver never exceed the capacity by more than
   one message (the largest handed in so far), and the counter by more than two *)
Theorem bounded cap s : reach cap s ->
  others s <= cap + c_maxsz s /\ c_usage s <= cap + 2 * c_maxsz s.
Proof.
  intros H. destruct (reach_inv cap s H) as (Hu & _ & _ & _ & _ & Hb & Hm & Hc).
  rewrite Hc in Hb. split; [exact Hb|]. unfold others in Hb. lia.
Qed.

(* the executable step function and the rule-by-rule relation are the same relation *)
Theorem step_astep s s' : step s s' <-> astep s s'.
Proof.
  split.
  - intros [o Hst]. destruct o as [m sz| | | | |]; cbn [chan_step] in Hst.
    + destruct (c_spc s) eqn:Es; try discriminate. inversion Hst; subst; clear Hst.
      destruct (N.ltb_spec (c_cap s) (c_usage s)).
      * apply a_fetch_add_wait; assumption.
      * apply a_fetch_add_admit; assumption.
    + destruct (c_spc s) as [|m sz|m sz|] eqn:Es; try discriminate. inversion Hst; subst; clear Hst.
      destruct (N.ltb_spec (c_usage s) sz).
      * apply (a_load_underflow s m sz); assumption.
      * destruct (N.ltb_spec (c_cap s) (c_usage s - sz)).
        -- apply (a_load_spin s m sz); assumption.
        -- apply (a_load_pass s m sz); assumption.
    + destruct (c_spc s) as [|m sz|m sz|] eqn:Es; try discriminate. inversion Hst; subst; clear Hst.
      apply (a_push s m sz); assumption.
    + destruct (c_rpc s) eqn:Er; try discriminate. destruct (c_queue s) as [|[m sz] t] eqn:Eq; try discriminate.
      inversion Hst; subst; clear Hst. apply (a_pop s m sz t); assumption.
    + destruct (c_rpc s) eqn:Er; try discriminate. destruct (c_queue s) eqn:Eq; try discriminate.
      inversion Hst; subst; clear Hst. apply a_try_empty; assumption.
    + destruct (c_rpc s) as [|m sz|] eqn:Er; try discriminate.
      destruct (N.ltb_spec (c_usage s) sz); inversion Hst; subst; clear Hst.
      * apply (a_fetch_sub_underflow s m sz); assumption.
      * apply (a_fetch_sub s m sz); assumption.
  - intros H. destruct H as [m sz Es Hc|m sz Es Hc|m sz Es Hu Hc|m sz Es Hu Hc|m sz Es Hu|m sz Es|m sz t Er Eq|Er Eq|m sz Er Hu|m sz Er Hu].
    + exists (OFetchAdd m sz). cbn [chan_step]. rewrite Es. destruct (N.ltb_spec (c_cap s) (c_usage s)); [lia | reflexivity].
    + exists (OFetchAdd m sz). cbn [chan_step]. rewrite Es. destruct (N.ltb_spec (c_cap s) (c_usage s)); [reflexivity | lia].
    + exists OLoad. cbn [chan_step]. rewrite Es. destruct (N.ltb_spec (c_usage s) sz); [lia|].
      destruct (N.ltb_spec (c_cap s) (c_usage s - sz)); [reflexivity | lia].
    + exists OLoad. cbn [chan_step]. rewrite Es. destruct (N.ltb_spec (c_usage s) sz); [lia|].
      destruct (N.ltb_spec (c_cap s) (c_usage s - sz)); [lia | reflexivity].
    + exists OLoad. cbn [chan_step]. rewrite Es. destruct (N.ltb_spec (c_usage s) sz); [reflexivity | lia].
    + exists OPush. cbn [chan_step]. rewrite Es. reflexivity.
    + exists OPop. cbn [chan_step]. rewrite Er, Eq. reflexivity.
    + exists OTryEmpty. cbn [chan_step]. rewrite Er, Eq. reflexivity.
    + exists OFetchSub. cbn [chan_step]. rewrite Er. destruct (N.ltb_spec (c_usage s) sz); [lia | reflexivity].
    + exists OFetchSub. cbn [chan_step]. rewrite Er. destruct (N.ltb_spec (c_usage s) sz); [reflexivity | lia].
Qed.

(* the executable run function only visits reachable states *)
Theorem chan_run_reach cap os : forall s, reach cap s -> reach cap (fst (chan_run s os)).
Proof.
  induction os as [|o os IH]; intros s H; cbn [chan_run]; [exact H|].
  destruct (chan_step s o) as [s1|] eqn:E.
  - assert (H1 : reach cap s1) by (eapply reach_step; [exact H | exists o; exact E]).
    specialize (IH s1 H1). destruct (chan_run s1 os) as [s2 l]. exact IH.
  - specialize (IH s H). destruct (chan_run s os) as [s2 l]. exact IH.
Qed.

End WithM.
