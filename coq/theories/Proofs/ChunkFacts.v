(* C11 obligations against the facts regenerated from the running code (Gen/Facts_chunks.v). *)
From RJ Require Import Base.Prelude Model.Chunk Proofs.ChunkProofs Gen.Facts_chunks.
Local Open Scope N_scope.

Lemma constants_match_code : first_buf = impl_first_chunk /\ max_chunk = impl_max_chunk.
Proof. split; reflexivity. Qed.

(* The real reader was run on a 20 MiB file; the model cuts every 20 MiB file into chunks of exactly
   the sizes that were observed. *)
Lemma ladder_matches_code : forall file : list ascii, lenN file = 20971520 ->
  exists cs, read_chunks file [] = Some cs /\ sizes cs = impl_ladder.
Proof.
  intros file Hlen. apply (read_chunks_sizes file [] 64%nat).
  - rewrite Hlen. vm_compute. reflexivity.
  - rewrite lenN_spec in Hlen. lia.
Qed.

(* The largest chunk plus the message overhead, the AEAD tag (16) and the length prefix (8) fits the
   frame buffer of encrypted_comms.rs, in both directions, for every path of up to 4096 bytes; and
   the running code confirmed both (the probe delivered a FileContent of impl_frame_payload_max bytes
   and a CreateOrUpdateFile with a maximal chunk and a 4096-byte path). *)
Lemma frame_fits :
  impl_max_chunk + impl_overhead_file_content + 16 + 8 <= impl_frame_buf /\
  (forall path_len, path_len <= 4096 ->
     impl_max_chunk + impl_overhead_create_file + path_len + 16 + 8 <= impl_frame_buf) /\
  max_chunk <= impl_frame_payload_max /\
  impl_create_file_fits = true.
Proof.
  repeat split.
  - vm_compute. discriminate.
  - intros p Hp. unfold impl_max_chunk, impl_overhead_create_file, impl_frame_buf. lia.
  - vm_compute. discriminate.
Qed.

(* F3 on the model of the code before the fix: a file listed at 4096 bytes that has 8192 bytes when
   it is read (chunks 4096 + 4096) is relayed with result Ok and the destination keeps 4096 bytes. *)
Lemma relay_unfixed_refuted :
  exists listed mt cs, flags_ok cs /\ total cs <> listed /\
    snd (relay_unfixed listed mt cs) = Ok tt /\
    write_cmds (WClosed None) (fst (relay_unfixed listed mt cs))
      = WOpen (mkFile (repeat "a"%char 4096) None).
Proof.
  exists 4096, 1600000000%Z, [(repeat "a"%char 4096, true); (repeat "a"%char 4096, false)].
  split; [cbn; auto|]. split; [vm_compute; discriminate|]. split; vm_compute; reflexivity.
Qed.
