(* Proofs about the chunked file transfer model (C11). *)
From RJ Require Import Base.Prelude Model.Chunk.
Local Open Scope N_scope.

(* ---------------------------------------------------------------------------------------------- *)
(* lenN, split_at *)

Lemma lenN_acc_spec {A} (l : list A) (acc : N) : lenN_acc l acc = acc + N.of_nat (List.length l).
Proof.
  revert acc; induction l as [|x l IH]; intros acc; cbn [lenN_acc List.length].
  - lia.
  - rewrite IH. lia.
Qed.

Lemma lenN_spec {A} (l : list A) : lenN l = N.of_nat (List.length l).
Proof. unfold lenN. rewrite lenN_acc_spec. lia. Qed.

Lemma lenN_nil {A} : lenN (@nil A) = 0.
Proof. reflexivity. Qed.

Lemma lenN_cons {A} (x : A) l : lenN (x :: l) = 1 + lenN l.
Proof. rewrite !lenN_spec. cbn [List.length]. lia. Qed.

Lemma lenN_app {A} (a b : list A) : lenN (a ++ b) = lenN a + lenN b.
Proof. rewrite !lenN_spec, app_length. lia. Qed.

Lemma lenN_zero {A} (l : list A) : lenN l = 0 <-> l = [].
Proof.
  rewrite lenN_spec. destruct l as [|x l]; cbn [List.length]; split; intros H;
    try reflexivity; try discriminate; lia.
Qed.

Lemma split_at_spec {A} (l : list A) : forall n,
  split_at n l = (firstn (N.to_nat n) l, skipn (N.to_nat n) l).
Proof.
  induction l as [|x l IH]; intros n.
  - cbn [split_at]. now rewrite firstn_nil, skipn_nil.
  - cbn [split_at]. destruct (N.eqb_spec n 0) as [E|E].
    + subst n. reflexivity.
    + rewrite IH. replace (N.to_nat n) with (S (N.to_nat (N.pred n))) by lia. reflexivity.
Qed.

(* what the reader needs from one split *)
Lemma split_at_props {A} (l : list A) (n : N) a b :
  split_at n l = (a, b) -> 1 <= n <= lenN l ->
  a ++ b = l /\ lenN a = n /\ (List.length b < List.length l)%nat /\ a <> [].
Proof.
  intros Hs Hn. rewrite split_at_spec in Hs. inversion Hs; subst a b; clear Hs.
  rewrite lenN_spec in Hn.
  assert (Hl : List.length (firstn (N.to_nat n) l) = N.to_nat n)
    by (apply firstn_length_le; lia).
  repeat split.
  - apply firstn_skipn.
  - rewrite lenN_spec, Hl. lia.
  - rewrite skipn_length. lia.
  - intros E. rewrite E in Hl. cbn [List.length] in Hl. lia.
Qed.

(* ---------------------------------------------------------------------------------------------- *)
(* read(2) *)

Lemma read_len_zero buf avail ch : 1 <= buf -> (read_len buf avail ch = 0 <-> avail = 0).
Proof.
  intros Hb. unfold read_len. destruct (N.eqb_spec avail 0) as [E|E].
  - tauto.
  - destruct ch as [r|]; split; intros H; lia.
Qed.

Lemma read_len_bounds buf avail ch : 1 <= buf -> avail <> 0 ->
  1 <= read_len buf avail ch <= N.min buf avail.
Proof.
  intros Hb Ha. unfold read_len. destruct (N.eqb_spec avail 0) as [E|E]; [contradiction|].
  destruct ch as [r|]; lia.
Qed.

(* ---------------------------------------------------------------------------------------------- *)
(* shape of a chunk sequence: more_to_follow is true, ..., true, false *)

Fixpoint flags_ok (cs : list chunk) : Prop :=
  match cs with
  | [] => False
  | c :: tl => match tl with
               | [] => snd c = false
               | _ :: _ => snd c = true /\ flags_ok tl
               end
  end.

Lemma flags_ok_nonnil cs : flags_ok cs -> cs <> [].
Proof. destruct cs; cbn [flags_ok]; [tauto | discriminate]. Qed.

Lemma flags_ok_cons c tl : tl <> [] -> (flags_ok (c :: tl) <-> snd c = true /\ flags_ok tl).
Proof. destruct tl as [|d tl]; [congruence|]. intros _. cbn [flags_ok]. tauto. Qed.

Lemma flags_ok_map cs : flags_ok cs ->
  map snd cs = repeat true (List.length cs - 1) ++ [false].
Proof.
  induction cs as [|c tl IH]; cbn [flags_ok]; [tauto|].
  destruct tl as [|d tl].
  - intros H. cbn. now rewrite H.
  - intros [H1 H2]. specialize (IH H2).
    change (map snd (c :: d :: tl)) with (snd c :: map snd (d :: tl)). rewrite IH, H1.
    cbn [List.length]. replace (S (S (List.length tl)) - 1)%nat with (S (S (List.length tl) - 1)) by lia.
    reflexivity.
Qed.

Definition total (cs : list chunk) : N := lenN (concat (map fst cs)).

Lemma total_cons c tl : total (c :: tl) = lenN (fst c) + total tl.
Proof. unfold total. cbn [map concat]. apply lenN_app. Qed.

(* ---------------------------------------------------------------------------------------------- *)
(* reader *)

Definition chunk_small (c : chunk) : Prop := lenN (fst c) <= max_chunk.
Definition chunk_nonempty (c : chunk) : Prop := fst c <> [].

Lemma read_loop_spec : forall fuel cs buf prev rest sched,
  (List.length rest < fuel)%nat -> 1 <= buf <= max_chunk -> 1 <= cs -> lenN prev <= max_chunk ->
  exists out, read_loop fuel cs buf prev rest sched = Some out /\
    concat (map fst out) = prev ++ rest /\
    flags_ok out /\
    Forall chunk_small out /\
    (prev ++ rest <> [] -> Forall chunk_nonempty out) /\
    (prev ++ rest = [] -> out = [([], false)]) /\
    (rest = [] -> out = [(prev, false)]) /\
    (rest <> [] -> prev <> [] -> (2 <= List.length out)%nat).
Proof.
  induction fuel as [|fuel IH]; intros cs buf prev rest sched Hfuel Hbuf Hcs Hprev; [lia|].
  cbn [read_loop].
  set (choice := match sched with [] => None | r :: _ => Some r end).
  set (sched' := match sched with [] => [] | _ :: s => s end).
  set (n := read_len buf (lenN rest) choice).
  destruct (N.eqb_spec n 0) as [En|En].
  - (* end of file *)
    apply read_len_zero in En; [|lia]. apply lenN_zero in En. subst rest.
    exists [(prev, false)]. rewrite app_nil_r. cbn [map concat fst flags_ok snd].
    rewrite app_nil_r. repeat split.
    + constructor; [exact Hprev | constructor].
    + intros Hne. constructor; [exact Hne | constructor].
    + intros ->. reflexivity.
    + congruence.
  - assert (Hrest : lenN rest <> 0).
    { intros E. apply En. apply read_len_zero; [lia | exact E]. }
    pose proof (read_len_bounds buf (lenN rest) choice ltac:(lia) Hrest) as Hn. fold n in Hn.
    destruct (split_at n rest) as [data rest'] eqn:Hs.
    destruct (split_at_props rest n data rest' Hs ltac:(lia)) as (Happ & Hlen & Hshort & Hne).
    assert (Hnext : exists cs2 buf2,
              (if n <? buf then read_loop fuel cs short_buf data rest' sched'
               else read_loop fuel (N.min (cs * 2) max_chunk) (N.min (cs * 2) max_chunk) data rest' sched')
              = read_loop fuel cs2 buf2 data rest' sched' /\ 1 <= buf2 <= max_chunk /\ 1 <= cs2).
    { destruct (n <? buf).
      - exists cs, short_buf. unfold short_buf, max_chunk. repeat split; lia.
      - exists (N.min (cs * 2) max_chunk), (N.min (cs * 2) max_chunk). unfold max_chunk. repeat split; lia. }
    destruct Hnext as (cs2 & buf2 & -> & Hbuf2 & Hcs2).
    destruct (IH cs2 buf2 data rest' sched' ltac:(lia) Hbuf2 Hcs2 ltac:(lia))
      as (out & Hout & Hcat & Hfl & Hsm & Hnonempty & _ & _ & _).
    assert (Hrn : rest <> []) by (intros ->; apply Hrest; reflexivity).
    rewrite Hout.
    assert (Hdr : data ++ rest' <> []) by (destruct data; [congruence | discriminate]).
    specialize (Hnonempty Hdr).
    destruct prev as [|p prev]; cbn [is_nil].
    + exists out. cbn [app]. rewrite Hcat, Happ. repeat split; auto; try congruence.
    + exists ((p :: prev, true) :: out). cbn [app]. repeat split.
      * cbn [map concat fst]. rewrite Hcat, Happ. reflexivity.
      * apply flags_ok_cons; [now apply flags_ok_nonnil | split; [reflexivity | exact Hfl]].
      * constructor; [exact Hprev | exact Hsm].
      * intros _. constructor; [discriminate | exact Hnonempty].
      * discriminate.
      * congruence.
      * intros _ _. apply flags_ok_nonnil in Hfl. destruct out; [congruence | cbn [List.length]; lia].
Qed.

(* ---------------------------------------------------------------------------------------------- *)
(* statement used by C11_chunks *)

Definition chunks_spec (file : bytes) (cs : list chunk) : Prop :=
  concat (map fst cs) = file /\
  map snd cs = repeat true (List.length cs - 1) ++ [false] /\
  Forall chunk_small cs /\
  (file <> [] -> Forall chunk_nonempty cs) /\
  (file = [] -> cs = [([], false)]).

Lemma read_chunks_spec file sched :
  exists cs, read_chunks file sched = Some cs /\ flags_ok cs /\ chunks_spec file cs.
Proof.
  unfold read_chunks, chunks_spec.
  destruct (read_loop_spec (S (List.length file)) first_buf first_buf [] file sched)
    as (out & Hout & Hcat & Hfl & Hsm & Hne & Hnil & _ & _).
  - lia.
  - unfold first_buf, max_chunk. lia.
  - unfold first_buf. lia.
  - rewrite lenN_nil. unfold max_chunk. lia.
  - exists out. cbn [app] in *. repeat split; auto. now apply flags_ok_map.
Qed.

Lemma C11_chunks_proof : forall (file : list ascii) (sched : list N),
  exists cs, read_chunks file sched = Some cs /\
    concat (map fst cs) = file /\
    map snd cs = repeat true (List.length cs - 1) ++ [false] /\
    Forall (fun c => lenN (fst c) <= 4194304) cs /\
    (file <> [] -> Forall (fun c => fst c <> []) cs) /\
    (file = [] -> cs = [([], false)]).
Proof.
  intros file sched. destruct (read_chunks_spec file sched) as (cs & H & _ & Hs).
  exists cs. split; [exact H | exact Hs].
Qed.

(* ---------------------------------------------------------------------------------------------- *)
(* how many chunks: exactly one iff the file is empty or the first read returned all of it *)

Lemma read_chunks_one_chunk file sched cs :
  read_chunks file sched = Some cs ->
  (List.length cs = 1%nat <->
   file = [] \/ read_len first_buf (lenN file) (hd_error sched) = lenN file).
Proof.
  unfold read_chunks. cbn [read_loop].
  replace (match sched with [] => None | r :: _ => Some r end) with (hd_error sched)
    by (destruct sched; reflexivity).
  set (sched' := match sched with [] => [] | _ :: s => s end).
  set (n := read_len first_buf (lenN file) (hd_error sched)).
  destruct (N.eqb_spec n 0) as [En|En].
  - intros H. inversion H; subst cs; clear H.
    apply read_len_zero in En; [|unfold first_buf; lia]. apply lenN_zero in En.
    split; [intros _; left; exact En | reflexivity].
  - assert (Hf : lenN file <> 0).
    { intros E. apply En. apply read_len_zero; [unfold first_buf; lia | exact E]. }
    pose proof (read_len_bounds first_buf (lenN file) (hd_error sched) ltac:(unfold first_buf; lia) Hf) as Hn.
    fold n in Hn.
    destruct (split_at n file) as [data rest'] eqn:Hs.
    destruct (split_at_props file n data rest' Hs ltac:(lia)) as (Happ & Hlen & Hshort & Hne).
    assert (Hnext : exists cs2 buf2,
              (if n <? first_buf then read_loop (List.length file) first_buf short_buf data rest' sched'
               else read_loop (List.length file) (N.min (first_buf * 2) max_chunk) (N.min (first_buf * 2) max_chunk) data rest' sched')
              = read_loop (List.length file) cs2 buf2 data rest' sched' /\ 1 <= buf2 <= max_chunk /\ 1 <= cs2).
    { destruct (n <? first_buf).
      - exists first_buf, short_buf. unfold first_buf, short_buf, max_chunk. repeat split; lia.
      - exists (N.min (first_buf * 2) max_chunk), (N.min (first_buf * 2) max_chunk).
        unfold first_buf, max_chunk. repeat split; lia. }
    destruct Hnext as (cs2 & buf2 & -> & Hbuf2 & Hcs2).
    destruct (read_loop_spec (List.length file) cs2 buf2 data rest' sched' Hshort Hbuf2 Hcs2
                ltac:(unfold first_buf in *; unfold max_chunk; lia))
      as (out & Hout & _ & _ & _ & _ & _ & Hone & Hmany).
    rewrite Hout. cbn [is_nil app]. intros H. inversion H; subst cs; clear H.
    assert (Hfile : file <> []) by (intros ->; apply Hf; reflexivity).
    destruct rest' as [|x rest'].
    + rewrite (Hone eq_refl). rewrite app_nil_r in Happ.
      split; [intros _; right; rewrite <- Happ; symmetry; exact Hlen | reflexivity].
    + specialize (Hmany ltac:(discriminate) Hne). split.
      * intros E. lia.
      * intros [E|E]; [contradiction|]. exfalso.
        rewrite <- Happ, lenN_app, lenN_cons, Hlen in E. lia.
Qed.

Lemma read_chunks_one_chunk_full file cs :
  read_chunks file [] = Some cs -> (List.length cs = 1%nat <-> lenN file <= 4096).
Proof.
  intros H. rewrite (read_chunks_one_chunk file [] cs H). cbn [hd_error].
  unfold read_len, first_buf. destruct (N.eqb_spec (lenN file) 0) as [E|E].
  - apply lenN_zero in E. subst file. split; [intros _; unfold lenN; cbn [lenN_acc]; lia | auto].
  - split.
    + intros [->|H1]; [unfold lenN; cbn [lenN_acc]; lia | lia].
    + intros H1. right. lia.
Qed.

Lemma read_chunks_one_chunk_both (file : list ascii) (sched : list N) cs :
  read_chunks file sched = Some cs ->
  (List.length cs = 1%nat <-> file = [] \/ read_len 4096 (lenN file) (hd_error sched) = lenN file) /\
  (sched = [] -> (List.length cs = 1%nat <-> lenN file <= 4096)).
Proof.
  intros H. split.
  - exact (read_chunks_one_chunk file sched cs H).
  - intros ->. exact (read_chunks_one_chunk_full file cs H).
Qed.

(* ---------------------------------------------------------------------------------------------- *)
(* writer *)

Definition written (st : wstate) : bytes :=
  match st with WOpen f => d_content f | WClosed _ => [] end.

Lemma write_all_chunks mt cs : forall st, flags_ok cs ->
  write_cmds st (map (cmd_of mt) cs) = WClosed (Some (mkFile (written st ++ concat (map fst cs)) (Some mt))).
Proof.
  induction cs as [|c tl IH]; intros st Hf; [destruct Hf|].
  destruct tl as [|d tl].
  - cbn [flags_ok] in Hf. cbn [map write_cmds fold_left concat]. rewrite app_nil_r.
    unfold write_cmd, cmd_of. cbn [c_more c_mtime c_data]. rewrite Hf.
    destruct st; reflexivity.
  - apply flags_ok_cons in Hf; [|discriminate]. destruct Hf as [Hc Hf].
    change (map (cmd_of mt) (c :: d :: tl)) with (cmd_of mt c :: map (cmd_of mt) (d :: tl)).
    unfold write_cmds in *. cbn [fold_left]. rewrite (IH _ Hf).
    change (map fst (c :: d :: tl)) with (fst c :: map fst (d :: tl)). cbn [concat].
    unfold write_cmd, cmd_of. cbn [c_more c_mtime c_data]. rewrite Hc. cbn [written d_content].
    destruct st; cbn [written]; rewrite ?app_assoc; reflexivity.
Qed.

Lemma write_transfer mt cs prev : flags_ok cs ->
  write_cmds (WClosed prev) (map (cmd_of mt) cs) = WClosed (Some (mkFile (concat (map fst cs)) (Some mt))).
Proof. intros Hf. rewrite (write_all_chunks mt cs _ Hf). reflexivity. Qed.

Lemma flags_ok_prefix_true pre : forall post, flags_ok (pre ++ post) -> post <> [] ->
  Forall (fun c : chunk => snd c = true) pre.
Proof.
  induction pre as [|c pre IH]; intros post Hf Hp; [constructor|].
  cbn [app] in Hf. apply flags_ok_cons in Hf.
  - destruct Hf as [Hc Hf]. constructor; [exact Hc | exact (IH post Hf Hp)].
  - destruct pre; [exact Hp | discriminate].
Qed.

Lemma write_open_prefix mt pre : forall st, Forall (fun c : chunk => snd c = true) pre -> pre <> [] ->
  write_cmds st (map (cmd_of mt) pre) = WOpen (mkFile (written st ++ concat (map fst pre)) None).
Proof.
  induction pre as [|c pre IH]; intros st Ht Hne; [congruence|].
  inversion Ht as [|c' pre' Hc Ht']; subst c' pre'.
  unfold write_cmds in *. cbn [map fold_left concat].
  assert (Hstep : write_cmd st (cmd_of mt c) = WOpen (mkFile (written st ++ fst c) None)).
  { unfold write_cmd, cmd_of. cbn [c_more c_mtime c_data]. rewrite Hc. destruct st; reflexivity. }
  rewrite Hstep. destruct pre as [|d pre].
  - cbn [map fold_left concat]. rewrite app_nil_r. reflexivity.
  - rewrite (IH _ Ht' ltac:(discriminate)). cbn [written d_content]. rewrite app_assoc. reflexivity.
Qed.

Lemma write_prefix_unstamped mt cs prev pre post :
  flags_ok cs -> cs = pre ++ post -> pre <> [] -> post <> [] ->
  write_cmds (WClosed prev) (map (cmd_of mt) pre) = WOpen (mkFile (concat (map fst pre)) None).
Proof.
  intros Hf -> Hpre Hpost.
  rewrite (write_open_prefix mt pre _ (flags_ok_prefix_true pre post Hf Hpost) Hpre). reflexivity.
Qed.

(* ---------------------------------------------------------------------------------------------- *)
(* relay *)

Lemma relay_from_ok fx listed mt cs : forall off, flags_ok cs -> off + total cs = listed ->
  relay_from fx listed mt off cs = (map (cmd_of mt) cs, Ok tt).
Proof.
  induction cs as [|c tl IH]; intros off Hf Ht; [destruct Hf|].
  rewrite total_cons in Ht. cbn [relay_from].
  destruct (N.ltb_spec listed (off + lenN (fst c))) as [Hlt|Hge]; [lia|].
  destruct tl as [|d tl].
  - cbn [flags_ok] in Hf. rewrite Hf. unfold total in Ht. cbn [map concat] in Ht. rewrite lenN_nil in Ht.
    destruct (N.eqb_spec (off + lenN (fst c)) listed) as [E|E]; [reflexivity | lia].
  - apply flags_ok_cons in Hf; [|discriminate]. destruct Hf as [Hc Hf]. rewrite Hc.
    rewrite (IH (off + lenN (fst c)) Hf ltac:(lia)). reflexivity.
Qed.

Lemma relay_from_detects listed mt cs : forall off, flags_ok cs -> off + total cs <> listed ->
  snd (relay_from true listed mt off cs) = Err e_size_changed.
Proof.
  induction cs as [|c tl IH]; intros off Hf Ht; [destruct Hf|].
  rewrite total_cons in Ht. cbn [relay_from].
  destruct (N.ltb_spec listed (off + lenN (fst c))) as [Hlt|Hge]; [reflexivity|].
  destruct tl as [|d tl].
  - cbn [flags_ok] in Hf. rewrite Hf. unfold total in Ht. cbn [map concat] in Ht. rewrite lenN_nil in Ht.
    destruct (N.eqb_spec (off + lenN (fst c)) listed) as [E|E]; [lia | reflexivity].
  - apply flags_ok_cons in Hf; [|discriminate]. destruct Hf as [Hc Hf]. rewrite Hc.
    specialize (IH (off + lenN (fst c)) Hf ltac:(lia)).
    destruct (relay_from true listed mt (off + lenN (fst c)) (d :: tl)) as [cmds r]. exact IH.
Qed.

Lemma relay_from_ok_inv listed mt cs : forall off cmds,
  relay_from true listed mt off cs = (cmds, Ok tt) ->
  exists pre post, cs = pre ++ post /\ flags_ok pre /\ off + total pre = listed /\ cmds = map (cmd_of mt) pre.
Proof.
  induction cs as [|c tl IH]; intros off cmds H; cbn [relay_from] in H; [discriminate|].
  destruct (N.ltb_spec listed (off + lenN (fst c))) as [Hlt|Hge]; [discriminate|].
  destruct (snd c) eqn:Hc.
  - destruct (relay_from true listed mt (off + lenN (fst c)) tl) as [cmds' r] eqn:Hr.
    inversion H; subst cmds r; clear H.
    destruct (IH _ _ Hr) as (pre & post & -> & Hf & Ht & ->).
    exists (c :: pre), post. repeat split.
    + apply flags_ok_cons; [now apply flags_ok_nonnil | split; assumption].
    + rewrite total_cons. lia.
  - destruct (N.eqb_spec (off + lenN (fst c)) listed) as [E|E]; [|discriminate].
    inversion H; subst cmds; clear H.
    exists [c], tl. repeat split.
    + exact Hc.
    + rewrite total_cons. unfold total. cbn [map concat]. rewrite lenN_nil. lia.
Qed.

(* ---------------------------------------------------------------------------------------------- *)
(* reader, relay and writer together *)

Lemma transfer_same_size file sched prev mt :
  transfer (lenN file) mt file sched prev = Some (WClosed (Some (mkFile file (Some mt))), Ok tt).
Proof.
  unfold transfer. destruct (read_chunks_spec file sched) as (cs & -> & Hf & Hcat & _).
  unfold relay. rewrite (relay_from_ok true (lenN file) mt cs 0 Hf).
  - rewrite (write_transfer mt cs prev Hf), Hcat. reflexivity.
  - unfold total. rewrite Hcat. lia.
Qed.

Lemma transfer_size_changed listed file sched prev mt : listed <> lenN file ->
  exists st, transfer listed mt file sched prev = Some (st, Err e_size_changed).
Proof.
  intros Hne. unfold transfer. destruct (read_chunks_spec file sched) as (cs & -> & Hf & Hcat & _).
  pose proof (relay_from_detects listed mt cs 0 Hf) as Hd. unfold relay.
  destruct (relay_from true listed mt 0 cs) as [cmds r]. cbn [snd] in Hd.
  rewrite Hd; [eexists; reflexivity|]. unfold total. rewrite Hcat. lia.
Qed.

(* ---------------------------------------------------------------------------------------------- *)
(* the sizes-only loop computes the chunk sizes of the reader (used for the ladder fact) *)

Definition sizes (cs : list chunk) : list N := map (fun c => lenN (fst c)) cs.

Lemma read_len_le_avail buf avail ch : read_len buf avail ch <> 0 ->
  1 <= read_len buf avail ch <= avail.
Proof.
  unfold read_len. destruct (N.eqb_spec avail 0) as [E|E]; [congruence|].
  destruct ch as [r|]; lia.
Qed.

Lemma size_loop_of_read_loop : forall fuel cs buf prev rest sched out,
  read_loop fuel cs buf prev rest sched = Some out ->
  size_loop fuel cs buf (lenN prev) (lenN rest) sched = Some (sizes out).
Proof.
  induction fuel as [|fuel IH]; intros cs buf prev rest sched out H; cbn [read_loop] in H; [discriminate|].
  cbn [size_loop].
  set (choice := match sched with [] => None | r :: _ => Some r end) in *.
  set (sched' := match sched with [] => [] | _ :: s => s end) in *.
  set (n := read_len buf (lenN rest) choice) in *.
  destruct (N.eqb_spec n 0) as [En|En].
  - inversion H; subst out. reflexivity.
  - pose proof (read_len_le_avail buf (lenN rest) choice En) as Hn. fold n in Hn.
    destruct (split_at n rest) as [data rest'] eqn:Hs.
    destruct (split_at_props rest n data rest' Hs Hn) as (Happ & Hlen & _ & _).
    assert (Hrest' : lenN rest' = lenN rest - n).
    { rewrite <- Happ, lenN_app, Hlen. lia. }
    rewrite <- Hrest', <- Hlen.
    assert (Hemit : (if lenN prev =? 0 then [] else [lenN prev]) = sizes (if is_nil prev then [] else [(prev, true)])).
    { destruct prev as [|p prev]; [reflexivity|]. cbn [is_nil]. rewrite lenN_cons.
      destruct (N.eqb_spec (1 + lenN prev) 0) as [E|E]; [lia|]. unfold sizes. cbn [map fst]. now rewrite lenN_cons. }
    rewrite Hemit. rewrite Hlen. destruct (n <? buf).
    + destruct (read_loop fuel cs short_buf data rest' sched') as [out'|] eqn:Hr; [|discriminate].
      inversion H; subst out. rewrite <- Hlen. rewrite (IH _ _ _ _ _ _ Hr). unfold sizes. now rewrite map_app.
    + destruct (read_loop fuel (N.min (cs * 2) max_chunk) (N.min (cs * 2) max_chunk) data rest' sched') as [out'|] eqn:Hr; [|discriminate].
      inversion H; subst out. rewrite <- Hlen. rewrite (IH _ _ _ _ _ _ Hr). unfold sizes. now rewrite map_app.
Qed.

Lemma size_loop_mono : forall fuel cs buf prev rest sched out,
  size_loop fuel cs buf prev rest sched = Some out ->
  forall fuel', (fuel <= fuel')%nat -> size_loop fuel' cs buf prev rest sched = Some out.
Proof.
  induction fuel as [|fuel IH]; intros cs buf prev rest sched out H fuel' Hle; cbn [size_loop] in H; [discriminate|].
  destruct fuel' as [|fuel']; [lia|]. cbn [size_loop].
  destruct (read_len buf rest match sched with [] => None | r :: _ => Some r end =? 0); [exact H|].
  destruct (read_len buf rest match sched with [] => None | r :: _ => Some r end <? buf).
  - destruct (size_loop fuel cs short_buf _ _ _) as [o|] eqn:Hr; [|discriminate].
    rewrite (IH _ _ _ _ _ _ Hr fuel' ltac:(lia)). exact H.
  - destruct (size_loop fuel (N.min (cs * 2) max_chunk) _ _ _ _) as [o|] eqn:Hr; [|discriminate].
    rewrite (IH _ _ _ _ _ _ Hr fuel' ltac:(lia)). exact H.
Qed.

(* If the sizes-only loop, run with some small fuel, gives [l] for the length of [file], the reader
   cuts [file] into chunks of exactly these sizes. *)
Lemma read_chunks_sizes file sched fuel l :
  size_loop fuel first_buf first_buf 0 (lenN file) sched = Some l ->
  (fuel <= S (List.length file))%nat ->
  exists cs, read_chunks file sched = Some cs /\ sizes cs = l.
Proof.
  intros Hs Hle. destruct (read_chunks_spec file sched) as (cs & Hr & _ & _).
  exists cs. split; [exact Hr|].
  unfold read_chunks in Hr. apply size_loop_of_read_loop in Hr.
  change (lenN (@nil ascii)) with 0 in Hr.
  rewrite (size_loop_mono _ _ _ _ _ _ _ Hs _ Hle) in Hr. now inversion Hr.
Qed.
