(* Proofs about the chunked file transfer model (C11). *)
From RJ Require Import Base.Prelude Model.Chunk.
Local Open Scope N_scope.

(* ---------------------------------------------------------------------------------------------- *)
(* lenN, split_at *)

Lemma lenN_acc_spec {A} (l : list A) (acc : N) : lenN_acc l acc = acc + N.of_nat (List.length l).
Proof.
  revert acc; induction l as [|x l IH]; intros acc; cbn [lenN_acc List.length].
  - lia.
  - rewrite IH. lia.
Qed.

Lemma lenN_spec {A} (l : list A) : lenN l = N.of_nat (List.length l).
Proof. unfold lenN. rewrite lenN_acc_spec. lia. Qed.

Lemma lenN_nil {A} : lenN (@nil A) = 0.
Proof. reflexivity. Qed.

Lemma lenN_cons {A} (x : A) l : lenN (x :: l) = 1 + lenN l.
Proof. rewrite !lenN_spec. cbn [List.length]. lia. Qed.

Lemma lenN_app {A} (a b : list A) : lenN (a ++ b) = lenN a + lenN b.
Proof. rewrite !lenN_spec, app_length. lia. Qed.

Lemma lenN_zero {A} (l : list A) : lenN l = 0 <-> l = [].
Proof.
  rewrite lenN_spec. destruct l as [|x l]; cbn [List.length]; split; intros H;
    try reflexivity; try discriminate; lia.
Qed.

Lemma split_at_spec {A} (l : list A) : forall n,
  split_at n l = (firstn (N.to_nat n) l, skipn (N.to_nat n) l).
Proof.
  induction l as [|x l IH]; intros n.
  - cbn [split_at]. now rewrite firstn_nil, skipn_nil.
  - cbn [split_at]. destruct (N.eqb_spec n 0) as [E|E].
    + subst n. reflexivity.
    + rewrite IH. replace (N.to_nat n) with (S (N.to_nat (N.pred n))) by lia. reflexivity.
Qed.

(* what the reader needs from one split *)
Lemma split_at_props {A} (l : list A) (n : N) a b :
  split_at n l = (a, b) -> 1 <= n <= lenN l ->
  a ++ b = l /\ lenN a = n /\ (List.length b < List.length l)%nat /\ a <> [].
Proof.
  intros Hs Hn. rewrite split_at_spec in Hs. inversion Hs; subst a b; clear Hs.
  rewrite lenN_spec in Hn.
  assert (Hl : List.length (firstn (N.to_nat n) l) = N.to_nat n)
    by (apply firstn_length_le; lia).
  repeat split.
  - apply firstn_skipn.
  - rewrite lenN_spec, Hl. lia.
  - rewrite skipn_length. lia.
  - intros E. rewrite E in Hl. cbn [List.length] in Hl. lia.
Qed.

(* ---------------------------------------------------------------------------------------------- *)
(* read(2) *)

Lemma read_len_zero buf avail ch : 1 <= buf -> (read_len buf avail ch = 0 <-> avail = 0).
Proof.
  intros Hb. unfold read_len. destruct (N.eqb_spec avail 0) as [E|E].
  - tauto.
  - destruct ch as [r|]; split; intros H; lia.
Qed.

Lemma read_len_bounds buf avail ch : 1 <= buf -> avail <> 0 ->
  1 <= read_len buf avail ch <= N.min buf avail.
Proof.
  intros Hb Ha. unfold read_len. destruct (N.eqb_spec avail 0) as [E|E]; [contradiction|].
  destruct ch as [r|]; lia.
Qed.

(* ---------------------------------------------------------------------------------------------- *)
(* shape of a chunk sequence: more_to_follow is true, ..., true, false *)

Fixpoint flags_ok (cs : list chunk) : Prop :=
  match cs with
  | [] => False
  | c :: tl => match tl with
               | [] => snd c = false
               | _ :: _ => snd c = true /\ flags_ok tl
               end
  end.

Lemma flags_ok_nonnil cs : flags_ok cs -> cs <> [].
Proof. destruct cs; cbn [flags_ok]; [tauto | discriminate]. Qed.

Lemma flags_ok_cons c tl : tl <> [] -> (flags_ok (c :: tl) <-> snd c = true /\ flags_ok tl).
Proof. destruct tl as [|d tl]; [congruence|]. intros _. cbn [flags_ok]. tauto. Qed.

Lemma flags_ok_map cs : flags_ok cs ->
  map snd cs = repeat true (List.length cs - 1) ++ [false].
Proof.
  induction cs as [|c tl IH]; cbn [flags_ok]; [tauto|].
  destruct tl as [|d tl].
  - intros H. cbn. now rewrite H.
  - intros [H1 H2]. specialize (IH H2).
    change (map snd (c :: d :: tl)) with (snd c :: map snd (d :: tl)). rewrite IH, H1.
    cbn [List.length]. replace (S (S (List.length tl)) - 1)%nat with (S (S (List.length tl) - 1)) by lia.
    reflexivity.
Qed.

Definition total (cs : list chunk) : N := lenN (concat (map fst cs)).

Lemma total_cons c tl : total (c :: tl) = lenN (fst c) + total tl.
Proof. unfold total. cbn [map concat]. apply lenN_app. Qed.

(* ---------------------------------------------------------------------------------------------- *)
(* reader *)

Definition chunk_small (c : chunk) : Prop := lenN (fst c) <= max_chunk.
Definition chunk_nonempty (c : chunk) : Prop := fst c <> [].

Lemma read_loop_spec : forall fuel cs buf prev rest sched,
  (List.length rest < fuel)%nat -> 1 <= buf <= max_chunk -> 1 <= cs -> lenN prev <= max_chunk ->
  exists out, read_loop fuel cs buf prev rest sched = Some out /\
    concat (map fst out) = prev ++ rest /\
    flags_ok out /\
    Forall chunk_small out /\
    (prev ++ rest <> [] -> Forall chunk_nonempty out) /\
    (prev ++ rest = [] -> out = [([], false)]).
Proof.
  induction fuel as [|fuel IH]; intros cs buf prev rest sched Hfuel Hbuf Hcs Hprev; [lia|].
  cbn [read_loop].
  set (choice := match sched with [] => None | r :: _ => Some r end).
  set (sched' := match sched with [] => [] | _ :: s => s end).
  set (n := read_len buf (lenN rest) choice).
  destruct (N.eqb_spec n 0) as [En|En].
  - (* end of file *)
    apply read_len_zero in En; [|lia]. apply lenN_zero in En. subst rest.
    exists [(prev, false)]. rewrite app_nil_r. cbn [map concat fst flags_ok snd].
    rewrite app_nil_r. repeat split.
    + constructor; [exact Hprev | constructor].
    + intros Hne. constructor; [exact Hne | constructor].
    + intros ->. reflexivity.
  - assert (Hrest : lenN rest <> 0).
    { intros E. apply En. apply read_len_zero; [lia | exact E]. }
    pose proof (read_len_bounds buf (lenN rest) choice ltac:(lia) Hrest) as Hn. fold n in Hn.
    destruct (split_at n rest) as [data rest'] eqn:Hs.
    destruct (split_at_props rest n data rest' Hs ltac:(lia)) as (Happ & Hlen & Hshort & Hne).
    assert (Hnext : exists cs2 buf2,
              (if n <? buf then read_loop fuel cs short_buf data rest' sched'
               else read_loop fuel (N.min (cs * 2) max_chunk) (N.min (cs * 2) max_chunk) data rest' sched')
              = read_loop fuel cs2 buf2 data rest' sched' /\ 1 <= buf2 <= max_chunk /\ 1 <= cs2).
    { destruct (n <? buf).
      - exists cs, short_buf. unfold short_buf, max_chunk. repeat split; lia.
      - exists (N.min (cs * 2) max_chunk), (N.min (cs * 2) max_chunk). unfold max_chunk. repeat split; lia. }
    destruct Hnext as (cs2 & buf2 & -> & Hbuf2 & Hcs2).
    destruct (IH cs2 buf2 data rest' sched' ltac:(lia) Hbuf2 Hcs2 ltac:(lia))
      as (out & Hout & Hcat & Hfl & Hsm & Hnonempty & _).
    rewrite Hout.
    assert (Hdr : data ++ rest' <> []) by (destruct data; [congruence | discriminate]).
    specialize (Hnonempty Hdr).
    destruct prev as [|p prev]; cbn [is_nil].
    + exists out. cbn [app]. rewrite Hcat, Happ. repeat split; auto.
      intros ->. exfalso. apply Hrest. reflexivity.
    + exists ((p :: prev, true) :: out). cbn [app]. repeat split.
      * cbn [map concat fst]. rewrite Hcat, Happ. reflexivity.
      * apply flags_ok_cons; [now apply flags_ok_nonnil | split; [reflexivity | exact Hfl]].
      * constructor; [exact Hprev | exact Hsm].
      * intros _. constructor; [discriminate | exact Hnonempty].
      * discriminate.
Qed.

(* ---------------------------------------------------------------------------------------------- *)
(* statement used by C11_chunks *)

Definition chunks_spec (file : bytes) (cs : list chunk) : Prop :=
  concat (map fst cs) = file /\
  map snd cs = repeat true (List.length cs - 1) ++ [false] /\
  Forall chunk_small cs /\
  (file <> [] -> Forall chunk_nonempty cs) /\
  (file = [] -> cs = [([], false)]).

Lemma read_chunks_spec file sched :
  exists cs, read_chunks file sched = Some cs /\ flags_ok cs /\ chunks_spec file cs.
Proof.
  unfold read_chunks, chunks_spec.
  destruct (read_loop_spec (S (List.length file)) first_buf first_buf [] file sched)
    as (out & Hout & Hcat & Hfl & Hsm & Hne & Hnil).
  - lia.
  - unfold first_buf, max_chunk. lia.
  - unfold first_buf. lia.
  - rewrite lenN_nil. unfold max_chunk. lia.
  - exists out. cbn [app] in *. repeat split; auto. now apply flags_ok_map.
Qed.

Lemma C11_chunks_proof : forall (file : list ascii) (sched : list N),
  exists cs, read_chunks file sched = Some cs /\
    concat (map fst cs) = file /\
    map snd cs = repeat true (List.length cs - 1) ++ [false] /\
    Forall (fun c => lenN (fst c) <= 4194304) cs /\
    (file <> [] -> Forall (fun c => fst c <> []) cs) /\
    (file = [] -> cs = [([], false)]).
Proof.
  intros file sched. destruct (read_chunks_spec file sched) as (cs & H & _ & Hs).
  exists cs. split; [exact H | exact Hs].
Qed.
