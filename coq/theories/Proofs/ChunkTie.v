(* The chunk ladder of the core model (Model/SyncTop.chunk_real) is the ladder measured on the running code
   (Gen/Facts_chunks.v, regenerated on every run by the harness: the sizes of the chunks the real reader sends). *)
From RJ Require Import Base.Prelude Model.SyncTop Gen.Facts_chunks.
From Coq Require Import NArith Lia.

Lemma buf_size_N k : N.of_nat (buf_size k) = (4096 * 2 ^ N.of_nat (Nat.min k 10))%N.
Proof. unfold buf_size. rewrite Nat2N.inj_mul, Nat2N.inj_pow. reflexivity. Qed.

Definition ladder_N (n : nat) : list N := map (fun k => (4096 * 2 ^ N.of_nat (Nat.min k 10))%N) (seq 0 n).

Theorem core_ladder_matches_code : ladder_N 14 = firstn 14 impl_ladder.
Proof. vm_compute. reflexivity. Qed.

Theorem core_ladder_is_buf_size n : map (fun k => N.of_nat (buf_size k)) (seq 0 n) = ladder_N n.
Proof. unfold ladder_N. apply map_ext. intros k. apply buf_size_N. Qed.
