(* C02, for ALL runs: with the F6b repair in place, a sync in which nothing was skipped never resolves a path
   through a destination symlink - whatever fails, wherever, and however late the boss notices.
   (Proofs/ConfinedMain.v shows this for runs that return Ok; here no outcome is assumed.) *)
From RJ Require Import Base.Prelude Base.OrderedPlan Model.Settings Model.Core Model.Fs Model.Sync
  Spec.PlanSpec Spec.Mirror Proofs.PlanCProofs Proofs.FsProofs Proofs.PathLemmas Proofs.ExecProofs Proofs.DryProofs
  Proofs.SyncProofs Proofs.MirrorProofs Proofs.ConfineProofs Proofs.QuietProofs Proofs.BlockProofs Proofs.CrashProofs Proofs.CrashMain Proofs.TouchedProofs.

(* ---- path resolution goes through a link only at a strict prefix that is a folder link ---- *)
Lemma check_above_through_at f : forall rest pre q,
  check_above f pre rest = PRThrough q ->
  exists k t, k < length rest /\ q = pre ++ firstn k rest /\ fget f q = Some (NLink t SKFolder).
Proof.
  induction rest as [|c rest IH]; intros pre q H; cbn [check_above] in H; [discriminate|].
  destruct rest as [|c1 rest].
  - destruct (fget f pre) as [[m d| |t [| |]]|] eqn:E; inversion H; subst.
    exists 0, t. cbn [firstn length]. rewrite app_nil_r. split; [lia|]. split; [reflexivity|exact E].
  - destruct (fget f pre) as [[m d| |t [| |]]|] eqn:E; try discriminate.
    + destruct (IH _ _ H) as (k & t & Hk & -> & Hf). exists (S k), t. cbn [length firstn] in *. split; [lia|].
      split; [rewrite <- app_assoc; reflexivity|exact Hf].
    + inversion H; subst. exists 0, t. cbn [firstn length]. rewrite app_nil_r. split; [lia|]. split; [reflexivity|exact E].
Qed.

Definition nolink_above (st : dstate) (p : path) : Prop :=
  forall q t, is_strict_prefix q p = true -> fget (d_fs st) q <> Some (NLink t SKFolder).

Lemma nolink_resolve st p : nolink_above st p -> forall q, resolve_above st p <> PRThrough q.
Proof.
  intros Hn q H. unfold resolve_above in H. destruct p as [|c p]; [destruct (d_anc st); discriminate|].
  destruct (check_above_through_at (d_fs st) (c :: p) [] q H) as (k & t & Hk & -> & Hf).
  apply (Hn (firstn k (c :: p)) t); [|exact Hf]. apply strict_prefix_iff. exists k. split; [exact Hk|reflexivity].
Qed.

(* ---- single commands log nothing when no folder link lies above their path (and, for a file, none at it) ---- *)
Lemma cmd_noevent fl st c p :
  path_cmd c = Some p -> is_chunk c = false -> nolink_above st p ->
  d_events (fst (doer_exec fl st c)) = d_events st.
Proof.
  intros Hp Hc Hn. pose proof (nolink_resolve st p Hn) as Hr.
  destruct (doer_exec fl st c) as [st' e] eqn:H. cbn [fst].
  destruct c; try discriminate Hp; try discriminate Hc; inversion Hp; subst; cbn [doer_exec] in H;
    repeat (break_match_hyp H; try discriminate); inv_pair H; dsimpl; try reflexivity;
    exfalso; eapply Hr; eauto.
Qed.

Lemma chunk_noevent fl st p data mt more :
  blocked_at st p = true \/ d_open st <> None \/ (nolink_above st p /\ not_link st p) ->
  d_events (fst (doer_exec fl st (CCreateOrUpdateFile p data mt more))) = d_events st.
Proof.
  intros Hc. cbn [doer_exec]. destruct (blocked_at st p) eqn:Hb; [reflexivity|].
  destruct (refuses st p); [reflexivity|].
  set (st0 := with_failed st (if more then Some p else None)).
  unfold open_for_write.
  change (d_open st0) with (d_open st). change (resolve_above st0 p) with (resolve_above st p). change (d_fs st0) with (d_fs st).
  destruct (d_open st) as [q|] eqn:Ho.
  - destruct (path_eqb q p); [|reflexivity].
    destruct (fget (d_fs st) p) as [[m old| |t k]|]; cbn [fst];
      try (rewrite fst_if; destruct (write_fails _); destruct mt; unfold stamp_file, write_chunk; reflexivity); reflexivity.
  - destruct Hc as [Hc|[Hc|(Hn & Hnl)]]; [discriminate|congruence|].
    pose proof (nolink_resolve st p Hn) as Hr.
    destruct (resolve_above st p) as [|q|e] eqn:Er; [|exfalso; eapply Hr; eauto|reflexivity].
    destruct (fget (d_fs st) p) as [[m old| |t k]|] eqn:Ep; cbn [fst];
      try (rewrite fst_if; destruct (write_fails _); destruct mt; unfold stamp_file, write_chunk; reflexivity);
      try reflexivity.
    exfalso. eapply Hnl; eauto.
Qed.

(* ---- why a step executes nothing ---- *)
Section Dyn.
Variable fl : flavour.
Variable ft : faults.
Variable D0 : fs.

Lemma skipped_cases r c :
  executes ft r (DestCmd c) = None -> mutating c = true ->
  dead ft (run_step fl ft r (DestCmd c)) \/
  (injected ft r c = true /\ rs_d (run_step fl ft r (DestCmd c)) = inj_state (rs_d r) c).
Proof.
  intros Hx Hm. pose proof (run_step_d fl ft r (DestCmd c)) as Hd. rewrite Hx in Hd.
  unfold executes in Hx. unfold idle_d in Hd.
  destruct (rs_srcfail r) eqn:Es; [left; apply dead_step; left; exact Es|].
  destruct (rs_budget r) as [[|k]|] eqn:Eb; [left; apply dead_step; right; left; exact Eb| |].
  all: destruct (stopped ft r c) eqn:Est;
       [left; unfold stopped in Est; apply andb_true_iff in Est as [_ Est];
        destruct (ft_stop ft) as [n|] eqn:En; [|discriminate]; apply Nat.leb_le in Est;
        right; right; exists n; (split; [exact En|]); pose proof (run_step_mut fl ft r (DestCmd c)); lia|];
       destruct (injected ft r c) eqn:Ei; [right; split; [reflexivity|exact Hd]|discriminate].
Qed.

(* where a link on the destination can come from, at any moment of the run *)
Definition LInv (r : rstate) (proc : list path) (cld : list (path * (entry * creason))) : Prop :=
  forall q t k, fget (d_fs (rs_d r)) q = Some (NLink t k) ->
    dead ft r \/ blocked_at (rs_d r) q = true \/
    (fget D0 q = Some (NLink t k) /\ ~ In q proc) \/
    (exists k' t' rr, In (q, (ESymlink k' t', rr)) cld).

(* a deletion at a path that holds a link either removes it or leaves the path blocked *)
Lemma delete_link_outcome st c p t k :
  (c = CDeleteFile p \/ c = CDeleteFolder p \/ exists k0, c = CDeleteSymlink p k0) ->
  quiet_at st p -> fget (d_fs st) p = Some (NLink t k) ->
  fget (d_fs (fst (doer_exec fl st c))) p = None \/ blocked_at (fst (doer_exec fl st c)) p = true.
Proof.
  intros Hc Hq Hl. pose proof (quiet_resolve st p Hq) as Hr.
  assert (Hnote : blocked_at (note_faildel st p) p = true).
  { unfold blocked_at, note_faildel. cbn. rewrite is_prefix_refl. reflexivity. }
  destruct Hc as [->|[->|(k0 & ->)]]; cbn [doer_exec];
    (destruct (blocked_at st p) eqn:Hb; [right; exact Hb|]).
  - destruct (resolve_above st p) as [|q|e] eqn:Er; cbn [fst]; [|exfalso; eapply Hr; eauto|right; exact Hnote].
    rewrite Hl. cbn [fst]. left. dsimpl. apply fget_fdel_eq.
  - destruct (resolve_above st p) as [|q|e] eqn:Er; cbn [fst]; [|exfalso; eapply Hr; eauto|right; exact Hnote].
    rewrite Hl. cbn [fst]. right. exact Hnote.
  - destruct fl, k0; cbn [fst]; try (right; exact Hnote);
      (destruct (resolve_above st p) as [|q|e] eqn:Er; cbn [fst]; [|exfalso; eapply Hr; eauto|right; exact Hnote]);
      rewrite Hl; cbn [fst]; left; dsimpl; apply fget_fdel_eq.
Qed.

Definition DelInv (r : rstate) (dlr : list (path * (entry * dreason))) : Prop :=
  forall p, In p (map fst dlr) -> p <> [] ->
    forall q, is_strict_prefix q p = true ->
      fget (d_fs (rs_d r)) q = Some NFolder /\ (In q (map fst dlr) -> before p q (map fst dlr)).

Lemma delete_step r e proc cld :
  quiet_at (rs_d r) (fst e) -> LInv r proc cld ->
  let r' := run_step fl ft r (DestCmd (delete_cmd e)) in
  d_events (rs_d r') = d_events (rs_d r) /\ LInv r' (fst e :: proc) cld /\
  (forall q, q <> fst e -> fget (d_fs (rs_d r')) q = fget (d_fs (rs_d r)) q) /\ d_open (rs_d r') = d_open (rs_d r).
Proof.
  intros Hq HL r'. subst r'. set (p := fst e) in *. set (c := delete_cmd e) in *. set (r' := run_step fl ft r (DestCmd c)).
  assert (Hshape : c = CDeleteFile p \/ c = CDeleteFolder p \/ exists k0, c = CDeleteSymlink p k0) by apply delete_cmd_shape.
  assert (Hmut : mutating c = true) by (destruct Hshape as [->|[->|(k0 & ->)]]; reflexivity).
  assert (Hchunk : is_chunk c = false) by (destruct Hshape as [->|[->|(k0 & ->)]]; reflexivity).
  assert (Hpc : path_cmd c = Some p) by (destruct Hshape as [->|[->|(k0 & ->)]]; reflexivity).
  assert (Hdel : is_del c = true) by (destruct Hshape as [->|[->|(k0 & ->)]]; reflexivity).
  pose proof (run_step_d fl ft r (DestCmd c)) as Hd. fold r' in Hd.
  destruct (executes ft r (DestCmd c)) as [c0|] eqn:Ex.
  - apply executes_some in Ex as Ex'. inversion Ex'; subst c0. clear Ex'.
    assert (Hev : d_events (fst (doer_exec fl (rs_d r) c)) = d_events (rs_d r)) by (apply (delete_quiet fl (rs_d r) c p); assumption).
    assert (Hfr : forall q, q <> p -> fget (d_fs (fst (doer_exec fl (rs_d r) c))) q = fget (d_fs (rs_d r)) q).
    { intros q Hne. destruct (doer_exec fl (rs_d r) c) as [st' er] eqn:Ed. cbn [fst].
      apply (doer_exec_frame fl (rs_d r) c st' er q Ed). unfold c. rewrite cmd_path_delete. intro Heq. inversion Heq as [Hpe]. apply Hne. symmetry. exact Hpe. }
    split; [rewrite Hd; exact Hev|]. split; [|split; [intros q Hne; rewrite Hd; apply Hfr; exact Hne|rewrite Hd; apply (nonchunk_exec fl (rs_d r) c Hchunk)]].
    intros q t k Hl. rewrite Hd in Hl. destruct (path_eq_dec q p) as [->|Hne].
    + (* the path of the deletion still holds a link: it was there before (a deletion creates nothing) *)
      destruct (TouchedProofs.nonchunk_effect fl (rs_d r) c Hchunk p) as [Hsame|(_ & [(Hn & _)|[(Hn & Hcf)|(k1 & t1 & Hcs & _)]])].
      * rewrite Hsame in Hl. destruct (delete_link_outcome (rs_d r) c p t k Hshape Hq Hl) as [Hnone|Hb].
        -- rewrite Hsame in Hnone. congruence.
        -- right; left. rewrite Hd. exact Hb.
      * congruence.
      * destruct Hshape as [->|[->|(k0 & ->)]]; discriminate Hcf.
      * destruct Hshape as [->|[->|(k0 & ->)]]; discriminate Hcs.
    + rewrite (Hfr q Hne) in Hl. destruct (HL q t k Hl) as [H|[H|[(H1 & H2)|H]]].
      * left. apply dead_step. exact H.
      * right; left. rewrite Hd. apply blocked_stays. exact H.
      * right; right; left. split; [exact H1|]. intros [Heq|Hin]; [apply Hne; symmetry; exact Heq|contradiction].
      * right; right; right. exact H.
  - destruct (idle_same ft r (DestCmd c)) as (I1 & I2 & I3 & _).
    split; [rewrite Hd; exact I3|]. split; [|split; [intros q _; rewrite Hd, I1; reflexivity|rewrite Hd; exact I2]].
    intros q t k Hl. rewrite Hd, I1 in Hl.
    destruct (skipped_cases r c Ex Hmut) as [Hdead|(Hinj & Hst)].
    + left. exact Hdead.
    + destruct (path_eq_dec q p) as [->|Hne].
      * right; left. fold r' in Hst. rewrite Hst. apply (injected_delete_blocks (rs_d r) c p p Hdel Hpc). apply is_prefix_refl.
      * destruct (HL q t k Hl) as [H|[H|[(H1 & H2)|H]]].
        -- left. apply dead_step. exact H.
        -- right; left. fold r' in Hst. rewrite Hst. unfold blocked_at in *.
           destruct Hshape as [->|[->|(k0 & ->)]]; cbn [inj_state note_faildel d_x x_faildel existsb]; rewrite H; apply orb_true_r.
        -- right; right; left. split; [exact H1|]. intros [Heq|Hin]; [apply Hne; symmetry; exact Heq|contradiction].
        -- right; right; right. exact H.
Qed.

Lemma delete_phase : forall (dlr : list (path * (entry * dreason))) r proc cld,
  NoDup (map fst dlr) -> DelInv r dlr -> LInv r proc cld ->
  exists proc',
    (forall q, In q proc' <-> In q (map fst dlr) \/ In q proc) /\
    d_events (rs_d (run_steps fl ft r (map (fun e => DestCmd (delete_cmd e)) dlr))) = d_events (rs_d r) /\
    LInv (run_steps fl ft r (map (fun e => DestCmd (delete_cmd e)) dlr)) proc' cld /\
    d_open (rs_d (run_steps fl ft r (map (fun e => DestCmd (delete_cmd e)) dlr))) = d_open (rs_d r).
Proof.
  induction dlr as [|e dlr IH]; intros r proc cld Hnd Hinv HL.
  - exists proc. cbn [map]. split; [intros q; cbn [In]; tauto|]. split; [reflexivity|]. split; [exact HL|reflexivity].
  - cbn [map]. change (run_steps fl ft r (DestCmd (delete_cmd e) :: map (fun e0 => DestCmd (delete_cmd e0)) dlr))
      with (run_steps fl ft (run_step fl ft r (DestCmd (delete_cmd e))) (map (fun e0 => DestCmd (delete_cmd e0)) dlr)).
    inversion Hnd as [|? ? Hnin Hnd']; subst.
    assert (Hq0 : quiet_at (rs_d r) (fst e)).
    { destruct (fst e) as [|c p] eqn:Ep; [left; reflexivity|]. right. intros q Hq.
      apply (Hinv (fst e)); [left; reflexivity|rewrite Ep; discriminate|rewrite Ep; exact Hq]. }
    destruct (delete_step r e proc cld Hq0 HL) as (E1 & L1 & F1 & O1).
    set (r1 := run_step fl ft r (DestCmd (delete_cmd e))) in *.
    assert (Hinv1 : DelInv r1 dlr).
    { intros p Hp Hpne q Hq. destruct (Hinv p (or_intror Hp) Hpne q Hq) as [Hf Hb].
      assert (Hqne : q <> fst e).
      { intros ->. specialize (Hb (or_introl eq_refl)). cbn [map] in Hb. inversion Hb; subst.
        - apply Hnin. exact Hp.
        - apply before_in_r in H0. contradiction. }
      split; [rewrite (F1 q Hqne); exact Hf|].
      intros Hqin. specialize (Hb (or_intror Hqin)). cbn [map] in Hb. inversion Hb; subst.
      - exfalso. apply Hnin. exact Hp.
      - assumption. }
    destruct (IH r1 (fst e :: proc) cld Hnd' Hinv1 L1) as (proc' & Hp' & E2 & L2 & O2).
    exists proc'. split; [|split; [rewrite E2; exact E1|split; [exact L2|rewrite O2; exact O1]]].
    intros q. rewrite Hp'. cbn [map In]. tauto.
Qed.

(* ---- the copy phase ---- *)
Section CopyPhase.
Variable dl : list (path * (entry * dreason)).
Variable cl : list (path * (entry * creason)).
Variable proc : list path.
Hypothesis proc_dl : forall q, In q (map fst dl) -> In q proc.
Hypothesis HndC : NoDup (map fst cl).
(* a link of the original destination above a path to be copied is always among the deletions *)
Hypothesis C1 : forall p e r q t k, In (p, (e, r)) cl -> is_strict_prefix q p = true -> fget D0 q = Some (NLink t k) -> In q (map fst dl).
(* nothing is copied below a link that is copied itself *)
Hypothesis C2 : forall p e r q k t rr, In (p, (e, r)) cl -> is_strict_prefix q p = true -> ~ In (q, (ESymlink k t, rr)) cl.
(* a link of the original destination where a file is to be written is among the deletions *)
Hypothesis C3 : forall p mt sz r t k, In (p, (EFile mt sz, r)) cl -> fget D0 p = Some (NLink t k) -> In p (map fst dl).

Definition cmd_of_entry (p : path) (e : entry) (c : cmd) : Prop :=
  (e = EFolder /\ c = CCreateFolder p) \/
  (exists k t, e = ESymlink k t /\ c = CCreateSymlink p k t) \/
  (exists mt sz d smt more, e = EFile mt sz /\ c = CCreateOrUpdateFile p d smt more).

Definition belongs (s : bstep) : Prop :=
  (exists q, s = SrcFetch q) \/ (exists p e r c, In (p, (e, r)) cl /\ s = DestCmd c /\ cmd_of_entry p e c).

Lemma strict_is_prefix q p : is_strict_prefix q p = true -> is_prefix q p = true.
Proof. unfold is_strict_prefix. intros H. apply andb_true_iff in H. tauto. Qed.

Lemma chunk_result_kind st p d smt more q :
  fget (d_fs (fst (doer_exec fl st (CCreateOrUpdateFile p d smt more)))) q = fget (d_fs st) q \/
  exists m dd, fget (d_fs (fst (doer_exec fl st (CCreateOrUpdateFile p d smt more)))) q = Some (NFile m dd).
Proof.
  destruct (doer_exec fl st (CCreateOrUpdateFile p d smt more)) as [st' e] eqn:H. cbn [fst].
  cbn [doer_exec] in H. unfold open_for_write, write_chunk, stamp_file in H.
  repeat (break_match_hyp H; try discriminate); inv_pair H; dsimpl; try (left; reflexivity);
    destruct (path_eq_dec q p) as [->|Hne];
    try (right; rewrite ?fget_fset_eq; eauto; fail);
    try (left; rewrite ?fget_fset_ne by exact Hne; reflexivity).
Qed.

Lemma copy_step r s : LInv r proc cl -> belongs s ->
  d_events (rs_d (run_step fl ft r s)) = d_events (rs_d r) /\ LInv (run_step fl ft r s) proc cl.
Proof.
  intros HL [(q0 & ->)|(p & e & rr & c & Hin & -> & Hce)].
  - (* a source read: the doer's world stays, the boss may give up *)
    pose proof (run_step_d fl ft r (SrcFetch q0)) as Hd. rewrite executes_fetch, idle_fetch in Hd.
    split; [rewrite Hd; reflexivity|]. intros q t k Hl. rewrite Hd in Hl.
    destruct (HL q t k Hl) as [H|[H|[H|H]]]; [left; apply dead_step; exact H|right; left; rewrite Hd; exact H|right; right; left; exact H|right; right; right; exact H].
  - assert (Hpc : path_cmd c = Some p) by (destruct Hce as [(-> & ->)|[(k & t & -> & ->)|(mt & sz & d & smt & more & -> & ->)]]; reflexivity).
    assert (Hmut : mutating c = true) by (destruct Hce as [(-> & ->)|[(k & t & -> & ->)|(mt & sz & d & smt & more & -> & ->)]]; reflexivity).
    assert (Hnd : is_del c = false) by (destruct Hce as [(-> & ->)|[(k & t & -> & ->)|(mt & sz & d & smt & more & -> & ->)]]; reflexivity).
    pose proof (run_step_d fl ft r (DestCmd c)) as Hd.
    destruct (executes ft r (DestCmd c)) as [c0|] eqn:Ex.
    + apply executes_some in Ex as Ex'. inversion Ex'; subst c0. clear Ex'.
      assert (Hnotdead : ~ dead ft r).
      { intros Hdead. pose proof (executes_dead ft r (DestCmd c) c Hdead Ex). congruence. }
      (* links above p, and at p, in the current state *)
      assert (Habove : blocked_at (rs_d r) p = false -> nolink_above (rs_d r) p).
      { intros Hb q t Hq Hl. destruct (HL q t SKFolder Hl) as [H|[H|[(H1 & H2)|(k' & t' & r' & H)]]].
        - contradiction.
        - rewrite (blocked_below (rs_d r) q p H (strict_is_prefix q p Hq)) in Hb. discriminate.
        - apply H2. apply proc_dl. exact (C1 p e rr q t SKFolder Hin Hq H1).
        - exact (C2 p e rr q k' t' r' Hin Hq H). }
      assert (Hev : d_events (fst (doer_exec fl (rs_d r) c)) = d_events (rs_d r)).
      { destruct (blocked_at (rs_d r) p) eqn:Hb.
        - rewrite (blocked_refused fl (rs_d r) c p Hpc Hb). reflexivity.
        - destruct Hce as [(-> & ->)|[(k & t & -> & ->)|(mt & sz & d & smt & more & -> & ->)]].
          + apply (cmd_noevent fl (rs_d r) _ p); [reflexivity|reflexivity|apply Habove; reflexivity].
          + apply (cmd_noevent fl (rs_d r) _ p); [reflexivity|reflexivity|apply Habove; reflexivity].
          + apply chunk_noevent. destruct (d_open (rs_d r)) eqn:Ho; [right; left; discriminate|].
            right; right. split; [apply Habove; reflexivity|].
            intros t k Hl. destruct (HL p t k Hl) as [H|[H|[(H1 & H2)|(k' & t' & r' & H)]]].
            * contradiction.
            * congruence.
            * apply H2. apply proc_dl. exact (C3 p mt sz rr t k Hin H1).
            * (* p would be copied both as a file and as a link *)
              assert (E1 : alookup path path_eq_dec p cl = Some (EFile mt sz, rr)) by (apply alookup_in; assumption).
              assert (E2 : alookup path path_eq_dec p cl = Some (ESymlink k' t', r')) by (apply alookup_in; assumption).
              congruence. }
      split; [rewrite Hd; exact Hev|].
      intros q t k Hl. rewrite Hd in Hl.
      assert (Hold : fget (d_fs (rs_d r)) q = Some (NLink t k) \/ (q = p /\ exists k0 t0, e = ESymlink k0 t0)).
      { destruct Hce as [(-> & ->)|[(k0 & t0 & -> & ->)|(mt & sz & d & smt & more & -> & ->)]].
        - destruct (TouchedProofs.nonchunk_effect fl (rs_d r) (CCreateFolder p) eq_refl q) as [Hs|(_ & [(Hn & _)|[(Hn & _)|(k1 & t1 & Hc1 & _)]])];
            [left; rewrite <- Hs; exact Hl|congruence|congruence|discriminate Hc1].
        - destruct (TouchedProofs.nonchunk_effect fl (rs_d r) (CCreateSymlink p k0 t0) eq_refl q) as [Hs|(Hp & _)];
            [left; rewrite <- Hs; exact Hl|]. inversion Hp; subst. right. split; [reflexivity|eauto].
        - destruct (chunk_result_kind (rs_d r) p d smt more q) as [Hs|(m & dd & Hf)]; [left; rewrite <- Hs; exact Hl|congruence]. }
      destruct Hold as [Hold|(-> & k0 & t0 & ->)].
      * destruct (HL q t k Hold) as [H|[H|[H|H]]]; [contradiction|right; left; rewrite Hd; apply blocked_stays; exact H|right; right; left; exact H|right; right; right; exact H].
      * right; right; right. exists k0, t0, rr. exact Hin.
    + destruct (idle_same ft r (DestCmd c)) as (I1 & _ & I3 & _).
      split; [rewrite Hd; exact I3|]. intros q t k Hl. rewrite Hd, I1 in Hl.
      destruct (skipped_cases r c Ex Hmut) as [Hdead|(Hinj & Hst)]; [left; exact Hdead|].
      assert (Hsame : inj_state (rs_d r) c = rs_d r) by (destruct c; try discriminate Hnd; reflexivity).
      destruct (HL q t k Hl) as [H|[H|[H|H]]]; [left; apply dead_step; exact H|right; left; rewrite Hst, Hsame; exact H|right; right; left; exact H|right; right; right; exact H].
Qed.

Lemma copy_steps_all steps : (forall s, In s steps -> belongs s) -> forall r, LInv r proc cl ->
  d_events (rs_d (run_steps fl ft r steps)) = d_events (rs_d r) /\ LInv (run_steps fl ft r steps) proc cl.
Proof.
  induction steps as [|s rest IH]; intros Hall r HL; [split; [reflexivity|exact HL]|].
  change (run_steps fl ft r (s :: rest)) with (run_steps fl ft (run_step fl ft r s) rest).
  destruct (copy_step r s HL (Hall s (or_introl eq_refl))) as [E1 L1].
  destruct (IH (fun x H => Hall x (or_intror H)) _ L1) as [E2 L2]. split; [rewrite E2; exact E1|exact L2].
Qed.

End CopyPhase.

End Dyn.

(* ================= the whole sync ================= *)
From RJ Require Import Proofs.ConfinedMain.

Section AllRuns.
Variable now_z : N -> Z.
Variable incl : path -> bool.
Variable normalize : str -> target.
Variable chunker : str -> list str.
Hypothesis chunker_ok : forall d, chunker d <> [] /\ concat (chunker d) = d.

Notation entry_of := (entry_of now_z normalize).
Notation valid_listing := (valid_listing now_z incl normalize).
Notation side_listing := (side_listing now_z normalize).
Notation takes_part := (takes_part incl).
Notation sync_one := (sync_one now_z normalize chunker).

(* the steps of a copy entry all belong to the copy list *)
Lemma copy_steps_belong S cl e : In e cl -> forall s, In s (copy_steps chunker S e) -> belongs cl s.
Proof.
  intros Hin s Hs. destruct e as [p [[mt sz| |k t] r]]; cbn [copy_steps] in Hs.
  - destruct (fget S p) as [[m data| |tt kk]|]; try (destruct Hs as [<-|[]]; left; eauto; fail).
    destruct Hs as [<-|Hs]; [left; eauto|].
    destruct (chunk_cmds_shape p mt (chunker data) s Hs) as (d & smt & more & ->).
    right. exists p, (EFile mt sz), r, (CCreateOrUpdateFile p d smt more). split; [exact Hin|]. split; [reflexivity|].
    right; right. exists mt, sz, d, smt, more. split; reflexivity.
  - destruct Hs as [<-|[]]. right. exists p, EFolder, r, (CCreateFolder p). split; [exact Hin|]. split; [reflexivity|]. left. split; reflexivity.
  - destruct Hs as [<-|[]]. right. exists p, (ESymlink k t), r, (CCreateSymlink p k t). split; [exact Hin|]. split; [reflexivity|].
    right; left. exists k, t. split; reflexivity.
Qed.

(* the (possible) CreateRootAncestors step: the tree stays, at most the ancestors event is logged *)
Lemma pre_step fl ft r :
  let r1 := run_step fl ft r (DestCmd CCreateRootAncestors) in
  d_fs (rs_d r1) = d_fs (rs_d r) /\
  (d_events (rs_d r1) = d_events (rs_d r) \/ d_events (rs_d r1) = d_events (rs_d r) ++ [CreatedAncestors]) /\
  (forall q, blocked_at (rs_d r1) q = blocked_at (rs_d r) q) /\ (dead ft r -> dead ft r1).
Proof.
  intros r1. pose proof (run_step_d fl ft r (DestCmd CCreateRootAncestors)) as Hd. fold r1 in Hd.
  destruct (executes ft r (DestCmd CCreateRootAncestors)) as [c0|] eqn:Ex.
  - apply executes_some in Ex. inversion Ex; subst c0. rewrite Hd. cbn [doer_exec].
    destruct (d_anc (rs_d r)); cbn [fst]; (split; [reflexivity|]); (split; [auto|]); (split; [intros q; reflexivity|apply dead_step]).
  - destruct (idle_same ft r (DestCmd CCreateRootAncestors)) as (I1 & _ & I3 & _). rewrite Hd.
    split; [exact I1|]. split; [left; exact I3|]. split; [|apply dead_step].
    intros q. unfold idle_d. destruct (rs_srcfail r); [reflexivity|]. destruct (rs_budget r) as [[|k]|]; try reflexivity;
      destruct (stopped ft r _); try reflexivity; destruct (injected ft r _); reflexivity.
Qed.

Theorem all_runs_confined cfg S D ans bits ls ld ft :
  valid_listing S ls -> valid_listing (d_fs D) ld ->
  parents_first (lkeys (side_listing S ls)) -> parents_first (lkeys (side_listing (d_fs D) ld)) ->
  wf_fs (d_fs D) -> no_through (d_events D) ->
  let r := sync_one cfg S D ans bits ls ld ft in
  r_skipped r = [] ->
  no_through (d_events (r_dest r)).
Proof.
  intros HvS HvD HpfS HpfD HwD Hnt0. cbv zeta. unfold Sync.sync_one, fail_result.
  destruct (side_listing_spec now_z incl normalize S ls HvS) as (HndS & HeS & HkS).
  destruct (side_listing_spec now_z incl normalize (d_fs D) ld HvD) as (HndD & HeD & HkD).
  set (Ls := side_listing S ls) in *. set (Ld := side_listing (d_fs D) ld) in *.
  unfold Mirror.side_listing in Ls, Ld.
  destruct (fget S []) as [sn|] eqn:ErS; [|intros _; exact Hnt0].
  match goal with |- context [match ?g with inl _ => _ | inr _ => _ end] => destruct g as [[ans1 np1]|[[|] np]] end;
    try (intros _; exact Hnt0).
  match goal with |- context [actions_of ?d ?s ?a] => set (arr := a); set (ss := s) end.
  assert (Hsrcs : srcs path entry arr = Ls).
  { unfold arr, Ls. rewrite srcs_cons_src. f_equal. rewrite srcs_app_c.
    match goal with |- context [interleave bits ?a ?b] => destruct (interleave_projections bits a b) as [I1 _]; rewrite I1 end.
    destruct (option_map entry_of (fget (d_fs D) [])); cbn; destruct sn; reflexivity. }
  assert (Hdests : dests path entry arr = Ld).
  { unfold arr, Ld. rewrite dests_cons_src, dests_app_c.
    match goal with |- context [interleave bits ?a ?b] => destruct (interleave_projections bits a b) as [_ I2]; rewrite I2 end.
    destruct (fget (d_fs D) []) as [[| |]|]; reflexivity. }
  rewrite (actions_of_spec (cf_diff cfg) ss arr) by (rewrite ?Hsrcs, ?Hdests; assumption).
  rewrite Hsrcs, Hdests.
  set (acts := plan_spec (cf_diff cfg) ss Ls Ld).
  set (pre := match option_map entry_of (fget (d_fs D) []) with None => if cf_dry cfg then [] else [DestCmd CCreateRootAncestors] | Some _ => [] end).
  set (r0 := mkR D _ _ [] false 0 0 None).
  set (r1 := run_steps (cf_fl cfg) ft r0 pre).
  (* after the pre step *)
  assert (Hst1 : d_fs (rs_d r1) = d_fs D /\
                 (d_events (rs_d r1) = d_events D \/ d_events (rs_d r1) = d_events D ++ [CreatedAncestors])).
  { unfold r1, pre. destruct (option_map entry_of (fget (d_fs D) [])); [|destruct (cf_dry cfg)];
      try (cbn [run_steps fold_left]; split; [reflexivity|left; reflexivity]).
    change (run_steps (cf_fl cfg) ft r0 [DestCmd CCreateRootAncestors]) with (run_step (cf_fl cfg) ft r0 (DestCmd CCreateRootAncestors)).
    destruct (pre_step (cf_fl cfg) ft r0) as (P1 & P2 & _). split; [exact P1|exact P2]. }
  destruct Hst1 as (Hfs1 & Hev1).
  assert (Hnt1 : no_through (d_events (rs_d r1))).
  { destruct Hev1 as [-> | ->]; [exact Hnt0|apply no_through_snoc_anc; exact Hnt0]. }
  destruct (confirm (cf_b cfg) ans1 acts) as [|acts' skipped b2 a2 np2] eqn:Ec; [intros _; exact Hnt1|].
  destruct (cf_dry cfg) eqn:Edry; [intros _; exact Hnt1|].
  cbn [r_skipped r_dest]. intros Hsk.
  assert (acts' = acts) by (eapply confirm_no_skip; eauto). subst acts'.
  (* ---- the static facts of the plan ---- *)
  assert (NdD : NoDup (map fst (a_delete acts))) by (apply nodup_delete_keys; auto).
  assert (NdC : NoDup (map fst (a_copy acts))) by (apply nodup_copy_keys; auto).
  assert (HinS : forall q, In q (lkeys Ls) -> exists n, fget S q = Some n /\ In (q, entry_of n) Ls).
  { intros q Hq. apply in_map_iff in Hq as ([q' e] & <- & Hin). destruct (HeS _ _ Hin) as (n & En & ->). eauto. }
  assert (HinD : forall q, In q (lkeys Ld) -> exists n, fget (d_fs D) q = Some n /\ In (q, entry_of n) Ld).
  { intros q Hq. apply in_map_iff in Hq as ([q' e] & <- & Hin). destruct (HeD _ _ Hin) as (n & En & ->). eauto. }
  assert (HdD : forall q, In q (map fst (a_delete acts)) -> In q (lkeys Ld)).
  { intros q Hq. unfold acts in Hq. cbn [plan_spec a_delete] in Hq. rewrite map_rev in Hq. apply in_rev in Hq.
    eapply subseq_in; [apply keys_delete_subseq | exact Hq]. }
  (* a destination link at a path where the source has something else is among the deletions *)
  assert (Hway : forall q es t k, takes_part S q -> In (q, es) Ls -> (forall k' t', es <> ESymlink k' t') ->
                   fget (d_fs D) q = Some (NLink t k) -> In q (map fst (a_delete acts))).
  { intros q es t k HtS HinLs Hnl Hlink.
    assert (HtpD : takes_part (d_fs D) q).
    { destruct q as [|c q']; [left; reflexivity|]. right.
      assert (HrD : fget (d_fs D) [] = Some NFolder) by (apply (HwD _ _ Hlink); apply nil_strict_prefix; discriminate).
      split; [exact HrD|].
      destruct HtS as [Hx|[_ HvS']]; [discriminate|]. apply visible_iff in HvS' as (_ & Hi & Hpre).
      apply visible_iff. split; [discriminate|]. split; [exact Hi|].
      intros q2 Hq1 Hq2. split; [apply (Hpre q2 Hq1 Hq2)|apply (HwD _ _ Hlink); exact Hq2]. }
    assert (HpD : In q (lkeys Ld)) by (apply HkD; split; [exact HtpD|congruence]).
    destruct (HinD q HpD) as (nd & EnD & HinLd). rewrite Hlink in EnD. inversion EnD; subst nd.
    change q with (fst (q, (entry_of (NLink t k), Incompatible))). apply in_map.
    apply in_delete_iff. split; [exact HinLd|].
    unfold delete_dec, delete_decision. rewrite (alookup_in Ls q es HndS HinLs).
    assert (Hnd : needs_delete (cf_diff cfg) es (entry_of (NLink t k)) = true).
    { cbn [Fs.entry_of]. destruct es as [mt sz| |k' t']; [reflexivity|reflexivity|exfalso; eapply Hnl; reflexivity]. }
    rewrite Hnd. left; reflexivity. }
  assert (Hsrc_of : forall p e r, In (p, (e, r)) (a_copy acts) -> In (p, e) Ls /\ takes_part S p).
  { intros p e r Hin. apply in_copy_iff in Hin as [HinLs _]. split; [exact HinLs|].
    assert (HpS : In p (lkeys Ls)) by (change p with (fst (p, e)); apply in_map; exact HinLs).
    apply (proj1 (HkS p) HpS). }
  assert (Hpre_of : forall p e r q, In (p, (e, r)) (a_copy acts) -> is_strict_prefix q p = true ->
                      takes_part S q /\ In (q, EFolder) Ls).
  { intros p e r q Hin Hq. destruct (Hsrc_of p e r Hin) as [HinLs HtpS].
    assert (Hpne : p <> []) by (intros ->; destruct q; discriminate).
    destruct (prefixes_of_visible incl S p q HtpS Hpne Hq) as [HfqS HtqS]. split; [exact HtqS|].
    assert (HqS : In q (lkeys Ls)) by (apply HkS; split; [exact HtqS|congruence]).
    destruct (HinS q HqS) as (nq & Enq & HinLq). rewrite HfqS in Enq. inversion Enq; subst nq. exact HinLq. }
  assert (C1 : forall p e r q t k, In (p, (e, r)) (a_copy acts) -> is_strict_prefix q p = true ->
                 fget (d_fs D) q = Some (NLink t k) -> In q (map fst (a_delete acts))).
  { intros p e r q t k Hin Hq Hl. destruct (Hpre_of p e r q Hin Hq) as [HtqS HinLq].
    apply (Hway q EFolder t k HtqS HinLq); [discriminate|exact Hl]. }
  assert (C2 : forall p e r q k t rr, In (p, (e, r)) (a_copy acts) -> is_strict_prefix q p = true ->
                 ~ In (q, (ESymlink k t, rr)) (a_copy acts)).
  { intros p e r q k t rr Hin Hq Hbad. destruct (Hpre_of p e r q Hin Hq) as [_ HinLq].
    apply in_copy_iff in Hbad as [HbadLs _].
    pose proof (alookup_in Ls q EFolder HndS HinLq) as A1. rewrite (alookup_in Ls q (ESymlink k t) HndS HbadLs) in A1. discriminate. }
  assert (C3 : forall p mt sz r t k, In (p, (EFile mt sz, r)) (a_copy acts) -> fget (d_fs D) p = Some (NLink t k) ->
                 In p (map fst (a_delete acts))).
  { intros p mt sz r t k Hin Hl. destruct (Hsrc_of p _ r Hin) as [HinLs HtpS].
    apply (Hway p (EFile mt sz) t k HtpS HinLs); [discriminate|exact Hl]. }
  (* ---- the delete phase ---- *)
  unfold Sync.exec_steps. rewrite run_steps_app.
  assert (HinvD : DelInv r1 (a_delete acts)).
  { intros p Hp Hpne q Hq. rewrite Hfs1.
    destruct (proj1 (HkD p) (HdD p Hp)) as [Htp _].
    destruct (prefixes_of_visible incl (d_fs D) p q Htp Hpne Hq) as [Hfq _]. split; [exact Hfq|].
    intros Hqin. apply (delete_order (cf_diff cfg) ss Ls Ld HndD HpfD q p Hqin Hp Hq). }
  assert (HL1 : LInv ft (d_fs D) r1 [] (a_copy acts)).
  { intros q t k Hl. rewrite Hfs1 in Hl. right; right; left. split; [exact Hl|intros []]. }
  destruct (delete_phase (cf_fl cfg) ft (d_fs D) (a_delete acts) r1 [] (a_copy acts) NdD HinvD HL1) as (proc' & Hproc & E2 & L2 & _).
  set (r2 := run_steps (cf_fl cfg) ft r1 (map (fun e => DestCmd (delete_cmd e)) (a_delete acts))) in *.
  (* ---- the copy phase ---- *)
  assert (Hbel : forall s, In s (flat_map (copy_steps chunker S) (a_copy acts)) -> belongs (a_copy acts) s).
  { intros s Hs. apply in_flat_map in Hs as (e & He & Hs). eapply copy_steps_belong; eauto. }
  destruct (copy_steps_all (cf_fl cfg) ft (d_fs D) (a_delete acts) (a_copy acts) proc'
              (fun q Hq => proj2 (Hproc q) (or_introl Hq)) NdC C1 C2 C3 _ Hbel r2 L2) as [E3 _].
  rewrite E3, E2. exact Hnt1.
Qed.

(* ---- what a confirmation with skips leaves of the plan ---- *)
Lemma remove_paths_in {V} rm (l : list (path * V)) x : In x (remove_paths rm l) <-> In x l /\ ~ In (fst x) rm.
Proof.
  unfold remove_paths. rewrite filter_In. split; intros [H1 H2]; split; auto.
  - intros Hin. apply negb_true_iff in H2. assert (existsb (path_eqb (fst x)) rm = true); [|congruence].
    apply existsb_exists. exists (fst x). split; [exact Hin|]. unfold path_eqb. destruct (path_eq_dec (fst x) (fst x)); [reflexivity|congruence].
  - apply negb_true_iff. destruct (existsb (path_eqb (fst x)) rm) eqn:E; [|reflexivity]. exfalso. apply H2.
    apply existsb_exists in E as (y & Hy & Hxy). unfold path_eqb in Hxy. destruct (path_eq_dec (fst x) y); [subst; exact Hy|discriminate].
Qed.

Lemma nodup_keys_filter {V} (f : path * V -> bool) (l : list (path * V)) : NoDup (map fst l) -> NoDup (map fst (filter f l)).
Proof.
  induction l as [|x l IH]; cbn [map filter]; intros H; [constructor|]. inversion H as [|? ? Hn Hnd]; subst.
  destruct (f x); [|apply IH; exact Hnd]. cbn [map]. constructor; [|apply IH; exact Hnd].
  intros Hin. apply Hn. apply in_map_iff in Hin as (y & Hy & Hyin). apply filter_In in Hyin as [Hyin _].
  rewrite <- Hy. apply in_map. exact Hyin.
Qed.

Lemma keys_filter_in {V} (f : path * V -> bool) (l : list (path * V)) p : In p (map fst (filter f l)) -> In p (map fst l).
Proof. intros H. apply in_map_iff in H as (y & <- & Hy). apply filter_In in Hy as [Hy _]. apply in_map. exact Hy. Qed.

Lemma before_filter {V} (f : path * V -> bool) (l : list (path * V)) a b :
  NoDup (map fst l) -> before a b (map fst l) ->
  In a (map fst (filter f l)) -> In b (map fst (filter f l)) -> before a b (map fst (filter f l)).
Proof.
  induction l as [|x l IH]; cbn [map filter]; intros Hnd Hb Ha Hbb; [destruct Ha|].
  inversion Hnd as [|? ? Hn Hnd']; subst.
  inversion Hb as [l0 Hin|x0 l0 Hb']; subst.
  - (* a is the head *)
    destruct (f x) eqn:Ef; cbn [map] in *.
    + apply before_here. destruct Hbb as [Hbb|Hbb]; [exfalso; apply Hn; rewrite Hbb; exact Hin|exact Hbb].
    + exfalso. apply Hn. eapply keys_filter_in; exact Ha.
  - assert (Han : a <> fst x) by (intros ->; apply Hn; eapply before_in_l; eauto).
    assert (Hbn : b <> fst x) by (intros ->; apply Hn; eapply before_in_r; eauto).
    destruct (f x); cbn [map] in *.
    + apply before_skip. apply IH; auto; [destruct Ha as [Ha|Ha]; [congruence|exact Ha]|destruct Hbb as [Hbb|Hbb]; [congruence|exact Hbb]].
    + apply IH; auto.
Qed.

Theorem no_run_goes_through_a_link cfg S D ans bits ls ld ft :
  valid_listing S ls -> valid_listing (d_fs D) ld ->
  parents_first (lkeys (side_listing S ls)) -> parents_first (lkeys (side_listing (d_fs D) ld)) ->
  wf_fs (d_fs D) -> no_through (d_events D) ->
  no_through (d_events (r_dest (sync_one cfg S D ans bits ls ld ft))).
Proof.
  intros HvS HvD HpfS HpfD HwD Hnt0. unfold Sync.sync_one, fail_result.
  destruct (side_listing_spec now_z incl normalize S ls HvS) as (HndS & HeS & HkS).
  destruct (side_listing_spec now_z incl normalize (d_fs D) ld HvD) as (HndD & HeD & HkD).
  set (Ls := side_listing S ls) in *. set (Ld := side_listing (d_fs D) ld) in *.
  unfold Mirror.side_listing in Ls, Ld.
  destruct (fget S []) as [sn|] eqn:ErS; [|exact Hnt0].
  match goal with |- context [match ?g with inl _ => _ | inr _ => _ end] => destruct g as [[ans1 np1]|[[|] np]] end;
    try exact Hnt0.
  match goal with |- context [actions_of ?d ?s ?a] => set (arr := a); set (ss := s) end.
  assert (Hsrcs : srcs path entry arr = Ls).
  { unfold arr, Ls. rewrite srcs_cons_src. f_equal. rewrite srcs_app_c.
    match goal with |- context [interleave bits ?a ?b] => destruct (interleave_projections bits a b) as [I1 _]; rewrite I1 end.
    destruct (option_map entry_of (fget (d_fs D) [])); cbn; destruct sn; reflexivity. }
  assert (Hdests : dests path entry arr = Ld).
  { unfold arr, Ld. rewrite dests_cons_src, dests_app_c.
    match goal with |- context [interleave bits ?a ?b] => destruct (interleave_projections bits a b) as [_ I2]; rewrite I2 end.
    destruct (fget (d_fs D) []) as [[| |]|]; reflexivity. }
  rewrite (actions_of_spec (cf_diff cfg) ss arr) by (rewrite ?Hsrcs, ?Hdests; assumption).
  rewrite Hsrcs, Hdests.
  set (acts := plan_spec (cf_diff cfg) ss Ls Ld).
  set (pre := match option_map entry_of (fget (d_fs D) []) with None => if cf_dry cfg then [] else [DestCmd CCreateRootAncestors] | Some _ => [] end).
  set (r0 := mkR D _ _ [] false 0 0 None).
  set (r1 := run_steps (cf_fl cfg) ft r0 pre).
  (* after the pre step *)
  assert (Hst1 : d_fs (rs_d r1) = d_fs D /\
                 (d_events (rs_d r1) = d_events D \/ d_events (rs_d r1) = d_events D ++ [CreatedAncestors])).
  { unfold r1, pre. destruct (option_map entry_of (fget (d_fs D) [])); [|destruct (cf_dry cfg)];
      try (cbn [run_steps fold_left]; split; [reflexivity|left; reflexivity]).
    change (run_steps (cf_fl cfg) ft r0 [DestCmd CCreateRootAncestors]) with (run_step (cf_fl cfg) ft r0 (DestCmd CCreateRootAncestors)).
    destruct (pre_step (cf_fl cfg) ft r0) as (P1 & P2 & _). split; [exact P1|exact P2]. }
  destruct Hst1 as (Hfs1 & Hev1).
  assert (Hnt1 : no_through (d_events (rs_d r1))).
  { destruct Hev1 as [-> | ->]; [exact Hnt0|apply no_through_snoc_anc; exact Hnt0]. }
  destruct (confirm (cf_b cfg) ans1 acts) as [|acts' skipped b2 a2 np2] eqn:Ec; [exact Hnt1|].
  destruct (cf_dry cfg) eqn:Edry; [exact Hnt1|].
  cbn [r_dest].
  (* what the confirmation left of the plan *)
  unfold confirm in Ec.
  destruct (confirm_deletes (b_entry (cf_b cfg)) ans1 (a_delete acts) []) as [[[[rmd be] ansd] nd]|] eqn:Ecd; [|discriminate].
  set (kept := kept_in_the_way rmd (a_delete acts)) in *.
  set (copies1 := filter (not_blocked kept) (a_copy acts)) in *.
  destruct (confirm_copies _ ansd copies1 nd) as [[[[rmc bc] ansc] nc]|] eqn:Ecc; [|discriminate].
  inversion Ec; subst acts' skipped b2 a2 np2. clear Ec. cbn [a_delete a_copy].
  set (dl' := remove_paths rmd (a_delete acts)). set (cl' := remove_paths rmc copies1).
  (* ---- the static facts of the plan ---- *)
  assert (NdD0 : NoDup (map fst (a_delete acts))) by (apply nodup_delete_keys; auto).
  assert (NdC0 : NoDup (map fst (a_copy acts))) by (apply nodup_copy_keys; auto).
  assert (NdD : NoDup (map fst dl')) by (apply nodup_keys_filter; exact NdD0).
  assert (NdC : NoDup (map fst cl')) by (apply nodup_keys_filter; apply nodup_keys_filter; exact NdC0).
  assert (Hcl_sub : forall x, In x cl' -> In x (a_copy acts) /\ not_blocked kept x = true).
  { intros x Hx. apply remove_paths_in in Hx as [Hx _]. apply filter_In in Hx. exact Hx. }
  assert (HinS : forall q, In q (lkeys Ls) -> exists n, fget S q = Some n /\ In (q, entry_of n) Ls).
  { intros q Hq. apply in_map_iff in Hq as ([q' e] & <- & Hin). destruct (HeS _ _ Hin) as (n & En & ->). eauto. }
  assert (HinD : forall q, In q (lkeys Ld) -> exists n, fget (d_fs D) q = Some n /\ In (q, entry_of n) Ld).
  { intros q Hq. apply in_map_iff in Hq as ([q' e] & <- & Hin). destruct (HeD _ _ Hin) as (n & En & ->). eauto. }
  assert (HdD : forall q, In q (map fst (a_delete acts)) -> In q (lkeys Ld)).
  { intros q Hq. unfold acts in Hq. cbn [plan_spec a_delete] in Hq. rewrite map_rev in Hq. apply in_rev in Hq.
    eapply subseq_in; [apply keys_delete_subseq | exact Hq]. }
  (* a destination link at a path where the source has something else is deleted for that reason *)
  assert (Hway : forall q es t k, takes_part S q -> In (q, es) Ls -> (forall k' t', es <> ESymlink k' t') ->
                   fget (d_fs D) q = Some (NLink t k) -> In (q, (entry_of (NLink t k), Incompatible)) (a_delete acts)).
  { intros q es t k HtS HinLs Hnl Hlink.
    assert (HtpD : takes_part (d_fs D) q).
    { destruct q as [|c q']; [left; reflexivity|]. right.
      assert (HrD : fget (d_fs D) [] = Some NFolder) by (apply (HwD _ _ Hlink); apply nil_strict_prefix; discriminate).
      split; [exact HrD|].
      destruct HtS as [Hx|[_ HvS']]; [discriminate|]. apply visible_iff in HvS' as (_ & Hi & Hpre).
      apply visible_iff. split; [discriminate|]. split; [exact Hi|].
      intros q2 Hq1 Hq2. split; [apply (Hpre q2 Hq1 Hq2)|apply (HwD _ _ Hlink); exact Hq2]. }
    assert (HpD : In q (lkeys Ld)) by (apply HkD; split; [exact HtpD|congruence]).
    destruct (HinD q HpD) as (nd0 & EnD & HinLd). rewrite Hlink in EnD. inversion EnD; subst nd0.
    apply in_delete_iff. split; [exact HinLd|].
    unfold delete_dec, delete_decision. rewrite (alookup_in Ls q es HndS HinLs).
    assert (Hnd : needs_delete (cf_diff cfg) es (entry_of (NLink t k)) = true).
    { cbn [Fs.entry_of]. destruct es as [mt sz| |k' t']; [reflexivity|reflexivity|exfalso; eapply Hnl; reflexivity]. }
    rewrite Hnd. left; reflexivity. }
  (* ... and if the user kept it, nothing at or below it is copied (the F6a repair) *)
  assert (Hway' : forall p e r q es t k, In (p, (e, r)) cl' -> is_prefix q p = true -> takes_part S q -> In (q, es) Ls ->
                    (forall k' t', es <> ESymlink k' t') -> fget (d_fs D) q = Some (NLink t k) -> In q (map fst dl')).
  { intros p e r q es t k Hin Hqp HtS HinLs Hnl Hlink.
    pose proof (Hway q es t k HtS HinLs Hnl Hlink) as Hd.
    change q with (fst (q, (entry_of (NLink t k), Incompatible))). apply in_map. apply remove_paths_in. split; [exact Hd|].
    cbn [fst]. intros Hrm. destruct (Hcl_sub _ Hin) as [_ Hnb]. unfold not_blocked in Hnb. apply negb_true_iff in Hnb.
    assert (Hex : existsb (fun k0 => is_prefix k0 (fst (p, (e, r)))) kept = true); [|congruence].
    apply existsb_exists. exists q. split; [|exact Hqp].
    unfold kept, kept_in_the_way. change q with (fst (q, (entry_of (NLink t k), Incompatible))). apply in_map.
    apply filter_In. split; [exact Hd|]. cbn [fst snd]. apply andb_true_iff. split; [|reflexivity].
    apply existsb_exists. exists q. split; [exact Hrm|]. unfold path_eqb. destruct (path_eq_dec q q); [reflexivity|congruence]. }
  assert (Hsrc_of : forall p e r, In (p, (e, r)) cl' -> In (p, e) Ls /\ takes_part S p).
  { intros p e r Hin. destruct (Hcl_sub _ Hin) as [Hin0 _]. apply in_copy_iff in Hin0 as [HinLs _]. split; [exact HinLs|].
    assert (HpS : In p (lkeys Ls)) by (change p with (fst (p, e)); apply in_map; exact HinLs).
    apply (proj1 (HkS p) HpS). }
  assert (Hpre_of : forall p e r q, In (p, (e, r)) cl' -> is_strict_prefix q p = true ->
                      takes_part S q /\ In (q, EFolder) Ls).
  { intros p e r q Hin Hq. destruct (Hsrc_of p e r Hin) as [HinLs HtpS].
    assert (Hpne : p <> []) by (intros ->; destruct q; discriminate).
    destruct (prefixes_of_visible incl S p q HtpS Hpne Hq) as [HfqS HtqS]. split; [exact HtqS|].
    assert (HqS : In q (lkeys Ls)) by (apply HkS; split; [exact HtqS|congruence]).
    destruct (HinS q HqS) as (nq & Enq & HinLq). rewrite HfqS in Enq. inversion Enq; subst nq. exact HinLq. }
  assert (C1 : forall p e r q t k, In (p, (e, r)) cl' -> is_strict_prefix q p = true ->
                 fget (d_fs D) q = Some (NLink t k) -> In q (map fst dl')).
  { intros p e r q t k Hin Hq Hl. destruct (Hpre_of p e r q Hin Hq) as [HtqS HinLq].
    apply (Hway' p e r q EFolder t k Hin (strict_is_prefix q p Hq) HtqS HinLq); [discriminate|exact Hl]. }
  assert (C2 : forall p e r q k t rr, In (p, (e, r)) cl' -> is_strict_prefix q p = true ->
                 ~ In (q, (ESymlink k t, rr)) cl').
  { intros p e r q k t rr Hin Hq Hbad. destruct (Hpre_of p e r q Hin Hq) as [_ HinLq].
    destruct (Hcl_sub _ Hbad) as [Hbad0 _]. apply in_copy_iff in Hbad0 as [HbadLs _].
    pose proof (alookup_in Ls q EFolder HndS HinLq) as A1. rewrite (alookup_in Ls q (ESymlink k t) HndS HbadLs) in A1. discriminate. }
  assert (C3 : forall p mt sz r t k, In (p, (EFile mt sz, r)) cl' -> fget (d_fs D) p = Some (NLink t k) ->
                 In p (map fst dl')).
  { intros p mt sz r t k Hin Hl. destruct (Hsrc_of p _ r Hin) as [HinLs HtpS].
    apply (Hway' p _ r p (EFile mt sz) t k Hin (is_prefix_refl p) HtpS HinLs); [discriminate|exact Hl]. }
  (* ---- the delete phase ---- *)
  unfold Sync.exec_steps. cbn [a_delete a_copy]. fold dl' cl'. rewrite run_steps_app.
  assert (HinvD : DelInv r1 dl').
  { intros p Hp Hpne q Hq. rewrite Hfs1.
    assert (Hp0 : In p (map fst (a_delete acts))) by (eapply keys_filter_in; exact Hp).
    destruct (proj1 (HkD p) (HdD p Hp0)) as [Htp _].
    destruct (prefixes_of_visible incl (d_fs D) p q Htp Hpne Hq) as [Hfq _]. split; [exact Hfq|].
    intros Hqin. assert (Hq0 : In q (map fst (a_delete acts))) by (eapply keys_filter_in; exact Hqin).
    apply before_filter; auto. apply (delete_order (cf_diff cfg) ss Ls Ld HndD HpfD q p Hq0 Hp0 Hq). }
  assert (HL1 : LInv ft (d_fs D) r1 [] cl').
  { intros q t k Hl. rewrite Hfs1 in Hl. right; right; left. split; [exact Hl|intros []]. }
  destruct (delete_phase (cf_fl cfg) ft (d_fs D) dl' r1 [] cl' NdD HinvD HL1) as (proc' & Hproc & E2 & L2 & _).
  set (r2 := run_steps (cf_fl cfg) ft r1 (map (fun e => DestCmd (delete_cmd e)) dl')) in *.
  (* ---- the copy phase ---- *)
  assert (Hbel : forall s, In s (flat_map (copy_steps chunker S) cl') -> belongs cl' s).
  { intros s Hs. apply in_flat_map in Hs as (e & He & Hs). eapply copy_steps_belong; eauto. }
  destruct (copy_steps_all (cf_fl cfg) ft (d_fs D) dl' cl' proc'
              (fun q Hq => proj2 (Hproc q) (or_introl Hq)) NdC C1 C2 C3 _ Hbel r2 L2) as [E3 _].
  change (no_through (d_events (rs_d (run_steps (cf_fl cfg) ft r2 (flat_map (copy_steps chunker S) cl'))))).
  rewrite E3, E2. exact Hnt1.
Qed.

End AllRuns.
