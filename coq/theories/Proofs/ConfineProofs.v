(* C02 / C12: the source doer is only asked to read; an effect can leave the destination only
   through an existing destination symlink; symlinks are leaves of every listing. *)
From RJ Require Import Base.Prelude Base.OrderedPlan Model.Settings Model.Core Model.Fs Model.Sync
  Spec.PlanSpec Spec.Mirror Proofs.FsProofs Proofs.SyncProofs Proofs.DryProofs Proofs.ExecProofs Proofs.PathLemmas
  Proofs.MirrorProofs Proofs.QuietProofs.

(* ---- the source trace ---- *)
Lemma do_step_src fl ft r s : exists l, rs_src (do_step fl ft r s) = rs_src r ++ l /\ Forall (fun c => read_only c = true) l.
Proof.
  unfold do_step. destruct s as [c|p].
  - exists []. destruct (snd _); cbn [rs_src]; rewrite app_nil_r; split; auto.
  - exists [CGetFileContent p]. cbn [rs_src]. split; [reflexivity|]. constructor; [reflexivity|constructor].
Qed.
Lemma run_steps_src fl ft steps : forall r,
  exists l, rs_src (run_steps fl ft r steps) = rs_src r ++ l /\ Forall (fun c => read_only c = true) l.
Proof.
  induction steps as [|s steps IH]; intros r; cbn [run_steps fold_left].
  - exists []. rewrite app_nil_r. split; auto.
  - assert (H1 : exists l, rs_src (run_step fl ft r s) = rs_src r ++ l /\ Forall (fun c => read_only c = true) l).
    { unfold run_step. destruct (rs_srcfail r); [exists []; rewrite app_nil_r; split; auto|].
      destruct (rs_budget r) as [[|n]|]; try apply do_step_src. exists []; rewrite app_nil_r; split; auto. }
    destruct H1 as (l1 & E1 & F1). destruct (IH (run_step fl ft r s)) as (l2 & E2 & F2).
    exists (l1 ++ l2). unfold run_steps in *. rewrite E2, E1, app_assoc. split; [reflexivity|]. apply Forall_app. auto.
Qed.

Section Confine.
Variable now_z : N -> Z.
Variable normalize : str -> target.
Variable chunker : str -> list str.
Notation sync_one := (sync_one now_z normalize chunker).
Notation entry_of := (entry_of now_z normalize).

(* Whatever the arguments, outcome, prompt answers or faults: the source doer is only ever asked to
   report its root, list entries and read file contents. *)
Theorem source_only_read cfg S D ans bits ls ld ft :
  Forall (fun c => read_only c = true) (r_src_trace (sync_one cfg S D ans bits ls ld ft)).
Proof.
  unfold Sync.sync_one.
  assert (H0 : forall x : entry, Forall (fun c => read_only c = true) (CSetRoot :: match x with EFolder => [CGetEntries] | _ => [] end)).
  { intros x. constructor; [reflexivity|]. destruct x; repeat constructor. }
  assert (H1 : Forall (fun c => read_only c = true) [CSetRoot]) by (repeat constructor).
  destruct (fget S []) as [sn|]; [|exact H1].
  match goal with |- context [match ?g with inl _ => _ | inr _ => _ end] => destruct g as [[ans1 np1]|[[|] np]] end;
    try exact H1.
  set (r0 := mkR D _ _ [] false 0 0 None).
  match goal with |- context [run_steps ?fl ft r0 ?pre] => destruct (run_steps_src fl ft pre r0) as (l1 & E1 & F1); set (r1 := run_steps fl ft r0 pre) in * end.
  assert (Hr1 : Forall (fun c => read_only c = true) (rs_src r1)).
  { rewrite E1. apply Forall_app. split; [apply H0|exact F1]. }
  match goal with |- context [actions_of ?d ?s ?a] => destruct (actions_of d s a) as [acts|] end; [|exact Hr1].
  match goal with |- context [confirm ?b ?a ?x] => destruct (confirm b a x) as [|acts' skipped b2 a2 np2] end; [exact Hr1|].
  destruct (cf_dry cfg); [exact Hr1|]. cbn [r_src_trace].
  destruct (run_steps_src (cf_fl cfg) ft (exec_steps chunker S acts') r1) as (l2 & E2 & F2).
  rewrite E2. apply Forall_app. split; assumption.
Qed.

End Confine.

(* ---- an effect leaves the tree only through an existing symlink ---- *)
Lemma check_above_through f : forall rest pre q,
  check_above f pre rest = PRThrough q -> exists t, fget f q = Some (NLink t SKFolder).
Proof.
  induction rest as [|c rest IH]; intros pre q H; cbn [check_above] in H; [discriminate|].
  destruct rest as [|c1 rest].
  - destruct (fget f pre) as [[m d| |t [| |]]|] eqn:E; inversion H; subst. eauto.
  - destruct (fget f pre) as [[m d| |t [| |]]|] eqn:E; try discriminate.
    + eapply IH; eauto.
    + inversion H; subst. eauto.
Qed.

Lemma resolve_above_through st p q : resolve_above st p = PRThrough q -> exists t, fget (d_fs st) q = Some (NLink t SKFolder).
Proof.
  unfold resolve_above. destruct p as [|c p]; [destruct (d_anc st); discriminate|]. apply check_above_through.
Qed.

Theorem through_needs_link fl st c q :
  In (Through q) (skipn (length (d_events st)) (d_events (fst (doer_exec fl st c)))) ->
  exists t k, fget (d_fs st) q = Some (NLink t k).
Proof.
  destruct (doer_exec fl st c) as [st' e] eqn:H. cbn [fst].
  assert (Hskip : forall l, skipn (length (d_events st)) (d_events st ++ l) = l).
  { intros l. rewrite skipn_app, skipn_all, Nat.sub_diag. reflexivity. }
  destruct c; cbn [doer_exec] in H; unfold open_for_write, write_chunk, stamp_file in H;
    repeat (break_match_hyp H; try discriminate); inv_pair H; dsimpl;
    rewrite ?Hskip, ?skipn_all; cbn [In];
    try (intros []; fail); try (intros [Hq|[]]; try discriminate; inversion Hq; subst).
  all: try (match goal with Hr : resolve_above _ _ = PRThrough _ |- _ => apply resolve_above_through in Hr as (t0 & Hr); eauto end).
  all: eauto.
Qed.

(* ---- symlinks are leaves: nothing below a symlink is ever visible, hence never listed ---- *)
Lemma visible_no_link_above incl f p q t k :
  q <> [] -> visible incl f p = true -> is_strict_prefix q p = true -> fget f q = Some (NLink t k) -> False.
Proof.
  intros Hqne Hv Hq Hl. apply visible_iff in Hv as (Hp & _ & Hpre).
  destruct (Hpre q Hqne Hq) as [_ Hf]. congruence.
Qed.

(* ---- when is a link re-created? ---- *)
Lemma needs_delete_links diff ks ts kd td :
  needs_delete diff (ESymlink ks ts) (ESymlink kd td) = true <->
  ts <> td \/ (diff = true /\ ks <> kd).
Proof.
  cbn [needs_delete]. destruct (target_eqb ts td) eqn:Et; cbn [negb].
  - assert (ts = td) by (destruct ts, td; cbn in Et; try discriminate; apply str_eqb_eq in Et; congruence). subst td.
    destruct (skind_eqb ks kd) eqn:Ek; cbn [negb andb].
    + assert (ks = kd) by (destruct ks, kd; cbn in Ek; try discriminate; reflexivity). subst kd.
      split; [discriminate|]. intros [H|[_ H]]; congruence.
    + assert (ks <> kd) by (intros ->; destruct kd; discriminate).
      destruct diff; split; auto; try discriminate. intros [H'|[H' _]]; congruence.
  - split; [|reflexivity]. intros _. left. intros ->.
    destruct td; cbn in Et; rewrite str_eqb_refl in Et; discriminate.
Qed.

(* ---- deleting a symlink removes the link and nothing else ---- *)
Lemma delete_symlink_only_link fl st p k st' e :
  doer_exec fl st (CDeleteSymlink p k) = (st', e) ->
  (forall q, q <> p -> fget (d_fs st') q = fget (d_fs st) q) /\
  (QuietProofs.quiet_at st p -> d_events st' = d_events st).
Proof.
  intros H. split.
  - intros q Hq. eapply doer_exec_frame; eauto. cbn. congruence.
  - intros Hqa. pose proof (QuietProofs.delete_quiet fl st (CDeleteSymlink p k) p) as X.
    rewrite H in X. cbn [fst] in X. apply X; [right; right; eauto|exact Hqa].
Qed.
