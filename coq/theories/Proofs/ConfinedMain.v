(* C02 / C12 main theorem: a sync whose commands all succeed and that skips nothing never reaches
   outside the destination: no Through event is logged (so the no_through premise of the mirror
   theorem is discharged for such runs). *)
From RJ Require Import Base.Prelude Base.OrderedPlan Model.Settings Model.Core Model.Fs Model.Sync
  Spec.PlanSpec Spec.Mirror Proofs.PlanCProofs Proofs.FsProofs Proofs.SyncProofs Proofs.DryProofs Proofs.ExecProofs
  Proofs.PathLemmas Proofs.MirrorProofs Proofs.QuietProofs.

Section ConfinedMain.
Variable now_z : N -> Z.
Variable incl : path -> bool.
Variable normalize : str -> target.
Variable chunker : str -> list str.
Hypothesis chunker_ok : forall d, chunker d <> [] /\ concat (chunker d) = d.

Notation entry_of := (entry_of now_z normalize).
Notation valid_listing := (valid_listing now_z incl normalize).
Notation side_listing := (side_listing now_z normalize).
Notation takes_part := (takes_part incl).
Notation sync_one := (sync_one now_z normalize chunker).

Lemma no_through_snoc_anc l : no_through l -> no_through (l ++ [CreatedAncestors]).
Proof. intros H. apply no_through_app. split; [exact H|reflexivity]. Qed.

(* strict prefixes of a path that takes part are folders that take part *)
Lemma prefixes_of_visible f p q :
  takes_part f p -> p <> [] -> is_strict_prefix q p = true ->
  fget f q = Some NFolder /\ takes_part f q.
Proof.
  intros [->|[Hr Hv]] Hp Hq; [congruence|].
  apply visible_iff in Hv as (_ & Hi & Hpre).
  destruct q as [|c q']; [split; [exact Hr|left; reflexivity]|].
  destruct (Hpre (c :: q') ltac:(discriminate) Hq) as [Hiq Hfq]. split; [exact Hfq|].
  right. split; [exact Hr|]. apply visible_iff. split; [discriminate|]. split; [exact Hiq|].
  intros q2 Hq2 Hs2. apply Hpre; [exact Hq2|]. eapply strict_prefix_trans; eauto.
Qed.

Theorem clean_run_confined cfg S D ans bits ls ld ft :
  valid_listing S ls -> valid_listing (d_fs D) ld ->
  parents_first (lkeys (side_listing S ls)) -> parents_first (lkeys (side_listing (d_fs D) ld)) ->
  wf_fs (d_fs D) -> d_open D = None -> no_through (d_events D) ->
  let r := sync_one cfg S D ans bits ls ld ft in
  r_ok r = true -> r_skipped r = [] -> r_root_skipped r = false -> cf_dry cfg = false ->
  no_through (d_events (r_dest r)).
Proof.
  intros HvS HvD HpfS HpfD HwD Hopen Hnt0. cbv zeta. intros Hok Hsk Hrs Hdry.
  destruct (sync_success_shape now_z incl normalize chunker cfg S D ans bits ls ld ft HvS HvD Hopen Hok Hsk Hrs Hdry)
    as (stP & Hroot & Hfs1 & Hop1 & Hev1 & X2 & Ad & Ac).
  destruct (side_listing_spec now_z incl normalize S ls HvS) as (HndS & HeS & HkS).
  destruct (side_listing_spec now_z incl normalize (d_fs D) ld HvD) as (HndD & HeD & HkD).
  set (Ls := side_listing S ls) in *. set (Ld := side_listing (d_fs D) ld) in *.
  set (ss := beh_eqb (b_same (cf_b cfg)) BSkip) in *.
  set (acts := plan_spec (cf_diff cfg) ss Ls Ld) in *.
  set (stD := exec_all (cf_fl cfg) stP (map delete_cmd (a_delete acts))) in *.
  assert (HntP : no_through (d_events stP)).
  { destruct Hev1 as [-> | ->]; [exact Hnt0|apply no_through_snoc_anc; exact Hnt0]. }
  assert (NdD : NoDup (map fst (a_delete acts))) by (apply nodup_delete_keys; auto).
  assert (NdC : NoDup (map fst (a_copy acts))) by (apply nodup_copy_keys; auto).
  assert (HinS : forall q, In q (lkeys Ls) -> exists n, fget S q = Some n /\ In (q, entry_of n) Ls).
  { intros q Hq. apply in_map_iff in Hq as ([q' e] & <- & Hin). destruct (HeS _ _ Hin) as (n & En & ->). eauto. }
  assert (HinD : forall q, In q (lkeys Ld) -> exists n, fget (d_fs D) q = Some n /\ In (q, entry_of n) Ld).
  { intros q Hq. apply in_map_iff in Hq as ([q' e] & <- & Hin). destruct (HeD _ _ Hin) as (n & En & ->). eauto. }
  assert (HdD : forall q, In q (map fst (a_delete acts)) -> In q (lkeys Ld)).
  { intros q Hq. unfold acts in Hq. cbn [plan_spec a_delete] in Hq. rewrite map_rev in Hq. apply in_rev in Hq.
    eapply subseq_in; [apply keys_delete_subseq | exact Hq]. }
  assert (HcS : forall q, In q (map fst (a_copy acts)) -> In q (lkeys Ls)).
  { intros q Hq. eapply subseq_in; [apply keys_copy_subseq | exact Hq]. }
  (* ---- delete phase ---- *)
  assert (HinvD : deletes_invariant stP (a_delete acts)).
  { intros p Hp Hpne q Hq. rewrite Hfs1.
    destruct (proj1 (HkD p) (HdD p Hp)) as [Htp _].
    destruct (prefixes_of_visible (d_fs D) p q Htp Hpne Hq) as [Hfq _]. split; [exact Hfq|].
    intros Hqin. apply (delete_order (cf_diff cfg) ss Ls Ld HndD HpfD q p Hqin Hp Hq). }
  assert (EvD : d_events stD = d_events stP) by (apply deletes_quiet; assumption).
  assert (HntD : no_through (d_events stD)) by (rewrite EvD; exact HntP).
  destruct (deletes_effect (cf_fl cfg) (a_delete acts) stP NdD Ad HntD) as (D1 & D2 & D3).
  fold stD in D1, D2, D3.
  assert (HopD : d_open stD = None) by (rewrite D3; exact Hop1).
  assert (Hfl : forall p e r, In (p, (e, r)) (a_copy acts) -> file_listed S p e).
  { intros p e r Hin. apply in_copy_iff in Hin as [Hin _]. destruct (HeS _ _ Hin) as (n & En & ->).
    destruct n; cbn; auto. eexists; eexists; eauto. }
  (* ---- copy phase ---- *)
  assert (HinvC : copies_invariant stD (a_copy acts)).
  { intros p e r Hin. apply in_copy_iff in Hin as Hin'. destruct Hin' as [HinLs Hdec].
    assert (HpS : In p (lkeys Ls)) by (change p with (fst (p, e)); apply in_map; exact HinLs).
    destruct (proj1 (HkS p) HpS) as [HtpS _].
    split.
    - intros Hpne q Hq.
      destruct (prefixes_of_visible S p q HtpS Hpne Hq) as [HfqS HtqS].
      assert (HqS : In q (lkeys Ls)) by (apply HkS; split; [exact HtqS|congruence]).
      destruct (HinS q HqS) as (nq & Enq & HinLq). rewrite HfqS in Enq. inversion Enq; subst nq. cbn [Fs.entry_of] in HinLq.
      destruct (in_dec path_eq_dec q (map fst (a_copy acts))) as [Hqc|Hqc].
      + right. split.
        * apply in_map_iff in Hqc as ([q' [eq rq]] & Hq' & Hqin). cbn [fst] in Hq'. subst q'.
          apply in_copy_iff in Hqin as Hx. destruct Hx as [HqL _].
          assert (eq = EFolder) by (pose proof (alookup_in Ls q eq HndS HqL) as A1; rewrite (alookup_in Ls q EFolder HndS HinLq) in A1; congruence).
          subst eq. exists rq. exact Hqin.
        * apply (copy_order (cf_diff cfg) ss Ls Ld HndS HpfS q p Hqc); [|exact Hq].
          change p with (fst (p, (e, r))). apply in_map. exact Hin.
      + left. split; [|exact Hqc].
        (* q is not copied: it is an up-to-date folder of the destination, hence not deleted either *)
        assert (Hdecq : copy_dec (cf_diff cfg) ss Ld (q, EFolder) = []).
        { destruct (copy_dec (cf_diff cfg) ss Ld (q, EFolder)) as [|x l] eqn:Ed; [reflexivity|]. exfalso. apply Hqc.
          assert (In x (a_copy acts)).
          { unfold acts. cbn [plan_spec a_copy]. apply in_flat_map. exists (q, EFolder). split; [exact HinLq|rewrite Ed; left; reflexivity]. }
          destruct x as [qx [ex rx]]. assert (qx = q).
          { unfold copy_dec, copy_decision in Ed. destruct (alookup _ _ _ _) as [d|]; [destruct (needs_delete _ _ _); [|destruct (needs_copy _ _ _)]|]; inversion Ed; reflexivity. }
          subst qx. change q with (fst (q, (ex, rx))). apply in_map. assumption. }
        unfold copy_dec, copy_decision in Hdecq.
        destruct (alookup path path_eq_dec q Ld) as [ed|] eqn:HaD; [|discriminate].
        destruct (needs_delete (cf_diff cfg) EFolder ed) eqn:Hnd; [discriminate|].
        apply alookup_some_in in HaD as HinLd. destruct (HeD _ _ HinLd) as (nd & EnD & ->).
        assert (nd = NFolder) by (destruct nd; cbn in Hnd; try discriminate; reflexivity). subst nd.
        assert (Hnodel : ~ In q (map fst (a_delete acts))).
        { intros Hqd. apply in_map_iff in Hqd as ([q' [ed rd]] & Hq' & Hqd). cbn [fst] in Hq'. subst q'.
          apply in_delete_iff in Hqd as [Hqd1 Hqd2]. unfold delete_dec, delete_decision in Hqd2.
          rewrite (alookup_in Ls q EFolder HndS HinLq) in Hqd2.
          assert (ed = EFolder) by (pose proof (alookup_in Ld q ed HndD Hqd1) as A1; rewrite (alookup_in Ld q (entry_of NFolder) HndD HinLd) in A1; cbn in A1; congruence).
          subst ed. cbn in Hqd2. destruct Hqd2. }
        rewrite D2 by exact Hnodel. rewrite Hfs1. exact EnD.
    - destruct e as [mt sz| |k t]; auto. intros t k Hlink.
      (* a link at the place of a source file is listed (well-formed destination) and therefore deleted first *)
      destruct (in_dec path_eq_dec p (map fst (a_delete acts))) as [Hpd|Hpd]; [rewrite D1 in Hlink by exact Hpd; discriminate|].
      rewrite D2 in Hlink by exact Hpd. rewrite Hfs1 in Hlink.
      assert (HtpD : takes_part (d_fs D) p).
      { destruct p as [|c p']; [left; reflexivity|]. right.
        assert (HrD : fget (d_fs D) [] = Some NFolder) by (apply (HwD _ _ Hlink); apply nil_strict_prefix; discriminate).
        split; [exact HrD|].
        destruct HtpS as [Hx|[_ HvS']]; [discriminate|]. apply visible_iff in HvS' as (_ & Hi & Hpre).
        apply visible_iff. split; [discriminate|]. split; [exact Hi|].
        intros q Hq1 Hq2. split; [apply (Hpre q Hq1 Hq2)|apply (HwD _ _ Hlink); exact Hq2]. }
      assert (HpD : In p (lkeys Ld)) by (apply HkD; split; [exact HtpD|congruence]).
      destruct (HinD p HpD) as (nd & EnD & HinLd). rewrite Hlink in EnD. inversion EnD; subst nd.
      apply Hpd. change p with (fst (p, (entry_of (NLink t k), Incompatible))). apply in_map.
      apply in_delete_iff. split; [exact HinLd|].
      unfold delete_dec, delete_decision. rewrite (alookup_in Ls p (EFile mt sz) HndS HinLs). cbn. left; reflexivity. }
  assert (EvC : d_events (exec_all (cf_fl cfg) stD (dest_cmds (flat_map (copy_steps chunker S) (a_copy acts)))) = d_events stD).
  { apply (copies_quiet chunker chunker_ok); assumption. }
  rewrite X2. fold stD. rewrite EvC. exact HntD.
Qed.

End ConfinedMain.
