(* The confirmation pass: consent theorems (C03). *)
From RJ Require Import Base.Prelude Base.OrderedPlan Model.Settings Model.Core.

Definition act_answer (a : answer) : bool :=
  match a with AnsOnce true | AnsAll true => true | _ => false end.
Definition has_act (ans : list answer) : bool := existsb act_answer ans.

Lemma resolve_cases cur ans now cur' ans' shown :
  resolve cur ans = (now, cur', ans', shown) ->
  (cur <> BPrompt /\ now = cur /\ cur' = cur /\ ans' = ans /\ shown = false) \/
  (cur = BPrompt /\ shown = true /\
     ((ans = [] /\ now = BError /\ cur' = cur /\ ans' = []) \/
      (exists r, ans = AnsCancel :: r /\ now = BError /\ cur' = cur /\ ans' = r) \/
      (exists a r, ans = AnsOnce a :: r /\ now = beh_of_act a /\ cur' = cur /\ ans' = r) \/
      (exists a r, ans = AnsAll a :: r /\ now = beh_of_act a /\ cur' = beh_of_act a /\ ans' = r))).
Proof.
  unfold resolve. destruct cur; intros H.
  - right. split; [reflexivity|]. destruct ans as [|[a|a|] r]; inversion H; subst; split; try reflexivity.
    + left. repeat split; reflexivity.
    + right; right; left. eexists; eexists. repeat split; reflexivity.
    + right; right; right. eexists; eexists. repeat split; reflexivity.
    + right; left. eexists. repeat split; reflexivity.
  - left. inversion H; subst. repeat split; discriminate || reflexivity.
  - left. inversion H; subst. repeat split; discriminate || reflexivity.
  - left. inversion H; subst. repeat split; discriminate || reflexivity.
Qed.

Lemma has_act_cons a r : has_act r = true -> has_act (a :: r) = true.
Proof. unfold has_act; simpl. intros ->. apply orb_true_r. Qed.

(* what a resolution to "act" implies about the setting and the answers *)
Lemma resolve_act cur ans cur' ans' shown :
  resolve cur ans = (BAct, cur', ans', shown) ->
  cur = BAct \/ (cur = BPrompt /\ has_act ans = true).
Proof.
  intros H. destruct (resolve_cases _ _ _ _ _ _ H) as [(Hn & Hnow & _)|(Hc & _ & Hrest)].
  - left. congruence.
  - right. split; [exact Hc|].
    destruct Hrest as [(_ & Hnow & _)|[(r & _ & Hnow & _)|[(a & r & -> & Hnow & _)|(a & r & -> & Hnow & _)]]];
      try discriminate; destruct a; try discriminate; reflexivity.
Qed.

Lemma resolve_suffix_act cur ans now cur' ans' shown :
  resolve cur ans = (now, cur', ans', shown) -> has_act ans' = true -> has_act ans = true.
Proof.
  intros H Ha. destruct (resolve_cases _ _ _ _ _ _ H) as [(_ & _ & _ & -> & _)|(_ & _ & Hrest)]; auto.
  destruct Hrest as [(_ & _ & _ & ->)|[(r & -> & _ & _ & ->)|[(a & r & -> & _ & _ & ->)|(a & r & -> & _ & _ & ->)]]];
    try (cbn in Ha; discriminate); auto using has_act_cons.
Qed.

Lemma resolve_cur' cur ans now cur' ans' shown :
  resolve cur ans = (now, cur', ans', shown) ->
  cur' = cur \/ (cur = BPrompt /\ ((cur' = BAct /\ has_act ans = true) \/ cur' = BSkip)).
Proof.
  intros H. destruct (resolve_cases _ _ _ _ _ _ H) as [(_ & _ & -> & _)|(Hc & _ & Hrest)]; auto.
  destruct Hrest as [(_ & _ & -> & _)|[(r & _ & _ & -> & _)|[(a & r & _ & _ & -> & _)|(a & r & -> & _ & -> & _)]]]; auto.
  right. split; auto. destruct a; [left; split; reflexivity | right; reflexivity].
Qed.

(* ---- deletes ---- *)
Theorem confirm_deletes_consent l : forall b ans np rm b' ans' np',
  confirm_deletes b ans l np = Some (rm, b', ans', np') ->
  forall p, In p (map fst l) -> ~ In p rm -> b = BAct \/ (b = BPrompt /\ has_act ans = true).
Proof.
  induction l as [|[p0 v0] l IH]; intros b ans np rm b' ans' np' H p Hin Hnr; [contradiction|].
  cbn [confirm_deletes] in H.
  destruct (resolve b ans) as [[[now cur'] ans1] shown] eqn:ER.
  destruct now; try discriminate.
  - (* skip *)
    destruct (confirm_deletes cur' ans1 l _) as [[[[rm1 b1] a1] n1]|] eqn:E; [|discriminate].
    inversion H; subst. simpl in Hin. destruct Hin as [<-|Hin]; [exfalso; apply Hnr; left; reflexivity|].
    assert (Hnr1 : ~ In p rm1) by (intro; apply Hnr; right; assumption).
    destruct (IH _ _ _ _ _ _ _ E p Hin Hnr1) as [Hb|[Hb Ha]].
    + destruct (resolve_cur' _ _ _ _ _ _ ER) as [->|(Hc & [[_ Hact]|Hs])]; auto; congruence.
    + destruct (resolve_cur' _ _ _ _ _ _ ER) as [->|(Hc & [[Hc' _]|Hs])]; try congruence.
      right. split; auto. eapply resolve_suffix_act; eauto.
  - (* act *)
    simpl in Hin. destruct Hin as [<-|Hin].
    + eapply resolve_act; eauto.
    + destruct (IH _ _ _ _ _ _ _ H p Hin Hnr) as [Hb|[Hb Ha]].
      * destruct (resolve_cur' _ _ _ _ _ _ ER) as [->|(Hc & [[_ Hact]|Hs])]; auto; congruence.
      * destruct (resolve_cur' _ _ _ _ _ _ ER) as [->|(Hc & [[Hc' _]|Hs])]; try congruence.
        right. split; auto. eapply resolve_suffix_act; eauto.
Qed.

Theorem confirm_deletes_rm_subset l : forall b ans np rm b' ans' np',
  confirm_deletes b ans l np = Some (rm, b', ans', np') -> incl rm (map fst l).
Proof.
  induction l as [|[p0 v0] l IH]; intros b ans np rm b' ans' np' H; cbn [confirm_deletes] in H.
  - inversion H; subst. intros x [].
  - destruct (resolve b ans) as [[[now cur'] ans1] shown] eqn:ER. destruct now; try discriminate.
    + destruct (confirm_deletes cur' ans1 l _) as [[[[rm1 b1] a1] n1]|] eqn:E; [|discriminate].
      inversion H; subst. intros x [<-|Hx]; [left; reflexivity|right; eapply IH; eauto].
    + intros x Hx. right. eapply IH; eauto.
Qed.

(* error setting, or a cancelled / unattended prompt, on a non-empty list: the whole sync fails *)
Theorem confirm_deletes_error ans e l np : confirm_deletes BError ans (e :: l) np = None.
Proof. destruct e as [p v]. reflexivity. Qed.
Theorem confirm_deletes_unattended e l np : confirm_deletes BPrompt [] (e :: l) np = None.
Proof. destruct e as [p v]. reflexivity. Qed.
Theorem confirm_deletes_cancel ans e l np : confirm_deletes BPrompt (AnsCancel :: ans) (e :: l) np = None.
Proof. destruct e as [p v]. reflexivity. Qed.
Theorem confirm_deletes_skip_all l : forall ans np, confirm_deletes BSkip ans l np = Some (map fst l, BSkip, ans, np).
Proof. induction l as [|[p v] l IH]; intros; cbn [confirm_deletes resolve]; [reflexivity|]. rewrite IH. reflexivity. Qed.
Theorem confirm_deletes_act_all l : forall ans np, confirm_deletes BAct ans l np = Some ([], BAct, ans, np).
Proof. induction l as [|[p v] l IH]; intros; cbn [confirm_deletes resolve]; [reflexivity|]. apply IH. Qed.

(* ---- copies ---- *)
Lemma get_set_same b r v : r <> NotOnDest -> get_beh (set_beh b r v) r = v.
Proof. destruct r; intros H; try reflexivity. contradiction. Qed.
(* an "all occurrences" answer for one category never leaks into another *)
Lemma get_set_other b r r' v : r <> r' -> get_beh (set_beh b r v) r' = get_beh b r'.
Proof. destruct r, r'; intros H; try reflexivity; contradiction. Qed.
Lemma set_beh_entry b r v : b_entry (set_beh b r v) = b_entry b.
Proof. destruct r; reflexivity. Qed.

Definition creason_eq_dec (a b : creason) : {a = b} + {a <> b}.
Proof. decide equality. Defined.

Theorem confirm_copies_consent l : forall b ans np rm b' ans' np',
  confirm_copies b ans l np = Some (rm, b', ans', np') ->
  forall p e r, In (p, (e, r)) l -> ~ In p rm -> r <> NotOnDest ->
  get_beh b r = BAct \/ (get_beh b r = BPrompt /\ has_act ans = true).
Proof.
  induction l as [|[p0 [e0 r0]] l IH]; intros b ans np rm b' ans' np' H p e r Hin Hnr Hr; [contradiction|].
  cbn [confirm_copies] in H.
  destruct (creason_eq_dec r0 NotOnDest) as [->|Hr0].
  - destruct Hin as [Heq|Hin]; [inversion Heq; subst; contradiction|]. eapply IH; eauto.
  - assert (H' : (let '(now, cur', ans'0, shown) := resolve (get_beh b r0) ans in
               let b'0 := set_beh b r0 cur' in
               let np'0 := if shown then np ++ [PCopy p0 r0] else np in
               match now with
               | BError | BPrompt => None
               | BSkip => match confirm_copies b'0 ans'0 l np'0 with
                          | Some (rm0, b2, a2, n2) => Some (p0 :: rm0, b2, a2, n2) | None => None end
               | BAct => confirm_copies b'0 ans'0 l np'0
               end) = Some (rm, b', ans', np')) by (destruct r0; try contradiction; exact H).
    clear H. destruct (resolve (get_beh b r0) ans) as [[[now cur'] ans1] shown] eqn:ER.
    cbv beta iota zeta in H'.
    assert (Hrest : forall rm1 b1 a1 n1, confirm_copies (set_beh b r0 cur') ans1 l (if shown then np ++ [PCopy p0 r0] else np) = Some (rm1, b1, a1, n1) ->
                     In (p, (e, r)) l -> ~ In p rm1 ->
                     get_beh b r = BAct \/ (get_beh b r = BPrompt /\ has_act ans = true)).
    { intros rm1 b1 a1 n1 E Hin1 Hnr1.
      destruct (IH _ _ _ _ _ _ _ E p e r Hin1 Hnr1 Hr) as [Hb|[Hb Ha]].
      - destruct (creason_eq_dec r0 r) as [<-|Hne].
        + rewrite get_set_same in Hb by auto. subst cur'.
          destruct (resolve_cur' _ _ _ _ _ _ ER) as [Heq|(Hc & [[_ Hact]|Hs])]; auto; congruence.
        + rewrite get_set_other in Hb by auto. auto.
      - destruct (creason_eq_dec r0 r) as [<-|Hne].
        + rewrite get_set_same in Hb by auto. subst cur'.
          destruct (resolve_cur' _ _ _ _ _ _ ER) as [Heq|(Hc & [[Hc' _]|Hs])]; try congruence.
          right. split; [congruence|]. eapply resolve_suffix_act; eauto.
        + rewrite get_set_other in Hb by auto. right. split; auto. eapply resolve_suffix_act; eauto. }
    destruct now; try discriminate.
    + destruct (confirm_copies (set_beh b r0 cur') ans1 l _) as [[[[rm1 b1] a1] n1]|] eqn:E; [|discriminate].
      inversion H'; subst. destruct Hin as [Heq|Hin]; [inversion Heq; subst; exfalso; apply Hnr; left; reflexivity|].
      eapply Hrest; eauto. intro; apply Hnr; right; assumption.
    + destruct Hin as [Heq|Hin].
      * inversion Heq; subst. eapply resolve_act; eauto.
      * eapply Hrest; eauto.
Qed.

(* entries that need no confirmation are never removed *)
Theorem confirm_copies_keeps_new l : forall b ans np rm b' ans' np',
  confirm_copies b ans l np = Some (rm, b', ans', np') ->
  forall p, In p rm -> exists e r, In (p, (e, r)) l /\ r <> NotOnDest.
Proof.
  induction l as [|[p0 [e0 r0]] l IH]; intros b ans np rm b' ans' np' H p Hp; cbn [confirm_copies] in H.
  - inversion H; subst. contradiction.
  - destruct r0.
    + destruct (IH _ _ _ _ _ _ _ H p Hp) as (e & r & Hin & Hr). exists e, r. split; [right|]; auto.
    + destruct (resolve (get_beh b DestNewer) ans) as [[[now cur'] ans1] shown]. destruct now; try discriminate.
      * destruct (confirm_copies _ ans1 l _) as [[[[rm1 b1] a1] n1]|] eqn:E; [|discriminate]. inversion H; subst.
        destruct Hp as [<-|Hp]; [exists e0, DestNewer; split; [left; reflexivity|discriminate]|].
        destruct (IH _ _ _ _ _ _ _ E p Hp) as (e & r & Hin & Hr). exists e, r. split; [right|]; auto.
      * destruct (IH _ _ _ _ _ _ _ H p Hp) as (e & r & Hin & Hr). exists e, r. split; [right|]; auto.
    + destruct (resolve (get_beh b DestOlder) ans) as [[[now cur'] ans1] shown]. destruct now; try discriminate.
      * destruct (confirm_copies _ ans1 l _) as [[[[rm1 b1] a1] n1]|] eqn:E; [|discriminate]. inversion H; subst.
        destruct Hp as [<-|Hp]; [exists e0, DestOlder; split; [left; reflexivity|discriminate]|].
        destruct (IH _ _ _ _ _ _ _ E p Hp) as (e & r & Hin & Hr). exists e, r. split; [right|]; auto.
      * destruct (IH _ _ _ _ _ _ _ H p Hp) as (e & r & Hin & Hr). exists e, r. split; [right|]; auto.
    + destruct (resolve (get_beh b SameTime) ans) as [[[now cur'] ans1] shown]. destruct now; try discriminate.
      * destruct (confirm_copies _ ans1 l _) as [[[[rm1 b1] a1] n1]|] eqn:E; [|discriminate]. inversion H; subst.
        destruct Hp as [<-|Hp]; [exists e0, SameTime; split; [left; reflexivity|discriminate]|].
        destruct (IH _ _ _ _ _ _ _ E p Hp) as (e & r & Hin & Hr). exists e, r. split; [right|]; auto.
      * destruct (IH _ _ _ _ _ _ _ H p Hp) as (e & r & Hin & Hr). exists e, r. split; [right|]; auto.
Qed.

(* a plan that only creates new entries needs no confirmation at all: it cannot fail or prompt *)
Theorem confirm_new_only b ans a :
  a_delete a = [] -> Forall (fun e => snd (snd e) = NotOnDest) (a_copy a) ->
  confirm b ans a = CDone a [] b ans [].
Proof.
  intros Hd Hc. unfold confirm. rewrite Hd. cbn [confirm_deletes kept_in_the_way filter map].
  assert (Hnb : forall V (l : list (path * V)), filter (not_blocked []) l = l).
  { intros V l. induction l; cbn; auto. f_equal; auto. }
  rewrite Hnb.
  assert (E : forall l np bb, Forall (fun e => snd (snd e) = NotOnDest) l -> confirm_copies bb ans l np = Some ([], bb, ans, np)).
  { induction l as [|[p [e r]] l IH]; intros np bb HF; [reflexivity|].
    inversion HF; subst. cbn in H1. subst r. cbn [confirm_copies]. apply IH; auto. }
  rewrite E by auto. cbn [remove_paths app].
  assert (F : forall V (l : list (path * V)), filter (fun e => negb (existsb (path_eqb (fst e)) [])) l = l).
  { intros V l. induction l; simpl; auto. f_equal; auto. }
  unfold remove_paths. rewrite F. destruct a as [ad ac]; cbn in *. subst ad. rewrite F.
  destruct b; reflexivity.
Qed.
