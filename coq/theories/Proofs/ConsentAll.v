(* C03, end to end and for ALL runs: whenever an existing destination entry is no longer what it was - at the
   end of a run (successful or failed) or in any state a kill can leave behind - the consent of its category
   was configured or given: entry deletion for an entry that is gone or replaced, the newer / older / same-time
   setting of an existing file whose bytes or time changed.  Composition of C07's "only planned changes"
   (Proofs/TouchedProofs.v) with the confirmation theorems (Proofs/ConfirmProofs.v) and the plan facts. *)
From RJ Require Import Base.Prelude Base.OrderedPlan Model.Settings Model.Core Model.Fs Model.Sync
  Spec.PlanSpec Spec.Mirror Proofs.PlanCProofs Proofs.FsProofs Proofs.PathLemmas Proofs.ExecProofs Proofs.DryProofs
  Proofs.ConfirmProofs Proofs.SyncProofs Proofs.MirrorProofs Proofs.ConfineProofs Proofs.QuietProofs Proofs.BlockProofs
  Proofs.CrashProofs Proofs.CrashMain Proofs.TouchedProofs Proofs.ConfinedMain Proofs.ConfineAll.

Lemma confirm_deletes_suffix l : forall b ans np rm b' ans' np',
  confirm_deletes b ans l np = Some (rm, b', ans', np') -> has_act ans' = true -> has_act ans = true.
Proof.
  induction l as [|[p0 v0] l IH]; intros b ans np rm b' ans' np' H Ha; cbn [confirm_deletes] in H.
  - inversion H; subst. exact Ha.
  - destruct (resolve b ans) as [[[now cur'] ans1] shown] eqn:ER. destruct now; try discriminate.
    + destruct (confirm_deletes cur' ans1 l _) as [[[[rm1 b1] a1] n1]|] eqn:E; [|discriminate].
      inversion H; subst. apply (resolve_suffix_act _ _ _ _ _ _ ER). eapply IH; eauto.
    + apply (resolve_suffix_act _ _ _ _ _ _ ER). eapply IH; eauto.
Qed.

Lemma resolve_root_suffix cur ans b ans' shown : resolve_root cur ans = (b, ans', shown) -> has_act ans' = true -> has_act ans = true.
Proof.
  unfold resolve_root. destruct cur; try (intros H; inversion H; subst; auto; fail).
  destruct ans as [|[a|a|] r]; intros H Ha; inversion H; subst; auto using has_act_cons.
Qed.

Definition entry_consent (cfg : config) (ans : list answer) : Prop :=
  b_entry (cf_b cfg) = BAct \/ (b_entry (cf_b cfg) = BPrompt /\ has_act ans = true).
Definition overwrite_consent (cfg : config) (ans : list answer) : Prop :=
  exists r, r <> NotOnDest /\ (get_beh (cf_b cfg) r = BAct \/ (get_beh (cf_b cfg) r = BPrompt /\ has_act ans = true)).

Section ConsentAll.
Variable now_z : N -> Z.
Variable incl : path -> bool.
Variable normalize : str -> target.
Variable chunker : str -> list str.
Hypothesis chunker_ok : forall d, chunker d <> [] /\ concat (chunker d) = d.

Notation entry_of := (entry_of now_z normalize).
Notation valid_listing := (valid_listing now_z incl normalize).
Notation side_listing := (side_listing now_z normalize).
Notation takes_part := (takes_part incl).
Notation sync_one := (sync_one now_z normalize chunker).
Notation sync_plan := (sync_plan now_z normalize chunker).

(* which entry of the executed lists a command of the step list comes from *)
Lemma exec_steps_cmd S dl cl c :
  In (DestCmd c) (exec_steps chunker S (mkActions dl cl)) ->
  (exists e, In e dl /\ c = delete_cmd e) \/
  (exists p e r, In (p, (e, r)) cl /\ cmd_of_entry p e c).
Proof.
  unfold Sync.exec_steps. cbn [a_delete a_copy]. intros H. apply in_app_or in H as [H|H].
  - left. apply in_map_iff in H as (e & He & Hin). inversion He; subst. eauto.
  - right. apply in_flat_map in H as ([p [e r]] & Hin & Hs).
    destruct (copy_steps_belong chunker S cl (p, (e, r)) Hin _ Hs) as [(q & Hq)|(p' & e' & r' & c' & Hin' & Hc' & Hce)]; [discriminate|].
    inversion Hc'; subst c'. exists p', e', r'. split; assumption.
Qed.

Theorem consent_end_to_end cfg S D ans bits ls ld :
  valid_listing S ls -> valid_listing (d_fs D) ld -> wf_fs (d_fs D) -> d_open D = None ->
  let steps := snd (sync_plan cfg S D ans bits ls ld) in
  forall s, Touched (cf_fl cfg) S (d_fs D) (cmd_of_plan steps) (file_of_plan steps) s ->
  forall p n, fget (d_fs D) p = Some n -> fget (d_fs s) p <> Some n ->
    entry_consent cfg ans \/
    ((exists m d m' d', n = NFile m d /\ fget (d_fs s) p = Some (NFile m' d')) /\ overwrite_consent cfg ans).
Proof.
  intros HvS HvD HwD Hopen steps s HT p n HD Hch.
  destruct (side_listing_spec now_z incl normalize S ls HvS) as (HndS & HeS & HkS).
  destruct (side_listing_spec now_z incl normalize (d_fs D) ld HvD) as (HndD & HeD & HkD).
  set (Ls := side_listing S ls) in *. set (Ld := side_listing (d_fs D) ld) in *.
  unfold Mirror.side_listing in Ls, Ld.
  (* ---- the shape of the step list ---- *)
  unfold steps, CrashMain.sync_plan in *. cbv zeta in *.
  destruct (fget S []) as [sn|] eqn:ErS.
  2:{ exfalso. destruct (HT p) as [H|[(_ & c & Hc & _)|[(_ & Hc)|[(k & t & _ & Hc)|[(k & d & mt & _ & d0 & smt & mo & Hc)|(mt & fu & m & _ & _ & d0 & smt & mo & Hc)]]]]];
        try (destruct Hc; fail); congruence. }
  match type of HT with context [match ?g with Some _ => _ | None => _ end] => destruct g as [ans1|] eqn:Egate end.
  2:{ exfalso. destruct (HT p) as [H|[(_ & c & Hc & _)|[(_ & Hc)|[(k & t & _ & Hc)|[(k & d & mt & _ & d0 & smt & mo & Hc)|(mt & fu & m & _ & _ & d0 & smt & mo & Hc)]]]]];
        try (destruct Hc; fail); congruence. }
  assert (Hans1 : has_act ans1 = true -> has_act ans = true).
  { revert Egate. destruct (option_map entry_of (fget (d_fs D) [])) as [d|]; [|intros H; inversion H; subst; auto].
    destruct (needs_delete _ _ _); [|intros H; inversion H; subst; auto].
    destruct (resolve_root (cf_root cfg) ans) as [[[] a'] sh] eqn:Er; try discriminate.
    intros H; inversion H; subst. eapply resolve_root_suffix; eauto. }
  match type of HT with context [actions_of ?d ?sk ?a] => set (arr := a) in *; set (ss := sk) in * end.
  assert (Hsrcs : srcs path entry arr = Ls).
  { unfold arr, Ls. rewrite srcs_cons_src. f_equal. rewrite srcs_app_c.
    match goal with |- context [interleave bits ?a ?b] => destruct (interleave_projections bits a b) as [I1 _]; rewrite I1 end.
    destruct (option_map entry_of (fget (d_fs D) [])); cbn; destruct sn; reflexivity. }
  assert (Hdests : dests path entry arr = Ld).
  { unfold arr, Ld. rewrite dests_cons_src, dests_app_c.
    match goal with |- context [interleave bits ?a ?b] => destruct (interleave_projections bits a b) as [_ I2]; rewrite I2 end.
    destruct (fget (d_fs D) []) as [[| |]|]; reflexivity. }
  rewrite (actions_of_spec (cf_diff cfg) ss arr) in HT by (rewrite ?Hsrcs, ?Hdests; assumption).
  rewrite Hsrcs, Hdests in HT.
  set (acts := plan_spec (cf_diff cfg) ss Ls Ld) in *.
  set (pre := match option_map entry_of (fget (d_fs D) []) with None => if cf_dry cfg then [] else [DestCmd CCreateRootAncestors] | Some _ => [] end) in *.
  (* a step list that is only [pre] names no path *)
  assert (Hpre_only : Touched (cf_fl cfg) S (d_fs D) (cmd_of_plan pre) (file_of_plan pre) s -> False).
  { intros HT0. assert (Hin : forall c, In (DestCmd c) pre -> c = CCreateRootAncestors).
    { unfold pre. destruct (option_map entry_of (fget (d_fs D) [])); [intros c []|]. destruct (cf_dry cfg); [intros c []|].
      intros c [H|[]]; inversion H; reflexivity. }
    destruct (HT0 p) as [H|[(_ & c & Hc & _ & Hp)|[(_ & Hc)|[(k & t & _ & Hc)|[(k & d & mt & _ & d0 & smt & mo & Hc)|(mt & fu & m & _ & _ & d0 & smt & mo & Hc)]]]]];
      try congruence; try (apply Hin in Hc; discriminate Hc).
    apply Hin in Hc. subst c. discriminate Hp. }
  destruct (confirm (cf_b cfg) ans1 acts) as [|acts' skipped b2 a2 np2] eqn:Ec; [exfalso; exact (Hpre_only HT)|].
  destruct (cf_dry cfg) eqn:Edry; [exfalso; exact (Hpre_only HT)|].
  cbn [snd] in HT.
  (* ---- what the confirmation left ---- *)
  unfold confirm in Ec.
  destruct (confirm_deletes (b_entry (cf_b cfg)) ans1 (a_delete acts) []) as [[[[rmd be] ansd] nd]|] eqn:Ecd; [|discriminate].
  set (kept := kept_in_the_way rmd (a_delete acts)) in *.
  set (copies1 := filter (not_blocked kept) (a_copy acts)) in *.
  set (b1 := mkB (b_newer (cf_b cfg)) (b_older (cf_b cfg)) (b_same (cf_b cfg)) be) in *.
  destruct (confirm_copies b1 ansd copies1 nd) as [[[[rmc bc] ansc] nc]|] eqn:Ecc; [|discriminate].
  inversion Ec; subst acts' skipped b2 a2 np2. clear Ec.
  set (dl' := remove_paths rmd (a_delete acts)) in *. set (cl' := remove_paths rmc copies1) in *.
  (* consent of a deletion that stayed in the list *)
  assert (Hdel_consent : forall q, In q (map fst dl') -> entry_consent cfg ans).
  { intros q Hq. apply in_map_iff in Hq as (x & <- & Hx). apply remove_paths_in in Hx as [Hx Hn].
    destruct (confirm_deletes_consent _ _ _ _ _ _ _ _ Ecd (fst x) (in_map fst _ _ Hx) Hn) as [H|[H1 H2]]; [left; exact H|right; split; auto]. }
  (* consent of an overwrite that stayed in the list *)
  assert (Hcopy_consent : forall q e r, In (q, (e, r)) cl' -> r <> NotOnDest -> overwrite_consent cfg ans).
  { intros q e r Hin Hr. apply remove_paths_in in Hin as [Hin Hn]. cbn [fst] in Hn.
    destruct (confirm_copies_consent _ _ _ _ _ _ _ _ Ecc q e r Hin Hn Hr) as [H|[H1 H2]]; exists r; (split; [exact Hr|]).
    - left. destruct r; try congruence; exact H.
    - right. split; [destruct r; try congruence; exact H1|]. apply Hans1. eapply confirm_deletes_suffix; eauto. }
  (* a copy entry at a path the destination already holds: either its deletion stayed in the list too, or both are files *)
  assert (Hexisting : forall q e r, In (q, (e, r)) cl' -> fget (d_fs D) q = Some n -> q = p ->
            In q (map fst dl') \/ (r <> NotOnDest /\ exists m d, n = NFile m d)).
  { intros q e r Hin HDq ->.
    apply remove_paths_in in Hin as [Hin _]. apply filter_In in Hin as [Hin0 Hnb].
    apply in_copy_iff in Hin0 as Hx. destruct Hx as [HinLs Hdec].
    assert (HpS : In p (lkeys Ls)) by (change p with (fst (p, e)); apply in_map; exact HinLs).
    destruct (proj1 (HkS p) HpS) as [HtpS _].
    (* p takes part on the destination as well *)
    assert (HtpD : takes_part (d_fs D) p).
    { destruct p as [|c p']; [left; reflexivity|]. right.
      assert (HrD : fget (d_fs D) [] = Some NFolder) by (apply (HwD _ _ HDq); apply nil_strict_prefix; discriminate).
      split; [exact HrD|].
      destruct HtpS as [Hx|[_ HvS']]; [discriminate|]. apply visible_iff in HvS' as (_ & Hi & Hpre).
      apply visible_iff. split; [discriminate|]. split; [exact Hi|].
      intros q2 Hq1 Hq2. split; [apply (Hpre q2 Hq1 Hq2)|apply (HwD _ _ HDq); exact Hq2]. }
    assert (HpD : In p (lkeys Ld)) by (apply HkD; split; [exact HtpD|congruence]).
    apply in_map_iff in HpD as ([p0 ed] & Hp0 & HinLd). cbn [fst] in Hp0. subst p0.
    destruct (HeD _ _ HinLd) as (nd0 & EnD & ->). rewrite HDq in EnD. inversion EnD; subst nd0.
    unfold copy_dec, copy_decision in Hdec. rewrite (alookup_in Ld p (entry_of n) HndD HinLd) in Hdec.
    destruct (needs_delete (cf_diff cfg) e (entry_of n)) eqn:Hnd.
    - (* incompatible: the deletion is planned, and it was not skipped (the copy would have been dropped) *)
      left. change p with (fst (p, (entry_of n, Incompatible))). apply in_map. apply remove_paths_in.
      assert (Hd : In (p, (entry_of n, Incompatible)) (a_delete acts)).
      { apply in_delete_iff. split; [exact HinLd|]. unfold delete_dec, delete_decision.
        rewrite (alookup_in Ls p e HndS HinLs), Hnd. left; reflexivity. }
      split; [exact Hd|]. cbn [fst]. intros Hrm. unfold not_blocked in Hnb. apply negb_true_iff in Hnb.
      assert (Hex : existsb (fun k0 => is_prefix k0 (fst (p, (e, r)))) kept = true); [|congruence].
      apply existsb_exists. exists p. split; [|apply is_prefix_refl].
      unfold kept, kept_in_the_way. change p with (fst (p, (entry_of n, Incompatible))). apply in_map.
      apply filter_In. split; [exact Hd|]. cbn [fst snd]. apply andb_true_iff. split; [|reflexivity].
      apply existsb_exists. exists p. split; [exact Hrm|]. unfold path_eqb. destruct (path_eq_dec p p); [reflexivity|congruence].
    - right. destruct (needs_copy ss e (entry_of n)) as [r0|] eqn:Hnc; [|destruct Hdec].
      destruct Hdec as [Hx|[]]. inversion Hx; subst r0.
      unfold needs_copy in Hnc. destruct e as [ms szs| |ks ts]; try discriminate.
      destruct n as [m d| |t k]; cbn [Fs.entry_of] in Hnc; try discriminate.
      split; [|eauto]. destruct (Z.compare ms (stamp_z now_z m)); [destruct ss; [discriminate|]| |]; inversion Hnc; discriminate. }
  (* ---- the cases of Touched ---- *)
  assert (Hcmd : forall c, cmd_of_plan (pre ++ exec_steps chunker S (mkActions dl' cl')) c -> c = CCreateRootAncestors \/
            (exists e, In e dl' /\ c = delete_cmd e) \/ (exists q e r, In (q, (e, r)) cl' /\ cmd_of_entry q e c)).
  { intros c Hc. unfold cmd_of_plan in Hc. apply in_app_or in Hc as [Hc|Hc].
    - left. unfold pre in Hc. destruct (option_map entry_of (fget (d_fs D) [])); [destruct Hc|]. try rewrite Edry in Hc.
      destruct Hc as [Hc|[]]. inversion Hc; reflexivity.
    - right. apply (exec_steps_cmd S). exact Hc. }
  assert (Hof_copy : forall q e r c, In (q, (e, r)) cl' -> cmd_of_entry q e c -> cmd_path c = Some p -> q = p).
  { intros q e r c _ Hce Hp. destruct Hce as [(_ & ->)|[(k & t & _ & ->)|(mt & sz & d & smt & more & _ & ->)]]; inversion Hp; reflexivity. }
  assert (Hcopy_case : forall c, cmd_of_plan (pre ++ exec_steps chunker S (mkActions dl' cl')) c -> is_delete c = False ->
            cmd_path c = Some p -> c <> CCreateRootAncestors ->
            exists e r, In (p, (e, r)) cl' /\ cmd_of_entry p e c).
  { intros c Hc Hnd Hp Hna. destruct (Hcmd c Hc) as [->|[(e & He & ->)|(q & e & r & Hin & Hce)]]; [congruence| |].
    - exfalso. destruct e as [q0 [[mt sz| |k t] r0]]; cbn in Hnd; rewrite <- Hnd; exact I.
    - assert (q = p) by (eapply Hof_copy; eauto). subst q. eauto. }
  destruct (HT p) as [H|[(Hn & c & Hc & Hdc & Hp)|[(Hn & Hc)|[(k & t & Hn & Hc)|[(k & d & mt & Hn & d0 & smt & mo & Hc)|(mt & fu & m & Hn & HS & d0 & smt & mo & Hc)]]]]].
  - congruence.
  - (* gone: a deletion of p was executed, so it stayed in the list *)
    left. destruct (Hcmd c Hc) as [->|[(e & He & ->)|(q & e & r & Hin & Hce)]]; [destruct Hdc| |].
    + apply (Hdel_consent (fst e)). apply in_map. exact He.
    + exfalso. destruct Hce as [(_ & ->)|[(k & t & _ & ->)|(mt & sz & d & smt & more & _ & ->)]]; exact Hdc.
  - (* now a folder: it was something else, which had to be deleted first *)
    destruct (Hcopy_case (CCreateFolder p) Hc eq_refl eq_refl ltac:(discriminate)) as (e & r & Hin & Hce).
    destruct (Hexisting p e r Hin HD eq_refl) as [Hd|(Hr & m & d & ->)]; [left; eapply Hdel_consent; eauto|].
    exfalso. destruct Hce as [(-> & _)|[(k & t & -> & Hx)|(mt & sz & d1 & smt & more & -> & Hx)]]; try discriminate.
    apply remove_paths_in in Hin as [Hin _]. apply filter_In in Hin as [Hin _]. apply in_copy_iff in Hin as [_ Hdec].
    unfold copy_dec, copy_decision in Hdec. destruct (alookup _ _ _ _) as [ed|]; [|destruct Hdec as [Hx|[]]; inversion Hx; congruence].
    destruct (needs_delete _ _ _); [destruct Hdec as [Hx|[]]; inversion Hx; congruence|]. cbn [needs_copy] in Hdec. destruct Hdec.
  - (* now a link written by this run *)
    destruct (Hcopy_case (CCreateSymlink p k t) Hc eq_refl eq_refl ltac:(discriminate)) as (e & r & Hin & Hce).
    destruct (Hexisting p e r Hin HD eq_refl) as [Hd|(Hr & m & d & ->)]; [left; eapply Hdel_consent; eauto|].
    exfalso. destruct Hce as [(-> & Hx)|[(k1 & t1 & -> & Hx)|(mt & sz & d1 & smt & more & -> & Hx)]]; try discriminate.
    apply remove_paths_in in Hin as [Hin _]. apply filter_In in Hin as [Hin _]. apply in_copy_iff in Hin as [_ Hdec].
    unfold copy_dec, copy_decision in Hdec. destruct (alookup _ _ _ _) as [ed|]; [|destruct Hdec as [Hx'|[]]; inversion Hx'; congruence].
    destruct (needs_delete _ _ _); [destruct Hdec as [Hx'|[]]; inversion Hx'; congruence|]. cbn [needs_copy] in Hdec. destruct Hdec.
  - (* a file being written *)
    destruct (Hcopy_case (CCreateOrUpdateFile p d0 smt mo) Hc eq_refl eq_refl ltac:(discriminate)) as (e & r & Hin & Hce).
    destruct (Hexisting p e r Hin HD eq_refl) as [Hd|(Hr & m & dd & ->)]; [left; eapply Hdel_consent; eauto|].
    right. split; [eauto 8|]. eapply Hcopy_consent; eauto.
  - destruct (Hcopy_case (CCreateOrUpdateFile p d0 smt mo) Hc eq_refl eq_refl ltac:(discriminate)) as (e & r & Hin & Hce).
    destruct (Hexisting p e r Hin HD eq_refl) as [Hd|(Hr & m0 & dd & ->)]; [left; eapply Hdel_consent; eauto|].
    right. split; [eauto 8|]. eapply Hcopy_consent; eauto.
Qed.

End ConsentAll.
