(* C08 at the level of a whole sync: the steps sync_one performs have the shape Proofs/CrashProofs.v
   needs, so every state a kill can leave behind - and the final state of every run, failed or not -
   satisfies the invariant "a time-stamped file is the original one or holds the source's complete bytes". *)
From RJ Require Import Base.Prelude Base.OrderedPlan Model.Settings Model.Core Model.Fs Model.Sync
  Proofs.FsProofs Proofs.ExecProofs Proofs.CrashProofs.

Section CrashMain.
Variable now_z : N -> Z.
Variable normalize : str -> target.
Variable chunker : str -> list str.
Hypothesis chunker_ok : forall d, chunker d <> [] /\ concat (chunker d) = d.

Notation sync_one := (sync_one now_z normalize chunker).
Notation entry_of := (entry_of now_z normalize).
Notation exec_steps := (exec_steps chunker).
Notation copy_steps := (copy_steps chunker).

Lemma plan_ok_app S a : plan_ok S a -> forall b, plan_ok S b -> plan_ok S (a ++ b).
Proof.
  unfold plan_ok.
  induction 1 as [|c rest Hc Hk Hrest IH|q rest Hrest IH|p mt chunks m rest Hne HS Hk Hrest IH]; intros b Hb; cbn [app].
  - exact Hb.
  - apply pk_cmd; auto.
  - apply pk_fetch; auto.
  - rewrite <- app_assoc. eapply pk_file; eauto.
Qed.

Lemma copy_steps_ok S e : plan_ok S (copy_steps S e).
Proof.
  unfold plan_ok. destruct e as [p [[mt sz| |k t] r]]; cbn [Sync.copy_steps].
  - destruct (fget S p) as [[m data| |tt kk]|] eqn:E; try (apply pk_fetch; apply pk_nil).
    apply pk_fetch. rewrite <- (app_nil_r (chunk_cmds p mt (chunker data))).
    destruct (chunker_ok data) as [Hne Hcat].
    apply (pk_file S any_cmd any_file p mt (chunker data) m []); [exact Hne|rewrite Hcat; exact E|exact I|apply pk_nil].
  - apply pk_cmd; [reflexivity|exact I|apply pk_nil].
  - apply pk_cmd; [reflexivity|exact I|apply pk_nil].
Qed.

Lemma exec_steps_ok S a : plan_ok S (exec_steps S a).
Proof.
  unfold Sync.exec_steps. apply plan_ok_app.
  - unfold plan_ok. induction (a_delete a) as [|e l IH]; cbn [map]; [apply pk_nil|].
    apply pk_cmd; [|exact I|exact IH]. destruct e as [p [[mt sz| |k t] r]]; reflexivity.
  - induction (a_copy a) as [|e l IH]; cbn [flat_map]; [apply (pk_nil S any_cmd any_file)|].
    apply plan_ok_app; [apply copy_steps_ok|exact IH].
Qed.

(* The steps a run performs, read off sync_one's control flow (root gate, plan, confirmation, dry run). *)
Definition sync_plan (cfg : config) (S : fs) (D : dstate) (ans : list answer) (bits : list bool)
           (ls ld : list (path * entry)) : rstate * list bstep :=
  let idle := (mkR D [] [] [] false 0 0 None, []) in
  match fget S [] with
  | None => idle
  | Some sn =>
    let sroot := entry_of sn in
    let droot := option_map entry_of (fget (d_fs D) []) in
    let gate : option (list answer) :=
      match droot with
      | Some d => if needs_delete (cf_diff cfg) sroot d then
                    match resolve_root (cf_root cfg) ans with
                    | (BAct, ans', _) => Some ans'
                    | _ => None
                    end
                  else Some ans
      | None => Some ans
      end in
    match gate with
    | None => idle
    | Some ans1 =>
      let pre := match droot with None => if cf_dry cfg then [] else [DestCmd CCreateRootAncestors] | Some _ => [] end in
      let src_listing := match sroot with EFolder => ls | _ => [] end in
      let dest_listing := match droot with Some EFolder => ld | _ => [] end in
      let src_trace0 := CSetRoot :: match sroot with EFolder => [CGetEntries] | _ => [] end in
      let dest_trace0 := CSetRoot :: match droot with Some EFolder => [CGetEntries] | _ => [] end in
      let arrivals := FromSrc path entry [] sroot ::
                      match droot with Some d => [FromDest path entry [] d] | None => [] end ++
                      interleave bits src_listing dest_listing in
      let same_skip := beh_eqb (b_same (cf_b cfg)) BSkip in
      let r0 := mkR D dest_trace0 src_trace0 [] false 0 0 None in
      match actions_of (cf_diff cfg) same_skip arrivals with
      | None => (r0, pre)
      | Some acts =>
        match confirm (cf_b cfg) ans1 acts with
        | CFail => (r0, pre)
        | CDone acts' _ _ _ _ => if cf_dry cfg then (r0, pre) else (r0, pre ++ exec_steps S acts')
        end
      end
    end
  end.

Lemma sync_plan_start cfg S D ans bits ls ld : rs_d (fst (sync_plan cfg S D ans bits ls ld)) = D.
Proof.
  unfold sync_plan. cbv zeta.
  repeat match goal with |- context [match ?x with _ => _ end] => destruct x end; reflexivity.
Qed.

Lemma sync_plan_ok cfg S D ans bits ls ld : plan_ok S (snd (sync_plan cfg S D ans bits ls ld)).
Proof.
  unfold sync_plan. cbv zeta.
  destruct (fget S []) as [sn|]; [|apply (pk_nil S any_cmd any_file)].
  set (pre := match option_map entry_of (fget (d_fs D) []) with
              | None => if cf_dry cfg then [] else [DestCmd CCreateRootAncestors] | Some _ => [] end).
  assert (Hpre : plan_ok S pre).
  { unfold pre, plan_ok. destruct (option_map entry_of (fget (d_fs D) [])); [apply pk_nil|].
    destruct (cf_dry cfg); [apply pk_nil|apply pk_cmd; [reflexivity|exact I|apply pk_nil]]. }
  clearbody pre.
  match goal with |- context [match ?g with Some _ => _ | None => (_, []) end] => destruct g end; [|apply (pk_nil S any_cmd any_file)].
  destruct (actions_of _ _ _) as [acts|]; [|exact Hpre].
  destruct (confirm _ _ _) as [|acts' ? ? ? ?]; [exact Hpre|].
  destruct (cf_dry cfg); [exact Hpre|].
  cbn [snd]. apply plan_ok_app; [exact Hpre|apply exec_steps_ok].
Qed.

(* sync_one leaves the destination exactly where running these steps leaves it *)
Lemma sync_one_runs_plan cfg S D ans bits ls ld ft :
  r_dest (sync_one cfg S D ans bits ls ld ft) =
  rs_d (run_steps (cf_fl cfg) ft (fst (sync_plan cfg S D ans bits ls ld)) (snd (sync_plan cfg S D ans bits ls ld))).
Proof.
  unfold Sync.sync_one, sync_plan, fail_result. cbv zeta.
  destruct (fget S []) as [sn|]; [|reflexivity].
  destruct (option_map entry_of (fget (d_fs D) [])) as [d|] eqn:Ed.
  - destruct (needs_delete (cf_diff cfg) (entry_of sn) d).
    + destruct (resolve_root (cf_root cfg) ans) as [[[] ans'] shown]; try reflexivity.
      destruct (actions_of _ _ _) as [acts|]; [|reflexivity].
      destruct (confirm _ _ _) as [|acts' ? ? ? ?]; [reflexivity|].
      destruct (cf_dry cfg); [reflexivity|]. cbn [r_dest fst snd]. rewrite run_steps_app. reflexivity.
    + destruct (actions_of _ _ _) as [acts|]; [|reflexivity].
      destruct (confirm _ _ _) as [|acts' ? ? ? ?]; [reflexivity|].
      destruct (cf_dry cfg); [reflexivity|]. cbn [r_dest fst snd]. rewrite run_steps_app. reflexivity.
  - destruct (actions_of _ _ _) as [acts|]; [|reflexivity].
    destruct (confirm _ _ _) as [|acts' ? ? ? ?]; [reflexivity|].
    destruct (cf_dry cfg); [reflexivity|]. cbn [r_dest fst snd]. rewrite run_steps_app. reflexivity.
Qed.

(* every state of the destination a kill can leave behind during this sync *)
Definition sync_kill_states (cfg : config) (S : fs) (D : dstate) (ans : list answer) (bits : list bool)
           (ls ld : list (path * entry)) (ft : faults) : list dstate :=
  steps_states (cf_fl cfg) ft (fst (sync_plan cfg S D ans bits ls ld)) (snd (sync_plan cfg S D ans bits ls ld)).

Theorem crash_safe cfg S D ans bits ls ld ft :
  d_open D = None ->
  (forall s, In s (sync_kill_states cfg S D ans bits ls ld ft) -> no_through (d_events s) -> Good S (d_fs D) s) /\
  (no_through (d_events (r_dest (sync_one cfg S D ans bits ls ld ft))) ->
   Good S (d_fs D) (r_dest (sync_one cfg S D ans bits ls ld ft))).
Proof.
  intros Ho.
  assert (HJ : J ft S (d_fs D) (fst (sync_plan cfg S D ans bits ls ld))).
  { intros _. rewrite sync_plan_start. split; [intros q t d Hq; left; exact Hq|left; exact Ho]. }
  destruct (plan_safe (cf_fl cfg) ft S (d_fs D) _ (sync_plan_ok cfg S D ans bits ls ld) _ HJ) as [G1 G2].
  split; [exact G1|]. intros Hnt. rewrite sync_one_runs_plan in *. apply G2. exact Hnt.
Qed.

End CrashMain.

(* ---- the repair run ---- *)
From RJ Require Import Spec.PlanSpec Spec.Mirror Proofs.MirrorProofs.

Section Rerun.
Variable now_z : N -> Z.
Variable incl : path -> bool.
Variable normalize : str -> target.
Variable chunker : str -> list str.
Hypothesis chunker_ok : forall d, chunker d <> [] /\ concat (chunker d) = d.

(* what the next run finds: the tree as the interrupted run left it, and a fresh doer *)
Definition reboot (s : dstate) : dstate := mkD (d_fs s) (d_anc s) (d_tick s) None [] (mkX None [] 0 []).

(* A damaged file can never pass for an up-to-date one ... *)
Lemma good_no_damage S D0 s p t b d :
  Good S D0 s -> fget S p = Some (NFile (TSet t) b) -> fget (d_fs s) p = Some (NFile (TSet t) d) ->
  d = b \/ fget D0 p = Some (NFile (TSet t) d).
Proof.
  intros HG HS Hs. destruct (HG p t d Hs) as [H|(m & H)]; [right; exact H|left]. rewrite HS in H. inversion H; reflexivity.
Qed.

(* the file clause of a mirror, once the state the repair run started from satisfies Good *)
Lemma mirror_files_repaired dest_fl diff S D0 s D' :
  Good S D0 s ->
  mirror now_z incl normalize diff dest_fl S (d_fs s) D' ->
  forall p t b, takes_part incl S p -> fget S p = Some (NFile (TSet t) b) -> (forall k, now_z k <> t) ->
    fget D' p = Some (NFile (TSet t) b) \/
    exists b0, fget D0 p = Some (NFile (TSet t) b0) /\ fget D' p = Some (NFile (TSet t) b0).
Proof.
  intros HG Hm p t b Htp HS Hnow.
  destruct (Hm p) as [Hat _].
  assert (Hne : fget S p <> None) by (rewrite HS; discriminate).
  specialize (Hat (or_introl (conj Htp Hne))).
  unfold mirror_at in Hat. rewrite HS in Hat. destruct Hat as [Hat|(b0 & m0 & Hs & Hst & Hsame)]; [left; exact Hat|].
  destruct m0 as [t0|k]; cbn [stamp_z] in Hst.
  - subst t0. rewrite Hsame, Hs. destruct (good_no_damage S D0 s p t b b0 HG HS Hs) as [->|HD0]; [left; reflexivity|].
    right. exists b0. split; [exact HD0|reflexivity].
  - exfalso. apply (Hnow k). exact Hst.
Qed.

(* ... so the same sync, run again from whatever state the interruption left (a fresh doer D2 on the same
   tree; any answers, any interleaving, any listing order, even further faults, as long as it returns Ok
   without skips), puts the complete source file in place - unless the file already carried the source's
   time before the first run, which is C01's own exemption. *)
Theorem rerun_repairs_from dest_fl cfg S D0 s D2 ans bits ls ld ft :
  Good S D0 s -> d_fs D2 = d_fs s -> d_open D2 = None ->
  valid_listing now_z incl normalize S ls -> valid_listing now_z incl normalize (d_fs s) ld ->
  wf_fs S -> src_times_set S -> links_roundtrip normalize dest_fl S ->
  let r := sync_one now_z normalize chunker cfg S D2 ans bits ls ld ft in
  r_ok r = true -> r_skipped r = [] -> r_root_skipped r = false -> cf_dry cfg = false ->
  no_through (d_events (r_dest r)) -> cf_fl cfg = dest_fl ->
  mirror now_z incl normalize (cf_diff cfg) dest_fl S (d_fs s) (d_fs (r_dest r)) /\
  forall p t b, takes_part incl S p -> fget S p = Some (NFile (TSet t) b) -> (forall k, now_z k <> t) ->
    fget (d_fs (r_dest r)) p = Some (NFile (TSet t) b) \/
    exists b0, fget D0 p = Some (NFile (TSet t) b0) /\ fget (d_fs (r_dest r)) p = Some (NFile (TSet t) b0).
Proof.
  intros HG Hfs Ho Hls Hld HwS Hts Hlr r Hok Hsk Hrs Hdry Hnt Hfl.
  assert (Hm : mirror now_z incl normalize (cf_diff cfg) dest_fl S (d_fs s) (d_fs (r_dest r))).
  { rewrite <- Hfs. apply (mirror_theorem now_z incl normalize chunker chunker_ok dest_fl cfg S D2 ans bits ls ld ft); auto.
    rewrite Hfs. exact Hld. }
  split; [exact Hm|]. eapply mirror_files_repaired; eauto.
Qed.

Theorem rerun_repairs dest_fl cfg S D0 s ans bits ls ld ft :
  Good S D0 s ->
  valid_listing now_z incl normalize S ls -> valid_listing now_z incl normalize (d_fs s) ld ->
  wf_fs S -> src_times_set S -> links_roundtrip normalize dest_fl S ->
  let r := sync_one now_z normalize chunker cfg S (reboot s) ans bits ls ld ft in
  r_ok r = true -> r_skipped r = [] -> r_root_skipped r = false -> cf_dry cfg = false ->
  no_through (d_events (r_dest r)) -> cf_fl cfg = dest_fl ->
  mirror now_z incl normalize (cf_diff cfg) dest_fl S (d_fs s) (d_fs (r_dest r)) /\
  forall p t b, takes_part incl S p -> fget S p = Some (NFile (TSet t) b) -> (forall k, now_z k <> t) ->
    fget (d_fs (r_dest r)) p = Some (NFile (TSet t) b) \/
    exists b0, fget D0 p = Some (NFile (TSet t) b0) /\ fget (d_fs (r_dest r)) p = Some (NFile (TSet t) b0).
Proof. intros HG. apply (rerun_repairs_from dest_fl cfg S D0 s (reboot s)); auto. Qed.

End Rerun.
