(* C08: while a file is being transferred - at every command boundary, inside every command (after
   create/truncate, after any part of a write, before and after the time stamp), under every write
   fault, refusal and early stop - the file never carries its final time stamp unless it holds exactly
   the complete data.  (Runs that go through a link are outside this statement: known finding F6b.) *)
From RJ Require Import Base.Prelude Base.OrderedPlan Model.Settings Model.Core Model.Fs Model.Sync
  Proofs.FsProofs Proofs.ExecProofs.

(* every state a kill can leave behind while the doer executes one command *)
Definition cmd_states (fl : flavour) (st : dstate) (c : cmd) : list dstate :=
  match c with
  | CCreateOrUpdateFile p data set_mt more =>
      if refuses st p then [fst (doer_exec fl st c)]
      else
        let st0 := with_failed st (if more then Some p else None) in
        match open_for_write st0 p with
        | OpErr _ => [fst (doer_exec fl st c)]
        | OpOutside st1 => [st1; fst (doer_exec fl st c)]
        | OpFile st1 =>
            st1 :: map (fun k => write_chunk (count_write st1) p (firstn k data)) (seq 0 (S (length data)))
                ++ [fst (doer_exec fl st c)]
        end
  | _ => [fst (doer_exec fl st c)]
  end.

Fixpoint run_states (fl : flavour) (st : dstate) (cmds : list cmd) : list dstate :=
  match cmds with
  | [] => []
  | c :: r => cmd_states fl st c ++ run_states fl (fst (doer_exec fl st c)) r
  end.

Lemma fst_if {A B} (b : bool) (x y : A * B) : fst (if b then x else y) = if b then fst x else fst y.
Proof. destruct b; reflexivity. Qed.

Section Group.
Variable fl : flavour.
Variable p : path.
Variable mt : Z.
Variable full : str.          (* the complete data of the file being transferred *)
Variable v0 : option node.    (* what was at p when the transfer started *)
Variable f0 : fs.             (* the tree when the transfer started *)
Hypothesis Hv0 : fget f0 p = v0.

(* what may be observed at p, and that nothing else moved *)
Definition safe (s : dstate) : Prop :=
  (forall q, q <> p -> fget (d_fs s) q = fget f0 q) /\
  (fget (d_fs s) p = v0 \/ (exists k d, fget (d_fs s) p = Some (NFile (TNow k) d)) \/
   fget (d_fs s) p = Some (NFile (TSet mt) full)).

(* the phase a transfer is in, given the chunks already handled [done] *)
Inductive phase (done : list str) (st : dstate) : Prop :=
| ph_start : done = [] -> d_open st = None -> d_fs st = f0 -> phase done st
| ph_healthy : done <> [] -> d_open st = Some p -> refuses st p = false ->
    (forall q, q <> p -> fget (d_fs st) q = fget f0 q) ->
    (exists k, fget (d_fs st) p = Some (NFile (TNow k) (concat done))) -> phase done st
| ph_failed : d_open st = None -> refuses st p = true ->
    (forall q, q <> p -> fget (d_fs st) q = fget f0 q) ->
    (fget (d_fs st) p = v0 \/ exists k d, fget (d_fs st) p = Some (NFile (TNow k) d)) -> phase done st.

Lemma phase_safe done st : phase done st -> safe st.
Proof.
  intros [Hd Ho Hf|Hd Ho Hr Hfr (k & Hk)|Ho Hr Hfr Hv]; split; auto.
  - intros q _. rewrite Hf. reflexivity.
  - left. rewrite Hf. exact Hv0.
  - right; left. eauto.
  - destruct Hv as [Hv|Hv]; [left; exact Hv|right; left; exact Hv].
Qed.

Lemma write_prefix_safe st1 data k :
  (forall q, q <> p -> fget (d_fs st1) q = fget f0 q) ->
  safe (write_chunk (count_write st1) p (firstn k data)).
Proof.
  intros Hfr. unfold write_chunk. split.
  - intros q Hq. dsimpl. rewrite fget_fset_ne by auto. apply Hfr. exact Hq.
  - right; left. dsimpl. rewrite fget_fset_eq. eauto.
Qed.

Lemma open_fresh st :
  d_open st = None ->
  (exists e, open_for_write st p = OpErr e) \/
  (exists q, open_for_write st p = OpOutside (with_event st (Through q))) \/
  open_for_write st p = OpFile (tick (with_fs st (fset (d_fs st) p (NFile (TNow (d_tick st)) [])))).
Proof.
  intros Ho. unfold open_for_write. rewrite Ho.
  destruct (resolve_above st p) as [|q|e]; [|right; left; eauto|left; eauto].
  destruct (fget (d_fs st) p) as [[m old| |t [| |]]|]; eauto.
Qed.

Lemma open_cont st m d :
  d_open st = Some p -> fget (d_fs st) p = Some (NFile m d) -> open_for_write st p = OpFile (with_open st None).
Proof.
  intros Ho Ef. unfold open_for_write. rewrite Ho. unfold path_eqb. destruct (path_eq_dec p p); [|congruence]. rewrite Ef. reflexivity.
Qed.

Lemma concat_snoc (done : list str) (data : str) : concat (done ++ [data]) = concat done ++ data.
Proof. rewrite concat_app. cbn [concat]. rewrite app_nil_r. reflexivity. Qed.

Lemma refuses_flag st : x_failed (d_x st) = Some p -> refuses st p = true.
Proof. intros H. unfold refuses. rewrite H. unfold path_eqb. destruct (path_eq_dec p p); [reflexivity|congruence]. Qed.
Lemma refuses_none st : x_failed (d_x st) = None -> refuses st p = false.
Proof. intros H. unfold refuses. rewrite H. reflexivity. Qed.

Definition no_new_through (st s : dstate) : Prop := no_through (skipn (length (d_events st)) (d_events s)).

Lemma nnt_same st s : d_events s = d_events st -> no_new_through st s.
Proof. intros E. unfold no_new_through. rewrite E, skipn_all. reflexivity. Qed.
Lemma nnt_through st s q : d_events s = d_events st ++ [Through q] -> ~ no_new_through st s.
Proof.
  intros E H. unfold no_new_through in H. rewrite E, skipn_app, skipn_all, Nat.sub_diag in H. cbn in H. discriminate.
Qed.

(* the file part of a successful (or write-failed) chunk, given the state in which the file is open *)
Lemma opened_states (st0 st1 : dstate) (data : str) (set_mt : option Z) (more : bool) (old : str) (k1 : N) :
  (forall q, q <> p -> fget (d_fs st1) q = fget f0 q) ->
  fget (d_fs st1) p = Some (NFile (TNow k1) old) ->
  x_failed (d_x st1) = (if more then Some p else None) ->
  d_events st1 = d_events st0 ->
  (more = true -> set_mt = None) ->
  (more = false -> set_mt = Some mt /\ old ++ data = full) ->
  let stw := write_chunk (count_write st1) p data in
  let fin := if write_fails st1 then with_open stw None
             else match set_mt with
                  | Some t => stamp_file (with_failed (with_open stw (if more then Some p else None)) None) p t
                  | None => with_failed (with_open stw (if more then Some p else None)) None
                  end in
  (forall s, In s (st1 :: map (fun k => write_chunk (count_write st1) p (firstn k data)) (seq 0 (S (length data))) ++ [fin]) -> safe s) /\
  (if more then
     (d_open fin = None /\ refuses fin p = true /\ (forall q, q <> p -> fget (d_fs fin) q = fget f0 q) /\
      exists k d, fget (d_fs fin) p = Some (NFile (TNow k) d)) \/
     (d_open fin = Some p /\ refuses fin p = false /\ (forall q, q <> p -> fget (d_fs fin) q = fget f0 q) /\
      exists k, fget (d_fs fin) p = Some (NFile (TNow k) (old ++ data)))
   else safe fin).
Proof.
  intros Hfr Ep Hx Hev Hm1 Hm0 stw fin. subst stw.
  assert (Hfrw : forall dd q, q <> p -> fget (d_fs (write_chunk (count_write st1) p dd)) q = fget f0 q).
  { intros dd q Hq. unfold write_chunk. dsimpl. rewrite fget_fset_ne by auto. apply Hfr; exact Hq. }
  assert (Hpw : forall dd, fget (d_fs (write_chunk (count_write st1) p dd)) p = Some (NFile (TNow (d_tick st1)) (old ++ dd))).
  { intros dd. unfold write_chunk, file_data. dsimpl. rewrite fget_fset_eq. cbn [d_fs count_write]. rewrite Ep. reflexivity. }
  assert (Hfin_fr : forall q, q <> p -> fget (d_fs fin) q = fget f0 q).
  { intros q Hq. unfold fin. destruct (write_fails st1); [dsimpl; apply Hfrw; exact Hq|].
    destruct set_mt; [unfold stamp_file; dsimpl; rewrite fget_fset_ne by auto|dsimpl]; apply Hfrw; exact Hq. }
  split.
  - intros s [<-|Hin].
    + split; [exact Hfr|right; left; eauto].
    + apply in_app_or in Hin as [Hin|[<-|[]]].
      * apply in_map_iff in Hin as (k & <- & _). apply write_prefix_safe. exact Hfr.
      * split; [exact Hfin_fr|]. unfold fin. destruct (write_fails st1).
        -- right; left. dsimpl. rewrite Hpw. eauto.
        -- destruct more.
           ++ rewrite (Hm1 eq_refl). right; left. dsimpl. rewrite Hpw. eauto.
           ++ destruct (Hm0 eq_refl) as [-> Hfull]. right; right. unfold stamp_file, file_data. dsimpl.
              rewrite fget_fset_eq. cbn [d_fs with_failed with_open]. rewrite Hpw, Hfull. reflexivity.
  - destruct more.
    + unfold fin. destruct (write_fails st1).
      * left. split; [reflexivity|]. split; [apply refuses_flag; dsimpl; unfold write_chunk; dsimpl; exact Hx|].
        split; [intros q Hq; dsimpl; apply Hfrw; exact Hq|]. dsimpl. rewrite Hpw. eauto.
      * rewrite (Hm1 eq_refl). right. split; [reflexivity|]. split; [apply refuses_none; reflexivity|].
        split; [intros q Hq; dsimpl; apply Hfrw; exact Hq|]. dsimpl. rewrite Hpw. eauto.
    + split; [exact Hfin_fr|]. unfold fin. destruct (write_fails st1).
      * right; left. dsimpl. rewrite Hpw. eauto.
      * destruct (Hm0 eq_refl) as [-> Hfull]. right; right. unfold stamp_file, file_data. dsimpl.
        rewrite fget_fset_eq. cbn [d_fs with_failed with_open]. rewrite Hpw, Hfull. reflexivity.
Qed.

(* One chunk command from any phase: every observable state is safe (unless a Through event was logged),
   and the transfer ends up in a phase again - or, for the last chunk, in a safe final state. *)
Lemma chunk_step done st data set_mt more :
  phase done st ->
  (more = true -> set_mt = None) ->
  (more = false -> set_mt = Some mt /\ concat (done ++ [data]) = full) ->
  let c := CCreateOrUpdateFile p data set_mt more in
  (forall s, In s (cmd_states fl st c) -> no_new_through st s -> safe s) /\
  (no_new_through st (fst (doer_exec fl st c)) ->
     if more then phase (done ++ [data]) (fst (doer_exec fl st c)) else safe (fst (doer_exec fl st c))).
Proof.
  intros Hph Hm1 Hm0 c. subst c. cbn [cmd_states doer_exec].
  pose proof (phase_safe done st Hph) as Hsafe0.
  assert (Hfr0 : forall q, q <> p -> fget (d_fs st) q = fget f0 q) by (destruct Hsafe0; assumption).
  assert (Hval0 : fget (d_fs st) p = v0 \/ exists k d, fget (d_fs st) p = Some (NFile (TNow k) d)).
  { destruct Hph as [Hd Ho Hf|Hd Ho Hr _ (k & Hk)|Ho Hr _ Hv]; [left; rewrite Hf; exact Hv0|right; eauto|exact Hv]. }
  assert (Hsame_safe : forall s, d_fs s = d_fs st -> safe s).
  { intros s Hs. split; [intros q Hq; rewrite Hs; apply Hfr0; exact Hq|]. rewrite Hs.
    destruct Hval0 as [H|H]; [left; exact H|right; left; exact H]. }
  assert (Hfailed_phase : forall s, d_fs s = d_fs st -> d_open s = None -> x_failed (d_x s) = Some p -> phase (done ++ [data]) s).
  { intros s Hs Ho Hx. apply ph_failed; auto.
    - apply refuses_flag. exact Hx.
    - intros q Hq. rewrite Hs. apply Hfr0. exact Hq.
    - rewrite Hs. exact Hval0. }
  destruct (refuses st p) eqn:Eref.
  - (* refused: nothing moves *)
    cbn [fst]. split.
    + intros s [<-|[]] _. apply Hsame_safe. reflexivity.
    + intros _. destruct more.
      * destruct Hph as [Hd Ho Hf|Hd Ho Hr _ _|Ho Hr _ _]; [|congruence|]; apply Hfailed_phase; auto.
      * apply Hsame_safe. reflexivity.
  - set (st0 := with_failed st (if more then Some p else None)).
    assert (Hx0 : x_failed (d_x st0) = (if more then Some p else None)) by reflexivity.
    destruct Hph as [Hd Ho Hf|Hd Ho Hr Hfr (k0 & Hk0)|Ho Hr _ _]; [| |congruence].
    + (* first chunk: a fresh open *)
      subst done.
      destruct (open_fresh st0 Ho) as [(e & Eo)|[(q & Eo)|Eo]]; rewrite Eo; cbn [fst].
      * split.
        -- intros s [<-|[]] _. apply Hsame_safe. reflexivity.
        -- intros _. destruct more; [apply Hfailed_phase; auto|apply Hsame_safe; reflexivity].
      * split.
        -- intros s [<-|[<-|[]]] Hnt; exfalso; eapply nnt_through; eauto; reflexivity.
        -- intros Hnt. exfalso. eapply nnt_through; eauto. reflexivity.
      * set (st1 := tick (with_fs st0 (fset (d_fs st0) p (NFile (TNow (d_tick st0)) [])))).
        assert (Hfr1 : forall q, q <> p -> fget (d_fs st1) q = fget f0 q).
        { intros q Hq. unfold st1. dsimpl. rewrite fget_fset_ne by auto. apply Hfr0. exact Hq. }
        assert (Ep1 : fget (d_fs st1) p = Some (NFile (TNow (d_tick st0)) [])) by (unfold st1; dsimpl; apply fget_fset_eq).
        rewrite !fst_if. cbn [fst].
        destruct (opened_states st0 st1 data set_mt more [] (d_tick st0) Hfr1 Ep1 Hx0 eq_refl Hm1) as [Hs Hf'].
        { intros Hmf. destruct (Hm0 Hmf) as [Hs' Hfull]. split; [exact Hs'|]. cbn [app concat] in *. rewrite app_nil_r in Hfull. exact Hfull. }
        split; [intros s Hin _; apply Hs; exact Hin|]. intros _.
        destruct more; [|exact Hf'].
        destruct Hf' as [(F1 & F2 & F3 & F4)|(F1 & F2 & F3 & (k & F4))].
        -- apply ph_failed; auto.
        -- apply ph_healthy; auto; [discriminate|]. exists k. cbn [app concat]. rewrite app_nil_r. exact F4.
    + (* continuation of an open transfer *)
      assert (Eo : open_for_write st0 p = OpFile (with_open st0 None)) by (eapply open_cont; [exact Ho|exact Hk0]).
      rewrite Eo. cbn [fst].
      set (st1 := with_open st0 None). rewrite !fst_if. cbn [fst].
      destruct (opened_states st0 st1 data set_mt more (concat done) k0 Hfr Hk0 Hx0 eq_refl Hm1) as [Hs Hf'].
      { intros Hmf. destruct (Hm0 Hmf) as [Hs' Hfull]. split; [exact Hs'|]. rewrite concat_snoc in Hfull. exact Hfull. }
      split; [intros s Hin _; apply Hs; exact Hin|]. intros _.
      destruct more; [|exact Hf'].
      destruct Hf' as [(F1 & F2 & F3 & F4)|(F1 & F2 & F3 & (k & F4))].
      * apply ph_failed; auto.
      * apply ph_healthy; auto; [destruct done; discriminate|]. exists k. rewrite concat_snoc. exact F4.
Qed.

End Group.
