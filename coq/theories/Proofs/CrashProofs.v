(* C08: while a file is being transferred - at every command boundary, inside every command (after
   create/truncate, after any part of a write, before and after the time stamp), under every write
   fault, refusal and early stop - the file never carries its final time stamp unless it holds exactly
   the complete data.  (Runs that go through a link are outside this statement: known finding F6b.) *)
From RJ Require Import Base.Prelude Base.OrderedPlan Model.Settings Model.Core Model.Fs Model.Sync
  Proofs.FsProofs Proofs.ExecProofs.

(* every state a kill can leave behind while the doer executes one command *)
Definition cmd_states (fl : flavour) (st : dstate) (c : cmd) : list dstate :=
  match c with
  | CCreateOrUpdateFile p data set_mt more =>
      if blocked_at st p then [fst (doer_exec fl st c)]
      else if refuses st p then [fst (doer_exec fl st c)]
      else
        let st0 := with_failed st (if more then Some p else None) in
        match open_for_write st0 p with
        | OpErr _ => [fst (doer_exec fl st c)]
        | OpOutside st1 => [st1; fst (doer_exec fl st c)]
        | OpFile st1 =>
            st1 :: map (fun k => write_chunk (count_write st1) p (firstn k data)) (seq 0 (S (length data)))
                ++ [fst (doer_exec fl st c)]
        end
  | _ => [fst (doer_exec fl st c)]
  end.

Fixpoint run_states (fl : flavour) (st : dstate) (cmds : list cmd) : list dstate :=
  match cmds with
  | [] => []
  | c :: r => cmd_states fl st c ++ run_states fl (fst (doer_exec fl st c)) r
  end.

Lemma fst_if {A B} (b : bool) (x y : A * B) : fst (if b then x else y) = if b then fst x else fst y.
Proof. destruct b; reflexivity. Qed.

Section Group.
Variable fl : flavour.
Variable p : path.
Variable mt : Z.
Variable full : str.          (* the complete data of the file being transferred *)
Variable v0 : option node.    (* what was at p when the transfer started *)
Variable f0 : fs.             (* the tree when the transfer started *)
Hypothesis Hv0 : fget f0 p = v0.

(* what may be observed at p, and that nothing else moved *)
Definition safe (s : dstate) : Prop :=
  (forall q, q <> p -> fget (d_fs s) q = fget f0 q) /\
  (fget (d_fs s) p = v0 \/ (exists k d, fget (d_fs s) p = Some (NFile (TNow k) d)) \/
   fget (d_fs s) p = Some (NFile (TSet mt) full)).

(* the phase a transfer is in, given the chunks already handled [done] *)
Inductive phase (done : list str) (st : dstate) : Prop :=
| ph_start : done = [] -> d_open st = None -> d_fs st = f0 -> phase done st
| ph_healthy : done <> [] -> d_open st = Some p -> refuses st p = false ->
    (forall q, q <> p -> fget (d_fs st) q = fget f0 q) ->
    (exists k, fget (d_fs st) p = Some (NFile (TNow k) (concat done))) -> phase done st
| ph_failed : d_open st = None -> refuses st p = true ->
    (forall q, q <> p -> fget (d_fs st) q = fget f0 q) ->
    (fget (d_fs st) p = v0 \/ exists k d, fget (d_fs st) p = Some (NFile (TNow k) d)) -> phase done st.

Lemma phase_safe done st : phase done st -> safe st.
Proof.
  intros [Hd Ho Hf|Hd Ho Hr Hfr (k & Hk)|Ho Hr Hfr Hv]; split; auto.
  - intros q _. rewrite Hf. reflexivity.
  - left. rewrite Hf. exact Hv0.
  - right; left. eauto.
  - destruct Hv as [Hv|Hv]; [left; exact Hv|right; left; exact Hv].
Qed.

Lemma write_prefix_safe st1 data k :
  (forall q, q <> p -> fget (d_fs st1) q = fget f0 q) ->
  safe (write_chunk (count_write st1) p (firstn k data)).
Proof.
  intros Hfr. unfold write_chunk. split.
  - intros q Hq. dsimpl. rewrite fget_fset_ne by auto. apply Hfr. exact Hq.
  - right; left. dsimpl. rewrite fget_fset_eq. eauto.
Qed.

Lemma open_fresh st :
  d_open st = None ->
  (exists e, open_for_write st p = OpErr e) \/
  (exists q, open_for_write st p = OpOutside (with_event st (Through q))) \/
  open_for_write st p = OpFile (tick (with_fs st (fset (d_fs st) p (NFile (TNow (d_tick st)) [])))).
Proof.
  intros Ho. unfold open_for_write. rewrite Ho.
  destruct (resolve_above st p) as [|q|e]; [|right; left; eauto|left; eauto].
  destruct (fget (d_fs st) p) as [[m old| |t [| |]]|]; eauto.
Qed.

Lemma open_cont st m d :
  d_open st = Some p -> fget (d_fs st) p = Some (NFile m d) -> open_for_write st p = OpFile (with_open st None).
Proof.
  intros Ho Ef. unfold open_for_write. rewrite Ho. unfold path_eqb. destruct (path_eq_dec p p); [|congruence]. rewrite Ef. reflexivity.
Qed.

Lemma concat_snoc (done : list str) (data : str) : concat (done ++ [data]) = concat done ++ data.
Proof. rewrite concat_app. cbn [concat]. rewrite app_nil_r. reflexivity. Qed.

Lemma refuses_flag st : x_failed (d_x st) = Some p -> refuses st p = true.
Proof. intros H. unfold refuses. rewrite H. unfold path_eqb. destruct (path_eq_dec p p); [reflexivity|congruence]. Qed.
Lemma refuses_none st : x_failed (d_x st) = None -> refuses st p = false.
Proof. intros H. unfold refuses. rewrite H. reflexivity. Qed.

Definition no_new_through (st s : dstate) : Prop := no_through (skipn (length (d_events st)) (d_events s)).

Lemma nnt_same st s : d_events s = d_events st -> no_new_through st s.
Proof. intros E. unfold no_new_through. rewrite E, skipn_all. reflexivity. Qed.
Lemma nnt_through st s q : d_events s = d_events st ++ [Through q] -> ~ no_new_through st s.
Proof.
  intros E H. unfold no_new_through in H. rewrite E, skipn_app, skipn_all, Nat.sub_diag in H. cbn in H. discriminate.
Qed.

(* the file part of a successful (or write-failed) chunk, given the state in which the file is open *)
Lemma opened_states (st0 st1 : dstate) (data : str) (set_mt : option Z) (more : bool) (old : str) (k1 : N) :
  (forall q, q <> p -> fget (d_fs st1) q = fget f0 q) ->
  fget (d_fs st1) p = Some (NFile (TNow k1) old) ->
  x_failed (d_x st1) = (if more then Some p else None) ->
  d_events st1 = d_events st0 ->
  (more = true -> set_mt = None) ->
  (more = false -> set_mt = Some mt /\ old ++ data = full) ->
  let stw := write_chunk (count_write st1) p data in
  let fin := if write_fails st1 then with_open stw None
             else match set_mt with
                  | Some t => stamp_file (with_failed (with_open stw (if more then Some p else None)) None) p t
                  | None => with_failed (with_open stw (if more then Some p else None)) None
                  end in
  (forall s, In s (st1 :: map (fun k => write_chunk (count_write st1) p (firstn k data)) (seq 0 (S (length data))) ++ [fin]) -> safe s) /\
  (if more then
     (d_open fin = None /\ refuses fin p = true /\ (forall q, q <> p -> fget (d_fs fin) q = fget f0 q) /\
      exists k d, fget (d_fs fin) p = Some (NFile (TNow k) d)) \/
     (d_open fin = Some p /\ refuses fin p = false /\ (forall q, q <> p -> fget (d_fs fin) q = fget f0 q) /\
      exists k, fget (d_fs fin) p = Some (NFile (TNow k) (old ++ data)))
   else safe fin /\ d_open fin = None).
Proof.
  intros Hfr Ep Hx Hev Hm1 Hm0 stw fin. subst stw.
  assert (Hfrw : forall dd q, q <> p -> fget (d_fs (write_chunk (count_write st1) p dd)) q = fget f0 q).
  { intros dd q Hq. unfold write_chunk. dsimpl. rewrite fget_fset_ne by auto. apply Hfr; exact Hq. }
  assert (Hpw : forall dd, fget (d_fs (write_chunk (count_write st1) p dd)) p = Some (NFile (TNow (d_tick st1)) (old ++ dd))).
  { intros dd. unfold write_chunk, file_data. dsimpl. rewrite fget_fset_eq. cbn [d_fs count_write]. rewrite Ep. reflexivity. }
  assert (Hfin_fr : forall q, q <> p -> fget (d_fs fin) q = fget f0 q).
  { intros q Hq. unfold fin. destruct (write_fails st1); [dsimpl; apply Hfrw; exact Hq|].
    destruct set_mt; [unfold stamp_file; dsimpl; rewrite fget_fset_ne by auto|dsimpl]; apply Hfrw; exact Hq. }
  split.
  - intros s [<-|Hin].
    + split; [exact Hfr|right; left; eauto].
    + apply in_app_or in Hin as [Hin|[<-|[]]].
      * apply in_map_iff in Hin as (k & <- & _). apply write_prefix_safe. exact Hfr.
      * split; [exact Hfin_fr|]. unfold fin. destruct (write_fails st1).
        -- right; left. dsimpl. rewrite Hpw. eauto.
        -- destruct more.
           ++ rewrite (Hm1 eq_refl). right; left. dsimpl. rewrite Hpw. eauto.
           ++ destruct (Hm0 eq_refl) as [-> Hfull]. right; right. unfold stamp_file, file_data. dsimpl.
              rewrite fget_fset_eq. cbn [d_fs with_failed with_open]. rewrite Hpw, Hfull. reflexivity.
  - destruct more.
    + unfold fin. destruct (write_fails st1).
      * left. split; [reflexivity|]. split; [apply refuses_flag; dsimpl; unfold write_chunk; dsimpl; exact Hx|].
        split; [intros q Hq; dsimpl; apply Hfrw; exact Hq|]. dsimpl. rewrite Hpw. eauto.
      * rewrite (Hm1 eq_refl). right. split; [reflexivity|]. split; [apply refuses_none; reflexivity|].
        split; [intros q Hq; dsimpl; apply Hfrw; exact Hq|]. dsimpl. rewrite Hpw. eauto.
    + split; [split; [exact Hfin_fr|]|]; unfold fin; destruct (write_fails st1).
      * right; left. dsimpl. rewrite Hpw. eauto.
      * destruct (Hm0 eq_refl) as [-> Hfull]. right; right. unfold stamp_file, file_data. dsimpl.
        rewrite fget_fset_eq. cbn [d_fs with_failed with_open]. rewrite Hpw, Hfull. reflexivity.
      * reflexivity.
      * destruct (Hm0 eq_refl) as [-> _]. reflexivity.
Qed.

(* One chunk command from any phase: every observable state is safe (unless a Through event was logged),
   and the transfer ends up in a phase again - or, for the last chunk, in a safe final state. *)
Lemma chunk_step done st data set_mt more :
  blocked_at st p = false ->
  phase done st ->
  (more = true -> set_mt = None) ->
  (more = false -> set_mt = Some mt /\ concat (done ++ [data]) = full) ->
  let c := CCreateOrUpdateFile p data set_mt more in
  (forall s, In s (cmd_states fl st c) -> no_new_through st s -> safe s) /\
  (no_new_through st (fst (doer_exec fl st c)) ->
     if more then phase (done ++ [data]) (fst (doer_exec fl st c))
     else safe (fst (doer_exec fl st c)) /\ d_open (fst (doer_exec fl st c)) = None).
Proof.
  intros Hb Hph Hm1 Hm0 c. subst c. cbn [cmd_states doer_exec]. rewrite Hb.
  pose proof (phase_safe done st Hph) as Hsafe0.
  assert (Hfr0 : forall q, q <> p -> fget (d_fs st) q = fget f0 q) by (destruct Hsafe0; assumption).
  assert (Hval0 : fget (d_fs st) p = v0 \/ exists k d, fget (d_fs st) p = Some (NFile (TNow k) d)).
  { destruct Hph as [Hd Ho Hf|Hd Ho Hr _ (k & Hk)|Ho Hr _ Hv]; [left; rewrite Hf; exact Hv0|right; eauto|exact Hv]. }
  assert (Hsame_safe : forall s, d_fs s = d_fs st -> safe s).
  { intros s Hs. split; [intros q Hq; rewrite Hs; apply Hfr0; exact Hq|]. rewrite Hs.
    destruct Hval0 as [H|H]; [left; exact H|right; left; exact H]. }
  assert (Hfailed_phase : forall s, d_fs s = d_fs st -> d_open s = None -> x_failed (d_x s) = Some p -> phase (done ++ [data]) s).
  { intros s Hs Ho Hx. apply ph_failed; auto.
    - apply refuses_flag. exact Hx.
    - intros q Hq. rewrite Hs. apply Hfr0. exact Hq.
    - rewrite Hs. exact Hval0. }
  destruct (refuses st p) eqn:Eref.
  - (* refused: nothing moves *)
    cbn [fst]. split.
    + intros s [<-|[]] _. apply Hsame_safe. reflexivity.
    + intros _. destruct more.
      * destruct Hph as [Hd Ho Hf|Hd Ho Hr _ _|Ho Hr _ _]; [|congruence|]; apply Hfailed_phase; auto.
      * split; [apply Hsame_safe; reflexivity|]. dsimpl.
        destruct Hph as [Hd Ho Hf|Hd Ho Hr _ _|Ho Hr _ _]; [exact Ho|congruence|exact Ho].
  - set (st0 := with_failed st (if more then Some p else None)).
    assert (Hx0 : x_failed (d_x st0) = (if more then Some p else None)) by reflexivity.
    destruct Hph as [Hd Ho Hf|Hd Ho Hr Hfr (k0 & Hk0)|Ho Hr _ _]; [| |congruence].
    + (* first chunk: a fresh open *)
      subst done.
      destruct (open_fresh st0 Ho) as [(e & Eo)|[(q & Eo)|Eo]]; rewrite Eo; cbn [fst].
      * split.
        -- intros s [<-|[]] _. apply Hsame_safe. reflexivity.
        -- intros _. destruct more; [apply Hfailed_phase; auto|split; [apply Hsame_safe; reflexivity|reflexivity]].
      * split.
        -- intros s [<-|[<-|[]]] Hnt; exfalso; eapply nnt_through; eauto; reflexivity.
        -- intros Hnt. exfalso. eapply nnt_through; eauto. reflexivity.
      * set (st1 := tick (with_fs st0 (fset (d_fs st0) p (NFile (TNow (d_tick st0)) [])))).
        assert (Hfr1 : forall q, q <> p -> fget (d_fs st1) q = fget f0 q).
        { intros q Hq. unfold st1. dsimpl. rewrite fget_fset_ne by auto. apply Hfr0. exact Hq. }
        assert (Ep1 : fget (d_fs st1) p = Some (NFile (TNow (d_tick st0)) [])) by (unfold st1; dsimpl; apply fget_fset_eq).
        rewrite !fst_if. cbn [fst].
        destruct (opened_states st0 st1 data set_mt more [] (d_tick st0) Hfr1 Ep1 Hx0 eq_refl Hm1) as [Hs Hf'].
        { intros Hmf. destruct (Hm0 Hmf) as [Hs' Hfull]. split; [exact Hs'|]. cbn [app concat] in *. rewrite app_nil_r in Hfull. exact Hfull. }
        split; [intros s Hin _; apply Hs; exact Hin|]. intros _.
        destruct more; [|exact Hf'].
        destruct Hf' as [(F1 & F2 & F3 & F4)|(F1 & F2 & F3 & (k & F4))].
        -- apply ph_failed; auto.
        -- apply ph_healthy; auto; [discriminate|]. exists k. cbn [app concat]. rewrite app_nil_r. exact F4.
    + (* continuation of an open transfer *)
      assert (Eo : open_for_write st0 p = OpFile (with_open st0 None)) by (eapply open_cont; [exact Ho|exact Hk0]).
      rewrite Eo. cbn [fst].
      set (st1 := with_open st0 None). rewrite !fst_if. cbn [fst].
      destruct (opened_states st0 st1 data set_mt more (concat done) k0 Hfr Hk0 Hx0 eq_refl Hm1) as [Hs Hf'].
      { intros Hmf. destruct (Hm0 Hmf) as [Hs' Hfull]. split; [exact Hs'|]. rewrite concat_snoc in Hfull. exact Hfull. }
      split; [intros s Hin _; apply Hs; exact Hin|]. intros _.
      destruct more; [|exact Hf'].
      destruct Hf' as [(F1 & F2 & F3 & F4)|(F1 & F2 & F3 & (k & F4))].
      * apply ph_failed; auto.
      * apply ph_healthy; auto; [destruct done; discriminate|]. exists k. rewrite concat_snoc. exact F4.
Qed.

End Group.

(* ================= the boss's steps under faults, lag, source failures and a dying doer ================= *)
Lemma cmd_states_chunk_events fl st p data set_mt more s :
  In s (cmd_states fl st (CCreateOrUpdateFile p data set_mt more)) -> exists l, d_events s = d_events st ++ l.
Proof.
  pose proof (doer_exec_events fl st (CCreateOrUpdateFile p data set_mt more)) as Hfin.
  cbn [cmd_states]. destruct (blocked_at st p); [intros [<-|[]]; exact Hfin|].
  destruct (refuses st p); [intros [<-|[]]; exact Hfin|].
  set (st0 := with_failed st (if more then Some p else None)).
  assert (Hop : forall st1, open_for_write st0 p = OpOutside st1 \/ open_for_write st0 p = OpFile st1 ->
                  exists l, d_events st1 = d_events st ++ l).
  { intros st1 H. unfold open_for_write in H.
    destruct H as [H|H]; repeat (break_match_hyp H; try discriminate); inversion H; subst; dsimpl;
      try (exists []; rewrite app_nil_r; reflexivity); try (eexists; reflexivity). }
  destruct (open_for_write st0 p) as [st1|st1|e] eqn:Eo.
  - intros [<-|Hin]; [apply Hop; right; reflexivity|].
    apply in_app_or in Hin as [Hin|[<-|[]]]; [|exact Hfin].
    apply in_map_iff in Hin as (k & <- & _). unfold write_chunk. dsimpl. apply Hop. right; reflexivity.
  - intros [<-|[<-|[]]]; [apply Hop; left; reflexivity|exact Hfin].
  - intros [<-|[]]; exact Hfin.
Qed.

Lemma cmd_states_events fl st c s : In s (cmd_states fl st c) -> exists l, d_events s = d_events st ++ l.
Proof.
  destruct c; try (intros [<-|[]]; apply doer_exec_events). apply cmd_states_chunk_events.
Qed.

Lemma nonmut_noop fl st c : mutating c = false -> doer_exec fl st c = (st, None).
Proof. destruct c; try discriminate; reflexivity. Qed.

(* a command that is not a file chunk neither opens or closes a transfer nor produces a time-stamped file *)
Lemma nonchunk_exec fl st c :
  is_chunk c = false ->
  d_open (fst (doer_exec fl st c)) = d_open st /\
  forall q mt d, fget (d_fs (fst (doer_exec fl st c))) q = Some (NFile (TSet mt) d) ->
                 fget (d_fs st) q = Some (NFile (TSet mt) d).
Proof.
  intros Hc. destruct (doer_exec fl st c) as [st' e] eqn:H. cbn [fst].
  destruct c; try discriminate Hc; cbn [doer_exec] in H;
    repeat (break_match_hyp H; try discriminate); inv_pair H; dsimpl; (split; [reflexivity|]);
    intros q' mt0 d0 Hq; try exact Hq;
    match goal with
    | Hq : fget (fset _ ?p _) q' = _ |- _ =>
        destruct (path_eq_dec q' p) as [->|Hne]; [rewrite fget_fset_eq in Hq; discriminate|rewrite fget_fset_ne in Hq by exact Hne; exact Hq]
    | Hq : fget (fdel _ ?p) q' = _ |- _ =>
        destruct (path_eq_dec q' p) as [->|Hne]; [rewrite fget_fdel_eq in Hq; discriminate|rewrite fget_fdel_ne in Hq by exact Hne; exact Hq]
    end.
Qed.

Section Plan.
Variable fl : flavour.
Variable ft : faults.

Definition stopped (r : rstate) (c : cmd) : bool :=
  mutating c && match ft_stop ft with Some n => Nat.leb n (rs_mut r) | None => false end.
Definition injected (r : rstate) (c : cmd) : bool :=
  mutating c && negb (is_chunk c) && mem_nat (rs_mut r) (ft_dest ft).

(* the command the destination doer really executes in this step, if any *)
Definition executes (r : rstate) (s : bstep) : option cmd :=
  if rs_srcfail r then None else
  match rs_budget r with
  | Some O => None
  | _ => match s with
         | SrcFetch _ => None
         | DestCmd c => if stopped r c then None else if injected r c then None else Some c
         end
  end.

Lemma do_step_d r s :
  rs_d (do_step fl ft r s) =
  match s with
  | SrcFetch _ => rs_d r
  | DestCmd c => if stopped r c then rs_d r else if injected r c then inj_state (rs_d r) c else fst (doer_exec fl (rs_d r) c)
  end.
Proof.
  unfold do_step, stopped, injected. destruct s as [c|q]; [|reflexivity]. cbv zeta.
  destruct (mutating c && match ft_stop ft with Some n => Nat.leb n (rs_mut r) | None => false end); cbn [fst snd rs_d]; [reflexivity|].
  destruct (mutating c && negb (is_chunk c) && mem_nat (rs_mut r) (ft_dest ft)); cbn [fst snd rs_d]; [reflexivity|].
  destruct (snd (doer_exec fl (rs_d r) c)); reflexivity.
Qed.

(* the doer's state after a step in which it executes nothing: unchanged, except that an injected failure of
   a deletion is remembered as a failed deletion *)
Definition idle_d (r : rstate) (s : bstep) : dstate :=
  if rs_srcfail r then rs_d r else
  match rs_budget r with
  | Some O => rs_d r
  | _ => match s with
         | SrcFetch _ => rs_d r
         | DestCmd c => if stopped r c then rs_d r else if injected r c then inj_state (rs_d r) c else rs_d r
         end
  end.

Lemma inj_state_same st c : d_fs (inj_state st c) = d_fs st /\ d_open (inj_state st c) = d_open st /\
  d_events (inj_state st c) = d_events st /\ d_anc (inj_state st c) = d_anc st.
Proof. destruct c; repeat split; reflexivity. Qed.
Lemma idle_same r s : d_fs (idle_d r s) = d_fs (rs_d r) /\ d_open (idle_d r s) = d_open (rs_d r) /\
  d_events (idle_d r s) = d_events (rs_d r) /\ d_anc (idle_d r s) = d_anc (rs_d r).
Proof.
  unfold idle_d. destruct (rs_srcfail r); [repeat split; reflexivity|].
  destruct (rs_budget r) as [[|k]|]; [repeat split; reflexivity| |]; (destruct s as [c|q]; [|repeat split; reflexivity]);
    destruct (stopped r c); try (repeat split; reflexivity); destruct (injected r c); try (repeat split; reflexivity); apply inj_state_same.
Qed.
Lemma idle_fetch r q : idle_d r (SrcFetch q) = rs_d r.
Proof. unfold idle_d. destruct (rs_srcfail r); [reflexivity|]. destruct (rs_budget r) as [[|k]|]; reflexivity. Qed.
Lemma idle_chunk r c : is_chunk c = true -> idle_d r (DestCmd c) = rs_d r.
Proof.
  intros Hc. unfold idle_d, injected. rewrite Hc. cbn [negb]. rewrite andb_false_r. cbn [andb].
  destruct (rs_srcfail r); [reflexivity|]. destruct (rs_budget r) as [[|k]|]; try reflexivity; destruct (stopped r c); reflexivity.
Qed.

Lemma run_step_d r s :
  rs_d (run_step fl ft r s) = match executes r s with Some c => fst (doer_exec fl (rs_d r) c) | None => idle_d r s end.
Proof.
  unfold run_step, executes, idle_d. destruct (rs_srcfail r); [reflexivity|].
  destruct (rs_budget r) as [[|k]|]; [reflexivity| |]; rewrite do_step_d; destruct s as [c|q]; try reflexivity;
    destruct (stopped r c); try reflexivity; destruct (injected r c); reflexivity.
Qed.

Lemma do_step_mut r s : rs_mut r <= rs_mut (do_step fl ft r s).
Proof.
  unfold do_step. destruct s as [c|q]; cbv zeta; [|cbn [rs_mut]; lia].
  destruct (snd _); cbn [rs_mut]; destruct (mutating c); lia.
Qed.
Lemma run_step_mut r s : rs_mut r <= rs_mut (run_step fl ft r s).
Proof.
  unfold run_step. destruct (rs_srcfail r); [lia|]. destruct (rs_budget r) as [[|k]|]; [lia| |]; apply do_step_mut.
Qed.

(* nothing mutating is executed any more *)
Definition dead (r : rstate) : Prop :=
  rs_srcfail r = true \/ rs_budget r = Some 0 \/ exists n, ft_stop ft = Some n /\ n <= rs_mut r.

Lemma dead_step r s : dead r -> dead (run_step fl ft r s).
Proof.
  intros [H|[H|(n & Hn & Hle)]].
  - unfold run_step. rewrite H. left; exact H.
  - unfold run_step. rewrite H. destruct (rs_srcfail r) eqn:E; [left; exact E|right; left; exact H].
  - right; right. exists n. split; [exact Hn|]. pose proof (run_step_mut r s). lia.
Qed.

Lemma executes_dead r s c : dead r -> executes r s = Some c -> mutating c = false.
Proof.
  unfold executes. intros Hd. destruct (rs_srcfail r) eqn:Es; [discriminate|].
  destruct Hd as [H|[H|(n & Hn & Hle)]]; [congruence|rewrite H; discriminate|].
  assert (Hst : forall c', mutating c' = true -> stopped r c' = true).
  { intros c' Hm. unfold stopped. rewrite Hm, Hn. cbn [andb]. apply Nat.leb_le. exact Hle. }
  destruct (rs_budget r) as [[|k]|]; [discriminate| |]; (destruct s as [c'|q]; [|discriminate]);
    destruct (mutating c') eqn:Em; try (rewrite (Hst c' Em); discriminate);
    destruct (stopped r c'); try discriminate; destruct (injected r c'); try discriminate;
    intros H; inversion H; subst; exact Em.
Qed.

Lemma chunk_skipped_dead r c : is_chunk c = true -> executes r (DestCmd c) = None -> dead (run_step fl ft r (DestCmd c)).
Proof.
  intros Hc. unfold executes. destruct (rs_srcfail r) eqn:Es.
  { intros _. apply dead_step. left; exact Es. }
  destruct (rs_budget r) as [[|k]|] eqn:Eb.
  { intros _. apply dead_step. right; left; exact Eb. }
  all: assert (Hi : injected r c = false) by (unfold injected; rewrite Hc; cbn [negb]; rewrite andb_false_r; reflexivity);
       rewrite Hi; destruct (stopped r c) eqn:Est; [|discriminate]; intros _;
       unfold stopped in Est; apply andb_true_iff in Est as [_ Est];
       destruct (ft_stop ft) as [n|] eqn:En; [|discriminate]; apply Nat.leb_le in Est;
       right; right; exists n; (split; [exact En|]); pose proof (run_step_mut r (DestCmd c)); lia.
Qed.

(* every state of the destination that a kill (or a lost link) can leave behind during these steps *)
Definition step_states (r : rstate) (s : bstep) : list dstate :=
  match executes r s with Some c => cmd_states fl (rs_d r) c | None => [] end.
Fixpoint steps_states (r : rstate) (steps : list bstep) : list dstate :=
  match steps with
  | [] => []
  | s :: rest => step_states r s ++ steps_states (run_step fl ft r s) rest
  end.

Lemma steps_states_app steps1 : forall r steps2,
  steps_states r (steps1 ++ steps2) = steps_states r steps1 ++ steps_states (run_steps fl ft r steps1) steps2.
Proof.
  induction steps1 as [|s rest IH]; intros r steps2; [reflexivity|].
  cbn [app steps_states]. rewrite IH, <- app_assoc. reflexivity.
Qed.
Lemma run_steps_app steps1 steps2 r : run_steps fl ft r (steps1 ++ steps2) = run_steps fl ft (run_steps fl ft r steps1) steps2.
Proof. unfold run_steps. apply fold_left_app. Qed.

Lemma run_step_events r s : exists l, d_events (rs_d (run_step fl ft r s)) = d_events (rs_d r) ++ l.
Proof.
  rewrite run_step_d. destruct (executes r s); [apply doer_exec_events|exists []; rewrite app_nil_r; apply (idle_same r s)].
Qed.
Lemma run_steps_events steps : forall r, exists l, d_events (rs_d (run_steps fl ft r steps)) = d_events (rs_d r) ++ l.
Proof.
  induction steps as [|s rest IH]; intros r; [exists []; rewrite app_nil_r; reflexivity|].
  change (run_steps fl ft r (s :: rest)) with (run_steps fl ft (run_step fl ft r s) rest).
  destruct (IH (run_step fl ft r s)) as (l2 & E2). destruct (run_step_events r s) as (l1 & E1).
  exists (l1 ++ l2). rewrite E2, E1, app_assoc. reflexivity.
Qed.
Lemma steps_states_events steps : forall r s, In s (steps_states r steps) -> exists l, d_events s = d_events (rs_d r) ++ l.
Proof.
  induction steps as [|st rest IH]; intros r s; cbn [steps_states]; [intros []|].
  intros Hin. apply in_app_or in Hin as [Hin|Hin].
  - unfold step_states in Hin. destruct (executes r st); [eapply cmd_states_events; exact Hin|destruct Hin].
  - destruct (IH _ _ Hin) as (l2 & E2). destruct (run_step_events r st) as (l1 & E1).
    exists (l1 ++ l2). rewrite E2, E1, app_assoc. reflexivity.
Qed.

Lemma idle_dead r s : dead r -> idle_d r s = rs_d r.
Proof.
  unfold idle_d. intros Hd. destruct (rs_srcfail r) eqn:Es; [reflexivity|].
  destruct Hd as [H|[H|(n & Hn & Hle)]]; [congruence|rewrite H; reflexivity|].
  destruct (rs_budget r) as [[|k]|]; [reflexivity| |]; (destruct s as [c|q]; [|reflexivity]);
    unfold stopped, injected; rewrite Hn; destruct (mutating c); cbn [andb]; try reflexivity;
    assert (Hl : Nat.leb n (rs_mut r) = true) by (apply Nat.leb_le; exact Hle); rewrite Hl; reflexivity.
Qed.

(* once dead, the destination is frozen *)
Lemma dead_frozen steps : forall r, dead r ->
  (forall s, In s (steps_states r steps) -> s = rs_d r) /\ rs_d (run_steps fl ft r steps) = rs_d r /\ dead (run_steps fl ft r steps).
Proof.
  induction steps as [|st rest IH]; intros r Hd; [repeat split; [intros s []|exact Hd]|].
  change (run_steps fl ft r (st :: rest)) with (run_steps fl ft (run_step fl ft r st) rest). cbn [steps_states].
  assert (Hsame : rs_d (run_step fl ft r st) = rs_d r).
  { rewrite run_step_d. destruct (executes r st) as [c|] eqn:E; [|apply idle_dead; exact Hd].
    rewrite (nonmut_noop fl _ c (executes_dead r st c Hd E)). reflexivity. }
  destruct (IH (run_step fl ft r st) (dead_step r st Hd)) as (I1 & I2 & I3).
  repeat split; [|rewrite I2; exact Hsame|exact I3].
  intros s Hin. apply in_app_or in Hin as [Hin|Hin]; [|rewrite (I1 s Hin); exact Hsame].
  unfold step_states in Hin. destruct (executes r st) as [c|] eqn:E; [|destruct Hin].
  pose proof (executes_dead r st c Hd E) as Hm.
  destruct c; try discriminate Hm; destruct Hin as [<-|[]]; reflexivity.
Qed.

End Plan.

Lemma nt_prefix a l : no_through (a ++ l) -> no_through a.
Proof. intros H. apply no_through_app in H. tauto. Qed.
Lemma nt_dec l : {no_through l} + {~ no_through l}.
Proof. unfold no_through. destruct (forallb _ l); [left; reflexivity|right; discriminate]. Qed.
Lemma no_new_of_no_through st s :
  (exists l, d_events s = d_events st ++ l) -> no_through (d_events s) -> no_new_through st s.
Proof.
  intros (l & E) H. unfold no_new_through. rewrite E in *. rewrite skipn_app, skipn_all, Nat.sub_diag.
  cbn [skipn app]. apply no_through_app in H. tauto.
Qed.
Lemma executes_some ft r s c : executes ft r s = Some c -> s = DestCmd c.
Proof.
  unfold executes. destruct (rs_srcfail r); [discriminate|].
  destruct (rs_budget r) as [[|k]|]; [discriminate| |]; (destruct s as [c'|q]; [|discriminate]);
    destruct (stopped ft r c'); try discriminate; destruct (injected ft r c'); try discriminate;
    intros H; inversion H; reflexivity.
Qed.
Lemma executes_fetch ft r q : executes ft r (SrcFetch q) = None.
Proof. unfold executes. destruct (rs_srcfail r); [reflexivity|]. destruct (rs_budget r) as [[|k]|]; reflexivity. Qed.

(* a chunk command never adds to the failed deletions; a blocked one does nothing at all *)
Lemma open_keeps_faildel st p st1 :
  open_for_write st p = OpFile st1 \/ open_for_write st p = OpOutside st1 -> x_faildel (d_x st1) = x_faildel (d_x st).
Proof.
  intros H. unfold open_for_write in H.
  destruct H as [H|H]; repeat (break_match_hyp H; try discriminate); inversion H; subst; reflexivity.
Qed.
Lemma chunk_keeps_faildel fl st p data set_mt more :
  x_faildel (d_x (fst (doer_exec fl st (CCreateOrUpdateFile p data set_mt more)))) = x_faildel (d_x st).
Proof.
  cbn [doer_exec]. destruct (blocked_at st p); [reflexivity|]. destruct (refuses st p); [reflexivity|].
  set (st0 := with_failed st (if more then Some p else None)).
  assert (H0 : x_faildel (d_x st0) = x_faildel (d_x st)) by reflexivity.
  destruct (open_for_write st0 p) as [st1|st1|e] eqn:Eo; cbn [fst].
  - pose proof (open_keeps_faildel st0 p st1 (or_introl Eo)) as H1.
    rewrite fst_if. destruct (write_fails st1); cbn [fst]; [|destruct set_mt]; unfold stamp_file, write_chunk; cbn -[N.add]; congruence.
  - pose proof (open_keeps_faildel st0 p st1 (or_intror Eo)) as H1. cbn -[N.add]. congruence.
  - cbn -[N.add]. exact H0.
Qed.
Lemma blocked_same st st' p : x_faildel (d_x st') = x_faildel (d_x st) -> blocked_at st' p = blocked_at st p.
Proof. unfold blocked_at. intros ->. reflexivity. Qed.
Lemma blocked_chunk_noop fl st p data set_mt more :
  blocked_at st p = true ->
  doer_exec fl st (CCreateOrUpdateFile p data set_mt more) = (st, Some ERefused) /\
  cmd_states fl st (CCreateOrUpdateFile p data set_mt more) = [st].
Proof. intros H. cbn [cmd_states doer_exec]. rewrite H. split; reflexivity. Qed.

(* ---- the chunks of one file, as the boss sends them ---- *)
Section FileBlock.
Variable fl : flavour.
Variable ft : faults.
Variable p : path.
Variable mt : Z.
Variable full : str.
Variable f0 : fs.
Notation v0 := (fget f0 p).
Notation safe' := (safe p mt full v0 f0).
Notation phase' := (phase p v0 f0).

Lemma file_block : forall chunks done r,
  chunks <> [] -> concat (done ++ chunks) = full -> phase' done (rs_d r) -> blocked_at (rs_d r) p = false ->
  (forall s, In s (steps_states fl ft r (chunk_cmds p mt chunks)) -> no_through (d_events s) -> safe' s) /\
  (no_through (d_events (rs_d (run_steps fl ft r (chunk_cmds p mt chunks)))) ->
   safe' (rs_d (run_steps fl ft r (chunk_cmds p mt chunks))) /\
   (d_open (rs_d (run_steps fl ft r (chunk_cmds p mt chunks))) = None \/ dead ft (run_steps fl ft r (chunk_cmds p mt chunks)))).
Proof.
  induction chunks as [|c rest IH]; intros done r Hne Hfull Hph Hb; [congruence|].
  pose proof (phase_safe p mt full v0 f0 eq_refl done (rs_d r) Hph) as Hsafe_r.
  destruct rest as [|c2 rest'].
  - (* the last chunk *)
    cbn [chunk_cmds steps_states]. rewrite app_nil_r.
    change (run_steps fl ft r [DestCmd (CCreateOrUpdateFile p c (Some mt) false)])
      with (run_step fl ft r (DestCmd (CCreateOrUpdateFile p c (Some mt) false))).
    set (cmd := CCreateOrUpdateFile p c (Some mt) false).
    unfold step_states. rewrite run_step_d.
    destruct (executes ft r (DestCmd cmd)) as [c0|] eqn:E.
    + apply executes_some in E as E'. inversion E'; subst c0. clear E'.
      destruct (chunk_step fl p mt full v0 f0 eq_refl done (rs_d r) c (Some mt) false Hb Hph) as [Hs Hf];
        [discriminate|intros _; split; [reflexivity|exact Hfull]|].
      split.
      * intros s Hin Hnt. apply Hs; [exact Hin|]. apply no_new_of_no_through; [eapply cmd_states_events; exact Hin|exact Hnt].
      * intros Hnt. destruct Hf as [Hf1 Hf2]; [apply no_new_of_no_through; [apply doer_exec_events|exact Hnt]|].
        split; [exact Hf1|left; exact Hf2].
    + rewrite (idle_chunk ft r cmd eq_refl). split; [intros s []|]. intros _. split; [exact Hsafe_r|]. right.
      apply chunk_skipped_dead; [reflexivity|exact E].
  - (* a chunk with more to follow *)
    set (cmd := CCreateOrUpdateFile p c None true).
    change (chunk_cmds p mt (c :: c2 :: rest')) with (DestCmd cmd :: chunk_cmds p mt (c2 :: rest')).
    change (run_steps fl ft r (DestCmd cmd :: chunk_cmds p mt (c2 :: rest')))
      with (run_steps fl ft (run_step fl ft r (DestCmd cmd)) (chunk_cmds p mt (c2 :: rest'))).
    cbn [steps_states]. unfold step_states.
    pose proof (run_step_d fl ft r (DestCmd cmd)) as Hd1.
    destruct (executes ft r (DestCmd cmd)) as [c0|] eqn:E.
    + apply executes_some in E as E'. inversion E'; subst c0. clear E'.
      destruct (chunk_step fl p mt full v0 f0 eq_refl done (rs_d r) c None true Hb Hph) as [Hs Hf];
        [reflexivity|discriminate|].
      set (r1 := run_step fl ft r (DestCmd cmd)) in *.
      assert (Hph1 : no_through (d_events (rs_d r1)) -> phase' (done ++ [c]) (rs_d r1)).
      { intros Hnt. rewrite Hd1. rewrite Hd1 in Hnt. apply Hf. apply no_new_of_no_through; [apply doer_exec_events|exact Hnt]. }
      assert (Hfull1 : concat ((done ++ [c]) ++ c2 :: rest') = full) by (rewrite <- app_assoc; exact Hfull).
      assert (Hb1 : blocked_at (rs_d r1) p = false).
      { rewrite Hd1. unfold cmd. rewrite (blocked_same (rs_d r) _ p (chunk_keeps_faildel fl (rs_d r) p c None true)). exact Hb. }
      split.
      * intros s Hin Hnt. apply in_app_or in Hin as [Hin|Hin].
        -- apply Hs; [exact Hin|]. apply no_new_of_no_through; [eapply cmd_states_events; exact Hin|exact Hnt].
        -- destruct (steps_states_events fl ft _ _ _ Hin) as (l & El).
           assert (Hnt1 : no_through (d_events (rs_d r1))) by (rewrite El in Hnt; eapply nt_prefix; exact Hnt).
           destruct (IH (done ++ [c]) r1 ltac:(discriminate) Hfull1 (Hph1 Hnt1) Hb1) as [I1 _]. apply I1; assumption.
      * intros Hnt.
        destruct (run_steps_events fl ft (chunk_cmds p mt (c2 :: rest')) r1) as (l & El).
        assert (Hnt1 : no_through (d_events (rs_d r1))) by (rewrite El in Hnt; eapply nt_prefix; exact Hnt).
        destruct (IH (done ++ [c]) r1 ltac:(discriminate) Hfull1 (Hph1 Hnt1) Hb1) as [_ I2]. apply I2. exact Hnt.
    + (* not executed: nothing mutating is executed after it either *)
      rewrite (idle_chunk ft r cmd eq_refl) in Hd1.
      set (r1 := run_step fl ft r (DestCmd cmd)) in *.
      assert (Hdead : dead ft r1) by (apply chunk_skipped_dead; [reflexivity|exact E]).
      destruct (dead_frozen fl ft (chunk_cmds p mt (c2 :: rest')) r1 Hdead) as (F1 & F2 & F3).
      split.
      * intros s Hin _. cbn [app] in Hin. rewrite (F1 s Hin), Hd1. exact Hsafe_r.
      * intros _. rewrite F2, Hd1. split; [exact Hsafe_r|right; exact F3].
Qed.

End FileBlock.

(* a file whose path lies at or below a failed deletion: every chunk command is refused, nothing moves *)
Lemma chunk_cmds_shape p mt chunks s : In s (chunk_cmds p mt chunks) -> exists d smt more, s = DestCmd (CCreateOrUpdateFile p d smt more).
Proof.
  induction chunks as [|c rest IH]; [intros []|]. destruct rest as [|c2 rest'].
  - intros [<-|[]]. eauto.
  - change (chunk_cmds p mt (c :: c2 :: rest')) with (DestCmd (CCreateOrUpdateFile p c None true) :: chunk_cmds p mt (c2 :: rest')).
    intros [<-|H]; [eauto|apply IH; exact H].
Qed.

Lemma blocked_steps fl ft p steps : (forall s, In s steps -> exists d smt more, s = DestCmd (CCreateOrUpdateFile p d smt more)) ->
  forall r, blocked_at (rs_d r) p = true ->
  (forall s, In s (steps_states fl ft r steps) -> s = rs_d r) /\ rs_d (run_steps fl ft r steps) = rs_d r.
Proof.
  induction steps as [|st rest IH]; intros Hall r Hb; [split; [intros s []|reflexivity]|].
  change (run_steps fl ft r (st :: rest)) with (run_steps fl ft (run_step fl ft r st) rest). cbn [steps_states].
  destruct (Hall st (or_introl eq_refl)) as (d & smt & more & ->).
  assert (Hsame : rs_d (run_step fl ft r (DestCmd (CCreateOrUpdateFile p d smt more))) = rs_d r).
  { rewrite run_step_d. destruct (executes ft r _) as [c0|] eqn:E; [|apply idle_chunk; reflexivity].
    apply executes_some in E. inversion E; subst c0.
    destruct (blocked_chunk_noop fl (rs_d r) p d smt more Hb) as [-> _]. reflexivity. }
  destruct (IH (fun s H => Hall s (or_intror H)) (run_step fl ft r (DestCmd (CCreateOrUpdateFile p d smt more)))) as [I1 I2];
    [rewrite Hsame; exact Hb|].
  split; [|rewrite I2; exact Hsame].
  intros s Hin. apply in_app_or in Hin as [Hin|Hin]; [|rewrite (I1 s Hin); exact Hsame].
  unfold step_states in Hin. destruct (executes ft r _) as [c0|] eqn:E; [|destruct Hin].
  apply executes_some in E. inversion E; subst c0.
  destruct (blocked_chunk_noop fl (rs_d r) p d smt more Hb) as [_ Hcs]. rewrite Hcs in Hin. destruct Hin as [<-|[]]. reflexivity.
Qed.

(* ================= the whole plan ================= *)
(* Generic form: any invariant of the destination that is kept by the single commands of the plan and by
   the observable states of a file transfer holds in every state a kill can leave behind and at the end. *)
Section Generic.
Variable fl : flavour.
Variable ft : faults.
Variable S : fs.                       (* the source *)
Variable Inv : dstate -> Prop.
Variable okc : cmd -> Prop.            (* the single commands the plan may contain *)
Variable okf : path -> Z -> Prop.      (* the files the plan may transfer, with the time they are given *)
Hypothesis Inv_fs : forall st st', d_fs st' = d_fs st -> Inv st -> Inv st'.     (* the invariant is about the tree *)
Hypothesis Inv_cmd : forall st c, okc c -> is_chunk c = false -> Inv st -> Inv (fst (doer_exec fl st c)).
Hypothesis Inv_file : forall st p mt full m s, okf p mt -> fget S p = Some (NFile m full) -> Inv st ->
  safe p mt full (fget (d_fs st) p) (d_fs st) s -> Inv s.

(* the shape of what the boss sends: single commands, source reads, and per file the chunks of its bytes *)
Inductive gplan_ok : list bstep -> Prop :=
| pk_nil : gplan_ok []
| pk_cmd c rest : is_chunk c = false -> okc c -> gplan_ok rest -> gplan_ok (DestCmd c :: rest)
| pk_fetch q rest : gplan_ok rest -> gplan_ok (SrcFetch q :: rest)
| pk_file p mt chunks m rest :
    chunks <> [] -> fget S p = Some (NFile m (concat chunks)) -> okf p mt -> gplan_ok rest ->
    gplan_ok (chunk_cmds p mt chunks ++ rest).

Definition GJ (r : rstate) : Prop :=
  no_through (d_events (rs_d r)) -> Inv (rs_d r) /\ (d_open (rs_d r) = None \/ dead ft r).

Definition Goal_for (r : rstate) (steps : list bstep) : Prop :=
  (forall s, In s (steps_states fl ft r steps) -> no_through (d_events s) -> Inv s) /\ GJ (run_steps fl ft r steps).

Lemma vacuous_after r steps : ~ no_through (d_events (rs_d r)) -> Goal_for r steps.
Proof.
  intros Hn. split.
  - intros s Hin Hnt. exfalso. apply Hn. destruct (steps_states_events fl ft _ _ _ Hin) as (l & El).
    rewrite El in Hnt. eapply nt_prefix; exact Hnt.
  - intros Hnt. exfalso. apply Hn. destruct (run_steps_events fl ft steps r) as (l & El).
    rewrite El in Hnt. eapply nt_prefix; exact Hnt.
Qed.

Lemma dead_case r steps : Inv (rs_d r) -> dead ft r -> Goal_for r steps.
Proof.
  intros HG Hd. destruct (dead_frozen fl ft steps r Hd) as (F1 & F2 & F3). split.
  - intros s Hin _. rewrite (F1 s Hin). exact HG.
  - intros _. rewrite F2. split; [exact HG|right; exact F3].
Qed.

Lemma Goal_cons r s rest :
  (forall x, In x (step_states fl ft r s) -> no_through (d_events x) -> Inv x) ->
  (GJ (run_step fl ft r s) -> Goal_for (run_step fl ft r s) rest) -> GJ (run_step fl ft r s) ->
  Goal_for r (s :: rest).
Proof.
  intros H1 H2 HJ. destruct (H2 HJ) as [G1 G2]. split.
  - intros x Hin Hnt. cbn [steps_states] in Hin. apply in_app_or in Hin as [Hin|Hin]; [apply H1|apply G1]; assumption.
  - exact G2.
Qed.

Theorem gplan_safe steps : gplan_ok steps -> forall r, GJ r -> Goal_for r steps.
Proof.
  induction 1 as [|c rest Hc Hokc Hrest IH|q rest Hrest IH|p mt chunks m rest Hne HS Hokf Hrest IH]; intros r HJ.
  - split; [intros s []|exact HJ].
  - (* a single command that is not a chunk *)
    destruct (nt_dec (d_events (rs_d r))) as [Hnt|Hnt]; [|apply vacuous_after; exact Hnt].
    destruct (HJ Hnt) as [HG [Ho|Hd]]; [|apply dead_case; assumption].
    destruct (nonchunk_exec fl (rs_d r) c Hc) as [Hopen _].
    assert (HG1 : Inv (fst (doer_exec fl (rs_d r) c))) by (apply Inv_cmd; assumption).
    apply Goal_cons; [|apply IH|].
    + intros x Hin _. unfold step_states in Hin. destruct (executes ft r (DestCmd c)) as [c0|] eqn:E; [|destruct Hin].
      apply executes_some in E. inversion E; subst c0.
      destruct c; try discriminate Hc; destruct Hin as [<-|[]]; exact HG1.
    + intros _. rewrite run_step_d. destruct (executes ft r (DestCmd c)) as [c0|] eqn:E.
      * apply executes_some in E. inversion E; subst c0. split; [exact HG1|left; rewrite Hopen; exact Ho].
      * destruct (idle_same ft r (DestCmd c)) as (I1 & I2 & _).
        split; [apply (Inv_fs (rs_d r)); [exact I1|exact HG]|left; rewrite I2; exact Ho].
  - (* a read on the source *)
    destruct (nt_dec (d_events (rs_d r))) as [Hnt|Hnt]; [|apply vacuous_after; exact Hnt].
    destruct (HJ Hnt) as [HG [Ho|Hd]]; [|apply dead_case; assumption].
    apply Goal_cons; [|apply IH|].
    + intros x Hin _. unfold step_states in Hin. rewrite executes_fetch in Hin. destruct Hin.
    + intros _. rewrite run_step_d, executes_fetch, idle_fetch. split; [exact HG|left; exact Ho].
  - (* the chunks of a file *)
    destruct (nt_dec (d_events (rs_d r))) as [Hnt|Hnt]; [|apply vacuous_after; exact Hnt].
    destruct (HJ Hnt) as [HG [Ho|Hd]]; [|apply dead_case; assumption].
    destruct (blocked_at (rs_d r) p) eqn:Hb.
    { (* the file lies at or below a failed deletion: nothing moves during its block *)
      destruct (blocked_steps fl ft p (chunk_cmds p mt chunks) (chunk_cmds_shape p mt chunks) r Hb) as [K1 K2].
      assert (HJ1 : GJ (run_steps fl ft r (chunk_cmds p mt chunks))).
      { intros _. rewrite K2. split; [exact HG|left; exact Ho]. }
      destruct (IH _ HJ1) as [G1 G2]. split.
      - intros s Hin Hnts. rewrite steps_states_app in Hin. apply in_app_or in Hin as [Hin|Hin].
        + rewrite (K1 s Hin). exact HG.
        + apply G1; assumption.
      - rewrite run_steps_app. exact G2. }
    assert (Hph : phase p (fget (d_fs (rs_d r)) p) (d_fs (rs_d r)) [] (rs_d r)) by (apply ph_start; auto).
    destruct (file_block fl ft p mt (concat chunks) (d_fs (rs_d r)) chunks [] r Hne eq_refl Hph Hb) as [B1 B2].
    assert (Hsg : forall s, safe p mt (concat chunks) (fget (d_fs (rs_d r)) p) (d_fs (rs_d r)) s -> Inv s).
    { intros s. apply (Inv_file (rs_d r) p mt (concat chunks) m s); assumption. }
    assert (HJ1 : GJ (run_steps fl ft r (chunk_cmds p mt chunks))).
    { intros Hnt1. destruct (B2 Hnt1) as [Hs1 Hod]. split; [apply Hsg; exact Hs1|exact Hod]. }
    destruct (IH _ HJ1) as [G1 G2]. split.
    + intros s Hin Hnts. rewrite steps_states_app in Hin. apply in_app_or in Hin as [Hin|Hin].
      * apply Hsg. apply B1; assumption.
      * apply G1; assumption.
    + rewrite run_steps_app. exact G2.
Qed.

End Generic.

(* ================= instance 1 (C08): no stamped damage ================= *)
Section Main.
Variable fl : flavour.
Variable ft : faults.
Variable S : fs.       (* the source *)
Variable D0 : fs.      (* the destination before the run *)

(* C08's invariant: a file that carries a set time (as opposed to the time of its last write) is either
   the file that was there before the run, or holds exactly the complete bytes of the source file *)
Definition Good (s : dstate) : Prop :=
  forall q t d, fget (d_fs s) q = Some (NFile (TSet t) d) ->
    fget D0 q = Some (NFile (TSet t) d) \/ exists m, fget S q = Some (NFile m d).

Definition any_cmd (c : cmd) : Prop := True.
Definition any_file (p : path) (mt : Z) : Prop := True.
Definition plan_ok : list bstep -> Prop := gplan_ok S any_cmd any_file.
Definition J : rstate -> Prop := GJ ft Good.

Lemma safe_good p mt full f0 m s :
  (forall q t d, fget f0 q = Some (NFile (TSet t) d) ->
     fget D0 q = Some (NFile (TSet t) d) \/ exists m, fget S q = Some (NFile m d)) ->
  fget S p = Some (NFile m full) -> safe p mt full (fget f0 p) f0 s -> Good s.
Proof.
  intros HG HS [Hfr Hp] q t d Hq. destruct (path_eq_dec q p) as [->|Hne].
  - destruct Hp as [Hp|[(k & dd & Hp)|Hp]].
    + apply HG. rewrite <- Hp. exact Hq.
    + rewrite Hp in Hq. discriminate.
    + rewrite Hp in Hq. inversion Hq; subst. right. exists m. exact HS.
  - apply HG. rewrite <- (Hfr q Hne). exact Hq.
Qed.

Theorem plan_safe steps : plan_ok steps -> forall r, J r ->
  (forall s, In s (steps_states fl ft r steps) -> no_through (d_events s) -> Good s) /\ J (run_steps fl ft r steps).
Proof.
  intros Hp r HJ. apply (gplan_safe fl ft S Good any_cmd any_file); [| | |exact Hp|exact HJ].
  - intros st st' E HG q t d Hq. apply HG. rewrite <- E. exact Hq.
  - intros st c _ Hc HG q t d Hq. apply HG. apply (nonchunk_exec fl st c Hc). exact Hq.
  - intros st p mt full m s _ HS HG Hs. eapply safe_good; eauto.
Qed.

End Main.
