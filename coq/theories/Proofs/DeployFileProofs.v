(* Proofs about Model/DeployFile.v: after the deployment steps the remote program file can be
   started, whichever way the binary was staged; the chmod step is what makes that true for a
   generated binary, and a copy of the running program hides its absence. *)
From RJ Require Import Base.Prelude Model.DeployFile.
Local Open Scope N_scope.

Lemma chmod_sets_owner_x (m r : N) : N.testbit r 6 = false -> N.testbit (chmod_plus_x m r) 6 = true.
Proof.
  intros H. unfold chmod_plus_x, mask. rewrite N.lor_spec, N.ldiff_spec, H.
  replace (N.testbit 73 6) with true by reflexivity. apply orb_true_r.
Qed.

Lemma chmod_keeps_bits (m r n : N) : N.testbit m n = true -> N.testbit (chmod_plus_x m r) n = true.
Proof. intros H. unfold chmod_plus_x. rewrite N.lor_spec, H. reflexivity. Qed.

Lemma owner_x_can_exec (root : bool) (m : N) : N.testbit m 6 = true -> can_exec root m = true.
Proof.
  intros H. destruct root; cbn [can_exec]; [|exact H].
  destruct (N.land m 73 =? 0) eqn:E; [|reflexivity].
  apply N.eqb_eq in E.
  assert (X : N.testbit (N.land m 73) 6 = true).
  { rewrite N.land_spec, H. reflexivity. }
  rewrite E, N.bits_0 in X. discriminate.
Qed.

Lemma rw_has_no_x (n : N) : N.testbit 438 n && N.testbit 73 n = false.
Proof.
  rewrite <- N.land_spec. replace (N.land 438 73) with 0 by reflexivity. apply N.bits_0.
Qed.

(* a freshly written file (0o666 masked by any umask), uploaded as a new file under any remote umask *)
Lemma generated_upload_has_no_x (b r : N) : N.land (scp_mode None (staged_mode StGenerated 0 b) r) 73 = 0.
Proof.
  apply N.bits_inj. intros n. cbn [scp_mode staged_mode]. unfold mask.
  rewrite N.bits_0, N.land_spec, N.ldiff_spec, N.land_spec, N.ldiff_spec.
  pose proof (rw_has_no_x n) as X.
  destruct (N.testbit 438 n), (N.testbit 73 n); try discriminate X;
    cbn [andb negb]; rewrite ?andb_false_r; reflexivity.
Qed.

Lemma generated_upload_cannot_exec (root : bool) (b r : N) :
  can_exec root (scp_mode None (staged_mode StGenerated 0 b) r) = false.
Proof.
  destruct root; cbn [can_exec].
  - rewrite generated_upload_has_no_x. reflexivity.
  - pose proof (generated_upload_has_no_x b r) as X.
    assert (Y : N.testbit (N.land (scp_mode None (staged_mode StGenerated 0 b) r) 73) 6 = false).
    { rewrite X. apply N.bits_0. }
    rewrite N.land_spec in Y. replace (N.testbit 73 6) with true in Y by reflexivity.
    rewrite andb_true_r in Y. exact Y.
Qed.

Lemma staged_generated_ignores_self (s b : N) : staged_mode StGenerated s b = staged_mode StGenerated 0 b.
Proof. reflexivity. Qed.

(* --- the statements used by Props/C19.v *)

Lemma deploy_steps_shape :
  deploy_steps false = [SScp; SChmod; SLaunch] /\ deploy_steps true = [SScp; SLaunch].
Proof. split; reflexivity. Qed.

Lemma deployed_file_starts (native root : bool) (self_mode bumask rumask : N) (existing : option N) :
  N.testbit rumask 6 = false ->
  deploy_file false native root self_mode bumask rumask existing =
    mkWorld (Some (chmod_plus_x (scp_mode existing (staged_mode (choose_staging native) self_mode bumask) rumask) rumask))
            (Some true).
Proof.
  intros H. unfold deploy_file, run_steps, deploy_steps.
  cbn [app fold_left do_step w_remote w_started option_map orb].
  rewrite (owner_x_can_exec root _ (chmod_sets_owner_x _ _ H)). reflexivity.
Qed.

Lemma chmod_needed (root : bool) (self_mode bumask rumask : N) :
  w_started (run_steps false root (staged_mode (choose_staging false) self_mode bumask) rumask
                       (mkWorld None None) [SScp; SLaunch]) = Some false.
Proof.
  unfold run_steps. cbn [fold_left do_step w_remote w_started choose_staging orb].
  rewrite staged_generated_ignores_self, generated_upload_cannot_exec. reflexivity.
Qed.

Lemma copyself_hides_chmod (root : bool) (self_mode bumask rumask : N) :
  N.testbit self_mode 6 = true -> N.testbit rumask 6 = false ->
  w_started (run_steps false root (staged_mode (choose_staging true) self_mode bumask) rumask
                       (mkWorld None None) [SScp; SLaunch]) = Some true.
Proof.
  intros Hs Hr. unfold run_steps. cbn [fold_left do_step w_remote w_started choose_staging orb].
  rewrite owner_x_can_exec; [reflexivity|].
  cbn [scp_mode staged_mode]. unfold mask.
  rewrite N.ldiff_spec, N.land_spec, N.land_spec, Hs, Hr. reflexivity.
Qed.

(* non-vacuity / the numbers of the usual case: umask 022 on both sides, program file 0o755 *)
Example deploy_example :
  deploy_trace false false true 493 18 18 None =
    (420, [(SScp, mkWorld (Some 420) None); (SChmod, mkWorld (Some 493) None); (SLaunch, mkWorld (Some 493) (Some true))]) /\
  deploy_trace false true true 493 18 18 None =
    (493, [(SScp, mkWorld (Some 493) None); (SChmod, mkWorld (Some 493) None); (SLaunch, mkWorld (Some 493) (Some true))]) /\
  deploy_trace true false true 493 18 18 None =
    (420, [(SScp, mkWorld (Some 420) None); (SLaunch, mkWorld (Some 420) (Some true))]).
Proof. repeat split; vm_compute; reflexivity. Qed.
