(* Arbitrary command sequences against the doer model (Model/DoerOps.v) - not only what a boss would send.  The per-command
   lemmas of FsProofs / WfProofs lifted over any list of commands:

     doer_run_frame   a path that no command of the sequence names is, at the end, as it was
     doer_run_wfu     the tree stays a well-formed tree (every entry's parent is a folder, keys unique)
     doer_run_errors  a command that is answered with an error other than a failed write leaves the tree as it found it
                      (stated for every position of the sequence)
     doer_run_length  one answer per command *)
From RJ Require Import Base.Prelude Model.Settings Model.Core Model.Fs Model.DoerOps Proofs.FsProofs Proofs.WfProofs.

Lemma doer_run_length fl : forall cs st, length (snd (doer_run fl st cs)) = length cs.
Proof.
  induction cs as [|c cs IH]; intros st; cbn [doer_run]; [reflexivity|].
  destruct (doer_exec fl st c) as [st1 r] eqn:E. specialize (IH st1). destruct (doer_run fl st1 cs) as [st2 rs]. cbn [snd length] in *. lia.
Qed.

Theorem doer_run_frame fl : forall cs st p,
  Forall (fun c => cmd_path c <> Some p) cs -> fget (d_fs (fst (doer_run fl st cs))) p = fget (d_fs st) p.
Proof.
  induction cs as [|c cs IH]; intros st p H; cbn [doer_run]; [reflexivity|].
  inversion H as [|? ? Hc Hcs]; subst.
  destruct (doer_exec fl st c) as [st1 r] eqn:E. specialize (IH st1 p Hcs).
  destruct (doer_run fl st1 cs) as [st2 rs]. cbn [fst] in *. rewrite IH. eapply doer_exec_frame; eassumption.
Qed.

Theorem doer_run_wfu fl : forall cs st, wfu (d_fs st) -> wfu (d_fs (fst (doer_run fl st cs))).
Proof.
  induction cs as [|c cs IH]; intros st H; cbn [doer_run]; [exact H|].
  destruct (doer_exec fl st c) as [st1 r] eqn:E.
  assert (H1 : wfu (d_fs st1)) by (pose proof (doer_exec_wfu fl st c H) as X; rewrite E in X; exact X).
  specialize (IH st1 H1). destruct (doer_run fl st1 cs) as [st2 rs]. exact IH.
Qed.

(* the state before the k-th command of a run *)
Fixpoint state_before (fl : flavour) (st : dstate) (cs : list cmd) (k : nat) : dstate :=
  match k, cs with
  | S k', c :: rest => state_before fl (fst (doer_exec fl st c)) rest k'
  | _, _ => st
  end.

Theorem doer_run_errors fl : forall cs st k c e,
  nth_error cs k = Some c -> nth_error (snd (doer_run fl st cs)) k = Some (Some e) -> e <> EWrite ->
  d_fs (fst (doer_exec fl (state_before fl st cs k) c)) = d_fs (state_before fl st cs k).
Proof.
  induction cs as [|c0 cs IH]; intros st k c e Hc Hr Hne; [destruct k; discriminate|].
  cbn [doer_run] in Hr. destruct (doer_exec fl st c0) as [st1 r] eqn:E.
  destruct (doer_run fl st1 cs) as [st2 rs] eqn:E2. cbn [snd] in Hr.
  destruct k as [|k].
  - cbn in Hc, Hr. inversion Hc; subst c0. inversion Hr; subst r. cbn [state_before]. rewrite E. cbn [fst].
    eapply doer_exec_err_fs; eassumption.
  - cbn [nth_error] in Hc, Hr. cbn [state_before]. rewrite E. cbn [fst].
    apply (IH st1 k c e Hc); [|exact Hne]. rewrite E2. exact Hr.
Qed.

Example doer_ops_example :
  let f : fs := [([], NFolder); ([["f"%char]], NFile (TSet 5) ["x"%char]); ([["d"%char]], NFolder); ([["l"%char]], NLink ["f"%char] SKFile)] in
  snd (doer_ops f [CCreateFolder [["f"%char]]; CDeleteFolder [["f"%char]]; CDeleteFile [["d"%char]]; CCreateFolder [["d"%char]; ["n"%char]];
                   CDeleteFolder [["d"%char]]; CDeleteSymlink [["l"%char]] SKFile; CCreateSymlink [["l"%char]] SKUnknown (TRaw ["z"%char])])
  = [Some EExist; Some ENotDir; Some EIsDir; Some ERefused; Some ERefused; None; None].
  (* the failed deletion of d (a folder is not a file) is remembered: everything queued for d or below it is refused *)
Proof. vm_compute. reflexivity. Qed.
