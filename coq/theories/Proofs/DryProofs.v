(* --dry-run: inert, and predicts the real run (C05); exit status 0 means every planned step was
   performed (used by C07 as well). *)
From RJ Require Import Base.Prelude Base.OrderedPlan Model.Settings Model.Core Model.Fs Model.Sync
  Spec.PlanSpec Proofs.FsProofs Proofs.SyncProofs.

Definition with_dry (c : config) (d : bool) : config :=
  mkCfg (cf_diff c) (cf_fl c) (cf_b c) (cf_root c) d.

Definition dest_cmds (steps : list bstep) : list cmd :=
  flat_map (fun s => match s with DestCmd c => [c] | SrcFetch _ => [] end) steps.
Definition src_fetches (steps : list bstep) : list cmd :=
  flat_map (fun s => match s with DestCmd _ => [] | SrcFetch p => [CGetFileContent p] end) steps.

(* what a dry run prints for a step list: one line per action, keyed by kind and path *)
Inductive wkind := WKDelete | WKCopy | WKFolder | WKLink.
Definition would_key (w : would) : wkind * path :=
  match w with WDelete p _ => (WKDelete, p) | WCopyFile p => (WKCopy, p) | WCreateFolder p => (WKFolder, p) | WCreateSymlink p => (WKLink, p) end.
Definition step_key (s : bstep) : list (wkind * path) :=
  match s with
  | SrcFetch p => [(WKCopy, p)]
  | DestCmd (CDeleteFile p) | DestCmd (CDeleteFolder p) | DestCmd (CDeleteSymlink p _) => [(WKDelete, p)]
  | DestCmd (CCreateFolder p) => [(WKFolder, p)]
  | DestCmd (CCreateSymlink p _ _) => [(WKLink, p)]
  | DestCmd _ => []
  end.

Section Dry.
Variable now_z : N -> Z.
Variable normalize : str -> target.
Variable chunker : str -> list str.
Notation sync_one := (sync_one now_z normalize chunker).
Notation entry_of := (entry_of now_z normalize).

(* ---- errors and the source-failure flag only ever grow ---- *)
Lemma do_step_mono fl ft r s :
  (exists l, rs_errs (do_step fl ft r s) = rs_errs r ++ l) /\
  (rs_budget r = None -> rs_errs (do_step fl ft r s) = rs_errs r -> rs_budget (do_step fl ft r s) = None).
Proof.
  unfold do_step. destruct s as [c|p].
  - destruct (snd _) eqn:E; cbn [rs_errs rs_budget].
    + split; [eexists; reflexivity|]. intros _ H. exfalso.
      assert (L : length (rs_errs r ++ [e]) = length (rs_errs r)) by (rewrite H; reflexivity).
      rewrite app_length in L. cbn in L. lia.
    + split; [exists []; rewrite app_nil_r; reflexivity|]. intros -> _. reflexivity.
  - cbn [rs_errs rs_budget]. split; [exists []; rewrite app_nil_r; reflexivity|]. intros -> _. reflexivity.
Qed.

Lemma do_step_sent_ok fl ft r c :
  rs_errs (do_step fl ft r (DestCmd c)) = rs_errs r -> rs_sent (do_step fl ft r (DestCmd c)) = rs_sent r ++ [c].
Proof.
  unfold do_step. destruct (snd _); cbn [rs_errs rs_sent]; intros H; [exfalso|reflexivity].
  assert (L : length (rs_errs r ++ [e]) = length (rs_errs r)) by (rewrite H; reflexivity).
  rewrite app_length in L. cbn in L. lia.
Qed.

Lemma run_step_errs fl ft r s : exists l, rs_errs (run_step fl ft r s) = rs_errs r ++ l.
Proof.
  unfold run_step. destruct (rs_srcfail r); [exists []; rewrite app_nil_r; reflexivity|].
  destruct (rs_budget r) as [[|n]|]; try apply do_step_mono. exists []; rewrite app_nil_r; reflexivity.
Qed.
Lemma run_steps_errs fl ft steps : forall r, exists l, rs_errs (run_steps fl ft r steps) = rs_errs r ++ l.
Proof.
  induction steps as [|s steps IH]; intros r; cbn [run_steps fold_left]; [exists []; rewrite app_nil_r; reflexivity|].
  destruct (run_step_errs fl ft r s) as (l1 & E1). destruct (IH (run_step fl ft r s)) as (l2 & E2).
  exists (l1 ++ l2). unfold run_steps in *. rewrite E2, E1, app_assoc. reflexivity.
Qed.
Lemma run_step_srcfail fl ft r s : rs_srcfail r = true -> run_step fl ft r s = r.
Proof. unfold run_step. intros ->. reflexivity. Qed.
Lemma run_steps_srcfail fl ft steps : forall r, rs_srcfail r = true -> run_steps fl ft r steps = r.
Proof.
  induction steps as [|s steps IH]; intros r H; cbn [run_steps fold_left]; [reflexivity|].
  rewrite run_step_srcfail by auto. apply IH; auto.
Qed.

(* ---- a run without any error has performed every step ---- *)
Lemma run_steps_ok fl ft steps : forall r,
  rs_budget r = None -> rs_srcfail r = false ->
  rs_errs (run_steps fl ft r steps) = rs_errs r -> rs_srcfail (run_steps fl ft r steps) = false ->
  rs_sent (run_steps fl ft r steps) = rs_sent r ++ dest_cmds steps /\
  rs_src (run_steps fl ft r steps) = rs_src r ++ src_fetches steps /\
  rs_budget (run_steps fl ft r steps) = None.
Proof.
  induction steps as [|s steps IH]; intros r Hb Hs He Hf; cbn [run_steps fold_left dest_cmds src_fetches flat_map] in *.
  - rewrite !app_nil_r. auto.
  - assert (Estep : run_step fl ft r s = do_step fl ft r s) by (unfold run_step; rewrite Hs, Hb; reflexivity).
    rewrite Estep in *.
    destruct (run_steps_errs fl ft steps (do_step fl ft r s)) as (l2 & E2). unfold run_steps in E2.
    destruct (do_step_mono fl ft r s) as [(l1 & E1) Hbud].
    assert (Hl : l1 = [] /\ l2 = []).
    { rewrite E2, E1, <- app_assoc in He.
      assert (L : length (rs_errs r ++ l1 ++ l2) = length (rs_errs r)) by (rewrite He; reflexivity).
      rewrite !app_length in L. destruct l1, l2; cbn in L; try lia; auto. }
    destruct Hl as [-> ->]. rewrite app_nil_r in E1, E2.
    assert (Hs1 : rs_srcfail (do_step fl ft r s) = false).
    { destruct (rs_srcfail (do_step fl ft r s)) eqn:Esf; auto.
      pose proof (run_steps_srcfail fl ft steps _ Esf) as Hx. unfold run_steps in Hx. rewrite Hx in Hf. congruence. }
    assert (E2' : rs_errs (run_steps fl ft (do_step fl ft r s) steps) = rs_errs (do_step fl ft r s)) by exact E2.
    assert (Hf' : rs_srcfail (run_steps fl ft (do_step fl ft r s) steps) = false) by exact Hf.
    destruct (IH (do_step fl ft r s) (Hbud Hb E1) Hs1 E2' Hf') as (I1 & I2 & I3).
    unfold run_steps in I1, I2, I3. rewrite I1, I2, I3. repeat split.
    + destruct s as [c|p]; cbn [app].
      * rewrite (do_step_sent_ok fl ft r c E1), <- app_assoc. reflexivity.
      * reflexivity.
    + unfold do_step. destruct s as [c|p]; cbn [rs_src app].
      * destruct (snd _); cbn [rs_src]; reflexivity.
      * rewrite <- app_assoc. reflexivity.
Qed.

(* ---- would-lines name exactly the steps of the execution phase ---- *)
Lemma chunk_cmds_keys p mt chunks : flat_map step_key (chunk_cmds p mt chunks) = [].
Proof.
  induction chunks as [|c r IH]; [reflexivity|]. cbn [chunk_cmds].
  destruct r; [reflexivity|]. cbn [flat_map step_key app]. exact IH.
Qed.

Theorem would_lines_are_the_steps S a :
  flat_map step_key (exec_steps chunker S a) = map would_key (would_lines a).
Proof.
  unfold exec_steps, would_lines. rewrite flat_map_app, map_app. f_equal.
  - induction (a_delete a) as [|[p [e r]] l IH]; [reflexivity|].
    cbn [map flat_map]. rewrite IH. destruct e; reflexivity.
  - induction (a_copy a) as [|[p [e r]] l IH]; [reflexivity|].
    cbn [map flat_map]. rewrite flat_map_app, IH. f_equal.
    destruct e; cbn [copy_steps fst snd would_key].
    + destruct (fget S p) as [[mt' data| |]|]; cbn [flat_map step_key app]; rewrite ?chunk_cmds_keys; reflexivity.
    + reflexivity.
    + reflexivity.
Qed.

(* ---- the dry run itself ---- *)
Theorem dry_run_inert cfg S D ans bits ls ld ft :
  cf_dry cfg = true ->
  let r := sync_one cfg S D ans bits ls ld ft in
  r_dest r = D /\ filter mutating (r_dest_trace r) = [] /\
  (forall p, ~ In (CGetFileContent p) (r_src_trace r)) /\ r_errs r = [].
Proof.
  intros Hdry. cbv zeta. unfold Sync.sync_one. rewrite Hdry.
  destruct (fget S []) as [sn|]; [|cbn; repeat split; auto; intros p [H|[]]; discriminate].
  match goal with |- context [match ?g with inl _ => _ | inr _ => _ end] => destruct g as [[ans1 np1]|[[|] np]] end;
    try (cbn; repeat split; auto; intros p [H|[]]; discriminate).
  assert (Hpre : match option_map entry_of (fget (d_fs D) []) with Some _ => [] | None => @nil bstep end = []) by (destruct (option_map _ _); reflexivity).
  rewrite Hpre. cbn [run_steps fold_left rs_d rs_sent rs_src rs_errs].
  assert (Hnoget : forall p (x : entry), ~ In (CGetFileContent p) (CSetRoot :: match x with EFolder => [CGetEntries] | _ => [] end)).
  { intros p x [H|H]; [discriminate|]. destruct x; simpl in H; intuition congruence. }
  assert (Hnomut : forall (x : option entry), filter mutating (CSetRoot :: match x with Some EFolder => [CGetEntries] | _ => [] end) = []).
  { intros [[]|]; reflexivity. }
  match goal with |- context [actions_of ?d ?s ?a] => destruct (actions_of d s a) as [acts|] end.
  2:{ cbn [fail_result r_dest r_dest_trace r_src_trace r_errs rs_d rs_sent rs_src rs_errs].
      repeat split; [apply Hnomut | intros p; apply Hnoget]. }
  match goal with |- context [confirm ?b ?a ?x] => destruct (confirm b a x) as [|acts' skipped b2 a2 np2] end;
    cbn [r_dest r_dest_trace r_src_trace r_errs rs_d rs_sent rs_src rs_errs];
    (repeat split; [apply Hnomut | intros p; apply Hnoget]).
Qed.

Theorem dry_run_predicts cfg S D ans bits ls ld ft :
  let rd := sync_one (with_dry cfg true) S D ans bits ls ld ft in
  let rr := sync_one (with_dry cfg false) S D ans bits ls ld ft in
  r_prompts rd = r_prompts rr /\ r_skipped rd = r_skipped rr /\
  r_confirm_failed rd = r_confirm_failed rr /\ r_root_skipped rd = r_root_skipped rr /\
  (r_ok rr = true -> r_root_skipped rr = false ->
     exists acts,
       r_stats rd = plan_stats acts /\ r_stats rr = plan_stats acts /\
       map would_key (r_would rd) = flat_map step_key (exec_steps chunker S acts) /\
       (exists pre, r_dest_trace rr = pre ++ dest_cmds (exec_steps chunker S acts) /\
                    forall c, In c pre -> mutating c = true -> c = CCreateRootAncestors) /\
       (exists pre, r_src_trace rr = pre ++ src_fetches (exec_steps chunker S acts) /\
                    forall p, ~ In (CGetFileContent p) pre)).
Proof.
  cbv zeta. unfold Sync.sync_one. cbn [with_dry cf_dry cf_diff cf_fl cf_b cf_root].
  destruct (fget S []) as [sn|]; [|cbn; repeat split; auto; discriminate].
  match goal with |- context [match ?g with inl _ => _ | inr _ => _ end] => destruct g as [[ans1 np1]|[[|] np]] end;
    try (cbn; repeat split; auto; discriminate).
  set (dt0 := CSetRoot :: match option_map entry_of (fget (d_fs D) []) with Some EFolder => [CGetEntries] | _ => [] end).
  set (st0 := CSetRoot :: match entry_of sn with EFolder => [CGetEntries] | _ => [] end).
  set (pre := match option_map entry_of (fget (d_fs D) []) with Some _ => [] | None => [DestCmd CCreateRootAncestors] end).
  assert (Hpre0 : match option_map entry_of (fget (d_fs D) []) with Some _ => [] | None => @nil bstep end = []) by (destruct (option_map _ _); reflexivity).
  rewrite Hpre0. cbn [run_steps fold_left].
  match goal with |- context [actions_of ?d ?s ?a] => destruct (actions_of d s a) as [acts0|] end.
  2:{ cbn. repeat split; auto; discriminate. }
  match goal with |- context [confirm ?b ?a ?x] => destruct (confirm b a x) as [|acts skipped b2 a2 np2] end.
  { cbn. repeat split; auto; discriminate. }
  cbn [r_prompts r_skipped r_confirm_failed r_root_skipped r_ok r_stats r_would r_dest_trace r_src_trace].
  repeat split; auto.
  intros Hok _.
  set (r0 := mkR D dt0 st0 [] false 0 0 None) in *.
  set (r1 := run_steps (cf_fl cfg) ft r0 pre) in *.
  set (r2 := run_steps (cf_fl cfg) ft r1 (exec_steps chunker S acts)) in *.
  assert (Herrs : rs_errs r2 = [] /\ rs_srcfail r2 = false).
  { revert Hok. destruct (rs_errs r2); [|discriminate]. intros Hok. split; auto.
    revert Hok. destruct (rs_srcfail r2); [discriminate|reflexivity]. }
  destruct Herrs as [He2 Hf2].
  (* the pre phase: no error either, since errors only grow *)
  destruct (run_steps_errs (cf_fl cfg) ft (exec_steps chunker S acts) r1) as (l2 & E2). change (run_steps (cf_fl cfg) ft r1 (exec_steps chunker S acts)) with r2 in E2.
  assert (He1 : rs_errs r1 = []) by (rewrite He2 in E2; destruct (rs_errs r1); [reflexivity|discriminate]).
  assert (Hf1 : rs_srcfail r1 = false).
  { destruct (rs_srcfail r1) eqn:E; auto.
    pose proof (run_steps_srcfail (cf_fl cfg) ft (exec_steps chunker S acts) r1 E) as Hx.
    change (run_steps (cf_fl cfg) ft r1 (exec_steps chunker S acts)) with r2 in Hx. rewrite Hx in Hf2. congruence. }
  assert (Hpre : rs_sent r1 = dt0 ++ dest_cmds pre /\ rs_src r1 = st0 ++ src_fetches pre /\ rs_budget r1 = None).
  { apply (run_steps_ok (cf_fl cfg) ft pre r0); auto. }
  destruct Hpre as (P1 & P2 & P3).
  assert (Hexec : rs_sent r2 = rs_sent r1 ++ dest_cmds (exec_steps chunker S acts) /\
                  rs_src r2 = rs_src r1 ++ src_fetches (exec_steps chunker S acts) /\ rs_budget r2 = None).
  { apply (run_steps_ok (cf_fl cfg) ft (exec_steps chunker S acts) r1); auto.
    change (run_steps (cf_fl cfg) ft r1 (exec_steps chunker S acts)) with r2. rewrite He2, He1. reflexivity. }
  destruct Hexec as (X1 & X2 & _).
  exists acts. repeat split; auto.
  - symmetry. apply would_lines_are_the_steps.
  - exists (dt0 ++ dest_cmds pre). split; [rewrite X1, P1; reflexivity|].
    intros c Hc Hm. apply in_app_or in Hc as [Hc|Hc].
    + exfalso. unfold dt0 in Hc. destruct Hc as [<-|Hc]; [discriminate|].
      destruct (option_map entry_of (fget (d_fs D) [])) as [[]|]; cbn in Hc; intuition (subst; discriminate).
    + unfold pre in Hc. destruct (option_map entry_of (fget (d_fs D) [])); cbn in Hc; intuition.
  - exists (st0 ++ src_fetches pre). split; [rewrite X2, P2; reflexivity|].
    intros p Hc. apply in_app_or in Hc as [Hc|Hc].
    + unfold st0 in Hc. destruct Hc as [Hc|Hc]; [discriminate|]. destruct (entry_of sn); cbn in Hc; intuition discriminate.
    + unfold pre in Hc. destruct (option_map entry_of (fget (d_fs D) [])); cbn in Hc; intuition.
Qed.

End Dry.
