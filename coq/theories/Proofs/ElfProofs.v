(* ELF64: the shape of the file produced by the fixed add_section_to_elf, the round trip
   add -> extract, and what is preserved of the original file. *)
From RJ Require Import Base.Prelude Model.LE Model.Elf Proofs.LEProofs Proofs.ExeLemmas.
Local Open Scope N_scope.

(* ------------------------------------------------------------------ reading an ELF64 file *)
Definition e_shoff bs := fieldN bs 40 8.
Definition e_shentsize bs := fieldN bs 58 2.
Definition e_shnum bs := fieldN bs 60 2.
Definition e_shstrndx bs := fieldN bs 62 2.
(* field [o] (width [sz]) of section header [idx] *)
Definition sh_field bs idx o sz := fieldN bs (e_shoff bs + idx * e_shentsize bs + o) sz.
Definition names_off bs := sh_field bs (e_shstrndx bs) 24 8.
Definition names_size bs := sh_field bs (e_shstrndx bs) 32 8.
(* the name of section [idx] as extract_section_from_elf reads it *)
Definition sec_name bs idx := read_string bs (names_off bs + sh_field bs idx 0 4) 32.

(* Well-formedness the round trip needs beyond what a successful add already implies
   (magic, 64-bit, LE, v1; section header table at the end of the file with
   e_shoff + e_shnum * e_shentsize = |e|; e_shentsize >= 40; e_shstrndx < e_shnum; the name table
   inside the part of the file before the section header table):
   the name table starts after the ELF header, is not empty and ends with NUL, and every section's
   sh_name points into it. *)
Definition wf_elf (e : list byte) : Prop :=
  64 <= names_off e /\ 1 <= names_size e /\
  subN e (names_off e + names_size e - 1) 1 = [zero] /\
  (forall idx, idx < e_shnum e -> sh_field e idx 0 4 < names_size e).

Definition has_section (e name : list byte) : Prop :=
  exists idx, idx < e_shnum e /\ sec_name e idx = Ok name.

(* read_string stops after 32 bytes: a longer name would never compare equal *)
Definition name_ok (name : list byte) : Prop := ~ In zero name /\ lenN name <= 32.

(* ------------------------------------------------------------------ inversion tactics *)
Ltac invb H E v :=
  match type of H with
  | obind ?x _ = Ok _ => destruct x as [v|?|?] eqn:E; cbn [obind] in H; [ | discriminate H | discriminate H]
  end.
Ltac invc H C :=
  match type of H with
  | (if ?c then _ else _) = Ok _ => destruct c eqn:C; cbv beta iota in H; [try discriminate H | try discriminate H]
  end.

Lemma validate_elf_ok m e : validate_elf true m e = Ok tt -> 7 <= lenN e.
Proof.
  unfold validate_elf. intros H.
  invb H E1 v1. invc H C1. invb H E2 v2. invc H C2. invb H E3 v3. invc H C3. invb H E4 v4.
  apply read_field_ok' in E4 as (L & _). cbn in L. lia.
Qed.

(* validation looks only at the first 7 bytes *)
Lemma validate_elf_prefix m m' e e' : subN e' 0 7 = subN e 0 7 -> 7 <= lenN e -> 7 <= lenN e' ->
  validate_elf true m e = Ok tt -> validate_elf true m' e' = Ok tt.
Proof.
  intros P L L' H. unfold validate_elf in *.
  assert (F : forall o sz, o + N.of_nat sz <= 7 -> read_field true m' sz e' o = read_field true m sz e o).
  { intros o sz Hs. unfold read_field. rewrite !flen_eq.
    destruct (18446744073709551616 <=? o + N.of_nat sz) eqn:B; [apply N.leb_le in B; lia|].
    replace (o + N.of_nat sz <=? lenN e') with true by (symmetry; apply N.leb_le; lia).
    replace (o + N.of_nat sz <=? lenN e) with true by (symmetry; apply N.leb_le; lia).
    f_equal. f_equal.
    rewrite <- (subN_takeN e' 7 o) by lia. rewrite <- (subN_takeN e 7 o) by lia.
    change (takeN 7 e') with (subN e' 0 7). change (takeN 7 e) with (subN e 0 7). now rewrite P. }
  rewrite (F 0 4%nat), (F 4 1%nat), (F 5 1%nat), (F 6 1%nat) by (cbn; lia). exact H.
Qed.

(* ------------------------------------------------------------------ bump_offsets *)
Lemma bump_frame m se k count : forall sht idx sht',
  bump_offsets true m sht se k idx count = Ok sht' ->
  lenN sht' = lenN sht /\
  forall o n, (forall j, idx <= j < idx + N.of_nat count -> o + n <= j * se + 24 \/ j * se + 32 <= o) ->
              subN sht' o n = subN sht o n.
Proof.
  induction count as [|c IH]; intros sht idx sht' H.
  - cbn in H. injection H as <-. split; [reflexivity | intros; reflexivity].
  - cbn [bump_offsets] in H. cbv zeta in H.
    invb H E1 orig. invb H E2 new. invb H E3 sht1.
    apply write_field_ok in E3 as (L3 & _ & ->).
    assert (LL : lenN (updN sht (idx * se + 24) (encode_le 8 new)) = lenN sht)
      by (apply lenN_updN; rewrite lenN_encode; exact L3).
    apply IH in H as (H1 & H2). split; [congruence|].
    intros o n D. rewrite H2.
    + apply subN_updN_disj.
      * rewrite lenN_encode. exact L3.
      * rewrite lenN_encode. change (N.of_nat 8) with 8. specialize (D idx). lia.
    + intros j Hj. apply D. lia.
Qed.

Lemma fieldN_dropN bs a o sz : fieldN (dropN a bs) o sz = fieldN bs (a + o) sz.
Proof. unfold fieldN. now rewrite subN_dropN. Qed.

Lemma write_field_inv m sz bs off v bs' : write_field true m sz bs off v = Ok bs' ->
  off + N.of_nat sz <= lenN bs /\ bs' = updN bs off (encode_le sz v) /\ lenN bs' = lenN bs.
Proof.
  intros H. apply write_field_ok in H as (L & _ & ->). repeat split; auto.
  apply lenN_updN. now rewrite lenN_encode.
Qed.

Lemma fieldN_updN_same bs off sz v : off + N.of_nat sz <= lenN bs ->
  fieldN (updN bs off (encode_le sz v)) off sz = v mod 256 ^ N.of_nat sz.
Proof.
  intros L. unfold fieldN. pose proof (subN_updN_same bs off (encode_le sz v)) as X.
  rewrite lenN_encode in X. rewrite X by exact L. apply decode_encode.
Qed.

Lemma fieldN_updN_disj bs off sz v o2 sz2 : off + N.of_nat sz <= lenN bs ->
  o2 + N.of_nat sz2 <= off \/ off + N.of_nat sz <= o2 ->
  fieldN (updN bs off (encode_le sz v)) o2 sz2 = fieldN bs o2 sz2.
Proof.
  intros L D. unfold fieldN. rewrite subN_updN_disj; [reflexivity | | ]; rewrite lenN_encode; assumption.
Qed.

Lemma mul_lt_from_le a b c : a * c + 1 <= b * c -> a < b.
Proof.
  intros H. destruct (N.lt_ge_cases a b) as [L|G]; [exact L|].
  pose proof (N.mul_le_mono_r b a c G). lia.
Qed.

Section Shape.
Variables (m : mode) (e name p e' : list byte).
Let shoff := e_shoff e.
Let se := e_shentsize e.
Let shnum := e_shnum e.
Let sx := e_shstrndx e.
Let noff := names_off e.
Let nsz := names_size e.
Let k := lenN name + 1.
Let pos := noff + nsz.

(* The file produced by a successful add. *)
Lemma add_elf_shape : add_elf m e name p = Ok e' ->
  lenN e + k + lenN p < 18446744073709551616 ->
  exists sht2 hdr4,
    validate_elf true m e = Ok tt /\
    64 <= lenN e /\ lenN e = shoff + shnum * se /\ pos <= shoff /\ 40 <= se /\ sx < shnum /\
    nsz < 4294967296 /\ shnum + 1 < 65536 /\
    lenN sht2 = shnum * se /\ lenN hdr4 = se /\
    (forall o n, (forall j, sx < j < shnum -> o + n <= j * se + 24 \/ j * se + 32 <= o) ->
                 (o + n <= sx * se + 32 \/ sx * se + 40 <= o) ->
                 subN sht2 o n = subN e (shoff + o) n) /\
    fieldN sht2 (sx * se + 32) 8 = nsz + k /\
    fieldN hdr4 0 4 = nsz /\ fieldN hdr4 24 8 = shoff + k /\ fieldN hdr4 32 8 = lenN p /\
    e' = updN (updN (insN (takeN shoff e) pos (name ++ [zero]) ++ p ++ sht2 ++ hdr4) 40
                    (encode_le 8 (shoff + k + lenN p))) 60 (encode_le 2 (shnum + 1)).
Proof.
  intros H FIT. unfold add_elf, add_elf_gen in H.
  invb H Hv u. destruct u.
  invb H E1 shoff'. invb H E2 se'. invb H E3 shnum'. invb H E4 sx'.
  apply read_field_ok' in E1 as (L1 & _ & X1). apply read_field_ok' in E2 as (L2 & _ & X2).
  apply read_field_ok' in E3 as (L3 & _ & X3). apply read_field_ok' in E4 as (L4 & _ & X4).
  change (fieldN e 40 8) with shoff in X1. change (fieldN e 58 2) with se in X2.
  change (fieldN e 60 2) with shnum in X3. change (fieldN e 62 2) with sx in X4. subst shoff' se' shnum' sx'.
  invb H E5 tot. apply uadd_ok in E5 as (-> & B5).
  invc H C1. invc H C2. cbv zeta in H.
  apply negb_false_iff in C1, C2. apply N.eqb_eq in C1. apply N.leb_le in C2. rewrite flen_eq in C1, C2.
  invb H E6 noff'. invb H E7 nsz'.
  apply read_field_ok' in E6 as (L6 & _ & X6). apply read_field_ok' in E7 as (L7 & _ & X7).
  rewrite fieldN_dropN in X6, X7. rewrite lenN_dropN in L6, L7.
  replace (shoff + (sx * se + 24)) with (shoff + sx * se + 24) in X6 by lia.
  replace (shoff + (sx * se + 32)) with (shoff + sx * se + 32) in X7 by lia.
  change (fieldN e (shoff + sx * se + 24) 8) with noff in X6.
  change (fieldN e (shoff + sx * se + 32) 8) with nsz in X7. subst noff' nsz'.
  change (N.of_nat 8) with 8 in *. change (N.of_nat 2) with 2 in *. change (N.of_nat 4) with 4 in *.
  assert (SX : sx < shnum) by (apply (mul_lt_from_le sx shnum se); lia).
  invb H E8 pos'. apply uadd_ok in E8 as (-> & B8). fold pos in H.
  invb H E9 body1. apply splice_ok in E9 as (L9 & ->). rewrite lenN_takeN_le in L9 by lia.
  invb H E10 nsz'. apply uadd_ok in E10 as (-> & B10).
  rewrite flen_eq, lenN_app in H, B10. change (lenN [zero]) with 1 in H, B10. fold k in H, B10.
  invb H E11 sht1. apply write_field_inv in E11 as (L11 & X11 & LL11).
  invb H E12 sht2. apply bump_frame in E12 as (LL12 & F12).
  invb H E13 nsz32. apply ucast_ok in E13 as (-> & B13).
  invb H E14 hdr1. apply write_field_inv in E14 as (L14 & X14 & LL14).
  invb H E15 hdr2. apply write_field_inv in E15 as (L15 & X15 & LL15).
  invb H E16 hdr3. apply write_field_inv in E16 as (L16 & X16 & LL16).
  invb H E17 hdr4. apply write_field_inv in E17 as (L17 & X17 & LL17).
  invb H E18 bs2. apply write_field_inv in E18 as (L18 & X18 & LL18).
  invb H E19 n16. apply ucast_ok in E19 as (-> & B19).
  apply write_field_inv in H as (L20 & X20 & LL20).
  change (N.of_nat 8) with 8 in *. change (N.of_nat 2) with 2 in *. change (N.of_nat 4) with 4 in *.
  rewrite lenN_zerosN in *. rewrite lenN_dropN in *.
  assert (LB : lenN (insN (takeN shoff e) pos (name ++ [zero])) = shoff + k).
  { rewrite lenN_insN, lenN_takeN_le, lenN_app by lia. reflexivity. }
  rewrite !flen_eq in *. rewrite lenN_app, LB in X18.
  exists sht2, hdr4.
  assert (Lsht2 : lenN sht2 = shnum * se) by lia.
  assert (Lh4 : lenN hdr4 = se) by lia.
  repeat (split; [first [reflexivity | lia | assumption]|]).
  split; [|split; [|split; [|split; [|split]]]].
  - (* frame of the old section headers *)
    intros o n D1 D2. rewrite F12.
    + rewrite X11. rewrite subN_updN_disj.
      * rewrite subN_dropN. reflexivity.
      * rewrite lenN_encode, lenN_dropN. exact L11.
      * rewrite lenN_encode. change (N.of_nat 8) with 8. lia.
    + intros j Hj. apply D1. lia.
  - (* new size of the name table *)
    unfold fieldN. rewrite F12.
    + rewrite X11. pose proof (subN_updN_same (dropN shoff e) (sx * se + 32) (encode_le 8 (nsz + k))) as X.
      rewrite lenN_encode in X. change (N.of_nat 8) with 8 in *. rewrite X by (rewrite lenN_dropN; lia).
      apply decode_encode_8. lia.
    + intros j Hj. left. assert (sx + 1 <= j) as G by lia.
      pose proof (N.mul_le_mono_r _ _ se G). lia.
  - rewrite X17. rewrite fieldN_updN_disj by (change (N.of_nat 8) with 8; change (N.of_nat 4) with 4; lia).
    rewrite X16. rewrite fieldN_updN_disj by (change (N.of_nat 8) with 8; change (N.of_nat 4) with 4; lia).
    rewrite X15. rewrite fieldN_updN_disj by (change (N.of_nat 4) with 4; lia).
    rewrite X14. rewrite fieldN_updN_same by (rewrite lenN_zerosN; change (N.of_nat 4) with 4; lia).
    change (256 ^ N.of_nat 4) with 4294967296. apply N.mod_small. exact B13.
  - rewrite X17. rewrite fieldN_updN_disj by (change (N.of_nat 8) with 8; lia).
    rewrite X16. rewrite fieldN_updN_same by (change (N.of_nat 8) with 8; lia).
    rewrite LB. change (256 ^ N.of_nat 8) with 18446744073709551616. apply N.mod_small. lia.
  - rewrite X17. rewrite fieldN_updN_same by (change (N.of_nat 8) with 8; lia).
    change (256 ^ N.of_nat 8) with 18446744073709551616. apply N.mod_small. lia.
  - rewrite X20, X18. rewrite <- !app_assoc. reflexivity.
Qed.
End Shape.
