(* ELF64: the shape of the file produced by the fixed add_section_to_elf, the round trip
   add -> extract, and what is preserved of the original file. *)
From RJ Require Import Base.Prelude Model.LE Model.Elf Proofs.LEProofs Proofs.ExeLemmas.
Local Open Scope N_scope.

(* ------------------------------------------------------------------ reading an ELF64 file *)
Definition e_shoff bs := fieldN bs 40 8.
Definition e_shentsize bs := fieldN bs 58 2.
Definition e_shnum bs := fieldN bs 60 2.
Definition e_shstrndx bs := fieldN bs 62 2.
(* field [o] (width [sz]) of section header [idx] *)
Definition sh_field bs idx o sz := fieldN bs (e_shoff bs + idx * e_shentsize bs + o) sz.
Definition names_off bs := sh_field bs (e_shstrndx bs) 24 8.
Definition names_size bs := sh_field bs (e_shstrndx bs) 32 8.
(* the name of section [idx] as extract_section_from_elf reads it *)
Definition sec_name bs idx := read_string bs (names_off bs + sh_field bs idx 0 4) 32.

(* Well-formedness the round trip needs beyond what a successful add already implies
   (magic, 64-bit, LE, v1; section header table at the end of the file with
   e_shoff + e_shnum * e_shentsize = |e|; e_shentsize >= 40; e_shstrndx < e_shnum; the name table
   inside the part of the file before the section header table):
   the name table starts after the ELF header, is not empty and ends with NUL, and every section's
   sh_name points into it. *)
Definition wf_elf (e : list byte) : Prop :=
  64 <= names_off e /\ 1 <= names_size e /\
  subN e (names_off e + names_size e - 1) 1 = [zero] /\
  (forall idx, idx < e_shnum e -> sh_field e idx 0 4 < names_size e).

Definition has_section (e name : list byte) : Prop :=
  exists idx, idx < e_shnum e /\ sec_name e idx = Ok name.

(* read_string stops after 32 bytes: a longer name would never compare equal *)
Definition name_ok (name : list byte) : Prop := ~ In zero name /\ lenN name <= 32.

(* ------------------------------------------------------------------ inversion tactics *)
Ltac invb H E v :=
  match type of H with
  | obind ?x _ = Ok _ => destruct x as [v|?|?] eqn:E; cbn [obind] in H; [ | discriminate H | discriminate H]
  end.
Ltac invc H C :=
  match type of H with
  | (if ?c then _ else _) = Ok _ => destruct c eqn:C; cbv beta iota in H; [try discriminate H | try discriminate H]
  end.

Lemma validate_elf_ok m e : validate_elf true m e = Ok tt -> 7 <= lenN e.
Proof.
  unfold validate_elf. intros H.
  invb H E1 v1. invc H C1. invb H E2 v2. invc H C2. invb H E3 v3. invc H C3. invb H E4 v4.
  apply read_field_ok' in E4 as (L & _). cbn in L. lia.
Qed.

(* validation looks only at the first 7 bytes *)
Lemma validate_elf_prefix m m' e e' : subN e' 0 7 = subN e 0 7 -> 7 <= lenN e -> 7 <= lenN e' ->
  validate_elf true m e = Ok tt -> validate_elf true m' e' = Ok tt.
Proof.
  intros P L L' H. unfold validate_elf in *.
  assert (F : forall o sz, o + N.of_nat sz <= 7 -> read_field true m' sz e' o = read_field true m sz e o).
  { intros o sz Hs. unfold read_field. rewrite !flen_eq.
    destruct (18446744073709551616 <=? o + N.of_nat sz) eqn:B; [apply N.leb_le in B; lia|].
    replace (o + N.of_nat sz <=? lenN e') with true by (symmetry; apply N.leb_le; lia).
    replace (o + N.of_nat sz <=? lenN e) with true by (symmetry; apply N.leb_le; lia).
    f_equal. f_equal.
    rewrite <- (subN_takeN e' 7 o) by lia. rewrite <- (subN_takeN e 7 o) by lia.
    change (takeN 7 e') with (subN e' 0 7). change (takeN 7 e) with (subN e 0 7). now rewrite P. }
  rewrite (F 0 4%nat), (F 4 1%nat), (F 5 1%nat), (F 6 1%nat) by (cbn; lia). exact H.
Qed.

(* ------------------------------------------------------------------ bump_offsets *)
Lemma bump_frame m se k count : forall sht idx sht',
  bump_offsets true m sht se k idx count = Ok sht' ->
  lenN sht' = lenN sht /\
  forall o n, (forall j, idx <= j < idx + N.of_nat count -> o + n <= j * se + 24 \/ j * se + 32 <= o) ->
              subN sht' o n = subN sht o n.
Proof.
  induction count as [|c IH]; intros sht idx sht' H.
  - cbn in H. injection H as <-. split; [reflexivity | intros; reflexivity].
  - cbn [bump_offsets] in H. cbv zeta in H.
    invb H E1 orig. invb H E2 new. invb H E3 sht1.
    apply write_field_ok in E3 as (L3 & _ & ->).
    assert (LL : lenN (updN sht (idx * se + 24) (encode_le 8 new)) = lenN sht)
      by (apply lenN_updN; rewrite lenN_encode; exact L3).
    apply IH in H as (H1 & H2). split; [congruence|].
    intros o n D. rewrite H2.
    + apply subN_updN_disj.
      * rewrite lenN_encode. exact L3.
      * rewrite lenN_encode. change (N.of_nat 8) with 8. specialize (D idx). lia.
    + intros j Hj. apply D. lia.
Qed.

Lemma fieldN_dropN bs a o sz : fieldN (dropN a bs) o sz = fieldN bs (a + o) sz.
Proof. unfold fieldN. now rewrite subN_dropN. Qed.

Lemma write_field_inv m sz bs off v bs' : write_field true m sz bs off v = Ok bs' ->
  off + N.of_nat sz <= lenN bs /\ bs' = updN bs off (encode_le sz v) /\ lenN bs' = lenN bs.
Proof.
  intros H. apply write_field_ok in H as (L & _ & ->). repeat split; auto.
  apply lenN_updN. now rewrite lenN_encode.
Qed.

Lemma fieldN_updN_same bs off sz v : off + N.of_nat sz <= lenN bs ->
  fieldN (updN bs off (encode_le sz v)) off sz = v mod 256 ^ N.of_nat sz.
Proof.
  intros L. unfold fieldN. pose proof (subN_updN_same bs off (encode_le sz v)) as X.
  rewrite lenN_encode in X. rewrite X by exact L. apply decode_encode.
Qed.

Lemma fieldN_updN_disj bs off sz v o2 sz2 : off + N.of_nat sz <= lenN bs ->
  o2 + N.of_nat sz2 <= off \/ off + N.of_nat sz <= o2 ->
  fieldN (updN bs off (encode_le sz v)) o2 sz2 = fieldN bs o2 sz2.
Proof.
  intros L D. unfold fieldN. rewrite subN_updN_disj; [reflexivity | | ]; rewrite lenN_encode; assumption.
Qed.

Lemma bump_offsets_val m se k count : 8 <= se -> forall sht idx sht',
  bump_offsets true m sht se k idx count = Ok sht' ->
  forall j, idx <= j < idx + N.of_nat count -> fieldN sht' (j * se + 24) 8 = fieldN sht (j * se + 24) 8 + k.
Proof.
  intros SE. induction count as [|c IH]; intros sht idx sht' H j Hj; [lia|].
  cbn [bump_offsets] in H. cbv zeta in H.
  invb H E1 orig. invb H E2 new. invb H E3 sht1.
  apply read_field_ok' in E1 as (L1 & _ & ->). apply uadd_ok in E2 as (-> & B2).
  apply write_field_inv in E3 as (L3 & X3 & LL3).
  destruct (N.eq_dec j idx) as [->|Hne].
  - destruct (bump_frame _ _ _ _ _ _ _ H) as (_ & F).
    transitivity (fieldN sht1 (idx * se + 24) 8).
    { unfold fieldN. f_equal. apply F. intros j' Hj'. change (N.of_nat 8) with 8. left.
      assert (idx + 1 <= j') as G by lia. pose proof (mul_succ_le _ _ se G). lia. }
    rewrite X3. rewrite fieldN_updN_same by exact L3.
    change (256 ^ N.of_nat 8) with 18446744073709551616. apply N.mod_small. exact B2.
  - rewrite (IH _ _ _ H) by lia. f_equal. rewrite X3. apply fieldN_updN_disj; [exact L3|].
    change (N.of_nat 8) with 8. right. assert (idx + 1 <= j) as G by lia. pose proof (mul_succ_le _ _ se G). lia.
Qed.

Lemma mul_lt_from_le a b c : a * c + 1 <= b * c -> a < b.
Proof.
  intros H. destruct (N.lt_ge_cases a b) as [L|G]; [exact L|].
  pose proof (N.mul_le_mono_r b a c G). lia.
Qed.

Section Shape.
Variables (m : mode) (e name p e' : list byte).
Let shoff := e_shoff e.
Let se := e_shentsize e.
Let shnum := e_shnum e.
Let sx := e_shstrndx e.
Let noff := names_off e.
Let nsz := names_size e.
Let k := lenN name + 1.
Let pos := noff + nsz.

(* The file produced by a successful add. *)
Lemma add_elf_shape : add_elf m e name p = Ok e' ->
  lenN e + k + lenN p < 18446744073709551616 ->
  exists sht2 hdr4,
    validate_elf true m e = Ok tt /\
    64 <= lenN e /\ lenN e = shoff + shnum * se /\ pos <= shoff /\ 40 <= se /\ sx < shnum /\
    nsz < 4294967296 /\ shnum + 1 < 65536 /\
    lenN sht2 = shnum * se /\ lenN hdr4 = se /\
    (forall o n, (forall j, sx < j < shnum -> o + n <= j * se + 24 \/ j * se + 32 <= o) ->
                 (o + n <= sx * se + 32 \/ sx * se + 40 <= o) ->
                 subN sht2 o n = subN e (shoff + o) n) /\
    fieldN sht2 (sx * se + 32) 8 = nsz + k /\
    (forall j, sx < j < shnum -> fieldN sht2 (j * se + 24) 8 = sh_field e j 24 8 + k) /\
    fieldN hdr4 0 4 = nsz /\ fieldN hdr4 24 8 = shoff + k /\ fieldN hdr4 32 8 = lenN p /\
    e' = updN (updN (insN (takeN shoff e) pos (name ++ [zero]) ++ p ++ sht2 ++ hdr4) 40
                    (encode_le 8 (shoff + k + lenN p))) 60 (encode_le 2 (shnum + 1)).
Proof.
  intros H FIT. unfold add_elf, add_elf_gen in H.
  invb H Hv u. destruct u.
  invb H E1 shoff'. invb H E2 se'. invb H E3 shnum'. invb H E4 sx'.
  apply read_field_ok' in E1 as (L1 & _ & X1). apply read_field_ok' in E2 as (L2 & _ & X2).
  apply read_field_ok' in E3 as (L3 & _ & X3). apply read_field_ok' in E4 as (L4 & _ & X4).
  change (fieldN e 40 8) with shoff in X1. change (fieldN e 58 2) with se in X2.
  change (fieldN e 60 2) with shnum in X3. change (fieldN e 62 2) with sx in X4. subst shoff' se' shnum' sx'.
  invb H E5 tot. apply uadd_ok in E5 as (-> & B5).
  invc H C1. invc H C2. cbv zeta in H.
  apply negb_false_iff in C1, C2. apply N.eqb_eq in C1. apply N.leb_le in C2. rewrite flen_eq in C1, C2.
  invb H E6 noff'. invb H E7 nsz'.
  apply read_field_ok' in E6 as (L6 & _ & X6). apply read_field_ok' in E7 as (L7 & _ & X7).
  rewrite fieldN_dropN in X6, X7. rewrite lenN_dropN in L6, L7.
  replace (shoff + (sx * se + 24)) with (shoff + sx * se + 24) in X6 by lia.
  replace (shoff + (sx * se + 32)) with (shoff + sx * se + 32) in X7 by lia.
  change (fieldN e (shoff + sx * se + 24) 8) with noff in X6.
  change (fieldN e (shoff + sx * se + 32) 8) with nsz in X7. subst noff' nsz'.
  change (N.of_nat 8) with 8 in *. change (N.of_nat 2) with 2 in *. change (N.of_nat 4) with 4 in *.
  assert (SX : sx < shnum) by (apply (mul_lt_from_le sx shnum se); lia).
  invb H E8 pos'. apply uadd_ok in E8 as (-> & B8). fold pos in H.
  invb H E9 body1. apply splice_ok in E9 as (L9 & ->). rewrite lenN_takeN_le in L9 by lia.
  invb H E10 nsz'. apply uadd_ok in E10 as (-> & B10).
  rewrite flen_eq, lenN_app in H, B10. change (lenN [zero]) with 1 in H, B10. fold k in H, B10.
  invb H E11 sht1. apply write_field_inv in E11 as (L11 & X11 & LL11).
  invb H E12 sht2. pose proof E12 as E12v.
  apply bump_frame in E12 as (LL12 & F12).
  invb H E13 nsz32. apply ucast_ok in E13 as (-> & B13).
  invb H E14 hdr1. apply write_field_inv in E14 as (L14 & X14 & LL14).
  invb H E15 hdr2. apply write_field_inv in E15 as (L15 & X15 & LL15).
  invb H E16 hdr3. apply write_field_inv in E16 as (L16 & X16 & LL16).
  invb H E17 hdr4. apply write_field_inv in E17 as (L17 & X17 & LL17).
  invb H E18 bs2. apply write_field_inv in E18 as (L18 & X18 & LL18).
  invb H E19 n16. apply ucast_ok in E19 as (-> & B19).
  apply write_field_inv in H as (L20 & X20 & LL20).
  change (N.of_nat 8) with 8 in *. change (N.of_nat 2) with 2 in *. change (N.of_nat 4) with 4 in *.
  rewrite lenN_zerosN in *. rewrite lenN_dropN in *.
  assert (LB : lenN (insN (takeN shoff e) pos (name ++ [zero])) = shoff + k).
  { rewrite lenN_insN, lenN_takeN_le, lenN_app by lia. reflexivity. }
  rewrite !flen_eq in *. rewrite lenN_app, LB in X18.
  exists sht2, hdr4.
  assert (Lsht2 : lenN sht2 = shnum * se) by lia.
  assert (Lh4 : lenN hdr4 = se) by lia.
  repeat (split; [first [reflexivity | lia | assumption]|]).
  split; [|split; [|split; [|split; [|split; [|split]]]]].
  - (* frame of the old section headers *)
    intros o n D1 D2. rewrite F12.
    + rewrite X11. rewrite subN_updN_disj.
      * rewrite subN_dropN. reflexivity.
      * rewrite lenN_encode, lenN_dropN. exact L11.
      * rewrite lenN_encode. change (N.of_nat 8) with 8. lia.
    + intros j Hj. apply D1. lia.
  - (* new size of the name table *)
    unfold fieldN. rewrite F12.
    + rewrite X11. pose proof (subN_updN_same (dropN shoff e) (sx * se + 32) (encode_le 8 (nsz + k))) as X.
      rewrite lenN_encode in X. change (N.of_nat 8) with 8 in *. rewrite X by (rewrite lenN_dropN; lia).
      apply decode_encode_8. lia.
    + intros j Hj. left. assert (sx + 1 <= j) as G by lia.
      pose proof (N.mul_le_mono_r _ _ se G). lia.
  - (* sh_offset of the sections listed after the names section *)
    intros j Hj. assert (SE8 : 8 <= se) by lia.
    rewrite (bump_offsets_val m se k _ SE8 _ _ _ E12v) by (rewrite N2Nat.id; lia). f_equal.
    rewrite X11. assert (sx + 1 <= j) as G by lia. pose proof (mul_succ_le _ _ se G).
    rewrite fieldN_updN_disj by (rewrite ?lenN_dropN; change (N.of_nat 8) with 8; lia).
    rewrite fieldN_dropN. unfold sh_field. fold shoff se. f_equal. lia.
  - rewrite X17. rewrite fieldN_updN_disj by (change (N.of_nat 8) with 8; change (N.of_nat 4) with 4; lia).
    rewrite X16. rewrite fieldN_updN_disj by (change (N.of_nat 8) with 8; change (N.of_nat 4) with 4; lia).
    rewrite X15. rewrite fieldN_updN_disj by (change (N.of_nat 4) with 4; lia).
    rewrite X14. rewrite fieldN_updN_same by (rewrite lenN_zerosN; change (N.of_nat 4) with 4; lia).
    change (256 ^ N.of_nat 4) with 4294967296. apply N.mod_small. exact B13.
  - rewrite X17. rewrite fieldN_updN_disj by (change (N.of_nat 8) with 8; lia).
    rewrite X16. rewrite fieldN_updN_same by (change (N.of_nat 8) with 8; lia).
    rewrite LB. change (256 ^ N.of_nat 8) with 18446744073709551616. apply N.mod_small. lia.
  - rewrite X17. rewrite fieldN_updN_same by (change (N.of_nat 8) with 8; lia).
    change (256 ^ N.of_nat 8) with 18446744073709551616. apply N.mod_small. lia.
  - rewrite X20, X18. rewrite <- !app_assoc. reflexivity.
Qed.
End Shape.

Lemma fieldN_lt bs off sz : off + N.of_nat sz <= lenN bs -> fieldN bs off sz < 256 ^ N.of_nat sz.
Proof.
  intros L. unfold fieldN. pose proof (decode_lt (subN bs off (N.of_nat sz))) as D.
  rewrite lenN_subN in D by exact L. exact D.
Qed.

Section Roundtrip.
Variables (m m' : mode) (e name p sht2 hdr4 : list byte).
Let shoff := e_shoff e.
Let se := e_shentsize e.
Let shnum := e_shnum e.
Let sx := e_shstrndx e.
Let noff := names_off e.
Let nsz := names_size e.
Let k := lenN name + 1.
Let pos := noff + nsz.
Let ins := name ++ [zero].
Let A := encode_le 8 (shoff + k + lenN p).
Let B := encode_le 2 (shnum + 1).
Let X := takeN shoff e.
Let e' := updN (updN (insN X pos ins ++ p ++ sht2 ++ hdr4) 40 A) 60 B.
Let nshoff := shoff + k + lenN p.

Hypothesis W : wf_elf e.
Hypothesis NOSEC : ~ has_section e name.
Hypothesis NOK : name_ok name.
Hypothesis FIT : lenN e + lenN name + lenN p + 65537 < 18446744073709551616.
Hypothesis Hv : validate_elf true m e = Ok tt.
Hypothesis L64 : 64 <= lenN e.
Hypothesis LE : lenN e = shoff + shnum * se.
Hypothesis PS : pos <= shoff.
Hypothesis SE : 40 <= se.
Hypothesis SX : sx < shnum.
Hypothesis NS : nsz < 4294967296.
Hypothesis SN : shnum + 1 < 65536.
Hypothesis LS : lenN sht2 = shnum * se.
Hypothesis LH : lenN hdr4 = se.
Hypothesis FR : forall o n, (forall j, sx < j < shnum -> o + n <= j * se + 24 \/ j * se + 32 <= o) ->
                 (o + n <= sx * se + 32 \/ sx * se + 40 <= o) ->
                 subN sht2 o n = subN e (shoff + o) n.
Hypothesis FSZ : fieldN sht2 (sx * se + 32) 8 = nsz + k.
Hypothesis FV : forall j, sx < j < shnum -> fieldN sht2 (j * se + 24) 8 = sh_field e j 24 8 + k.
Hypothesis F0 : fieldN hdr4 0 4 = nsz.
Hypothesis F24 : fieldN hdr4 24 8 = shoff + k.
Hypothesis F32 : fieldN hdr4 32 8 = lenN p.

Let Hd := updN (updN (takeN pos X) 40 A) 60 B.
Let R := dropN pos X.

Local Lemma W1 : 64 <= noff. Proof. apply W. Qed.
Local Lemma W2 : 1 <= nsz. Proof. apply W. Qed.
Local Lemma LX : lenN X = shoff. Proof. unfold X. apply lenN_takeN_le. lia. Qed.
Local Lemma LT : lenN (takeN pos X) = pos. Proof. apply lenN_takeN_le. rewrite LX. exact PS. Qed.
Local Lemma LA : lenN A = 8. Proof. unfold A. now rewrite lenN_encode. Qed.
Local Lemma LB : lenN B = 2. Proof. unfold B. now rewrite lenN_encode. Qed.
Local Lemma LHd : lenN Hd = pos.
Proof.
  pose proof W1. pose proof LT. pose proof LA. pose proof LB.
  unfold Hd. rewrite !lenN_updN; rewrite ?lenN_updN; lia.
Qed.
Local Lemma LR : lenN R = shoff - pos. Proof. unfold R. rewrite lenN_dropN, LX. reflexivity. Qed.
Local Lemma Lins : lenN ins = k. Proof. unfold ins. rewrite lenN_app. reflexivity. Qed.
Local Lemma SE16 : se < 65536.
Proof. apply (fieldN_lt e 58 2). change (N.of_nat 2) with 2. lia. Qed.

Local Lemma NF : e' = Hd ++ ins ++ R ++ p ++ sht2 ++ hdr4.
Proof.
  pose proof W1. pose proof LT. pose proof LA. pose proof LB.
  unfold e', insN, Hd, R. rewrite <- !app_assoc. apply updN2_app_l; lia.
Qed.

Local Lemma Le' : lenN e' = nshoff + (shnum + 1) * se.
Proof.
  rewrite NF, !lenN_app, LHd, Lins, LR, LS, LH. unfold nshoff. lia.
Qed.

Local Lemma tab_sub x n : subN e' (nshoff + x) n = subN (sht2 ++ hdr4) x n.
Proof.
  rewrite NF.
  replace (nshoff + x) with (lenN Hd + (lenN ins + (lenN R + (lenN p + x))))
    by (rewrite LHd, Lins, LR; unfold nshoff; lia).
  now rewrite !subN_app_r'.
Qed.

Local Lemma hd_sub o n : o + n <= pos -> (o + n <= 40 \/ 48 <= o) -> (o + n <= 60 \/ 62 <= o) ->
  subN e' o n = subN e o n.
Proof.
  intros H1 H2 H3. pose proof W1. pose proof LT. pose proof LA. pose proof LB.
  rewrite NF. rewrite subN_app_l by (rewrite LHd; lia). unfold Hd.
  rewrite subN_updN_disj by (rewrite ?lenN_updN; lia).
  rewrite subN_updN_disj by lia.
  rewrite subN_takeN by lia. unfold X. apply subN_takeN. lia.
Qed.

Local Lemma rf sz off v : off + N.of_nat sz <= lenN e' -> fieldN e' off sz = v ->
  read_field true m' sz e' off = Ok v.
Proof.
  intros L <-. apply read_field_eq; [exact L|]. pose proof Le'. pose proof SE16.
  assert (shnum * se <= lenN e) by lia. assert ((shnum + 1) * se = shnum * se + se) by lia.
  unfold nshoff, k in *. lia.
Qed.

Local Lemma f_shoff : fieldN e' 40 8 = nshoff.
Proof.
  pose proof W1. pose proof LT. pose proof LA. pose proof LB.
  unfold fieldN. rewrite NF. change (N.of_nat 8) with 8.
  rewrite subN_app_l by (rewrite LHd; lia). unfold Hd.
  rewrite subN_updN_disj by (rewrite ?lenN_updN; lia).
  rewrite <- LA. rewrite subN_updN_same by lia. unfold A.
  apply decode_encode_8. unfold k. lia.
Qed.

Local Lemma f_shnum : fieldN e' 60 2 = shnum + 1.
Proof.
  pose proof W1. pose proof LT. pose proof LA. pose proof LB.
  unfold fieldN. rewrite NF. change (N.of_nat 2) with 2.
  rewrite subN_app_l by (rewrite LHd; lia). unfold Hd.
  rewrite <- LB. rewrite subN_updN_same by (rewrite ?lenN_updN; lia). unfold B.
  apply decode_encode_2. lia.
Qed.

Local Lemma f_se : fieldN e' 58 2 = se.
Proof. pose proof W1. unfold fieldN. change (N.of_nat 2) with 2. rewrite hd_sub by (unfold pos; lia). reflexivity. Qed.
Local Lemma f_sx : fieldN e' 62 2 = sx.
Proof. pose proof W1. unfold fieldN. change (N.of_nat 2) with 2. rewrite hd_sub by (unfold pos; lia). reflexivity. Qed.

(* old section header bytes, away from the rewritten fields, are found in the new table *)
Local Lemma old_hdr_sub j o n : j < shnum -> o + n <= 24 ->
  subN e' (nshoff + (j * se + o)) n = subN e (shoff + (j * se + o)) n.
Proof.
  intros Hj Ho. rewrite tab_sub.
  assert (j * se + se <= shnum * se) by (apply mul_succ_le; lia).
  rewrite subN_app_l by (rewrite LS; lia).
  apply FR.
  - intros j' Hj'. destruct (N.le_gt_cases j j') as [G|G].
    + left. pose proof (mul_le_r _ _ se G). lia.
    + right. assert (j' + 1 <= j) as G' by lia. pose proof (mul_succ_le _ _ se G'). lia.
  - destruct (N.le_gt_cases j sx) as [G|G].
    + left. pose proof (mul_le_r _ _ se G). lia.
    + right. assert (sx + 1 <= j) as G' by lia. pose proof (mul_succ_le _ _ se G'). lia.
Qed.

Local Lemma f_noff : fieldN e' (nshoff + sx * se + 24) 8 = noff.
Proof.
  unfold fieldN. change (N.of_nat 8) with 8.
  replace (nshoff + sx * se + 24) with (nshoff + (sx * se + 24)) by lia.
  rewrite tab_sub.
  assert (sx * se + se <= shnum * se) by (apply mul_succ_le; lia).
  rewrite subN_app_l by (rewrite LS; lia).
  rewrite FR.
  - unfold noff, names_off, sh_field, fieldN. fold shoff se sx. change (N.of_nat 8) with 8.
    f_equal. f_equal. lia.
  - intros j' Hj'. left. assert (sx + 1 <= j') as G' by lia. pose proof (mul_succ_le _ _ se G'). lia.
  - left. lia.
Qed.

(* the name table seen from offset d inside it *)
Local Lemma names_seg d : noff <= d -> d < pos ->
  exists seg, In zero seg /\ dropN d e = seg ++ dropN pos e /\ dropN d e' = seg ++ ins ++ R ++ p ++ sht2 ++ hdr4.
Proof.
  intros D1 D2. pose proof W1. pose proof LT. pose proof LA. pose proof LB.
  exists (subN e d (pos - d)). split; [|split].
  - destruct W as (_ & _ & Z & _). fold noff nsz pos in Z.
    replace (pos - d) with ((pos - 1 - d) + 1) by lia. rewrite subN_split.
    apply in_or_app. right. replace (d + (pos - 1 - d)) with (pos - 1) by lia. rewrite Z. now left.
  - apply dropN_split; lia.
  - rewrite NF. rewrite dropN_app_l by (rewrite LHd; lia). f_equal.
    unfold Hd. rewrite dropN_updN_after by (rewrite ?lenN_updN; lia).
    rewrite dropN_updN_after by lia.
    rewrite dropN_takeN by lia. unfold X. apply subN_takeN. lia.
Qed.

Local Lemma old_name j : j < shnum ->
  exists s, read_string e' (noff + sh_field e j 0 4) 32 = Ok s /\ s <> name.
Proof.
  intros Hj. destruct W as (_ & _ & _ & W4). pose proof (W4 j Hj) as Hn. fold nsz in Hn.
  set (nm := sh_field e j 0 4) in *.
  destruct (names_seg (noff + nm)) as (seg & Z & S1 & S2); [lia | unfold pos; lia|].
  destruct (rs_zero_ok seg (dropN pos e) Z 32) as [s Hs].
  exists s. split.
  - unfold read_string. rewrite flen_eq.
    replace (noff + nm <? lenN e') with true
      by (symmetry; apply N.ltb_lt; rewrite Le'; unfold nshoff, pos in *; lia).
    rewrite S2. rewrite (rs_app_zero seg _ (dropN pos e) Z). exact Hs.
  - intros ->. apply NOSEC. exists j. split; [exact Hj|].
    unfold sec_name, read_string. fold noff nm. rewrite flen_eq.
    replace (noff + nm <? lenN e) with true by (symmetry; apply N.ltb_lt; unfold pos in *; lia).
    rewrite S1. exact Hs.
Qed.

Local Lemma new_name : read_string e' pos 32 = Ok name.
Proof.
  pose proof W1. destruct NOK as [Z Ln].
  unfold read_string. rewrite flen_eq.
  replace (pos <? lenN e') with true by (symmetry; apply N.ltb_lt; rewrite Le'; unfold nshoff, k; lia).
  rewrite NF. replace pos with (lenN Hd + 0) at 1 by (rewrite LHd; lia).
  rewrite dropN_app_r', dropN_0. unfold ins. rewrite <- app_assoc. cbn [app].
  apply rs_name; [exact Z|]. unfold lenN in Ln. lia.
Qed.

Local Lemma loop_from i : i <= shnum ->
  extract_elf_loop true m' e' name nshoff se noff i (N.to_nat (shnum + 1 - i)) = Ok p.
Proof.
  intros Hi. remember (N.to_nat (shnum - i)) as d eqn:Hd'.
  revert i Hi Hd'. induction d as [|d IH]; intros i Hi Hd'.
  - (* i = shnum: the new section *)
    assert (i = shnum) by lia. subst i.
    replace (N.to_nat (shnum + 1 - shnum)) with 1%nat by lia. cbn [extract_elf_loop].
    pose proof Le' as Le. pose proof SE16. assert ((shnum + 1) * se = shnum * se + se) as Ex by lia.
    assert (shnum * se <= lenN e) by lia.
    replace (uadd true m' 18446744073709551616 nshoff (shnum * se)) with (@Ok N (nshoff + shnum * se))
      by (symmetry; apply uadd_ok; split; [reflexivity | unfold nshoff, k in *; lia]).
    cbn [obind].
    assert (TH : forall o n, o + n <= se -> subN e' (nshoff + shnum * se + o) n = subN hdr4 o n).
    { intros o n Ho. replace (nshoff + shnum * se + o) with (nshoff + (shnum * se + o)) by lia.
      rewrite tab_sub. replace (shnum * se + o) with (lenN sht2 + o) by (rewrite LS; lia).
      now rewrite subN_app_r'. }
    rewrite (rf 4 (nshoff + shnum * se) nsz).
    2:{ change (N.of_nat 4) with 4. rewrite Le. lia. }
    2:{ unfold fieldN. change (N.of_nat 4) with 4.
        replace (nshoff + shnum * se) with (nshoff + shnum * se + 0) by lia. rewrite TH by lia. exact F0. }
    cbn [obind].
    replace (uadd true m' 18446744073709551616 noff nsz) with (@Ok N pos)
      by (symmetry; apply uadd_ok; split; [reflexivity | unfold pos in *; lia]).
    cbn [obind]. rewrite new_name. cbn [obind]. rewrite str_eqb_refl.
    replace (uadd true m' 18446744073709551616 (nshoff + shnum * se) 24) with (@Ok N (nshoff + shnum * se + 24))
      by (symmetry; apply uadd_ok; split; [reflexivity | unfold nshoff, k in *; lia]).
    cbn [obind].
    rewrite (rf 8 (nshoff + shnum * se + 24) (shoff + k)).
    2:{ change (N.of_nat 8) with 8. rewrite Le. lia. }
    2:{ unfold fieldN. change (N.of_nat 8) with 8. rewrite TH by lia. exact F24. }
    cbn [obind].
    replace (uadd true m' 18446744073709551616 (nshoff + shnum * se) 32) with (@Ok N (nshoff + shnum * se + 32))
      by (symmetry; apply uadd_ok; split; [reflexivity | unfold nshoff, k in *; lia]).
    cbn [obind].
    rewrite (rf 8 (nshoff + shnum * se + 32) (lenN p)).
    2:{ change (N.of_nat 8) with 8. rewrite Le. lia. }
    2:{ unfold fieldN. change (N.of_nat 8) with 8. rewrite TH by lia. exact F32. }
    cbn [obind].
    unfold split_trunc. rewrite flen_eq.
    replace (shoff + k <=? lenN e') with true by (symmetry; apply N.leb_le; rewrite Le; unfold nshoff; lia).
    f_equal. rewrite NF.
    replace (shoff + k) with (lenN Hd + (lenN ins + (lenN R + 0))) by (rewrite LHd, Lins, LR; lia).
    rewrite !dropN_app_r', dropN_0. rewrite flen_eq, lenN_app.
    destruct (lenN p <? lenN p + lenN (sht2 ++ hdr4)) eqn:Q.
    + apply takeN_app_exact.
    + apply N.ltb_ge in Q. assert (lenN (sht2 ++ hdr4) = 0) as Z by lia.
      rewrite lenN_app, LH in Z. lia.
  - (* an old section: its name differs *)
    assert (i < shnum) as Hlt by lia.
    replace (N.to_nat (shnum + 1 - i)) with (S (N.to_nat (shnum + 1 - (i + 1)))) by lia.
    cbn [extract_elf_loop].
    pose proof Le' as Le. pose proof SE16. assert ((shnum + 1) * se = shnum * se + se) as Ex by lia.
    assert (shnum * se <= lenN e) by lia.
    assert (i * se + se <= shnum * se) by (apply mul_succ_le; lia).
    replace (uadd true m' 18446744073709551616 nshoff (i * se)) with (@Ok N (nshoff + i * se))
      by (symmetry; apply uadd_ok; split; [reflexivity | unfold nshoff, k in *; lia]).
    cbn [obind].
    rewrite (rf 4 (nshoff + i * se) (sh_field e i 0 4)).
    2:{ change (N.of_nat 4) with 4. rewrite Le. lia. }
    2:{ unfold fieldN. change (N.of_nat 4) with 4.
        replace (nshoff + i * se) with (nshoff + (i * se + 0)) by lia. rewrite old_hdr_sub by lia.
        unfold sh_field, fieldN. fold shoff se. change (N.of_nat 4) with 4. f_equal. f_equal. lia. }
    cbn [obind].
    destruct W as (_ & _ & _ & W4). pose proof (W4 i Hlt) as Hn. fold nsz in Hn.
    replace (uadd true m' 18446744073709551616 noff (sh_field e i 0 4)) with (@Ok N (noff + sh_field e i 0 4))
      by (symmetry; apply uadd_ok; split; [reflexivity | unfold pos in *; lia]).
    cbn [obind].
    destruct (old_name i Hlt) as (s & Hs & Hne). rewrite Hs. cbn [obind].
    replace (str_eqb s name) with false by (symmetry; now apply str_eqb_neq).
    apply IH; lia.
Qed.

Lemma roundtrip_core : extract_elf m' e' name = Ok p.
Proof.
  unfold extract_elf, extract_elf_gen.
  pose proof Le' as Le. pose proof SE16. pose proof W1.
  assert ((shnum + 1) * se = shnum * se + se) as Ex by lia.
  assert (sx * se + se <= shnum * se) by (apply mul_succ_le; lia).
  rewrite (validate_elf_prefix m m' e e').
  2:{ apply hd_sub; unfold pos; lia. }
  2:{ lia. }
  2:{ rewrite Le. unfold nshoff. lia. }
  2:{ exact Hv. }
  cbn [obind].
  rewrite (rf 8 40 nshoff) by (try apply f_shoff; change (N.of_nat 8) with 8; rewrite Le; unfold nshoff; lia).
  cbn [obind].
  rewrite (rf 2 58 se) by (try apply f_se; change (N.of_nat 2) with 2; rewrite Le; unfold nshoff; lia).
  cbn [obind].
  rewrite (rf 2 60 (shnum + 1)) by (try apply f_shnum; change (N.of_nat 2) with 2; rewrite Le; unfold nshoff; lia).
  cbn [obind].
  rewrite (rf 2 62 sx) by (try apply f_sx; change (N.of_nat 2) with 2; rewrite Le; unfold nshoff; lia).
  cbn [obind].
  assert (shnum * se <= lenN e) by lia.
  replace (uadd true m' 18446744073709551616 nshoff (sx * se)) with (@Ok N (nshoff + sx * se))
    by (symmetry; apply uadd_ok; split; [reflexivity | unfold nshoff, k in *; lia]).
  cbn [obind].
  replace (uadd true m' 18446744073709551616 (nshoff + sx * se) 24) with (@Ok N (nshoff + sx * se + 24))
    by (symmetry; apply uadd_ok; split; [reflexivity | unfold nshoff, k in *; lia]).
  cbn [obind].
  rewrite (rf 8 (nshoff + sx * se + 24) noff) by (try apply f_noff; change (N.of_nat 8) with 8; rewrite Le; lia).
  cbn [obind].
  replace (N.to_nat (shnum + 1)) with (N.to_nat (shnum + 1 - 0)) by (f_equal; lia).
  apply loop_from. lia.
Qed.

(* what the produced file looks like, relative to the original *)
Lemma preserves_core :
  (* below the insertion point only e_shoff and e_shnum change *)
  (forall o n, o + n <= pos -> (o + n <= 40 \/ 48 <= o) -> (o + n <= 60 \/ 62 <= o) -> subN e' o n = subN e o n) /\
  fieldN e' 40 8 = shoff + k + lenN p /\ fieldN e' 60 2 = shnum + 1 /\
  (* the name and its terminator are inserted at the end of the name table *)
  subN e' pos k = name ++ [zero] /\
  (* everything between the name table and the old section header table moves up by |name|+1 *)
  subN e' (pos + k) (shoff - pos) = subN e pos (shoff - pos) /\
  (* the payload follows, then the new section header table *)
  subN e' (shoff + k) (lenN p) = p /\
  lenN e' = shoff + k + lenN p + (shnum + 1) * se /\
  (* old section headers: every byte outside sh_offset of later sections and sh_size of the names section *)
  (forall o n, (forall j, sx < j < shnum -> o + n <= j * se + 24 \/ j * se + 32 <= o) ->
               (o + n <= sx * se + 32 \/ sx * se + 40 <= o) -> o + n <= shnum * se ->
               subN e' (shoff + k + lenN p + o) n = subN e (shoff + o) n) /\
  (* ... and those two kinds of fields grow by |name|+1 *)
  (forall j, sx < j < shnum -> fieldN e' (shoff + k + lenN p + (j * se + 24)) 8 = sh_field e j 24 8 + k) /\
  fieldN e' (shoff + k + lenN p + (sx * se + 32)) 8 = nsz + k.
Proof.
  pose proof W1. pose proof LT. pose proof LA. pose proof LB.
  split; [exact hd_sub|]. split; [exact f_shoff|]. split; [exact f_shnum|].
  split; [|split; [|split; [|split; [|split; [|split]]]]].
  - rewrite NF. replace pos with (lenN Hd + 0) at 1 by (rewrite LHd; lia).
    rewrite subN_app_r'. rewrite <- Lins. apply subN_prefix.
  - rewrite NF. replace (pos + k) with (lenN Hd + (lenN ins + 0)) by (rewrite LHd, Lins; lia).
    rewrite !subN_app_r'. rewrite <- LR. rewrite subN_prefix. unfold R, X.
    rewrite lenN_dropN, lenN_takeN_le by lia. apply dropN_takeN. exact PS.
  - rewrite NF. replace (shoff + k) with (lenN Hd + (lenN ins + (lenN R + 0))) by (rewrite LHd, Lins, LR; lia).
    rewrite !subN_app_r'. apply subN_prefix.
  - exact Le'.
  - intros o n D1 D2 D3. fold nshoff. rewrite tab_sub. rewrite subN_app_l by (rewrite LS; exact D3).
    now apply FR.
  - intros j Hj. rewrite <- FV by exact Hj. unfold fieldN. change (N.of_nat 8) with 8. fold nshoff.
    rewrite tab_sub. assert (j + 1 <= shnum) as G by lia. pose proof (mul_succ_le _ _ se G).
    rewrite subN_app_l by (rewrite LS; lia). reflexivity.
  - rewrite <- FSZ. unfold fieldN. change (N.of_nat 8) with 8. fold nshoff.
    rewrite tab_sub. assert (sx + 1 <= shnum) as G by lia. pose proof (mul_succ_le _ _ se G).
    rewrite subN_app_l by (rewrite LS; lia). reflexivity.
Qed.
End Roundtrip.

Lemma elf_roundtrip m m' e name p e' :
  wf_elf e -> ~ has_section e name -> name_ok name ->
  lenN e + lenN name + lenN p + 65537 < 18446744073709551616 ->
  add_elf m e name p = Ok e' -> extract_elf m' e' name = Ok p.
Proof.
  intros W NS NK FIT H.
  destruct (add_elf_shape m e name p e' H) as (sht2 & hdr4 & Hv & A1 & A2 & A3 & A4 & A5 & A6 & A7 & A8 & A9 & A10 & A11 & AV & A12 & A13 & A14 & ->);
    [lia|].
  eapply roundtrip_core; eauto.
Qed.

Lemma elf_preserves m e name p e' :
  wf_elf e ->
  lenN e + lenN name + lenN p + 65537 < 18446744073709551616 ->
  add_elf m e name p = Ok e' ->
  let shoff := e_shoff e in let se := e_shentsize e in let shnum := e_shnum e in let sx := e_shstrndx e in
  let pos := names_off e + names_size e in let k := lenN name + 1 in
  lenN e = shoff + shnum * se /\ pos <= shoff /\ sx < shnum /\ 40 <= se /\
  (forall o n, o + n <= pos -> (o + n <= 40 \/ 48 <= o) -> (o + n <= 60 \/ 62 <= o) -> subN e' o n = subN e o n) /\
  fieldN e' 40 8 = shoff + k + lenN p /\ fieldN e' 60 2 = shnum + 1 /\
  subN e' pos k = name ++ [zero] /\
  (forall o n, pos <= o -> o + n <= shoff -> subN e' (o + k) n = subN e o n) /\
  subN e' (shoff + k) (lenN p) = p /\
  lenN e' = shoff + k + lenN p + (shnum + 1) * se /\
  (forall o n, (forall j, sx < j < shnum -> o + n <= j * se + 24 \/ j * se + 32 <= o) ->
               (o + n <= sx * se + 32 \/ sx * se + 40 <= o) -> o + n <= shnum * se ->
               subN e' (shoff + k + lenN p + o) n = subN e (shoff + o) n) /\
  (forall j, sx < j < shnum -> fieldN e' (shoff + k + lenN p + (j * se + 24)) 8 = sh_field e j 24 8 + k) /\
  fieldN e' (shoff + k + lenN p + (sx * se + 32)) 8 = names_size e + k.
Proof.
  intros W FIT H.
  destruct (add_elf_shape m e name p e' H) as (sht2 & hdr4 & Hv & A1 & A2 & A3 & A4 & A5 & A6 & A7 & A8 & A9 & A10 & A11 & AV & A12 & A13 & A14 & ->);
    [lia|].
  cbv zeta. split; [exact A2|]. split; [exact A3|]. split; [exact A5|]. split; [exact A4|].
  edestruct (preserves_core e name p sht2 hdr4) as (P1 & P2 & P3 & P4 & P5 & P6 & P7 & P8 & P9 & P10); eauto.
  repeat (split; [assumption|]). split; [|repeat (split; [assumption|]); assumption].
  intros o n D1 D2.
  pose proof (f_equal (fun l => subN l (o - (names_off e + names_size e)) n) P5) as Q. cbv beta in Q.
  rewrite !subN_subN in Q by lia.
  replace (names_off e + names_size e + (lenN name + 1) + (o - (names_off e + names_size e))) with (o + (lenN name + 1)) in Q by lia.
  replace (names_off e + names_size e + (o - (names_off e + names_size e))) with o in Q by lia. exact Q.
Qed.

