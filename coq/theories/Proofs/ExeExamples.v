(* Non-vacuity examples for C19: concrete small files satisfy the premises of the round-trip theorems. *)
From RJ Require Import Base.Prelude Model.LE Model.Elf Model.Pe Model.ExeWitness.
From RJ Require Import Proofs.LEProofs Proofs.ExeLemmas Proofs.ElfProofs Proofs.PeProofs.
Local Open Scope N_scope.

Lemma lt_cases3 i : i < 3 -> i = 0 \/ i = 1 \/ i = 2.
Proof. lia. Qed.
Lemma lt_cases1 i : i < 1 -> i = 0.
Proof. lia. Qed.

Lemma example_elf :
  wf_elf w_elf_ok /\ ~ has_section w_elf_ok w_name /\ name_ok w_name /\
  exists e', add_elf Debug w_elf_ok w_name w_abc = Ok e' /\ extract_elf Release e' w_name = Ok w_abc /\
             lenN e' = lenN w_elf_ok + 9 + 3 + 64.
Proof.
  assert (N3 : e_shnum w_elf_ok = 3) by (vm_compute; reflexivity).
  split; [|split; [|split]].
  - split; [vm_compute; discriminate|]. split; [vm_compute; discriminate|]. split; [vm_compute; reflexivity|].
    intros idx Hi. rewrite N3 in Hi. destruct (lt_cases3 idx Hi) as [-> | [-> | ->]]; vm_compute; reflexivity.
  - intros (idx & Hi & Hs). rewrite N3 in Hi.
    destruct (lt_cases3 idx Hi) as [-> | [-> | ->]]; vm_compute in Hs; discriminate Hs.
  - split; [|vm_compute; discriminate]. vm_compute. intros H.
    repeat (destruct H as [H|H]; [discriminate H|]). exact H.
  - eexists. split; [vm_compute; reflexivity|]. split; vm_compute; reflexivity.
Qed.

Lemma example_pe :
  wf_pe w_pe_ok /\ ~ pe_has_section w_pe_ok w_name /\ wf_pe w_pe16_ok /\ ~ pe_has_section w_pe16_ok w_name /\
  (exists e', add_pe Debug w_pe_ok w_name w_abc = Ok e' /\ lenN e' = lenN w_pe_ok + 512 /\
              extract_pe Debug e' w_name = Ok (w_abc ++ zerosN 509)) /\
  (exists e', add_pe Debug w_pe16_ok w_name [] = Ok e' /\ lenN e' = lenN w_pe16_ok + 48 /\
              extract_pe Debug e' w_name = Ok []).
Proof.
  assert (N1 : pe_n w_pe_ok = 1) by (vm_compute; reflexivity).
  assert (N2 : pe_n w_pe16_ok = 1) by (vm_compute; reflexivity).
  split; [split; vm_compute; discriminate|]. split.
  { intros (idx & Hi & Hs). rewrite N1 in Hi. rewrite (lt_cases1 idx Hi) in Hs. vm_compute in Hs. discriminate Hs. }
  split; [split; vm_compute; discriminate|]. split.
  { intros (idx & Hi & Hs). rewrite N2 in Hi. rewrite (lt_cases1 idx Hi) in Hs. vm_compute in Hs. discriminate Hs. }
  split; eexists; (split; [vm_compute; reflexivity|]); split; vm_compute; reflexivity.
Qed.
