(* Inversion / evaluation lemmas for the fixed-code primitives (fx = true), string reading lemmas. *)
From RJ Require Import Base.Prelude Model.LE Proofs.LEProofs.
Local Open Scope N_scope.

Definition fieldN (bs : list byte) (off : N) (sz : nat) : N := decode_le (subN bs off (N.of_nat sz)).

Lemma uadd_ok m M a b c : uadd true m M a b = Ok c <-> c = a + b /\ a + b < M.
Proof.
  unfold uadd. destruct (N.ltb_spec (a + b) M); split; try discriminate; try lia.
  - intros [= <-]. auto.
  - intros [-> _]. reflexivity.
Qed.
Lemma usub_ok m M a b c : usub true m M a b = Ok c <-> c = a - b /\ b <= a.
Proof.
  unfold usub. destruct (N.leb_spec b a); split; try discriminate; try lia.
  - intros [= <-]. auto.
  - intros [-> _]. reflexivity.
Qed.
Lemma umul_ok m M a b c : umul true m M a b = Ok c <-> c = a * b /\ a * b < M.
Proof.
  unfold umul. destruct (N.ltb_spec (a * b) M); split; try discriminate; try lia.
  - intros [= <-]. auto.
  - intros [-> _]. reflexivity.
Qed.
Lemma ucast_ok M x y : ucast true M x = Ok y <-> y = x /\ x < M.
Proof.
  unfold ucast. destruct (N.ltb_spec x M); split; try discriminate; try lia.
  - intros [= <-]. auto.
  - intros [-> _]. reflexivity.
Qed.
Lemma align_inv m M x k r : align true m M x k = Ok r ->
  k <> 0 /\ r = (if x =? 0 then 0 else ((x - 1) / k + 1) * k) /\ (x <> 0 -> r < M).
Proof.
  unfold align. destruct (N.eqb_spec k 0) as [->|Hk]; [discriminate|].
  destruct (N.eqb_spec x 0) as [->|Hx].
  - intros [= <-]. repeat split; [exact Hk | congruence].
  - cbv zeta. destruct (N.ltb_spec (((x - 1) / k + 1) * k) M); [|discriminate].
    intros [= <-]. repeat split; auto.
Qed.
(* what rounding up means *)
Lemma align_spec x k : k <> 0 -> x <> 0 ->
  let r := ((x - 1) / k + 1) * k in x <= r /\ r < x + k /\ r mod k = 0.
Proof.
  intros Hk Hx r. subst r. split; [|split].
  - pose proof (N.div_mod (x - 1) k Hk). pose proof (N.mod_lt (x - 1) k Hk). nia.
  - pose proof (N.div_mod (x - 1) k Hk). pose proof (N.mod_lt (x - 1) k Hk). nia.
  - apply N.mod_mul. exact Hk.
Qed.

Lemma read_field_ok' m sz bs off v :
  read_field true m sz bs off = Ok v <->
  off + N.of_nat sz <= lenN bs /\ off + N.of_nat sz < 18446744073709551616 /\ v = fieldN bs off sz.
Proof. apply read_field_ok. Qed.

Lemma read_field_eq m sz bs off :
  off + N.of_nat sz <= lenN bs -> off + N.of_nat sz < 18446744073709551616 ->
  read_field true m sz bs off = Ok (fieldN bs off sz).
Proof. intros. apply read_field_ok'. auto. Qed.

Lemma splice_ok bs pos ins r : splice_ins true bs pos ins = Ok r <-> pos <= lenN bs /\ r = insN bs pos ins.
Proof.
  unfold splice_ins. rewrite flen_eq. destruct (N.leb_spec pos (lenN bs)); split; try discriminate; try lia.
  - intros [= <-]. auto.
  - intros [_ ->]. reflexivity.
Qed.
Lemma overwrite_ok bs off vs r : overwrite true bs off vs = Ok r <-> off + lenN vs <= lenN bs /\ r = updN bs off vs.
Proof.
  unfold overwrite. rewrite !flen_eq. destruct (N.leb_spec (off + lenN vs) (lenN bs)); split; try discriminate; try lia.
  - intros [= <-]. auto.
  - intros [_ ->]. reflexivity.
Qed.

(* ------------------------------------------------------------------ more sublist algebra *)
Lemma subN_app_r' a b x n : subN (a ++ b) (lenN a + x) n = subN b x n.
Proof. rewrite subN_app_r by lia. f_equal. lia. Qed.

Lemma dropN_app_r' {A} (a b : list A) x : dropN (lenN a + x) (a ++ b) = dropN x b.
Proof.
  unfold dropN, lenN. rewrite skipn_app. rewrite skipn_all2 by lia. cbn [app]. f_equal. lia.
Qed.

Lemma dropN_updN_after bs off vs d : off + lenN vs <= lenN bs -> off + lenN vs <= d ->
  dropN d (updN bs off vs) = dropN d bs.
Proof.
  intros H D. unfold updN.
  replace d with (lenN (takeN off bs) + (d - off)) at 1 by (rewrite lenN_takeN; lia).
  rewrite dropN_app_r'.
  replace (d - off) with (lenN vs + (d - off - lenN vs)) by lia.
  rewrite dropN_app_r', dropN_dropN. f_equal. lia.
Qed.

Lemma dropN_takeN bs d q : d <= q -> dropN d (takeN q bs) = subN bs d (q - d).
Proof.
  intros H. unfold dropN, takeN, subN, takeN, dropN. rewrite skipn_firstn_comm. f_equal. lia.
Qed.

Lemma dropN_split bs d q : d <= q -> q <= lenN bs -> dropN d bs = subN bs d (q - d) ++ dropN q bs.
Proof.
  intros H1 H2. unfold subN. replace (dropN q bs) with (dropN (q - d) (dropN d bs)) by (rewrite dropN_dropN; f_equal; lia).
  symmetry. apply takeN_dropN.
Qed.

Lemma firstn_plus {A} (l : list A) a b : firstn (a + b) l = firstn a l ++ firstn b (skipn a l).
Proof.
  revert l; induction a as [|a IH]; intros l; [reflexivity|].
  destruct l as [|x l]; cbn [Nat.add firstn skipn app]; [now rewrite firstn_nil | now rewrite IH].
Qed.

Lemma subN_split bs d a b : subN bs d (a + b) = subN bs d a ++ subN bs (d + a) b.
Proof.
  unfold subN, takeN, dropN. rewrite N2Nat.inj_add. rewrite (N2Nat.inj_add d a).
  rewrite <- skipn_skipn'. apply firstn_plus.
Qed.

Lemma subN_nil_len bs d : subN bs d 0 = [].
Proof. reflexivity. Qed.

(* ------------------------------------------------------------------ read_string *)
(* the scan stops inside [seg] when it contains a NUL: what follows does not matter *)
Lemma rs_app_zero seg r1 r2 : In zero seg -> forall fuel, rs (seg ++ r1) fuel = rs (seg ++ r2) fuel.
Proof.
  induction seg as [|c seg IH]; intros Hin fuel; [destruct Hin|].
  destruct fuel as [|f]; [reflexivity|]. cbn [rs app].
  destruct (Ascii.eqb c zero) eqn:E; [reflexivity|].
  destruct Hin as [->|Hin]; [rewrite Ascii.eqb_refl in E; discriminate|].
  now rewrite (IH Hin f).
Qed.

(* a name without NUL followed by a NUL is read back, if the cap allows *)
Lemma rs_name name rest : ~ In zero name -> forall fuel, (length name <= fuel)%nat ->
  rs (name ++ zero :: rest) fuel = Ok name.
Proof.
  induction name as [|c name IH]; intros Hn fuel Hf.
  - destruct fuel; [reflexivity|]. cbn [rs app]. now rewrite Ascii.eqb_refl.
  - destruct fuel as [|f]; [cbn [length] in Hf; lia|]. cbn [rs app].
    destruct (Ascii.eqb c zero) eqn:E.
    + apply Ascii.eqb_eq in E. subst c. exfalso. apply Hn. now left.
    + rewrite IH; [reflexivity | intros H; apply Hn; now right | cbn [length] in Hf; lia].
Qed.

(* exactly [fuel] bytes without NUL: the cap stops the scan *)
Lemma rs_cap name rest : ~ In zero name -> rs (name ++ rest) (length name) = Ok name.
Proof.
  induction name as [|c name IH]; intros Hn; [reflexivity|].
  cbn [rs app length]. destruct (Ascii.eqb c zero) eqn:E.
  - apply Ascii.eqb_eq in E. subst c. exfalso. apply Hn. now left.
  - rewrite IH; [reflexivity | intros H; apply Hn; now right].
Qed.

Lemma rs_no_zero bs fuel s : rs bs fuel = Ok s -> ~ In zero s /\ (length s <= fuel)%nat.
Proof.
  revert bs s; induction fuel as [|f IH]; intros bs s H.
  - cbn in H. injection H as <-. split; [intros [] | cbn; lia].
  - cbn [rs] in H. destruct bs as [|c r]; [discriminate|].
    destruct (Ascii.eqb c zero) eqn:E; [injection H as <-; split; [intros [] | cbn; lia]|].
    destruct (rs r f) eqn:R; try discriminate. injection H as <-.
    destruct (IH _ _ R) as [I1 I2]. split; [|cbn [length]; lia].
    intros [->|Hin]; [rewrite Ascii.eqb_refl in E; discriminate | now apply I1].
Qed.

Lemma rs_zero_ok seg r : In zero seg -> forall fuel, exists s, rs (seg ++ r) fuel = Ok s.
Proof.
  induction seg as [|c seg IH]; intros Hin fuel; [destruct Hin|].
  destruct fuel as [|f]; [eexists; reflexivity|]. cbn [rs app].
  destruct (Ascii.eqb c zero) eqn:E; [eexists; reflexivity|].
  destruct Hin as [->|Hin]; [rewrite Ascii.eqb_refl in E; discriminate|].
  destruct (IH Hin f) as [s ->]. eexists; reflexivity.
Qed.

Lemma mul_succ_le a b c : a + 1 <= b -> a * c + c <= b * c.
Proof. intros H. pose proof (N.mul_le_mono_r _ _ c H). lia. Qed.
Lemma mul_le_r a b c : a <= b -> a * c <= b * c.
Proof. apply N.mul_le_mono_r. Qed.

Lemma updN2_app_l a rest o1 v1 o2 v2 : o1 + lenN v1 <= lenN a -> o2 + lenN v2 <= lenN a ->
  updN (updN (a ++ rest) o1 v1) o2 v2 = updN (updN a o1 v1) o2 v2 ++ rest.
Proof.
  intros H1 H2. rewrite updN_app_l by exact H1. rewrite updN_app_l; [reflexivity|].
  rewrite lenN_updN by exact H1. exact H2.
Qed.

(* read_string looks at no more than [fuel] bytes *)
Lemma rs_firstn l1 l2 fuel : firstn fuel l1 = firstn fuel l2 -> rs l1 fuel = rs l2 fuel.
Proof.
  revert l1 l2; induction fuel as [|f IH]; intros l1 l2 H; [reflexivity|].
  destruct l1 as [|a l1], l2 as [|b l2]; cbn [firstn] in H; try discriminate; [reflexivity|].
  injection H as -> H. cbn [rs]. destruct (Ascii.eqb b zero); [reflexivity|]. now rewrite (IH _ _ H).
Qed.

Lemma rs_enough l fuel : (fuel <= length l)%nat -> exists s, rs l fuel = Ok s.
Proof.
  revert l; induction fuel as [|f IH]; intros l H; [eexists; reflexivity|].
  destruct l as [|c l]; [cbn in H; lia|]. cbn [rs]. destruct (Ascii.eqb c zero); [eexists; reflexivity|].
  destruct (IH l) as [s ->]; [cbn in H; lia|]. eexists; reflexivity.
Qed.

Lemma read_string_sub bs1 bs2 off fuel :
  off + N.of_nat fuel <= lenN bs1 -> off + N.of_nat fuel <= lenN bs2 -> (0 < fuel)%nat ->
  subN bs1 off (N.of_nat fuel) = subN bs2 off (N.of_nat fuel) ->
  read_string bs1 off fuel = read_string bs2 off fuel.
Proof.
  intros L1 L2 F S. unfold read_string. rewrite !flen_eq.
  replace (off <? lenN bs1) with true by (symmetry; apply N.ltb_lt; lia).
  replace (off <? lenN bs2) with true by (symmetry; apply N.ltb_lt; lia).
  apply rs_firstn. unfold subN, takeN in S. rewrite Nat2N.id in S. exact S.
Qed.

Lemma read_string_enough bs off fuel : off + N.of_nat fuel <= lenN bs -> (0 < fuel)%nat ->
  exists s, read_string bs off fuel = Ok s.
Proof.
  intros L F. unfold read_string. rewrite flen_eq.
  replace (off <? lenN bs) with true by (symmetry; apply N.ltb_lt; lia).
  apply rs_enough. unfold dropN. rewrite skipn_length. unfold lenN in L. lia.
Qed.

Lemma zerosN_split a b : zerosN (a + b) = zerosN a ++ zerosN b.
Proof. unfold zerosN. rewrite N2Nat.inj_add. apply repeat_app. Qed.

Lemma resizeN_grow bs n : lenN bs <= n -> resizeN bs n = bs ++ zerosN (n - lenN bs).
Proof.
  intros H. unfold resizeN. rewrite !flen_eq. destruct (N.leb_spec n (lenN bs)) as [G|G]; [|reflexivity].
  assert (n = lenN bs) as -> by lia. rewrite takeN_all by lia. rewrite N.sub_diag. cbn. now rewrite app_nil_r.
Qed.

Lemma updN3_app_l a rest o1 v1 o2 v2 o3 v3 :
  o1 + lenN v1 <= lenN a -> o2 + lenN v2 <= lenN a -> o3 + lenN v3 <= lenN a ->
  updN (updN (updN (a ++ rest) o1 v1) o2 v2) o3 v3 = updN (updN (updN a o1 v1) o2 v2) o3 v3 ++ rest.
Proof.
  intros H1 H2 H3. rewrite updN2_app_l by assumption. rewrite updN_app_l; [reflexivity|].
  rewrite !lenN_updN; rewrite ?lenN_updN; assumption.
Qed.

Lemma subN_subN bs a L x n : x + n <= L -> subN (subN bs a L) x n = subN bs (a + x) n.
Proof.
  intros H. unfold subN at 1 2. rewrite dropN_takeN by lia. unfold subN.
  rewrite dropN_dropN. unfold takeN. rewrite firstn_firstn. f_equal. lia.
Qed.
