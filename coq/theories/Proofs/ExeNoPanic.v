(* The fixed ELF/PE rewriters never panic: every outcome is Ok or Err, for every input and build mode. *)
From RJ Require Import Base.Prelude Model.LE Model.Elf Model.Pe Proofs.LEProofs.
Local Open Scope N_scope.

Ltac np_go := repeat (cbv beta iota zeta; np_step).

Lemma np_validate_elf m bs : np (validate_elf true m bs).
Proof. unfold validate_elf. np_go. Qed.

Lemma np_extract_elf_loop m bs name shoff se noff count : forall idx,
  np (extract_elf_loop true m bs name shoff se noff idx count).
Proof.
  induction count as [|c IH]; intros idx; cbn [extract_elf_loop]; [reflexivity|].
  np_go; try apply IH.
Qed.

Lemma np_extract_elf m bs name : np (extract_elf_gen true m bs name).
Proof.
  unfold extract_elf_gen. np_go; try apply np_validate_elf; try apply np_extract_elf_loop.
Qed.

Lemma np_bump_offsets m se k count : forall sht idx, np (bump_offsets true m sht se k idx count).
Proof.
  induction count as [|c IH]; intros sht idx; cbn [bump_offsets]; [reflexivity|].
  np_go; try apply IH.
Qed.

Lemma np_add_elf m bs name p : np (add_elf_gen true m bs name p).
Proof.
  unfold add_elf_gen. np_go; try apply np_validate_elf; try apply np_bump_offsets.
Qed.

Lemma np_validate_pe m bs : np (validate_pe true m bs).
Proof. unfold validate_pe. np_go. Qed.

Lemma np_extract_pe_loop m bs name sh count : forall idx, np (extract_pe_loop true m bs name sh idx count).
Proof.
  induction count as [|c IH]; intros idx; cbn [extract_pe_loop]; [reflexivity|].
  np_go; try apply IH.
Qed.

Lemma np_extract_pe m bs name : np (extract_pe_gen true m bs name).
Proof. unfold extract_pe_gen. np_go; try apply np_validate_pe; try apply np_extract_pe_loop. Qed.

Lemma np_bump_ptrs m sh fa count : forall bs idx, np (bump_ptrs true m bs sh fa idx count).
Proof.
  induction count as [|c IH]; intros bs idx; cbn [bump_ptrs]; [reflexivity|].
  np_go; try apply IH.
Qed.

Lemma np_add_pe m bs name p : np (add_pe_gen true m bs name p).
Proof.
  unfold add_pe_gen. np_go; try apply np_validate_pe; try apply np_bump_ptrs.
Qed.

(* the fixed code does not depend on the build mode at all *)

Lemma no_panic_all : forall (m : mode) (bytes name payload : list byte) (site : str),
  add_elf m bytes name payload <> Panic site /\ extract_elf m bytes name <> Panic site /\
  add_pe m bytes name payload <> Panic site /\ extract_pe m bytes name <> Panic site.
Proof.
  intros. repeat split; apply np_not_panic;
    [apply np_add_elf | apply np_extract_elf | apply np_add_pe | apply np_extract_pe].
Qed.

Lemma total_all : forall (m : mode) (bytes name payload : list byte),
  ((exists r, add_elf m bytes name payload = Ok r) \/ (exists e, add_elf m bytes name payload = Err e)) /\
  ((exists r, extract_elf m bytes name = Ok r) \/ (exists e, extract_elf m bytes name = Err e)) /\
  ((exists r, add_pe m bytes name payload = Ok r) \/ (exists e, add_pe m bytes name payload = Err e)) /\
  ((exists r, extract_pe m bytes name = Ok r) \/ (exists e, extract_pe m bytes name = Err e)).
Proof.
  intros. repeat split; apply np_total;
    [apply np_add_elf | apply np_extract_elf | apply np_add_pe | apply np_extract_pe].
Qed.
