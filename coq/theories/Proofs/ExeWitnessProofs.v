(* F9: the pinned code panics on malformed input - evaluation of the original model on the witnesses. *)
From RJ Require Import Base.Prelude Model.LE Model.Elf Model.Pe Model.ExeWitness Gen.Facts.
From Coq Require Import String.
Local Open Scope N_scope.

Lemma refuted_both_modes : forall m : mode,
  add_pe0 m w_pe_fa0 w_name w_abc = Panic (slit "div") /\
  add_pe0 m w_pe_trunc w_name w_abc = Panic (slit "index") /\
  extract_pe0 m w_pe_split w_name_s0 = Panic (slit "split") /\
  add_elf0 m w_elf_names_out w_name w_abc = Panic (slit "index") /\
  extract_elf0 m w_elf_split w_name_text = Panic (slit "split").
Proof. intros []; vm_compute; repeat split; reflexivity. Qed.

Lemma refuted_by_mode :
  add_pe0 Debug w_pe_nosec w_name w_abc = Panic (slit "sub") /\ is_ok (add_pe0 Release w_pe_nosec w_name w_abc) = true /\
  add_pe0 Debug w_pe_empty w_name [] = Panic (slit "sub") /\ is_ok (add_pe0 Release w_pe_empty w_name []) = true /\
  add_pe0 Debug w_pe_ffff w_name w_abc = Panic (slit "add") /\
  extract_elf0 Debug w_elf_shoff_max w_name_text = Panic (slit "add") /\ extract_elf0 Release w_elf_shoff_max w_name_text = Err eother /\
  add_elf0 Debug w_elf_shoff_wrap w_name w_abc = Panic (slit "add") /\ add_elf0 Release w_elf_shoff_wrap w_name w_abc = Panic (slit "split").
Proof. vm_compute; repeat split; reflexivity. Qed.

Lemma section_name_ok :
  lenN impl_section_name <= 8 /\ ~ In zero impl_section_name /\ impl_section_name <> [].
Proof.
  split; [vm_compute; discriminate|]. split; [|vm_compute; discriminate].
  vm_compute. intros H. repeat (destruct H as [H|H]; [discriminate H|]). exact H.
Qed.
