(* Effect of successfully executed destination commands, path by path (the lemma C01, C04, C07 share). *)
From RJ Require Import Base.Prelude Base.OrderedPlan Model.Settings Model.Core Model.Fs Model.Sync
  Spec.PlanSpec Proofs.FsProofs Proofs.SyncProofs Proofs.DryProofs.

Definition is_through (e : event) : bool := match e with Through _ => true | CreatedAncestors => false end.
Definition no_through (l : list event) : Prop := forallb (fun e => negb (is_through e)) l = true.

Lemma no_through_app l1 l2 : no_through (l1 ++ l2) <-> no_through l1 /\ no_through l2.
Proof. unfold no_through. rewrite forallb_app, andb_true_iff. reflexivity. Qed.

(* executing a command list on the doer, and whether every command was answered without error *)
Fixpoint exec_all (fl : flavour) (st : dstate) (cmds : list cmd) : dstate :=
  match cmds with [] => st | c :: r => exec_all fl (fst (doer_exec fl st c)) r end.
Fixpoint all_ok (fl : flavour) (st : dstate) (cmds : list cmd) : Prop :=
  match cmds with [] => True | c :: r => snd (doer_exec fl st c) = None /\ all_ok fl (fst (doer_exec fl st c)) r end.

Lemma exec_all_app fl cmds1 : forall st cmds2, exec_all fl st (cmds1 ++ cmds2) = exec_all fl (exec_all fl st cmds1) cmds2.
Proof. induction cmds1 as [|c r IH]; intros; cbn [exec_all app]; auto. Qed.
Lemma all_ok_app fl cmds1 : forall st cmds2, all_ok fl st (cmds1 ++ cmds2) <-> all_ok fl st cmds1 /\ all_ok fl (exec_all fl st cmds1) cmds2.
Proof.
  induction cmds1 as [|c r IH]; intros; cbn [all_ok exec_all app]; [tauto|]. rewrite IH. tauto.
Qed.

(* events only grow *)
Lemma doer_exec_events fl st c : exists l, d_events (fst (doer_exec fl st c)) = d_events st ++ l.
Proof.
  destruct (doer_exec fl st c) as [st' e] eqn:H. cbn [fst].
  destruct c; cbn [doer_exec] in H; unfold open_for_write, write_chunk, stamp_file, refuses, write_fails in H;
    repeat (break_match_hyp H; try discriminate); inv_pair H; dsimpl;
    try (exists []; rewrite app_nil_r; reflexivity); try (eexists; reflexivity).
Qed.
Lemma exec_all_events fl cmds : forall st, exists l, d_events (exec_all fl st cmds) = d_events st ++ l.
Proof.
  induction cmds as [|c r IH]; intros st; cbn [exec_all]; [exists []; rewrite app_nil_r; reflexivity|].
  destruct (doer_exec_events fl st c) as (l1 & E1). destruct (IH (fst (doer_exec fl st c))) as (l2 & E2).
  exists (l1 ++ l2). rewrite E2, E1, app_assoc. reflexivity.
Qed.
Lemma no_through_prefix fl st cmds : no_through (d_events (exec_all fl st cmds)) -> no_through (d_events st).
Proof. destruct (exec_all_events fl cmds st) as (l & E). rewrite E. intros H. apply no_through_app in H. tauto. Qed.
Lemma no_through_step fl st c r : no_through (d_events (exec_all fl st (c :: r))) -> no_through (d_events (fst (doer_exec fl st c))).
Proof. cbn [exec_all]. apply no_through_prefix. Qed.

(* frame for a command list *)
Lemma exec_all_frame fl cmds : forall st p,
  (forall c, In c cmds -> cmd_path c <> Some p) -> fget (d_fs (exec_all fl st cmds)) p = fget (d_fs st) p.
Proof.
  induction cmds as [|c r IH]; intros st p H; cbn [exec_all]; [reflexivity|].
  rewrite IH by (intros; apply H; right; auto).
  destruct (doer_exec fl st c) as [st' e] eqn:E. cbn [fst]. eapply doer_exec_frame; eauto. apply H. left; reflexivity.
Qed.

(* ---- single commands: success without going through a link has the intended effect ---- *)
Definition new_through (st st' : dstate) : Prop :=
  exists l, d_events st' = d_events st ++ l /\ existsb is_through l = true.

Lemma no_through_no_new st st' : no_through (d_events st') -> ~ new_through st st'.
Proof.
  intros H (l & E & Hl). rewrite E in H. apply no_through_app in H as [_ H].
  unfold no_through in H. clear E. induction l as [|e l IH]; cbn in *; [discriminate|].
  apply andb_true_iff in H as [H1 H2]. apply orb_true_iff in Hl as [Hl|Hl]; [rewrite Hl in H1; discriminate|auto].
Qed.

Ltac solve_through :=
  match goal with
  | Hn : ~ new_through ?st _ |- _ => exfalso; apply Hn; eexists; split; [dsimpl; reflexivity|reflexivity]
  end.

Lemma delete_effect fl st c p :
  (c = CDeleteFile p \/ c = CDeleteFolder p \/ exists k, c = CDeleteSymlink p k) ->
  snd (doer_exec fl st c) = None -> ~ new_through st (fst (doer_exec fl st c)) ->
  fget (d_fs (fst (doer_exec fl st c))) p = None /\ d_open (fst (doer_exec fl st c)) = d_open st.
Proof.
  intros Hc Hok Hn. destruct (doer_exec fl st c) as [st' e] eqn:H. cbn [fst snd] in *. subst e.
  destruct Hc as [->|[->|(k & ->)]]; cbn [doer_exec] in H;
    repeat (break_match_hyp H; try discriminate); inv_pair H; dsimpl;
    try solve_through; rewrite ?fget_fdel_eq; auto.
Qed.

Lemma create_folder_effect fl st p :
  snd (doer_exec fl st (CCreateFolder p)) = None -> ~ new_through st (fst (doer_exec fl st (CCreateFolder p))) ->
  fget (d_fs (fst (doer_exec fl st (CCreateFolder p)))) p = Some NFolder /\
  d_open (fst (doer_exec fl st (CCreateFolder p))) = d_open st.
Proof.
  intros Hok Hn. destruct (doer_exec fl st (CCreateFolder p)) as [st' e] eqn:H. cbn [fst snd] in *. subst e.
  cbn [doer_exec] in H. repeat (break_match_hyp H; try discriminate); inv_pair H; dsimpl;
    try solve_through; rewrite ?fget_fset_eq; auto.
Qed.

Lemma create_symlink_effect fl st p k t :
  snd (doer_exec fl st (CCreateSymlink p k t)) = None -> ~ new_through st (fst (doer_exec fl st (CCreateSymlink p k t))) ->
  fget (d_fs (fst (doer_exec fl st (CCreateSymlink p k t)))) p = Some (NLink (denormalize fl t) k) /\
  d_open (fst (doer_exec fl st (CCreateSymlink p k t))) = d_open st.
Proof.
  intros Hok Hn. destruct (doer_exec fl st (CCreateSymlink p k t)) as [st' e] eqn:H. cbn [fst snd] in *. subst e.
  cbn [doer_exec] in H. repeat (break_match_hyp H; try discriminate); inv_pair H; dsimpl;
    try solve_through; rewrite ?fget_fset_eq; auto.
Qed.

(* ---- file transfer: the chunk sequence ---- *)
Fixpoint chunk_cmd_list (p : path) (mt : Z) (chunks : list str) : list cmd :=
  match chunks with
  | [] => []
  | [c] => [CCreateOrUpdateFile p c (Some mt) false]
  | c :: r => CCreateOrUpdateFile p c None true :: chunk_cmd_list p mt r
  end.
Lemma dest_cmds_chunk_cmds p mt chunks : dest_cmds (chunk_cmds p mt chunks) = chunk_cmd_list p mt chunks.
Proof.
  induction chunks as [|c r IH]; [reflexivity|]. destruct r as [|c2 r]; [reflexivity|].
  change (chunk_cmds p mt (c :: c2 :: r)) with (DestCmd (CCreateOrUpdateFile p c None true) :: chunk_cmds p mt (c2 :: r)).
  change (chunk_cmd_list p mt (c :: c2 :: r)) with (CCreateOrUpdateFile p c None true :: chunk_cmd_list p mt (c2 :: r)).
  unfold dest_cmds in *. cbn [flat_map app]. rewrite IH. reflexivity.
Qed.

Definition final_stamp (mt : option Z) (k : N) : stamp := match mt with Some t => TSet t | None => TNow k end.

Lemma file_data_set f p m d : file_data (fset f p (NFile m d)) p = d.
Proof. unfold file_data. rewrite fget_fset_eq. reflexivity. Qed.

(* after an error-free, through-free chunk command the file holds exactly what was there (continuation)
   or nothing (fresh open) followed by the chunk *)
Lemma chunk_effect fl st p data mt more :
  let c := CCreateOrUpdateFile p data mt more in
  snd (doer_exec fl st c) = None -> ~ new_through st (fst (doer_exec fl st c)) ->
  (d_open st = None \/ (d_open st = Some p /\ exists m old, fget (d_fs st) p = Some (NFile m old))) ->
  let old := match d_open st with Some _ => file_data (d_fs st) p | None => [] end in
  (exists k, fget (d_fs (fst (doer_exec fl st c))) p = Some (NFile (final_stamp mt k) (old ++ data))) /\
  d_open (fst (doer_exec fl st c)) = (if more then Some p else None).
Proof.
  intros c Hok Hn Hopen old. subst c old. cbn [doer_exec] in *.
  destruct (blocked_at st p); [discriminate|].
  destruct (refuses st p); [discriminate|].
  set (st0 := with_failed st (if more then Some p else None)) in *.
  assert (Ho0 : d_open st0 = d_open st) by reflexivity.
  assert (Hf0 : d_fs st0 = d_fs st) by reflexivity.
  assert (He0 : d_events st0 = d_events st) by reflexivity.
  assert (Hr0 : resolve_above st0 p = resolve_above st p) by reflexivity.
  destruct (open_for_write st0 p) as [st1|st1|e] eqn:Eo; cbn [fst snd] in *; try discriminate.
  - (* the file is open inside the tree *)
    assert (Hst1 : file_data (d_fs st1) p = match d_open st with Some _ => file_data (d_fs st) p | None => [] end
                   /\ d_events st1 = d_events st).
    { unfold open_for_write in Eo. rewrite Ho0, Hr0, Hf0 in Eo.
      destruct Hopen as [Ho|(Ho & m & old & Ep)]; rewrite Ho in Eo |- *.
      - destruct (resolve_above st p); try discriminate.
        destruct (fget (d_fs st) p) as [[m old| |t [| |]]|]; inv_pair Eo; dsimpl; rewrite file_data_set; auto.
      - unfold path_eqb in Eo. destruct (path_eq_dec p p); [|congruence]. rewrite Ep in Eo. inv_pair Eo. dsimpl. auto. }
    destruct Hst1 as [Hd _].
    destruct (write_fails st1); cbn [fst snd] in *; [discriminate|]. split.
    + destruct mt as [t|]; unfold stamp_file, write_chunk; dsimpl; rewrite ?fget_fset_eq, ?file_data_set;
        cbn [d_fs count_write]; rewrite Hd; [exists 0%N | exists (d_tick st1)]; reflexivity.
    + destruct mt; unfold stamp_file, write_chunk; dsimpl; reflexivity.
  - (* the open went outside the tree: either a Through event was logged now, or the handle was already outside *)
    exfalso. unfold open_for_write in Eo. rewrite Ho0, Hr0, Hf0 in Eo.
    destruct Hopen as [Ho|(Ho & m & old & Ep)]; rewrite Ho in Eo.
    + destruct (resolve_above st p) as [|q|e]; try discriminate.
      * destruct (fget (d_fs st) p) as [[m old| |t [| |]]|]; inv_pair Eo;
          apply Hn; eexists; (split; [dsimpl; reflexivity|reflexivity]).
      * inv_pair Eo. apply Hn; eexists; (split; [dsimpl; reflexivity|reflexivity]).
    + unfold path_eqb in Eo. destruct (path_eq_dec p p); [|congruence]. rewrite Ep in Eo. discriminate.
Qed.

(* the whole chunk sequence of one file *)
Lemma chunks_effect fl p mt : forall chunks st,
  chunks <> [] ->
  all_ok fl st (chunk_cmd_list p mt chunks) ->
  no_through (d_events (exec_all fl st (chunk_cmd_list p mt chunks))) ->
  (d_open st = None \/ (d_open st = Some p /\ exists m old, fget (d_fs st) p = Some (NFile m old))) ->
  let old := match d_open st with Some _ => file_data (d_fs st) p | None => [] end in
  fget (d_fs (exec_all fl st (chunk_cmd_list p mt chunks))) p = Some (NFile (TSet mt) (old ++ concat chunks)) /\
  d_open (exec_all fl st (chunk_cmd_list p mt chunks)) = None.
Proof.
  induction chunks as [|c r IH]; intros st Hne Hok Hnt Hopen; [congruence|].
  destruct r as [|c2 r].
  - (* last chunk *)
    cbn [chunk_cmd_list all_ok exec_all concat] in *. destruct Hok as [Hok _].
    destruct (chunk_effect fl st p c (Some mt) false Hok (no_through_no_new _ _ Hnt) Hopen) as [(k & E) Ho].
    rewrite app_nil_r. split; [exact E|exact Ho].
  - change (chunk_cmd_list p mt (c :: c2 :: r)) with (CCreateOrUpdateFile p c None true :: chunk_cmd_list p mt (c2 :: r)) in *.
    cbn [all_ok exec_all] in *. destruct Hok as [Hok1 Hok2].
    set (st1 := fst (doer_exec fl st (CCreateOrUpdateFile p c None true))) in *.
    assert (Hn1 : ~ new_through st st1) by (apply no_through_no_new; eapply no_through_prefix; eauto).
    destruct (chunk_effect fl st p c None true Hok1 Hn1 Hopen) as [(k & E) Ho]. fold st1 in E, Ho.
    assert (Hopen1 : d_open st1 = None \/ (d_open st1 = Some p /\ exists m old, fget (d_fs st1) p = Some (NFile m old))).
    { right. split; [exact Ho|]. eexists; eexists; exact E. }
    destruct (IH st1 ltac:(discriminate) Hok2 Hnt Hopen1) as [F1 F2].
    split; [|exact F2]. rewrite F1, Ho. unfold file_data. rewrite E. cbn [concat]. rewrite <- app_assoc. reflexivity.
Qed.

(* ---- the delete phase ---- *)
Lemma cmd_path_delete e : cmd_path (delete_cmd e) = Some (fst e).
Proof. destruct e as [p [[mt sz| |k t] r]]; reflexivity. Qed.

Lemma delete_cmd_shape e :
  delete_cmd e = CDeleteFile (fst e) \/ delete_cmd e = CDeleteFolder (fst e) \/ exists k, delete_cmd e = CDeleteSymlink (fst e) k.
Proof. destruct e as [p [[mt sz| |k t] r]]; cbn; eauto. Qed.

Lemma deletes_effect fl : forall (dl : list (path * (entry * dreason))) st,
  NoDup (map fst dl) ->
  all_ok fl st (map delete_cmd dl) ->
  no_through (d_events (exec_all fl st (map delete_cmd dl))) ->
  (forall p, In p (map fst dl) -> fget (d_fs (exec_all fl st (map delete_cmd dl))) p = None) /\
  (forall p, ~ In p (map fst dl) -> fget (d_fs (exec_all fl st (map delete_cmd dl))) p = fget (d_fs st) p) /\
  d_open (exec_all fl st (map delete_cmd dl)) = d_open st.
Proof.
  induction dl as [|e dl IH]; intros st Hnd Hok Hnt; cbn [map all_ok exec_all] in *.
  - repeat split; auto. intros p [].
  - inversion Hnd as [|? ? Hnin Hnd']; subst. destruct Hok as [Hok1 Hok2].
    set (st1 := fst (doer_exec fl st (delete_cmd e))) in *.
    assert (Hn1 : ~ new_through st st1) by (apply no_through_no_new; eapply no_through_prefix; eauto).
    destruct (delete_effect fl st (delete_cmd e) (fst e) (delete_cmd_shape e) Hok1 Hn1) as [E1 O1]. fold st1 in E1, O1.
    destruct (IH st1 Hnd' Hok2 Hnt) as (I1 & I2 & I3).
    repeat split.
    + intros p [<-|Hp]; [rewrite I2 by assumption; exact E1 | apply I1; assumption].
    + intros p Hp. rewrite I2 by (intro; apply Hp; right; assumption).
      destruct (doer_exec fl st (delete_cmd e)) as [st1' er] eqn:Ed. subst st1. cbn [fst].
      eapply doer_exec_frame; eauto. rewrite cmd_path_delete. intro Heq. inversion Heq. apply Hp. left. assumption.
    + rewrite I3. exact O1.
Qed.

(* ---- the copy phase ---- *)
Section Copies.
Variable chunker : str -> list str.
Hypothesis chunker_ok : forall d, chunker d <> [] /\ concat (chunker d) = d.
Variable now_z : N -> Z.

Definition planned_node (fl : flavour) (S : fs) (p : path) (e : entry) : node :=
  match e with
  | EFolder => NFolder
  | ESymlink k t => NLink (denormalize fl t) k
  | EFile mt _ => NFile (TSet mt) (file_data S p)
  end.

(* the listed details of a file entry agree with a file in the source tree *)
Definition file_listed (S : fs) (p : path) (e : entry) : Prop :=
  match e with EFile _ _ => exists m d, fget S p = Some (NFile m d) | _ => True end.

Lemma dest_cmds_app a b : dest_cmds (a ++ b) = dest_cmds a ++ dest_cmds b.
Proof. unfold dest_cmds. apply flat_map_app. Qed.

Lemma copy_cmds_paths S p e r c :
  In c (dest_cmds (copy_steps chunker S (p, (e, r)))) -> cmd_path c = Some p.
Proof.
  destruct e as [mt sz| |k t]; cbn [copy_steps].
  - destruct (fget S p) as [[m d| |]|]; cbn [dest_cmds flat_map app]; try (intros []).
    fold (dest_cmds (chunk_cmds p mt (chunker d))). rewrite dest_cmds_chunk_cmds.
    generalize (chunker d). intros chunks. induction chunks as [|c0 rr IH]; [intros []|].
    destruct rr as [|c1 rr]; [intros [<-|[]]; reflexivity|].
    change (chunk_cmd_list p mt (c0 :: c1 :: rr)) with (CCreateOrUpdateFile p c0 None true :: chunk_cmd_list p mt (c1 :: rr)).
    intros [<-|H]; [reflexivity|auto].
  - intros [<-|[]]; reflexivity.
  - intros [<-|[]]; reflexivity.
Qed.

Lemma copy_effect fl S st p e r :
  file_listed S p e -> d_open st = None ->
  all_ok fl st (dest_cmds (copy_steps chunker S (p, (e, r)))) ->
  no_through (d_events (exec_all fl st (dest_cmds (copy_steps chunker S (p, (e, r)))))) ->
  fget (d_fs (exec_all fl st (dest_cmds (copy_steps chunker S (p, (e, r)))))) p = Some (planned_node fl S p e) /\
  d_open (exec_all fl st (dest_cmds (copy_steps chunker S (p, (e, r))))) = None.
Proof.
  intros Hl Ho Hok Hnt. destruct e as [mt sz| |k t]; cbn [copy_steps planned_node] in *.
  - destruct Hl as (m & d & ES). rewrite ES in *. cbn [dest_cmds flat_map app] in *.
    fold (dest_cmds (chunk_cmds p mt (chunker d))) in *. rewrite dest_cmds_chunk_cmds in *.
    destruct (chunker_ok d) as [Hne Hcat].
    destruct (chunks_effect fl p mt (chunker d) st Hne Hok Hnt (or_introl Ho)) as [F1 F2].
    rewrite Ho in F1. cbn [app] in F1. rewrite Hcat in F1. unfold file_data. rewrite ES. split; assumption.
  - cbn [dest_cmds flat_map app all_ok exec_all] in *. destruct Hok as [Hok _].
    destruct (create_folder_effect fl st p Hok (no_through_no_new _ _ Hnt)) as [E O]. rewrite O. split; assumption.
  - cbn [dest_cmds flat_map app all_ok exec_all] in *. destruct Hok as [Hok _].
    destruct (create_symlink_effect fl st p k t Hok (no_through_no_new _ _ Hnt)) as [E O]. rewrite O. split; assumption.
Qed.

Lemma copies_effect fl S : forall (cl : list (path * (entry * creason))) st,
  NoDup (map fst cl) ->
  (forall p e r, In (p, (e, r)) cl -> file_listed S p e) ->
  d_open st = None ->
  all_ok fl st (dest_cmds (flat_map (copy_steps chunker S) cl)) ->
  no_through (d_events (exec_all fl st (dest_cmds (flat_map (copy_steps chunker S) cl)))) ->
  (forall p e r, In (p, (e, r)) cl ->
     fget (d_fs (exec_all fl st (dest_cmds (flat_map (copy_steps chunker S) cl)))) p = Some (planned_node fl S p e)) /\
  (forall p, ~ In p (map fst cl) ->
     fget (d_fs (exec_all fl st (dest_cmds (flat_map (copy_steps chunker S) cl)))) p = fget (d_fs st) p) /\
  d_open (exec_all fl st (dest_cmds (flat_map (copy_steps chunker S) cl))) = None.
Proof.
  induction cl as [|[p0 [e0 r0]] cl IH]; intros st Hnd Hl Ho Hok Hnt.
  - cbn. repeat split; auto. intros p e r [].
  - cbn [flat_map] in *. rewrite dest_cmds_app in *. rewrite exec_all_app in *.
    apply all_ok_app in Hok as [Hok1 Hok2].
    inversion Hnd as [|? ? Hnin Hnd']; subst.
    set (cmds0 := dest_cmds (copy_steps chunker S (p0, (e0, r0)))) in *.
    set (st1 := exec_all fl st cmds0) in *.
    assert (Hnt1 : no_through (d_events st1)) by (eapply no_through_prefix; eauto).
    destruct (copy_effect fl S st p0 e0 r0 (Hl _ _ _ (or_introl eq_refl)) Ho Hok1 Hnt1) as [E1 O1].
    fold cmds0 in E1, O1. fold st1 in E1, O1.
    assert (Hl' : forall p e r, In (p, (e, r)) cl -> file_listed S p e) by (intros; eapply Hl; right; eauto).
    destruct (IH st1 Hnd' Hl' O1 Hok2 Hnt) as (I1 & I2 & I3).
    repeat split; auto.
    + intros p e r [Heq|Hin].
      * inversion Heq; subst. rewrite I2 by assumption. exact E1.
      * eapply I1; eauto.
    + intros p Hp. rewrite I2 by (intro; apply Hp; right; assumption).
      unfold st1. apply exec_all_frame. intros c Hc. rewrite (copy_cmds_paths S p0 e0 r0 c Hc).
      intro Heq. inversion Heq. apply Hp. left. assumption.
Qed.
End Copies.
