(* C06: the code's verdict (wrap the text, compile, search, last match wins) is the documented rule
   (whole-path match of each pattern's own AST); the shipped set gives the same verdict on every
   doer; the walk lists exactly the entries that survive together with all their ancestors. *)
From RJ Require Import Base.Prelude Model.Regex Model.RegexParse Model.Filters.
From RJ Require Import Proofs.RegexProofs Proofs.RegexParseProofs.

Local Open Scope char_scope.

(* ---------------------------------------------------------------------------------------- *)
Lemma own_ast_inv f sg r : own_ast f = Some (sg, r) ->
  exists pat, split_sign f = Some (sg, pat) /\ parse pat = Some r.
Proof.
  unfold own_ast. destruct (split_sign f) as [[sg' pat]|]; [|discriminate].
  destruct (parse pat) as [r'|] eqn:E; cbn [option_map]; [|discriminate].
  intros H; injection H as <- <-. exists pat. auto.
Qed.

Lemma own_asts_split fs : forall asts, map own_ast fs = map Some asts ->
  exists sp, all_some (map split_sign fs) = Some sp /\ map fst sp = map fst asts /\
             Forall2 (fun x a => parse (snd x) = Some (snd a)) sp asts.
Proof.
  induction fs as [|f fs IH]; intros [|[sg r] asts] H; cbn [map] in H; try discriminate.
  - exists []. repeat split; constructor.
  - injection H as H1 H2. destruct (IH _ H2) as (sp & Hs & Hk & Hp).
    destruct (own_ast_inv _ _ _ H1) as (pat & Hsp & Hpa).
    exists ((sg, pat) :: sp). cbn [map all_some]. rewrite Hsp, Hs. cbn [option_map map fst].
    repeat split; [congruence | constructor; auto].
Qed.

Lemma regex_set_wrapped sp asts :
  Forall2 (fun x a => parse (snd x) = Some (snd a)) sp asts ->
  regex_set (map (fun x : sign * str => wrap (snd x)) sp) = Some (map (fun a : sign * re => anchored (snd a)) asts).
Proof.
  unfold regex_set. induction 1 as [|x a sp asts Hxa _ IH]; cbn [map all_some]; [reflexivity|].
  rewrite (anchor_wrap _ _ Hxa), IH. reflexivity.
Qed.

Lemma last_match_spec asts p : forall st,
  last_match (map fst asts) (map (fun a : sign * re => anchored (snd a)) asts) p st =
  Ok (match last_matching asts p with Some x => x | None => st end).
Proof.
  induction asts as [|[sg r] tl IH]; intros st; cbn [map last_match last_matching fst snd]; [reflexivity|].
  rewrite IH. unfold anchored. rewrite search_anchored_is_fullmatch.
  destruct (last_matching tl p); [reflexivity|]. destruct (fullmatch r p); reflexivity.
Qed.

Theorem verdict_is_rule fs asts p :
  map own_ast fs = map Some asts -> model_verdict fs p = Ok (spec_verdict asts p).
Proof.
  intros H. destruct (own_asts_split _ _ H) as (sp & Hs & Hk & Hp).
  unfold model_verdict, boss_verdict, compile_filters, compile_filters_w. rewrite Hs.
  pose proof (regex_set_wrapped _ _ Hp) as HR. cbv zeta. rewrite HR. cbn [obind].
  unfold doer_verdict. cbn [fl_patterns fl_kinds]. rewrite HR, Hk.
  unfold apply_filters, spec_verdict. destruct p as [|c p]; [reflexivity|].
  rewrite last_match_spec. destruct (last_matching asts (c :: p)); [reflexivity|].
  destruct asts as [|[[|] r] tl]; reflexivity.
Qed.

(* ---------------------------------------------------------------------------------------- *)
(* the executable rule is the property text *)
Lemma fullmatch_false r p : fullmatch r p = false <-> ~ matches_whole r p.
Proof. rewrite <- fullmatch_correct. destruct (fullmatch r p); split; congruence. Qed.

Lemma last_matching_none asts p : last_matching asts p = None <-> Forall (no_match p) asts.
Proof.
  induction asts as [|[sg r] tl IH]; cbn [last_matching]; [split; auto; constructor|].
  destruct (last_matching tl p) eqn:E.
  - split; [discriminate|]. intros H; inversion H; subst. apply IH in H3. discriminate.
  - destruct (fullmatch r p) eqn:F.
    + split; [discriminate|]. intros H; inversion H; subst. apply fullmatch_correct in F. contradiction.
    + split; auto. intros _. constructor; [apply fullmatch_false; exact F | apply IH; reflexivity].
Qed.

Lemma last_matching_some asts p sg : last_matching asts p = Some sg <->
  exists pre r post, asts = pre ++ (sg, r) :: post /\ matches_whole r p /\ Forall (no_match p) post.
Proof.
  revert sg. induction asts as [|[s0 r0] tl IH]; intros sg; cbn [last_matching].
  - split; [discriminate|]. intros (pre & r & post & H & _). destruct pre; discriminate.
  - destruct (last_matching tl p) as [x|] eqn:E.
    + split.
      * intros H; injection H as ->. destruct (proj1 (IH sg) eq_refl) as (pre & r & post & -> & Hm & Hn).
        exists ((s0, r0) :: pre), r, post. auto.
      * intros (pre & r & post & H & Hm & Hn). destruct pre as [|y pre]; cbn [app] in H; injection H as H1 H2.
        -- subst tl. apply last_matching_none in Hn. congruence.
        -- assert (Some x = Some sg) as HH by (apply IH; exists pre, r, post; auto). exact HH.
    + apply last_matching_none in E. destruct (fullmatch r0 p) eqn:F.
      * split.
        -- intros H; injection H as ->. exists [], r0, tl. repeat split; auto. apply fullmatch_correct; exact F.
        -- intros (pre & r & post & H & Hm & Hn). destruct pre as [|y pre]; cbn [app] in H; injection H as H1 H2.
           ++ congruence.
           ++ subst tl. apply Forall_app in E as [_ E]. inversion E; subst. contradiction.
      * split; [discriminate|].
        intros (pre & r & post & H & Hm & Hn). destruct pre as [|y pre]; cbn [app] in H; injection H as H1 H2.
        -- subst. apply fullmatch_false in F. contradiction.
        -- subst tl. apply Forall_app in E as [_ E]. inversion E; subst. contradiction.
Qed.

Theorem rule_is_text asts p sg : p <> [] -> (spec_verdict asts p = sg <-> decides asts p sg).
Proof.
  intros Hp. unfold spec_verdict, decides. destruct p as [|c p]; [contradiction|].
  destruct (last_matching asts (c :: p)) as [x|] eqn:E.
  - split.
    + intros <-. left. apply last_matching_some. exact E.
    + intros [H|[H _]].
      * apply last_matching_some in H. congruence.
      * apply last_matching_none in H. congruence.
  - split.
    + intros <-. right. split; [apply last_matching_none; exact E | reflexivity].
    + intros [H|[_ H]].
      * apply last_matching_some in H. congruence.
      * symmetry; exact H.
Qed.

Corollary takes_part_iff asts p : takes_part asts p <-> spec_verdict asts p = Inc.
Proof.
  unfold takes_part. destruct p as [|c p].
  - split; [reflexivity | left; reflexivity].
  - rewrite (rule_is_text asts (c :: p) Inc) by discriminate. split; [intros [H|H]; [discriminate|exact H] | right; assumption].
Qed.

(* The defect F1 at the level of verdicts: on the pinned tree "-a|b" also excludes "ab" (and "xb", "ax"),
   which the documented rule includes. *)
Lemma old_wrap_refuted :
  let fs := [["-"; "a"; "|"; "b"]] in let p := ["a"; "b"] in
  old_verdict fs p = Ok Exc /\ model_verdict fs p = Ok Inc /\
  exists asts, map own_ast fs = map Some asts /\ spec_verdict asts p = Inc.
Proof.
  cbv zeta. split; [vm_compute; reflexivity|]. split; [vm_compute; reflexivity|].
  destruct (own_ast ["-"; "a"; "|"; "b"]) as [a|] eqn:E; [|vm_compute in E; discriminate].
  exists [a]. split; [cbn [map]; rewrite E; reflexivity|].
  vm_compute in E. injection E as <-. vm_compute. reflexivity.
Qed.

(* ---------------------------------------------------------------------------------------- *)
(* both sides *)
Lemma all_some_length {A} (l : list (option A)) r : all_some l = Some r -> length r = length l.
Proof.
  revert r. induction l as [|[a|] l IH]; cbn [all_some]; intros r H; try discriminate.
  - injection H as <-. reflexivity.
  - destruct (all_some l) as [r'|]; cbn [option_map] in H; [|discriminate]. injection H as <-.
    cbn [length]. f_equal. apply IH. reflexivity.
Qed.

Lemma last_match_total kinds : forall res p st, length kinds = length res -> exists v, last_match kinds res p st = Ok v.
Proof.
  induction kinds as [|k kinds IH]; intros [|r res] p st H; cbn [length] in H; try discriminate; cbn [last_match].
  - eauto.
  - apply IH. lia.
Qed.

Theorem shipped_set_works fs fl : compile_filters fs = Ok fl ->
  length (fl_kinds fl) = length (fl_patterns fl) /\
  forall p, exists v, doer_verdict fl p = Ok v /\ boss_verdict fs p = Ok v.
Proof.
  unfold boss_verdict. intros H. rewrite H. cbn [obind]. revert H. unfold compile_filters, compile_filters_w.
  destruct (all_some (map split_sign fs)) as [sp|] eqn:Hs; [|discriminate].
  cbv zeta. destruct (regex_set (map (fun x => wrap (snd x)) sp)) as [res|] eqn:HR; [|discriminate].
  intros H; injection H as <-. cbn [fl_kinds fl_patterns].
  split; [now rewrite !map_length|].
  intros p. unfold doer_verdict. cbn [fl_kinds fl_patterns]. rewrite HR.
  unfold apply_filters. destruct p as [|c p]; [eauto|].
  destruct (last_match_total (map fst sp) res (c :: p)
             (match map fst sp with Inc :: _ => Exc | Exc :: _ => Inc | [] => Inc end)) as (v & Hv).
  - unfold regex_set in HR. apply all_some_length in HR. rewrite !map_length in *. lia.
  - exists v. auto.
Qed.

(* ---------------------------------------------------------------------------------------- *)
(* the walk *)
Section TreeInd.
  Variable P : tree -> Prop.
  Hypothesis HF : P File.
  Hypothesis HL : P Link.
  Hypothesis HD : forall ch, Forall (fun x => P (snd x)) ch -> P (Dir ch).
  Fixpoint tree_ind2 (t : tree) : P t :=
    match t with
    | File => HF
    | Link => HL
    | Dir ch => HD ch ((fix go (l : list (str * tree)) : Forall (fun x => P (snd x)) l :=
                          match l with
                          | [] => Forall_nil _
                          | x :: l' => Forall_cons x (tree_ind2 (snd x)) (go l')
                          end) ch)
    end.
End TreeInd.

Lemma walk_cons inc pre nm c l :
  walk inc pre (Dir ((nm, c) :: l)) =
  (if inc (join pre nm) then join pre nm :: walk inc (join pre nm) c else []) ++ walk inc pre (Dir l).
Proof. reflexivity. Qed.
Lemma entries_cons pre anc nm c l :
  entries pre anc (Dir ((nm, c) :: l)) =
  (join pre nm, anc) :: entries (join pre nm) (join pre nm :: anc) c ++ entries pre anc (Dir l).
Proof. reflexivity. Qed.

Lemma entries_hidden inc t : forall pre anc, forallb inc anc = false ->
  filter (survives inc) (entries pre anc t) = [].
Proof.
  induction t as [| |ch IH] using tree_ind2; intros pre anc H; try reflexivity.
  induction IH as [|[nm c] l Hc _ IHl]; [reflexivity|].
  rewrite entries_cons. cbn [filter]. unfold survives at 1. cbn [fst snd]. rewrite H, andb_false_r.
  rewrite filter_app, IHl. cbn [snd] in Hc. rewrite Hc; [reflexivity|].
  cbn [forallb]. rewrite H. apply andb_false_r.
Qed.

Theorem walk_spec inc t : forall pre anc, forallb inc anc = true ->
  walk inc pre t = map fst (filter (survives inc) (entries pre anc t)).
Proof.
  induction t as [| |ch IH] using tree_ind2; intros pre anc H; try reflexivity.
  induction IH as [|[nm c] l Hc _ IHl]; [reflexivity|].
  rewrite walk_cons, entries_cons. cbn [filter]. unfold survives at 1. cbn [fst snd]. rewrite H, andb_true_r.
  rewrite filter_app. cbn [snd] in Hc.
  destruct (inc (join pre nm)) eqn:E.
  - cbn [map fst]. rewrite map_app, <- IHl. cbn [app]. f_equal. f_equal.
    apply Hc. cbn [forallb]. rewrite E, H. reflexivity.
  - rewrite map_app, <- IHl. rewrite entries_hidden; [reflexivity|]. cbn [forallb]. rewrite E. reflexivity.
Qed.

(* listed iff present and surviving with every ancestor; in particular nothing beneath an excluded folder *)
Corollary listed_iff inc t q :
  In q (walk inc [] t) <-> exists anc, In (q, anc) (entries [] [] t) /\ inc q = true /\ forallb inc anc = true.
Proof.
  rewrite (walk_spec inc t [] []) by reflexivity. rewrite in_map_iff. split.
  - intros ([q' anc] & Hq & Hin). cbn [fst] in Hq. subst q'. apply filter_In in Hin as [Hin Hs].
    unfold survives in Hs. cbn [fst snd] in Hs. apply andb_true_iff in Hs as [H1 H2]. eauto.
  - intros (anc & Hin & H1 & H2). exists (q, anc). split; [reflexivity|]. apply filter_In. split; [exact Hin|].
    unfold survives. cbn [fst snd]. rewrite H1, H2. reflexivity.
Qed.

Corollary hidden_beneath_excluded inc t q :
  In q (walk inc [] t) -> forall anc d, In (q, anc) (entries [] [] t) -> In d anc ->
  (forall anc', In (q, anc') (entries [] [] t) -> anc' = anc) -> inc d = true.
Proof.
  intros Hq anc d Hin Hd Huniq. apply listed_iff in Hq as (anc' & Hin' & _ & Hall).
  rewrite (Huniq _ Hin') in Hall. rewrite forallb_forall in Hall. auto.
Qed.

(* source and destination: the same shipped set, so an entry that exists on both sides below the same
   folders is listed on one side iff it is listed on the other *)
Corollary same_on_both_trees inc S D q anc :
  (forall a, In (q, a) (entries [] [] S) -> a = anc) -> (forall a, In (q, a) (entries [] [] D) -> a = anc) ->
  In (q, anc) (entries [] [] S) -> In (q, anc) (entries [] [] D) ->
  (In q (walk inc [] S) <-> In q (walk inc [] D)).
Proof.
  intros US UD HS HD. rewrite !listed_iff. split; intros (a & Hin & H1 & H2).
  - apply US in Hin; subst a. eauto.
  - apply UD in Hin; subst a. eauto.
Qed.
