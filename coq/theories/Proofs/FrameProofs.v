(* Lemmas about the frame codec and the sender / receiver automata (Model/Frame.v). *)
From Coq Require Import String.
From RJ Require Import Base.Prelude Model.Frame.
Local Open Scope N_scope.

(* ------------------------------------------------------------------ little-endian codec *)
Lemma le_bytes_length k n : length (le_bytes k n) = k.
Proof. revert n; induction k as [|k IH]; intros n; cbn [le_bytes length]; [reflexivity | now rewrite IH]. Qed.

Lemma N_of_ascii_lt c : N_of_ascii c < 256.
Proof. apply N_ascii_bounded. Qed.

Lemma le_value_le_bytes k n : n < 256 ^ N.of_nat k -> le_value (le_bytes k n) = n.
Proof.
  revert n; induction k as [|k IH]; intros n Hn.
  - cbn [le_bytes le_value]. change (256 ^ N.of_nat 0) with 1 in Hn. lia.
  - cbn [le_bytes le_value].
    rewrite N_ascii_embedding by (apply N.mod_lt; lia).
    rewrite IH.
    + pose proof (N.div_mod n 256 ltac:(lia)) as E. lia.
    + rewrite Nat2N.inj_succ, N.pow_succ_r' in Hn.
      apply N.div_lt_upper_bound; lia.
Qed.

Lemma le_bytes_le_value b : le_bytes (length b) (le_value b) = b.
Proof.
  induction b as [|c r IH]; cbn [length le_bytes le_value]; [reflexivity|].
  pose proof (N_of_ascii_lt c) as Hc.
  assert (E1 : (N_of_ascii c + 256 * le_value r) mod 256 = N_of_ascii c).
  { symmetry. apply N.mod_unique with (q := le_value r); lia. }
  assert (E2 : (N_of_ascii c + 256 * le_value r) / 256 = le_value r).
  { symmetry. apply N.div_unique with (r := N_of_ascii c); lia. }
  rewrite E1, E2, ascii_N_embedding, IH. reflexivity.
Qed.

Lemma le_bytes_inj k a b : a < 256 ^ N.of_nat k -> b < 256 ^ N.of_nat k -> le_bytes k a = le_bytes k b -> a = b.
Proof.
  intros Ha Hb E. rewrite <- (le_value_le_bytes k a Ha), <- (le_value_le_bytes k b Hb), E. reflexivity.
Qed.

Lemma pow_256_8 : 256 ^ N.of_nat 8 = u64_limit.
Proof. reflexivity. Qed.

(* ------------------------------------------------------------------ nonces *)
Lemma nonce_of_inj a b : a < u64_limit -> b < u64_limit -> nonce_of a = nonce_of b -> a = b.
Proof.
  intros Ha Hb E. unfold nonce_of in E. apply app_inv_tail in E.
  apply (le_bytes_inj 8); rewrite ?pow_256_8; assumption.
Qed.

Lemma nonces_distinct d i d' i' :
  i < idx_limit -> i' < idx_limit -> nonce d i = nonce d' i' -> d = d' /\ i = i'.
Proof.
  intros Hi Hi' E. unfold nonce in E. unfold idx_limit in *.
  apply nonce_of_inj in E; unfold u64_limit; destruct d, d'; cbn [lsb] in *; try lia; split; try reflexivity; lia.
Qed.

(* ------------------------------------------------------------------ small list facts *)
Lemma starts_with_app p w : starts_with p w = true -> w = p ++ skipn (length p) w.
Proof.
  revert w; induction p as [|a p IH]; intros w H; [reflexivity|].
  destruct w as [|b w]; cbn [starts_with] in H; [discriminate|].
  apply andb_true_iff in H as [H1 H2]. apply Ascii.eqb_eq in H1. subst b.
  cbn [length skipn app]. f_equal. now apply IH.
Qed.

Lemma starts_with_self_app p w : starts_with p (p ++ w) = true.
Proof.
  induction p as [|a p IH]; cbn [starts_with app]; [reflexivity|].
  rewrite Ascii.eqb_refl, IH. reflexivity.
Qed.

Lemma skipn_self_app {A} (p w : list A) : skipn (length p) (p ++ w) = w.
Proof. induction p as [|a p IH]; cbn [length skipn app]; [reflexivity | assumption]. Qed.

Lemma opt_cons_app {A} (o : option A) (l1 l2 : list A) : opt_cons o l1 ++ l2 = opt_cons o (l1 ++ l2).
Proof. destruct o; reflexivity. Qed.

Lemma NoDup_app_intro {A} (a b : list A) :
  NoDup a -> NoDup b -> (forall x, In x a -> ~ In x b) -> NoDup (a ++ b).
Proof.
  induction a as [|x a IH]; intros Ha Hb Hd; [assumption|].
  cbn [app]. inversion Ha as [|? ? Hx Ha']; subst. constructor.
  - intros Hin. apply in_app_or in Hin as [Hin|Hin]; [contradiction|]. apply (Hd x); [now left | assumption].
  - apply IH; try assumption. intros y Hy. apply Hd. now right.
Qed.

  (* a wire that begins with a complete, acceptable-length frame is that frame followed by the rest *)
  Lemma wire_is_frame w :
    (8 <= length w)%nat ->
    le_value (firstn 8 w) <= N.of_nat (length (skipn 8 w)) ->
    w = frame_of (firstn (N.to_nat (le_value (firstn 8 w))) (skipn 8 w)) ++ skipn (N.to_nat (le_value (firstn 8 w))) (skipn 8 w).
  Proof.
    intros H8 Hl. set (len := le_value (firstn 8 w)) in *. set (rest := skipn 8 w) in *.
    unfold frame_of, blen. rewrite firstn_length, Nat.min_l by lia. rewrite N2Nat.id.
    assert (Hh : length (firstn 8 w) = 8%nat) by (rewrite firstn_length; lia).
    unfold len. rewrite <- Hh at 1. rewrite le_bytes_le_value. rewrite <- app_assoc, firstn_skipn.
    unfold rest. symmetry. apply firstn_skipn.
  Qed.


(* ------------------------------------------------------------------ receiver: generic facts *)
Section Recv.
  Variable open : bytes -> bytes -> option bytes.
  Variable wf fin : bytes -> bool.
  Variable bump : bool.
  Variable d : dir.

  Notation recv_bytes := (recv_bytes open wf fin bump d).
  Notation recv_byte := (recv_byte open wf fin bump d).
  Notation finish_frame := (finish_frame open wf fin bump d).
  Notation recv_segments := (recv_segments open wf fin bump d).

  Lemma recv_bytes_app st a b :
    recv_bytes st (a ++ b) =
    (fst (recv_bytes (fst (recv_bytes st a)) b), snd (recv_bytes st a) ++ snd (recv_bytes (fst (recv_bytes st a)) b)).
  Proof.
    revert st; induction a as [|x a IH]; intros st.
    - cbn [app recv_bytes fst snd]. now destruct (recv_bytes st b).
    - cbn [app recv_bytes fst snd]. rewrite IH. cbn [fst snd]. rewrite opt_cons_app. reflexivity.
  Qed.

  Lemma recv_segments_concat st segs : recv_segments st segs = recv_bytes st (concat segs).
  Proof.
    revert st; induction segs as [|s r IH]; intros st; [reflexivity|].
    cbn [recv_segments concat]. rewrite recv_bytes_app, IH. reflexivity.
  Qed.

  (* a stopped receiver stays stopped and delivers nothing *)
  Lemma recv_bytes_stopped st w :
    (match r_st st with RRun _ => False | _ => True end) -> recv_bytes st w = (st, []).
  Proof.
    intros H. induction w as [|b w IH]; [reflexivity|].
    cbn [recv_bytes]. unfold Frame.recv_byte. destruct (r_st st); try contradiction; cbn [fst snd]; rewrite IH; reflexivity.
  Qed.

  Lemma recv_bytes_failed c why w : recv_bytes (mkR c (RFailed why)) w = (mkR c (RFailed why), []).
  Proof. apply recv_bytes_stopped. exact I. Qed.

  Lemma recv_bytes_finished c w : recv_bytes (mkR c RFinished) w = (mkR c RFinished, []).
  Proof. apply recv_bytes_stopped. exact I. Qed.

  (* reading the length header *)
  Lemma recv_len_phase ctr acc h :
    (length acc + length h < 8)%nat ->
    recv_bytes (mkR ctr (RRun (RLen acc))) h = (mkR ctr (RRun (RLen (rev h ++ acc))), []).
  Proof.
    revert acc; induction h as [|b h IH]; intros acc Hl; [reflexivity|].
    cbn [length] in Hl. cbn [recv_bytes]. unfold Frame.recv_byte. cbn [r_st r_ctr].
    assert (E : (length (b :: acc) <? 8)%nat = true) by (apply Nat.ltb_lt; cbn [length]; lia).
    rewrite E. cbn [fst snd opt_cons]. rewrite IH by (cbn [length]; lia).
    cbn [rev]. rewrite <- app_assoc. reflexivity.
  Qed.

  (* reading the ciphertext *)
  Lemma recv_body_phase ctr remaining acc h :
    N.of_nat (length h) < remaining ->
    recv_bytes (mkR ctr (RRun (RBody remaining acc))) h =
    (mkR ctr (RRun (RBody (remaining - N.of_nat (length h)) (rev h ++ acc))), []).
  Proof.
    revert remaining acc; induction h as [|b h IH]; intros remaining acc Hl.
    - cbn [length rev app recv_bytes]. replace (remaining - N.of_nat 0) with remaining by lia. reflexivity.
    - cbn [length] in Hl. cbn [recv_bytes]. unfold Frame.recv_byte. cbn [r_st r_ctr].
      assert (E : (remaining =? 1) = false) by (apply N.eqb_neq; lia).
      rewrite E. cbn [fst snd opt_cons]. rewrite IH by lia.
      cbn [rev length]. rewrite <- app_assoc. cbn [app].
      replace (remaining - 1 - N.of_nat (length h)) with (remaining - N.of_nat (S (length h))) by lia. reflexivity.
  Qed.

  Lemma recv_body_complete ctr remaining acc h :
    h <> [] -> N.of_nat (length h) = remaining ->
    recv_bytes (mkR ctr (RRun (RBody remaining acc))) h =
    (fst (finish_frame ctr (rev acc ++ h)), opt_cons (snd (finish_frame ctr (rev acc ++ h))) []).
  Proof.
    revert remaining acc; induction h as [|b h IH]; intros remaining acc Hne Hl; [contradiction|].
    cbn [length] in Hl. cbn [recv_bytes]. unfold Frame.recv_byte. cbn [r_st r_ctr].
    destruct h as [|b' h'].
    - cbn [length] in Hl. assert (E : (remaining =? 1) = true) by (apply N.eqb_eq; lia).
      rewrite E. cbn [recv_bytes fst snd rev]. reflexivity.
    - assert (E : (remaining =? 1) = false) by (apply N.eqb_neq; cbn [length] in Hl; lia).
      rewrite E. cbn [fst snd opt_cons]. rewrite IH; [| discriminate | cbn [length] in *; lia].
      cbn [rev]. rewrite <- app_assoc. reflexivity.
  Qed.

  Definition start (ctr : N) : rstate := mkR ctr (RRun (RLen [])).

  (* the 8 bytes of a header have arrived *)
  Lemma recv_header ctr h :
    length h = 8%nat ->
    recv_bytes (start ctr) h =
    if buf_size <? le_value h then (mkR ctr (RFailed FOversize), [])
    else if le_value h =? 0 then (fst (finish_frame ctr []), opt_cons (snd (finish_frame ctr [])) [])
    else (mkR ctr (RRun (RBody (le_value h) [])), []).
  Proof.
    intros Hl.
    destruct h as [|b0 h]; [discriminate Hl|]. destruct h as [|b1 h]; [discriminate Hl|].
    destruct h as [|b2 h]; [discriminate Hl|]. destruct h as [|b3 h]; [discriminate Hl|].
    destruct h as [|b4 h]; [discriminate Hl|]. destruct h as [|b5 h]; [discriminate Hl|].
    destruct h as [|b6 h]; [discriminate Hl|]. destruct h as [|b7 h]; [discriminate Hl|].
    destruct h; [|discriminate Hl].
    change [b0; b1; b2; b3; b4; b5; b6; b7] with ([b0; b1; b2; b3; b4; b5; b6] ++ [b7]).
    unfold start. rewrite recv_bytes_app, recv_len_phase by (cbn [length]; lia).
    cbn [fst snd rev app].
    cbn [recv_bytes]. unfold Frame.recv_byte. cbn [r_st r_ctr length Nat.ltb Nat.leb fst snd opt_cons rev app].
    destruct (buf_size <? _); [reflexivity|].
    destruct (_ =? 0); [|reflexivity].
    destruct (snd (finish_frame ctr [])); reflexivity.
  Qed.

  (* The parse view of the byte automaton: what the receiver does with whatever is on the wire. *)
  Lemma recv_head ctr w :
    recv_bytes (start ctr) w =
    if (length w <? 8)%nat then (mkR ctr (RRun (RLen (rev w))), [])
    else let len := le_value (firstn 8 w) in
         let rest := skipn 8 w in
         if buf_size <? len then (mkR ctr (RFailed FOversize), [])
         else if N.of_nat (length rest) <? len then
                (mkR ctr (RRun (RBody (len - N.of_nat (length rest)) (rev rest))), [])
         else let c := firstn (N.to_nat len) rest in
              let r := finish_frame ctr c in
              let r' := recv_bytes (fst r) (skipn (N.to_nat len) rest) in
              (fst r', opt_cons (snd r) (snd r')).
  Proof.
    destruct (length w <? 8)%nat eqn:E8.
    - apply Nat.ltb_lt in E8. unfold start. rewrite recv_len_phase by (cbn [length]; lia).
      rewrite app_nil_r. reflexivity.
    - apply Nat.ltb_ge in E8. cbv zeta.
      rewrite <- (firstn_skipn 8 w) at 1.
      assert (Hh : length (firstn 8 w) = 8%nat) by (rewrite firstn_length; lia).
      rewrite recv_bytes_app, (recv_header ctr _ Hh).
      set (len := le_value (firstn 8 w)). set (rest := skipn 8 w).
      destruct (buf_size <? len) eqn:Eo.
      + cbn [fst snd]. rewrite recv_bytes_failed. reflexivity.
      + destruct (len =? 0) eqn:E0.
        * apply N.eqb_eq in E0. rewrite E0.
          assert (El : (N.of_nat (length rest) <? 0) = false) by (apply N.ltb_ge; lia).
          rewrite El. change (N.to_nat 0) with 0%nat. cbn [firstn skipn fst snd].
          destruct (snd (finish_frame ctr [])); reflexivity.
        * apply N.eqb_neq in E0. cbn [fst snd app].
          destruct (N.of_nat (length rest) <? len) eqn:El.
          -- apply N.ltb_lt in El. rewrite recv_body_phase by assumption. rewrite app_nil_r. reflexivity.
          -- apply N.ltb_ge in El.
             pose proof (recv_bytes_app (mkR ctr (RRun (RBody len []))) (firstn (N.to_nat len) rest) (skipn (N.to_nat len) rest)) as A.
             rewrite firstn_skipn in A. rewrite A. clear A.
             assert (Hc : length (firstn (N.to_nat len) rest) = N.to_nat len) by (rewrite firstn_length; lia).
             rewrite recv_body_complete; [| intros Hnil; rewrite Hnil in Hc; cbn [length] in Hc; lia | rewrite Hc; lia ].
             cbn [rev app fst snd]. rewrite opt_cons_app. reflexivity.
  Qed.

  (* one whole frame from the start state *)
  Lemma recv_frame ctr c w :
    blen c <= buf_size ->
    recv_bytes (start ctr) (frame_of c ++ w) =
    (fst (recv_bytes (fst (finish_frame ctr c)) w), opt_cons (snd (finish_frame ctr c)) (snd (recv_bytes (fst (finish_frame ctr c)) w))).
  Proof.
    intros Hb. rewrite recv_head.
    assert (Hl : length (le_bytes 8 (blen c)) = 8%nat) by apply le_bytes_length.
    assert (E8 : (length (frame_of c ++ w) <? 8)%nat = false).
    { apply Nat.ltb_ge. unfold frame_of. rewrite !app_length, Hl. lia. }
    rewrite E8. cbv zeta.
    assert (Ef : firstn 8 (frame_of c ++ w) = le_bytes 8 (blen c)).
    { unfold frame_of. rewrite <- app_assoc. rewrite <- Hl at 1. rewrite firstn_app, Nat.sub_diag, firstn_all. cbn [firstn]. apply app_nil_r. }
    assert (Es : skipn 8 (frame_of c ++ w) = c ++ w).
    { unfold frame_of. rewrite <- app_assoc. rewrite <- Hl at 1. apply skipn_self_app. }
    rewrite Ef, Es.
    assert (Ev : le_value (le_bytes 8 (blen c)) = blen c).
    { apply le_value_le_bytes. rewrite pow_256_8. unfold buf_size, u64_limit in *. lia. }
    rewrite Ev.
    assert (Eo : (buf_size <? blen c) = false) by (apply N.ltb_ge; assumption). rewrite Eo.
    assert (El : (N.of_nat (length (c ++ w)) <? blen c) = false).
    { apply N.ltb_ge. unfold blen. rewrite app_length. lia. }
    rewrite El. unfold blen. rewrite Nat2N.id.
    rewrite firstn_app, Nat.sub_diag, firstn_all. cbn [firstn]. rewrite app_nil_r, skipn_self_app. reflexivity.
  Qed.

  (* if nothing opens under the nonce the receiver is waiting at, nothing is ever delivered *)
  Lemma no_open_no_delivery ctr :
    (forall c, open (nonce_of ctr) c = None) ->
    forall w st, (r_ctr st = ctr \/ match r_st st with RRun _ => False | _ => True end) ->
    snd (recv_bytes st w) = [].
  Proof.
    intros Hno. induction w as [|b w IH]; intros st Hst; [reflexivity|].
    cbn [recv_bytes snd].
    assert (Hff : r_ctr st = ctr -> forall c, snd (finish_frame (r_ctr st) c) = None /\
                            match r_st (fst (finish_frame (r_ctr st) c)) with RRun _ => False | _ => True end).
    { intros E c. unfold Frame.finish_frame.
      destruct (negb _); [cbn; auto|]. destruct (u64_limit <=? _); [cbn; auto|].
      rewrite E, Hno. cbn; auto. }
    destruct Hst as [Hst|Hst].
    - specialize (Hff Hst). unfold Frame.recv_byte. destruct (r_st st) as [[acc|remaining acc]| |] eqn:Est.
      + destruct (length (b :: acc) <? 8)%nat; [cbn [fst snd opt_cons]; apply IH; left; exact Hst|].
        destruct (buf_size <? _); [cbn [fst snd opt_cons]; apply IH; right; exact I|].
        destruct (_ =? 0).
        * destruct (Hff []) as [H1 H2]. rewrite H1. cbn [opt_cons]. apply IH. right. exact H2.
        * cbn [fst snd opt_cons]. apply IH. left; exact Hst.
      + destruct (remaining =? 1).
        * destruct (Hff (rev (b :: acc))) as [H1 H2]. rewrite H1. cbn [opt_cons]. apply IH. right. exact H2.
        * cbn [fst snd opt_cons]. apply IH. left; exact Hst.
      + cbn [fst snd opt_cons]. apply IH. right. rewrite Est. exact I.
      + cbn [fst snd opt_cons]. apply IH. right. rewrite Est. exact I.
    - unfold Frame.recv_byte. destruct (r_st st) eqn:Est; [contradiction| |]; cbn [fst snd opt_cons]; apply IH; right; rewrite Est; exact I.
  Qed.
End Recv.

(* ------------------------------------------------------------------ sender facts *)
Section Sender.
  Variable seal : bytes -> bytes -> bytes.

  (* what a run of the repaired sender that ended well implies *)
  Fixpoint sender_ok (ctr : N) (ms : list bytes) : Prop :=
    match ms with
    | [] => True
    | m :: r => ctr + 2 < u64_limit /\ blen (seal (nonce_of ctr) m) <= buf_size /\ sender_ok (ctr + 2) r
    end.

  Lemma send_all_ok_inv d ms : forall ctr ctr' fs,
    send_all seal true d ctr ms = Ok (ctr', fs) ->
    sender_ok ctr ms /\ fs = map frame_of (seal_cts seal true ctr ms) /\ ctr' = ctr + 2 * N.of_nat (length ms).
  Proof.
    induction ms as [|m r IH]; intros ctr ctr' fs H.
    - cbn [send_all] in H. inversion H; subst. cbn. repeat split; lia.
    - cbn [send_all] in H. unfold send_step in H.
      destruct (buf_size - 8 <? blen m); [discriminate|].
      destruct (negb _); [discriminate|].
      destruct (u64_limit <=? ctr + 2) eqn:Eo; [discriminate|].
      destruct (buf_size - 8 <? blen (seal (nonce_of ctr) m)) eqn:Es; [discriminate|].
      cbn [obind fst snd next_ctr] in H.
      destruct (send_all seal true d (ctr + 2) r) as [[c2 f2]| |] eqn:Er; cbn [obind fst snd] in H; try discriminate.
      inversion H; subst. destruct (IH _ _ _ Er) as (A & B & C).
      apply N.leb_gt in Eo. apply N.ltb_ge in Es.
      cbn [sender_ok seal_cts map length next_ctr]. unfold buf_size in *.
      split; [split; [lia | split; [lia | assumption]] | split; [now rewrite B | lia]].
  Qed.

  Lemma sender_ok_nth ms : forall ctr k m, sender_ok ctr ms -> nth_error ms k = Some m ->
    ctr + 2 * N.of_nat k + 2 < u64_limit /\ blen (seal (nonce_of (ctr + 2 * N.of_nat k)) m) <= buf_size.
  Proof.
    induction ms as [|m0 r IH]; intros ctr k m Hok Hn; [destruct k; discriminate|].
    destruct Hok as (A & B & C). destruct k as [|k].
    - cbn in Hn. inversion Hn; subst. replace (ctr + 2 * N.of_nat 0) with ctr by lia. split; assumption.
    - cbn [nth_error] in Hn. destruct (IH _ _ _ C Hn) as [P Q].
      replace (ctr + 2 * N.of_nat (S k)) with (ctr + 2 + 2 * N.of_nat k) by lia. split; assumption.
  Qed.

  Lemma sender_ok_end ms : forall ctr, sender_ok ctr ms -> ctr < u64_limit -> ctr + 2 * N.of_nat (length ms) < u64_limit.
  Proof.
    induction ms as [|m0 r IH]; intros ctr Hok Hc; [cbn [length]; lia|].
    destruct Hok as (A & B & C). specialize (IH _ C ltac:(lia)). cbn [length]. lia.
  Qed.

  Lemma in_seal_log ms : forall ctr n m c, In (n, m, c) (seal_log seal true ctr ms) ->
    exists k, nth_error ms k = Some m /\ n = nonce_of (ctr + 2 * N.of_nat k) /\ c = seal n m.
  Proof.
    induction ms as [|m0 r IH]; intros ctr n m c H; [contradiction|].
    cbn [seal_log next_ctr] in H. destruct H as [H|H].
    - inversion H; subst. exists 0%nat. replace (ctr + 2 * N.of_nat 0) with ctr by lia. auto.
    - destruct (IH _ _ _ _ H) as (k & A & B & C). exists (S k). cbn [nth_error].
      replace (ctr + 2 * N.of_nat (S k)) with (ctr + 2 + 2 * N.of_nat k) by lia. auto.
  Qed.

  Lemma seal_log_in ms : forall ctr k m, nth_error ms k = Some m ->
    In (nonce_of (ctr + 2 * N.of_nat k), m, seal (nonce_of (ctr + 2 * N.of_nat k)) m) (seal_log seal true ctr ms).
  Proof.
    induction ms as [|m0 r IH]; intros ctr k m H; [destruct k; discriminate|].
    destruct k as [|k].
    - cbn in H. inversion H; subst. replace (ctr + 2 * N.of_nat 0) with ctr by lia. left. reflexivity.
    - cbn [nth_error] in H. right. cbn [next_ctr].
      replace (ctr + 2 * N.of_nat (S k)) with (ctr + 2 + 2 * N.of_nat k) by lia. now apply IH.
  Qed.

  Definition log_nonces (l : list (bytes * bytes * bytes)) : list bytes := map (fun e => fst (fst e)) l.

  Lemma seal_log_nodup ms : forall ctr, sender_ok ctr ms -> ctr < u64_limit ->
    NoDup (log_nonces (seal_log seal true ctr ms)).
  Proof.
    induction ms as [|m0 r IH]; intros ctr Hok Hc; [constructor|].
    pose proof Hok as (A & B & C). cbn [seal_log log_nonces map fst next_ctr]. constructor.
    - intros Hin. apply in_map_iff in Hin as ([[n m] c] & E & Hin). cbn [fst] in E. subst n.
      apply in_seal_log in Hin as (k & Hk & En & _).
      destruct (sender_ok_nth _ _ _ _ C Hk) as [P _].
      apply nonce_of_inj in En; lia.
    - apply IH; [assumption | lia].
  Qed.
End Sender.


(* ------------------------------------------------------------------ leading frames of a manipulated stream *)
Lemma lead_after_prefix fs : forall j x,
  (j <= length fs)%nat ->
  (forall f, nth_error fs j = Some f -> starts_with f x = false) ->
  lead fs (concat (firstn j fs) ++ x) = j /\ after_lead fs (concat (firstn j fs) ++ x) = x.
Proof.
  induction fs as [|f r IH]; intros j x Hj Hx.
  - cbn [length] in Hj. assert (j = 0)%nat by lia. subst j. split; reflexivity.
  - destruct j as [|j].
    + cbn [firstn concat app lead after_lead]. rewrite (Hx f eq_refl). split; reflexivity.
    + cbn [firstn concat lead after_lead]. rewrite <- app_assoc, starts_with_self_app, skipn_self_app.
      cbn [length] in Hj. destruct (IH j x ltac:(lia) Hx) as [A B]. rewrite A, B. split; reflexivity.
Qed.

Lemma upto_final_nofin fin l : existsb fin l = false -> upto_final fin l = l.
Proof.
  induction l as [|m r IH]; intros H; [reflexivity|].
  cbn [existsb] in H. apply orb_false_iff in H as [H1 H2]. cbn [upto_final]. rewrite H1, IH by assumption. reflexivity.
Qed.

Lemma decidable_head_frame c rest : blen c <= buf_size -> decidable_head (frame_of c ++ rest) = true.
Proof.
  intros Hb. unfold decidable_head.
  assert (Hl : length (le_bytes 8 (blen c)) = 8%nat) by apply le_bytes_length.
  assert (E8 : (8 <=? length (frame_of c ++ rest))%nat = true).
  { apply Nat.leb_le. unfold frame_of. rewrite !app_length, Hl. lia. }
  rewrite E8. cbn [andb].
  assert (Ef : firstn 8 (frame_of c ++ rest) = le_bytes 8 (blen c)).
  { unfold frame_of. rewrite <- app_assoc. rewrite <- Hl at 1. rewrite firstn_app, Nat.sub_diag, firstn_all. cbn [firstn]. apply app_nil_r. }
  rewrite Ef, le_value_le_bytes by (rewrite pow_256_8; unfold buf_size, u64_limit in *; lia).
  assert (Hlen : length (frame_of c ++ rest) = (8 + length c + length rest)%nat).
  { unfold frame_of. rewrite !app_length, Hl. lia. }
  apply orb_true_iff. right. apply N.leb_le. rewrite Hlen. unfold blen. lia.
Qed.

Lemma seal_cts_nth seal ms : forall ctr j c, nth_error (seal_cts seal true ctr ms) j = Some c ->
  exists m, nth_error ms j = Some m /\ c = seal (nonce_of (ctr + 2 * N.of_nat j)) m.
Proof.
  induction ms as [|m0 r IH]; intros ctr j c H; [destruct j; discriminate|].
  destruct j as [|j].
  - cbn in H. inversion H; subst. exists m0. replace (ctr + 2 * N.of_nat 0) with ctr by lia. auto.
  - cbn [seal_cts nth_error next_ctr] in H. destruct (IH _ _ _ H) as (m & A & B). exists m. cbn [nth_error].
    replace (ctr + 2 * N.of_nat (S j)) with (ctr + 2 + 2 * N.of_nat j) by lia. auto.
Qed.

Lemma lsb_small x : lsb x < u64_limit.
Proof. destruct x; reflexivity. Qed.

Lemma parity_step x k : (lsb x + 2 * k) mod 2 = lsb x.
Proof.
  symmetry. apply N.mod_unique with (q := k); [destruct x; cbn [lsb]; lia | lia].
Qed.

Lemma other_dir_nonce d k k' :
  lsb d + 2 * k < u64_limit -> lsb (other d) + 2 * k' < u64_limit ->
  nonce_of (lsb d + 2 * k) = nonce_of (lsb (other d) + 2 * k') -> False.
Proof.
  intros A B E. apply nonce_of_inj in E; try assumption. destruct d; cbn [lsb other] in E; lia.
Qed.

(* ------------------------------------------------------------------ the session: repaired code (bump = true) *)
Section Session.
  Variable seal : bytes -> bytes -> bytes.
  Variable open : bytes -> bytes -> option bytes.
  Variable wf fin : bytes -> bool.
  Variable d : dir.

  Notation recv_bytes := (recv_bytes open wf fin true d).
  Notation finish_frame := (finish_frame open wf fin true d).

  (* the receiver stands at [ctr]; [ms] are the messages the honest sender seals from [ctr] on *)
  Fixpoint sound_from (ctr : N) (ms : list bytes) : Prop :=
    ctr mod 2 = lsb d /\
    match ms with
    | [] => forall c, open (nonce_of ctr) c = None
    | m0 :: r =>
        ctr + 2 < u64_limit /\ wf m0 = true /\ blen (seal (nonce_of ctr) m0) <= buf_size /\
        open (nonce_of ctr) (seal (nonce_of ctr) m0) = Some m0 /\
        (forall c m, open (nonce_of ctr) c = Some m -> c = seal (nonce_of ctr) m0) /\
        sound_from (ctr + 2) r
    end.

  Lemma sound_parity ctr ms : sound_from ctr ms -> ctr mod 2 = lsb d.
  Proof. destruct ms; intros [H _]; exact H. Qed.

  Lemma finish_frame_none ctr c : open (nonce_of ctr) c = None ->
    exists c' why, finish_frame ctr c = (mkR c' (RFailed why), None).
  Proof.
    intros H. unfold Frame.finish_frame. destruct (negb _); [eauto|]. destruct (u64_limit <=? _); [eauto|].
    rewrite H. eauto.
  Qed.

  Lemma finish_frame_honest ctr m c : ctr mod 2 = lsb d -> ctr + 2 < u64_limit ->
    open (nonce_of ctr) c = Some m -> wf m = true ->
    finish_frame ctr c = (mkR (ctr + 2) (if fin m then RFinished else RRun (RLen [])), Some m).
  Proof.
    intros Hp Ho Hopen Hwf. unfold Frame.finish_frame.
    assert (E1 : negb (ctr mod 2 =? lsb d) = false) by (rewrite Hp, N.eqb_refl; reflexivity).
    assert (E2 : (u64_limit <=? ctr + 2) = false) by (apply N.leb_gt; assumption).
    rewrite E1, E2, Hopen, Hwf. reflexivity.
  Qed.

  Lemma decidable_head_short w : (length w < 8)%nat -> decidable_head w = false.
  Proof. intros H. unfold decidable_head. assert (E : (8 <=? length w)%nat = false) by (apply Nat.leb_gt; lia). rewrite E. reflexivity. Qed.

  (* nothing on the wire opens: nothing is delivered, and the receiver fails as soon as it can decide *)
  Lemma recv_reject ctr w :
    (forall c rest, blen c <= buf_size -> w = frame_of c ++ rest -> open (nonce_of ctr) c = None) ->
    snd (recv_bytes (start ctr) w) = [] /\
    (if decidable_head w then is_failed (fst (recv_bytes (start ctr) w)) = true
     else is_waiting (fst (recv_bytes (start ctr) w)) = true).
  Proof.
    intros H. rewrite recv_head.
    destruct (length w <? 8)%nat eqn:E8.
    - apply Nat.ltb_lt in E8. rewrite decidable_head_short by assumption. split; reflexivity.
    - apply Nat.ltb_ge in E8. cbv zeta. unfold decidable_head.
      assert (E8' : (8 <=? length w)%nat = true) by (apply Nat.leb_le; assumption). rewrite E8'. cbn [andb].
      set (len := le_value (firstn 8 w)). set (rest := skipn 8 w).
      assert (Hr : length rest = (length w - 8)%nat) by (unfold rest; apply skipn_length).
      destruct (buf_size <? len) eqn:Eo; [split; reflexivity|]. cbn [orb].
      rewrite <- Hr.
      destruct (N.of_nat (length rest) <? len) eqn:El.
      + assert (E : (len <=? N.of_nat (length rest)) = false) by (apply N.leb_gt; apply N.ltb_lt; assumption).
        rewrite E. split; reflexivity.
      + apply N.ltb_ge in El. assert (E : (len <=? N.of_nat (length rest)) = true) by (apply N.leb_le; assumption).
        rewrite E. apply N.ltb_ge in Eo.
        pose proof (wire_is_frame w E8 El) as Hw. fold len rest in Hw.
        assert (Hb : blen (firstn (N.to_nat len) rest) <= buf_size).
        { unfold blen. rewrite firstn_length. lia. }
        destruct (finish_frame_none ctr _ (H _ _ Hb Hw)) as (c' & why & Ef).
        rewrite Ef. cbn [fst snd opt_cons]. rewrite recv_bytes_failed. split; reflexivity.
  Qed.

  Lemma app_eq_length_inv {A} (a1 a2 b1 b2 : list A) :
    length a1 = length a2 -> a1 ++ b1 = a2 ++ b2 -> a1 = a2 /\ b1 = b2.
  Proof.
    revert a2; induction a1 as [|x a1 IH]; intros [|y a2] Hl E; try discriminate; [auto|].
    cbn [app] in E. inversion E; subst. cbn [length] in Hl. destruct (IH a2 ltac:(lia) H1) as [P Q]. subst. auto.
  Qed.

  Lemma frame_of_prefix_inj c1 c2 r1 r2 :
    blen c1 <= buf_size -> blen c2 <= buf_size -> frame_of c1 ++ r1 = frame_of c2 ++ r2 -> c1 = c2 /\ r1 = r2.
  Proof.
    intros H1 H2 E. unfold frame_of in E. rewrite <- !app_assoc in E.
    apply app_eq_length_inv in E as [Eh Et]; [|rewrite !le_bytes_length; reflexivity].
    apply le_bytes_inj in Eh; [| rewrite pow_256_8; unfold buf_size, u64_limit in *; lia ..].
    apply app_eq_length_inv in Et; [assumption|]. unfold blen in Eh. lia.
  Qed.

  Definition frames_from (ctr : N) (ms : list bytes) : list bytes := map frame_of (seal_cts seal true ctr ms).

  (* The refinement: the receiver delivers exactly the leading honest frames, and then stops. *)
  Lemma recv_spec ms : forall ctr w, sound_from ctr ms ->
    snd (recv_bytes (start ctr) w) = upto_final fin (firstn (lead (frames_from ctr ms) w) ms) /\
    (if existsb fin (firstn (lead (frames_from ctr ms) w) ms)
     then r_st (fst (recv_bytes (start ctr) w)) = RFinished
     else if decidable_head (after_lead (frames_from ctr ms) w)
          then is_failed (fst (recv_bytes (start ctr) w)) = true
          else is_waiting (fst (recv_bytes (start ctr) w)) = true).
  Proof.
    induction ms as [|m0 r IH]; intros ctr w Hs.
    - destruct Hs as [Hp Hno]. cbn [frames_from seal_cts map lead after_lead firstn upto_final existsb].
      apply recv_reject. intros c rest _ _. apply Hno.
    - destruct Hs as (Hp & Ho & Hwf & Hsz & Hopen & Huniq & Hs').
      cbn [frames_from seal_cts map lead after_lead next_ctr].
      set (c0 := seal (nonce_of ctr) m0) in *.
      destruct (starts_with (frame_of c0) w) eqn:Esw.
      + apply starts_with_app in Esw. set (w' := skipn (length (frame_of c0)) w) in *.
        assert (Er : recv_bytes (start ctr) w = recv_bytes (start ctr) (frame_of c0 ++ w')) by (rewrite <- Esw; reflexivity).
        rewrite Er. clear Er. rewrite (recv_frame open wf fin true d ctr c0 w' Hsz).
        rewrite (finish_frame_honest ctr m0 c0 Hp Ho Hopen Hwf). cbn [fst snd opt_cons firstn upto_final existsb].
        destruct (fin m0) eqn:Ef.
        * rewrite recv_bytes_finished. cbn [fst snd orb]. split; reflexivity.
        * cbn [orb]. destruct (IH (ctr + 2) w' Hs') as [A B]. fold (start (ctr + 2)).
          unfold frames_from in A, B. rewrite A. split; [reflexivity | exact B].
      + cbn [firstn upto_final existsb].
        apply recv_reject. intros c rest Hb Hw.
        destruct (open (nonce_of ctr) c) as [m|] eqn:Eo; [|reflexivity].
        apply Huniq in Eo. subst c. rewrite Hw, starts_with_self_app in Esw. discriminate.
  Qed.

  (* ---------------------------------------------------------------- from the AEAD premises to [sound_from] *)
  Variable sent_d sent_o : list bytes.      (* what this direction's / the other direction's honest sender sealed *)
  Let log := seal_log seal true (lsb d) sent_d ++ seal_log seal true (lsb (other d)) sent_o.
  Hypothesis H1 : forall n m c, In (n, m, c) log -> open n c = Some m.
  Hypothesis H2 : forall n m c, open n c = Some m -> In (n, m, c) log.
  Hypothesis Hok_d : sender_ok seal (lsb d) sent_d.
  Hypothesis Hok_o : sender_ok seal (lsb (other d)) sent_o.
  Hypothesis Hwf : Forall (fun m => wf m = true) sent_d.

  Lemma opens_only_logged ctr k c m :
    ctr = lsb d + 2 * N.of_nat k -> ctr < u64_limit ->
    open (nonce_of ctr) c = Some m -> nth_error sent_d k = Some m /\ c = seal (nonce_of ctr) m.
  Proof.
    intros Ec Hc Ho. apply H2 in Ho. unfold log in Ho. apply in_app_or in Ho as [Hin|Hin].
    - apply in_seal_log in Hin as (k' & Hk' & En & Es).
      destruct (sender_ok_nth seal _ _ _ _ Hok_d Hk') as [P _].
      rewrite Ec in En. apply nonce_of_inj in En; [| lia | lia].
      assert (k' = k) by lia. subst k'. split; [assumption|]. exact Es.
    - exfalso. apply in_seal_log in Hin as (k' & Hk' & En & _).
      destruct (sender_ok_nth seal _ _ _ _ Hok_o Hk') as [P _].
      rewrite Ec in En. eapply other_dir_nonce; [| | exact En]; lia.
  Qed.

  Lemma sound_from_suffix ms : forall pre, sent_d = pre ++ ms ->
    sound_from (lsb d + 2 * N.of_nat (length pre)) ms.
  Proof.
    induction ms as [|m0 r IH]; intros pre E.
    - cbn [sound_from]. split; [apply parity_step|]. intros c.
      destruct (open _ c) as [m|] eqn:Eo; [|reflexivity]. exfalso.
      rewrite app_nil_r in E. subst pre.
      pose proof (sender_ok_end seal _ _ Hok_d (lsb_small d)) as Hend.
      destruct (opens_only_logged _ (length sent_d) c m eq_refl Hend Eo) as [Hn _].
      assert (Hnone : nth_error sent_d (length sent_d) = None) by (apply nth_error_None; lia).
      rewrite Hnone in Hn. discriminate.
    - assert (Hk : nth_error sent_d (length pre) = Some m0).
      { rewrite E, nth_error_app2, Nat.sub_diag by lia. reflexivity. }
      destruct (sender_ok_nth seal _ _ _ _ Hok_d Hk) as [P Q].
      set (ctr := lsb d + 2 * N.of_nat (length pre)) in *.
      cbn [sound_from]. split; [apply parity_step|].
      split; [lia|]. split.
      { rewrite Forall_forall in Hwf. apply Hwf. eapply nth_error_In; exact Hk. }
      split; [exact Q|]. split.
      { apply H1. unfold log. apply in_or_app. left. apply seal_log_in. exact Hk. }
      split.
      { intros c m Ho. destruct (opens_only_logged ctr (length pre) c m eq_refl ltac:(lia) Ho) as [Hn Hc].
        rewrite Hk in Hn. inversion Hn as [Em]. exact Hc. }
      replace (ctr + 2) with (lsb d + 2 * N.of_nat (length (pre ++ [m0]))) by (rewrite app_length; cbn [length]; lia).
      apply IH. rewrite <- app_assoc. exact E.
  Qed.

  Lemma sound_from_session : sound_from (lsb d) sent_d.
  Proof.
    pose proof (sound_from_suffix sent_d [] eq_refl) as H. cbn [length] in H.
    replace (lsb d + 2 * N.of_nat 0) with (lsb d) in H by lia. exact H.
  Qed.

  Definition honest_frames : list bytes := frames_from (lsb d) sent_d.

  Theorem recv_prefix : forall w,
    snd (recv_bytes (r_init d) w) = upto_final fin (firstn (lead honest_frames w) sent_d).
  Proof. intros w. apply (recv_spec sent_d (lsb d) w sound_from_session). Qed.

  Theorem recv_status : forall w,
    if existsb fin (firstn (lead honest_frames w) sent_d)
    then r_st (fst (recv_bytes (r_init d) w)) = RFinished
    else if decidable_head (after_lead honest_frames w)
         then is_failed (fst (recv_bytes (r_init d) w)) = true
         else is_waiting (fst (recv_bytes (r_init d) w)) = true.
  Proof. intros w. apply (recv_spec sent_d (lsb d) w sound_from_session). Qed.

  (* Every manipulation at once: whatever complete frame stands where the j-th honest frame should
     be (bit-flipped, re-sealed without the key, an earlier or later frame of this direction, a frame of
     the other direction, garbage ...), the first j messages are delivered, nothing else, and the
     receiver has failed. *)
  Theorem recv_deviating_frame : forall j c' rest,
    (j <= length sent_d)%nat -> existsb fin (firstn j sent_d) = false ->
    blen c' <= buf_size -> nth_error (seal_cts seal true (lsb d) sent_d) j <> Some c' ->
    let w := concat (firstn j honest_frames) ++ frame_of c' ++ rest in
    snd (recv_bytes (r_init d) w) = firstn j sent_d /\ is_failed (fst (recv_bytes (r_init d) w)) = true.
  Proof.
    intros j c' rest Hj Hnf Hb Hne w.
    assert (Hlen : length honest_frames = length sent_d).
    { unfold honest_frames, frames_from. rewrite map_length. clear. generalize (lsb d).
      induction sent_d as [|m r IH]; intros c; cbn [seal_cts length]; [reflexivity | now rewrite IH]. }
    assert (Hx : forall f, nth_error honest_frames j = Some f -> starts_with f (frame_of c' ++ rest) = false).
    { intros f Hf. destruct (starts_with f (frame_of c' ++ rest)) eqn:Esw; [exfalso | reflexivity].
      unfold honest_frames, frames_from in Hf. rewrite nth_error_map in Hf.
      destruct (nth_error (seal_cts seal true (lsb d) sent_d) j) as [cj|] eqn:Ecj; [|discriminate].
      cbn [option_map] in Hf. inversion Hf; subst f.
      destruct (seal_cts_nth _ _ _ _ _ Ecj) as (m & Hm & Ec).
      destruct (sender_ok_nth seal _ _ _ _ Hok_d Hm) as [_ Q]. rewrite <- Ec in Q.
      apply starts_with_app in Esw. apply frame_of_prefix_inj in Esw as [E _]; try assumption.
      apply Hne. now rewrite E. }
    destruct (lead_after_prefix honest_frames j (frame_of c' ++ rest) ltac:(lia) Hx) as [A B].
    pose proof (recv_prefix w) as P. pose proof (recv_status w) as S.
    unfold w in P, S. rewrite A in P, S. rewrite B in S. rewrite Hnf in S.
    rewrite decidable_head_frame in S by assumption.
    rewrite upto_final_nofin in P by assumption. split; assumption.
  Qed.

  (* a length field beyond the buffer: the receiving thread panics, whatever follows *)
  Theorem recv_oversize_header : forall j h rest,
    (j <= length sent_d)%nat -> existsb fin (firstn j sent_d) = false ->
    length h = 8%nat -> buf_size < le_value h ->
    let w := concat (firstn j honest_frames) ++ h ++ rest in
    snd (recv_bytes (r_init d) w) = firstn j sent_d /\ is_failed (fst (recv_bytes (r_init d) w)) = true.
  Proof.
    intros j h rest Hj Hnf Hh Hov w.
    assert (Hlen : length honest_frames = length sent_d).
    { unfold honest_frames, frames_from. rewrite map_length. clear. generalize (lsb d).
      induction sent_d as [|m r IH]; intros c; cbn [seal_cts length]; [reflexivity | now rewrite IH]. }
    assert (Hf8 : firstn 8 (h ++ rest) = h).
    { rewrite <- Hh at 1. rewrite firstn_app, Nat.sub_diag, firstn_all. cbn [firstn]. apply app_nil_r. }
    assert (Hx : forall f, nth_error honest_frames j = Some f -> starts_with f (h ++ rest) = false).
    { intros f Hf. destruct (starts_with f (h ++ rest)) eqn:Esw; [exfalso | reflexivity].
      unfold honest_frames, frames_from in Hf. rewrite nth_error_map in Hf.
      destruct (nth_error (seal_cts seal true (lsb d) sent_d) j) as [cj|] eqn:Ecj; [|discriminate].
      cbn [option_map] in Hf. inversion Hf; subst f.
      destruct (seal_cts_nth _ _ _ _ _ Ecj) as (m & Hm & Ec).
      destruct (sender_ok_nth seal _ _ _ _ Hok_d Hm) as [_ Q]. rewrite <- Ec in Q.
      apply starts_with_app in Esw.
      assert (E : firstn 8 (h ++ rest) = le_bytes 8 (blen cj)).
      { rewrite Esw. unfold frame_of. rewrite <- !app_assoc.
        pose proof (le_bytes_length 8 (blen cj)) as Hl. rewrite <- Hl at 1.
        rewrite firstn_app, Nat.sub_diag, firstn_all. cbn [firstn]. apply app_nil_r. }
      rewrite Hf8 in E. rewrite E, le_value_le_bytes in Hov by (rewrite pow_256_8; unfold buf_size, u64_limit in *; lia).
      lia. }
    destruct (lead_after_prefix honest_frames j (h ++ rest) ltac:(lia) Hx) as [A B].
    pose proof (recv_prefix w) as P. pose proof (recv_status w) as S.
    unfold w in P, S. rewrite A in P, S. rewrite B in S. rewrite Hnf in S.
    assert (Hd : decidable_head (h ++ rest) = true).
    { unfold decidable_head. rewrite Hf8.
      assert (E8 : (8 <=? length (h ++ rest))%nat = true) by (apply Nat.leb_le; rewrite app_length; lia).
      assert (Eo : (buf_size <? le_value h) = true) by (apply N.ltb_lt; assumption).
      rewrite E8, Eo. reflexivity. }
    rewrite Hd in S. rewrite upto_final_nofin in P by assumption. split; assumption.
  Qed.
End Session.

(* ------------------------------------------------------------------ a peer without the key *)
Theorem no_key_no_delivery open wf fin bump d :
  (forall n c, open n c = None) ->
  forall w, snd (recv_bytes open wf fin bump d (r_init d) w) = [].
Proof.
  intros H w. apply (no_open_no_delivery open wf fin bump d (lsb d)); [intros c; apply H | left; reflexivity].
Qed.

(* The only things ever sealed under the key are the receiver's own side's messages (the peer does
   not hold the key, it can only reflect them): nothing is delivered. *)
Theorem reflection_only_no_delivery seal open wf fin d own :
  (forall n m c, open n c = Some m -> In (n, m, c) (seal_log seal true (lsb (other d)) own)) ->
  sender_ok seal (lsb (other d)) own ->
  forall w, snd (recv_bytes open wf fin true d (r_init d) w) = [].
Proof.
  intros H2 Hok w. apply (no_open_no_delivery open wf fin true d (lsb d)); [|left; reflexivity].
  intros c. destruct (open (nonce_of (lsb d)) c) as [m|] eqn:Eo; [exfalso | reflexivity].
  apply H2 in Eo. apply in_seal_log in Eo as (k & Hk & En & _).
  destruct (sender_ok_nth seal _ _ _ _ Hok Hk) as [P _].
  apply (other_dir_nonce d 0 (N.of_nat k)); [destruct d; reflexivity | lia |].
  replace (lsb d + 2 * 0) with (lsb d) by lia. exact En.
Qed.

(* ------------------------------------------------------------------ no (key, nonce) pair is used twice in a session *)
Theorem session_nonces_nodup seal sent0 sent1 :
  sender_ok seal (lsb BossToDoer) sent0 -> sender_ok seal (lsb DoerToBoss) sent1 ->
  NoDup (log_nonces (seal_log seal true (lsb BossToDoer) sent0 ++ seal_log seal true (lsb DoerToBoss) sent1)).
Proof.
  intros H0 H1. unfold log_nonces. rewrite map_app. apply NoDup_app_intro.
  - apply (seal_log_nodup seal sent0 _ H0). reflexivity.
  - apply (seal_log_nodup seal sent1 _ H1). reflexivity.
  - intros x Hx0 Hx1.
    apply in_map_iff in Hx0 as ([[n0 m0] c0] & E0 & Hin0). apply in_map_iff in Hx1 as ([[n1 m1] c1] & E1 & Hin1).
    cbn [fst] in E0, E1. subst n0 n1.
    apply in_seal_log in Hin0 as (k0 & Hk0 & En0 & _). apply in_seal_log in Hin1 as (k1 & Hk1 & En1 & _).
    destruct (sender_ok_nth seal _ _ _ _ H0 Hk0) as [P0 _]. destruct (sender_ok_nth seal _ _ _ _ H1 Hk1) as [P1 _].
    rewrite En0 in En1. apply nonce_of_inj in En1; cbn [lsb] in *; lia.
Qed.

(* ------------------------------------------------------------------ the stream without an adversary (C14, TCP half) *)
Section Stream.
  Variable seal : bytes -> bytes -> bytes.
  Variable open : bytes -> bytes -> option bytes.
  Variable wf fin : bytes -> bool.
  Variable d : dir.
  Hypothesis H1t : forall n m, open n (seal n m) = Some m.

  Lemma parity_plus2 ctr : ctr mod 2 = lsb d -> (ctr + 2) mod 2 = lsb d.
  Proof.
    intros H. rewrite <- H. symmetry.
    pose proof (N.div_mod ctr 2 ltac:(lia)) as E. pose proof (N.mod_lt ctr 2 ltac:(lia)) as L.
    apply N.mod_unique with (q := ctr / 2 + 1); lia.
  Qed.

  Lemma recv_honest_stream ms : forall ctr,
    ctr mod 2 = lsb d -> sender_ok seal ctr ms -> Forall (fun m => wf m = true) ms ->
    snd (recv_bytes open wf fin true d (start ctr) (concat (frames_from seal ctr ms))) = upto_final fin ms /\
    is_failed (fst (recv_bytes open wf fin true d (start ctr) (concat (frames_from seal ctr ms)))) = false.
  Proof.
    induction ms as [|m0 r IH]; intros ctr Hp Hok Hwf.
    - cbn. split; reflexivity.
    - destruct Hok as (Ho & Hsz & Hok'). inversion Hwf as [|? ? Hw0 Hwr]; subst.
      cbn [frames_from seal_cts map concat next_ctr upto_final].
      rewrite (recv_frame open wf fin true d ctr _ _ Hsz).
      rewrite (finish_frame_honest open wf fin d ctr m0 _ Hp Ho (H1t _ _) Hw0). cbn [fst snd opt_cons].
      destruct (fin m0).
      + rewrite recv_bytes_finished. split; reflexivity.
      + destruct (IH (ctr + 2) (parity_plus2 ctr Hp) Hok' Hwr) as [A B].
        unfold frames_from, start in A, B. rewrite A. split; [reflexivity | exact B].
  Qed.

  Theorem stream_roundtrip : forall msgs segs ctr' frames,
    send_all seal true d (lsb d) msgs = Ok (ctr', frames) ->
    Forall (fun m => wf m = true) msgs ->
    upto_final fin msgs = msgs ->                 (* nothing is sent after the final message *)
    concat segs = concat frames ->                (* any segmentation of the byte stream *)
    decode_stream open wf fin true d segs = msgs.
  Proof.
    intros msgs segs ctr' frames Hs Hwf Hfin Hseg.
    apply send_all_ok_inv in Hs as (Hok & Hf & _).
    unfold decode_stream. rewrite recv_segments_concat, Hseg, Hf.
    assert (Hp : lsb d mod 2 = lsb d) by (destruct d; reflexivity).
    destruct (recv_honest_stream msgs (lsb d) Hp Hok Hwf) as [A _].
    unfold frames_from, start in A. unfold r_init. rewrite A. exact Hfin.
  Qed.
End Stream.

(* ------------------------------------------------------------------ the toy ideal AEAD satisfies H1 and H2 *)
Lemma toy_H2 log n m c : toy_open log n c = Some m -> In (n, m, c) log.
Proof.
  unfold toy_open. induction log as [|[[n' m'] c'] r IH]; cbn [toy_lookup]; intros H; [discriminate|].
  destruct (str_eqb n n' && str_eqb c c') eqn:E.
  - apply andb_true_iff in E as [E1 E2]. apply str_eqb_eq in E1, E2. inversion H; subst. left. reflexivity.
  - right. apply IH. exact H.
Qed.

Lemma toy_seal_inj k n m m' : toy_seal k n m = toy_seal k n m' -> m = m'.
Proof. unfold toy_seal. intros H. apply app_inv_head in H. apply app_inv_head in H. exact H. Qed.

Lemma toy_H1_gen k log n m c :
  (forall e, In e log -> snd e = toy_seal k (fst (fst e)) (snd (fst e))) ->
  In (n, m, c) log -> toy_open log n c = Some m.
Proof.
  unfold toy_open. induction log as [|[[n' m'] c'] r IH]; intros Hform Hin; [contradiction|].
  cbn [toy_lookup].
  destruct (str_eqb n n' && str_eqb c c') eqn:E.
  - apply andb_true_iff in E as [E1 E2]. apply str_eqb_eq in E1, E2. subst n' c'.
    pose proof (Hform (n, m', c) (or_introl eq_refl)) as F1. cbn [fst snd] in F1.
    pose proof (Hform (n, m, c) Hin) as F2. cbn [fst snd] in F2.
    rewrite F1 in F2. apply toy_seal_inj in F2. now subst.
  - destruct Hin as [Hin|Hin].
    + inversion Hin; subst. rewrite !str_eqb_refl in E. discriminate.
    + apply IH; [|exact Hin]. intros e He. apply Hform. now right.
Qed.

Lemma seal_log_form seal bump ms : forall ctr e, In e (seal_log seal bump ctr ms) -> snd e = seal (fst (fst e)) (snd (fst e)).
Proof.
  induction ms as [|m r IH]; intros ctr e H; [contradiction|].
  destruct H as [H|H]; [subst e; reflexivity | eapply IH; exact H].
Qed.

Lemma toy_H1 bump k c0 s0 c1 s1 n m c :
  In (n, m, c) (toy_log bump k c0 s0 c1 s1) -> toy_open (toy_log bump k c0 s0 c1 s1) n c = Some m.
Proof.
  apply (toy_H1_gen k). intros e He. unfold toy_log in He. apply in_app_or in He as [He|He]; eapply seal_log_form; exact He.
Qed.

(* ------------------------------------------------------------------ the code as it is on the pinned tree (bump = false) *)
Definition refute_key : bytes := repeat (ascii_of_N 7) 16.
Definition refute_m0 : bytes := le_bytes 4 1 ++ le_bytes 8 2 ++ [ascii_of_N 170; ascii_of_N 187].
Definition refute_m1 : bytes := le_bytes 4 2 ++ le_bytes 8 0.

Lemma refuted_without_bump :
  let k := refute_key in
  let sent := [refute_m0; refute_m1] in
  let log := toy_session_log false k sent [] in
  (forall n m c, In (n, m, c) log -> toy_open log n c = Some m) /\
  (forall n m c, toy_open log n c = Some m -> In (n, m, c) log) /\
  exists f0 f1 ctr',
    toy_send false k BossToDoer (lsb BossToDoer) sent = Ok (ctr', [f0; f1]) /\
    (* the first frame is put on the wire twice: the receiver of the unrepaired code takes it twice *)
    snd (toy_recv false log BossToDoer (r_init BossToDoer) (f0 ++ f0 ++ f1)) = [refute_m0; refute_m0; refute_m1] /\
    lead [f0; f1] (f0 ++ f0 ++ f1) = 1%nat /\
    (* and both frames were sealed under one (key, nonce) *)
    ~ NoDup (log_nonces log).
Proof.
  cbv zeta. split; [intros n m c; apply toy_H1|]. split; [intros n m c; apply toy_H2|].
  eexists. eexists. eexists. split; [vm_compute; reflexivity|].
  split; [vm_compute; reflexivity|]. split; [vm_compute; reflexivity|].
  vm_compute. intros H. inversion H as [|? ? Hn _]. apply Hn. left. reflexivity.
Qed.

(* the same script against the repaired code: only the first copy is taken, then the receiver fails *)
Lemma repaired_rejects_duplicate :
  let k := refute_key in
  let sent := [refute_m0; refute_m1] in
  let log := toy_session_log true k sent [] in
  exists f0 f1 ctr',
    toy_send true k BossToDoer (lsb BossToDoer) sent = Ok (ctr', [f0; f1]) /\
    snd (toy_recv true log BossToDoer (r_init BossToDoer) (f0 ++ f0 ++ f1)) = [refute_m0] /\
    is_failed (fst (toy_recv true log BossToDoer (r_init BossToDoer) (f0 ++ f0 ++ f1))) = true.
Proof.
  cbv zeta. eexists. eexists. eexists. split; [vm_compute; reflexivity|]. split; vm_compute; reflexivity.
Qed.

(* ------------------------------------------------------------------ the statements of Props/C10.v *)
Section Final.
  Variable seal : bytes -> bytes -> bytes.
  Variable open : bytes -> bytes -> option bytes.
  Variable wf fin : bytes -> bool.
  Variable d : dir.
  Variable sent_d sent_o frames_d frames_o : list bytes.
  Hypothesis Hrun_d : honest_run seal d sent_d frames_d.
  Hypothesis Hrun_o : honest_run seal (other d) sent_o frames_o.
  Hypothesis Haead : ideal_aead open (dir_log seal d sent_d sent_o).
  Hypothesis Hwf : Forall (fun m => wf m = true) sent_d.

  Lemma final_ok_d : sender_ok seal (lsb d) sent_d /\ frames_d = honest_frames seal d sent_d.
  Proof. destruct Hrun_d as [c H]. apply send_all_ok_inv in H as (A & B & _). split; assumption. Qed.
  Lemma final_ok_o : sender_ok seal (lsb (other d)) sent_o.
  Proof. destruct Hrun_o as [c H]. apply send_all_ok_inv in H as (A & _). exact A. Qed.

  Theorem final_prefix : forall wire,
    snd (recv_bytes open wf fin true d (r_init d) wire) = upto_final fin (firstn (lead frames_d wire) sent_d).
  Proof.
    destruct final_ok_d as [A B]. destruct Haead as [H1 H2]. rewrite B.
    exact (recv_prefix seal open wf fin d sent_d sent_o H1 H2 A final_ok_o Hwf).
  Qed.

  Theorem final_status : forall wire,
    let st := fst (recv_bytes open wf fin true d (r_init d) wire) in
    if existsb fin (firstn (lead frames_d wire) sent_d) then r_st st = RFinished
    else if decidable_head (after_lead frames_d wire) then is_failed st = true
         else is_waiting st = true.
  Proof.
    destruct final_ok_d as [A B]. destruct Haead as [H1 H2]. rewrite B.
    exact (recv_status seal open wf fin d sent_d sent_o H1 H2 A final_ok_o Hwf).
  Qed.

  Theorem final_deviating : forall j c' rest,
    (j <= length sent_d)%nat -> existsb fin (firstn j sent_d) = false ->
    blen c' <= buf_size -> nth_error frames_d j <> Some (frame_of c') ->
    let wire := concat (firstn j frames_d) ++ frame_of c' ++ rest in
    snd (recv_bytes open wf fin true d (r_init d) wire) = firstn j sent_d /\
    is_failed (fst (recv_bytes open wf fin true d (r_init d) wire)) = true.
  Proof.
    destruct final_ok_d as [A B]. destruct Haead as [H1 H2]. rewrite B.
    intros j c' rest Hj Hnf Hb Hne.
    apply (recv_deviating_frame seal open wf fin d sent_d sent_o H1 H2 A final_ok_o Hwf j c' rest Hj Hnf Hb).
    intros E. apply Hne. unfold honest_frames, frames_from. rewrite nth_error_map, E. reflexivity.
  Qed.

  Theorem final_oversize : forall j h rest,
    (j <= length sent_d)%nat -> existsb fin (firstn j sent_d) = false ->
    length h = 8%nat -> buf_size < le_value h ->
    let wire := concat (firstn j frames_d) ++ h ++ rest in
    snd (recv_bytes open wf fin true d (r_init d) wire) = firstn j sent_d /\
    is_failed (fst (recv_bytes open wf fin true d (r_init d) wire)) = true.
  Proof.
    destruct final_ok_d as [A B]. destruct Haead as [H1 H2]. rewrite B.
    intros j h rest Hj Hnf Hh Hov.
    exact (recv_oversize_header seal open wf fin d sent_d sent_o H1 H2 A final_ok_o Hwf j h rest Hj Hnf Hh Hov).
  Qed.
End Final.

(* A frame of another session (another link of the same run: sealing function [seal'], i.e. another key), taken
   from any direction and any position of that link and put where the j-th honest frame of this link should be:
   rejected like every other deviating frame.  The premise [ideal_aead open (dir_log seal ...)] is what makes the
   other link "another session": only this link's two senders ever sealed under this link's key. *)
Theorem final_foreign_session seal seal' open wf fin d sent_d sent_o frames_d frames_o d' sent' frames' :
  honest_run seal d sent_d frames_d -> honest_run seal (other d) sent_o frames_o ->
  ideal_aead open (dir_log seal d sent_d sent_o) ->
  Forall (fun m => wf m = true) sent_d ->
  honest_run seal' d' sent' frames' ->
  forall j j' f' rest,
    (j <= length sent_d)%nat -> existsb fin (firstn j sent_d) = false ->
    nth_error frames' j' = Some f' -> nth_error frames_d j <> Some f' ->
    let wire := concat (firstn j frames_d) ++ f' ++ rest in
    snd (recv_bytes open wf fin true d (r_init d) wire) = firstn j sent_d /\
    is_failed (fst (recv_bytes open wf fin true d (r_init d) wire)) = true.
Proof.
  intros Hd Ho Ha Hwf [c' Hs'] j j' f' rest Hj Hnf Hn Hne.
  apply send_all_ok_inv in Hs' as (A' & B' & _).
  rewrite B', nth_error_map in Hn.
  destruct (nth_error (seal_cts seal' true (lsb d') sent') j') as [c|] eqn:Ec; cbn [option_map] in Hn; [|discriminate].
  inversion Hn; subst f'.
  destruct (seal_cts_nth _ _ _ _ _ Ec) as (m & Hm & Hc).
  destruct (sender_ok_nth seal' _ _ _ _ A' Hm) as [_ Hb]. rewrite <- Hc in Hb.
  exact (final_deviating seal open wf fin d sent_d sent_o frames_d frames_o Hd Ho Ha Hwf j c rest Hj Hnf Hb Hne).
Qed.

Theorem final_no_reuse seal sent0 sent1 frames0 frames1 :
  honest_run seal BossToDoer sent0 frames0 -> honest_run seal DoerToBoss sent1 frames1 ->
  NoDup (map (fun e => fst (fst e)) (dir_log seal BossToDoer sent0 sent1)).
Proof.
  intros [c0 H0] [c1 H1]. apply send_all_ok_inv in H0 as (A0 & _). apply send_all_ok_inv in H1 as (A1 & _).
  exact (session_nonces_nodup seal sent0 sent1 A0 A1).
Qed.

Theorem final_reflection seal open wf fin d own frames :
  honest_run seal (other d) own frames ->
  (forall n m c, open n c = Some m -> In (n, m, c) (seal_log seal true (lsb (other d)) own)) ->
  forall wire, snd (recv_bytes open wf fin true d (r_init d) wire) = [].
Proof.
  intros [c H] H2. apply send_all_ok_inv in H as (A & _).
  exact (reflection_only_no_delivery seal open wf fin d own H2 A).
Qed.

Theorem final_no_key open wf fin bump d :
  ideal_aead open [] -> forall wire, snd (recv_bytes open wf fin bump d (r_init d) wire) = [].
Proof.
  intros [_ H2]. apply no_key_no_delivery. intros n c. destruct (open n c) as [m|] eqn:E; [|reflexivity].
  exfalso. exact (H2 _ _ _ E).
Qed.

Theorem final_segmentation open wf fin bump d st segs :
  recv_segments open wf fin bump d st segs = recv_bytes open wf fin bump d st (concat segs).
Proof. apply recv_segments_concat. Qed.

(* the premises are jointly satisfiable: the toy functionality, two messages one way and one back *)
Definition ex_key : bytes := repeat (ascii_of_N 7) 16.
Definition ex_sent0 : list bytes := [refute_m0; refute_m1].
Definition ex_sent1 : list bytes := [le_bytes 4 9 ++ le_bytes 8 0].

Lemma premises_satisfiable :
  let seal := toy_seal ex_key in
  let open := toy_open (dir_log seal BossToDoer ex_sent0 ex_sent1) in
  exists f0 f1,
    honest_run seal BossToDoer ex_sent0 f0 /\ honest_run seal DoerToBoss ex_sent1 f1 /\
    ideal_aead open (dir_log seal BossToDoer ex_sent0 ex_sent1) /\
    Forall (fun m => toy_wf m = true) ex_sent0 /\
    snd (recv_bytes open toy_wf toy_fin true BossToDoer (r_init BossToDoer) (concat f0)) = ex_sent0.
Proof.
  cbv zeta. eexists. eexists.
  split; [eexists; vm_compute; reflexivity|]. split; [eexists; vm_compute; reflexivity|].
  split.
  { split; intros n m c.
    - apply (toy_H1 true ex_key (lsb BossToDoer) ex_sent0 (lsb DoerToBoss) ex_sent1).
    - apply toy_H2. }
  split; [repeat constructor|]. vm_compute. reflexivity.
Qed.
