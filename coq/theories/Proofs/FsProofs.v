(* Basic facts about the file-system model and the doer interpreter: lookup laws, the frame property
   (a command changes the tree at most at its own path), errors leave the tree unchanged. *)
From RJ Require Import Base.Prelude Base.OrderedPlan Model.Settings Model.Core Model.Fs.

Lemma fget_fset_eq f p n : fget (fset f p n) p = Some n.
Proof. apply alookup_ainsert_eq. Qed.
Lemma fget_fset_ne f p q n : q <> p -> fget (fset f p n) q = fget f q.
Proof. intros; apply alookup_ainsert_ne; auto. Qed.
Lemma fget_fdel_eq f p : fget (fdel f p) p = None.
Proof. apply alookup_aremove_eq. Qed.
Lemma fget_fdel_ne f p q : q <> p -> fget (fdel f p) q = fget f q.
Proof. intros; apply alookup_aremove_ne; auto. Qed.

Ltac dsimpl := cbn [d_fs d_anc d_tick d_open d_events d_x with_fs with_event with_open tick with_failed count_write note_faildel fst snd] in *.

Ltac inv_pair H := inversion H; subst; clear H.

(* One step of case analysis on the scrutinee of the first match/if in hypothesis H *)
Ltac break_match_hyp H :=
  match type of H with
  | context [match ?x with _ => _ end] =>
      match x with
      | context [match _ with _ => _ end] => fail 1
      | _ => destruct x eqn:?
      end
  end.

Lemma doer_exec_frame fl st c st' e p :
  doer_exec fl st c = (st', e) -> cmd_path c <> Some p -> fget (d_fs st') p = fget (d_fs st) p.
Proof.
  intros H Hp. destruct c; cbn [doer_exec cmd_path] in *;
    try (inv_pair H; reflexivity).
  - (* CreateRootAncestors *)
    destruct (d_anc st); inv_pair H; reflexivity.
  - (* CreateOrUpdateFile *)
    assert (Hne : p <> p0) by congruence.
    unfold open_for_write, write_chunk, stamp_file, refuses, write_fails in H.
    repeat (break_match_hyp H; try discriminate); inv_pair H; dsimpl;
      rewrite ?fget_fset_ne by auto; rewrite ?fget_fset_ne by auto; rewrite ?fget_fset_ne by auto; try reflexivity.
  - (* CreateSymlink *)
    assert (Hne : p <> p0) by congruence.
    repeat (break_match_hyp H; try discriminate); inv_pair H; dsimpl; rewrite ?fget_fset_ne by auto; reflexivity.
  - (* CreateFolder *)
    assert (Hne : p <> p0) by congruence.
    repeat (break_match_hyp H; try discriminate); inv_pair H; dsimpl; rewrite ?fget_fset_ne by auto; reflexivity.
  - (* DeleteFile *)
    assert (Hne : p <> p0) by congruence.
    repeat (break_match_hyp H; try discriminate); inv_pair H; dsimpl; rewrite ?fget_fdel_ne by auto; reflexivity.
  - (* DeleteFolder *)
    assert (Hne : p <> p0) by congruence.
    repeat (break_match_hyp H; try discriminate); inv_pair H; dsimpl; rewrite ?fget_fdel_ne by auto; reflexivity.
  - (* DeleteSymlink *)
    assert (Hne : p <> p0) by congruence.
    repeat (break_match_hyp H; try discriminate); inv_pair H; dsimpl; rewrite ?fget_fdel_ne by auto; reflexivity.
Qed.

(* A command that is answered with an error has not changed the tree - except a failed write, which
   leaves the (created or truncated) file with whatever it wrote and no final timestamp. *)
Lemma doer_exec_err_fs fl st c st' e :
  doer_exec fl st c = (st', Some e) -> e <> EWrite -> d_fs st' = d_fs st.
Proof.
  intros H Hne. destruct c; cbn [doer_exec] in *; try discriminate; unfold open_for_write, refuses, write_fails in H;
    repeat (break_match_hyp H; try discriminate); inv_pair H; dsimpl; try reflexivity; congruence.
Qed.

(* Read-only commands change nothing at all. *)
Lemma doer_exec_read_only fl st c : read_only c = true -> doer_exec fl st c = (st, None).
Proof. destruct c; cbn; intros H; try discriminate; reflexivity. Qed.
