(* Proofs about the launch handshake (Model/Handshake.v). *)
From RJ Require Import Base.Prelude Model.Handshake.
Local Open Scope N_scope.

(* ---------- small string facts ---------- *)
Lemma starts_with_app (p x : str) : starts_with p (p ++ x) = true.
Proof. induction p as [|a p IH]; cbn [starts_with app]; [reflexivity|]. rewrite Ascii.eqb_refl, IH. reflexivity. Qed.

(* The two strings differ at a position both have. *)
Fixpoint differ (a b : str) : bool :=
  match a, b with
  | x :: a', y :: b' => negb (Ascii.eqb x y) || differ a' b'
  | _, _ => false
  end.

Lemma differ_starts_with (a b : str) : differ a b = true -> forall x, starts_with a (b ++ x) = false.
Proof.
  revert b; induction a as [|x a IH]; intros [|y b] H z; cbn [differ] in H; try discriminate.
  cbn [app starts_with]. destruct (Ascii.eqb x y); cbn [negb orb andb] in *; [apply IH; exact H | reflexivity].
Qed.

Lemma skipn_app_exact {A} (p x : list A) : skipn (List.length p) (p ++ x) = x.
Proof. induction p as [|a p IH]; [reflexivity | exact IH]. Qed.

Lemma after_prefix_app (p x : str) : after_prefix p (p ++ x) = x.
Proof. apply skipn_app_exact. Qed.

Lemma pop_line_nl (l : str) : pop_line (l ++ nl) = l.
Proof. unfold pop_line, nl. apply removelast_last. Qed.

(* The handshake prefixes cannot be confused with each other. *)
Definition prefixes_ok (c : hcfg) : Prop := differ (started_prefix c) (completed_prefix c) = true.

Definition version_of (c : hcfg) (l : str) : str := after_prefix (started_prefix c) l.

(* ---------- the port text ---------- *)
Definition port_ok (p : N) : bool := match parse_u16 (print_dec p) with Some q => q =? p | None => false end.

Fixpoint check_upto (n : nat) (s : N) : bool :=
  match n with O => true | S k => port_ok s && check_upto k (s + 1) end.

Lemma check_upto_spec n : forall s, check_upto n s = true -> forall p, s <= p -> p < s + N.of_nat n -> port_ok p = true.
Proof.
  induction n as [|n IH]; intros s H p H1 H2; [lia|].
  cbn [check_upto] in H. apply andb_true_iff in H as [Hs Hr].
  destruct (N.eq_dec p s) as [->|Hne]; [exact Hs|].
  apply (IH (s + 1) Hr); lia.
Qed.

(* a finite fact: all 65536 port numbers print and parse back *)
Lemma port_roundtrip_all : check_upto (N.to_nat 65536) 0 = true.
Proof. vm_compute. reflexivity. Qed.

Lemma port_roundtrip (p : N) : p < 65536 -> parse_u16 (print_dec p) = Some p.
Proof.
  intros H. pose proof (check_upto_spec _ _ port_roundtrip_all p) as A.
  rewrite N2Nat.id in A. assert (B : port_ok p = true) by (apply A; lia).
  unfold port_ok in B. destruct (parse_u16 (print_dec p)) as [q|]; [|discriminate].
  apply N.eqb_eq in B. now subst.
Qed.

(* ---------- one step ---------- *)
Definition step_wrote (r : step_res) : bool := match r with Continue _ w => w | Done _ w => w end.

Lemma boss_step_wrote c wok st ev :
  step_wrote (boss_step c wok st ev) = true ->
  exists l, ev = (Stdout, MStarted l) /\ version_of c l = own_version c.
Proof.
  destruct ev as [s m]. unfold boss_step. destruct m as [l| | |l|l]; cbn [step_wrote].
  - destruct (has_marker l); cbn; discriminate.
  - discriminate.
  - discriminate.
  - destruct (str_eqb (after_prefix (started_prefix c) l) (own_version c)) eqn:E; cbn [negb step_wrote]; [|discriminate].
    destruct s; [|cbn; discriminate]. intros _. exists l. split; [reflexivity|]. now apply str_eqb_eq.
  - destruct (parse_u16 _); [|cbn; discriminate].
    destruct (h_out (mark_completed s st) && h_err (mark_completed s st)); [|cbn; discriminate].
    destruct (h_key (mark_completed s st)); cbn; discriminate.
Qed.

(* A key is written only while processing a Started line on stdout that carries exactly our version. *)
Lemma key_only_after_match c wok : forall evs st i r ws,
  run_from c wok st i evs = (r, ws) ->
  forall j, In j ws ->
    (i <= j)%nat /\ exists l, nth_error evs (j - i) = Some (Stdout, MStarted l) /\ version_of c l = own_version c.
Proof.
  induction evs as [|ev t IH]; intros st i r ws H j Hj; cbn [run_from] in H.
  - inversion H; subst. contradiction.
  - pose proof (boss_step_wrote c wok st ev) as W.
    destruct (boss_step c wok st ev) as [st' w|r' w]; cbn [step_wrote] in W.
    + destruct (run_from c wok st' (S i) t) as [r2 ws2] eqn:R. inversion H; subst; clear H.
      assert (Hcase : (w = true /\ j = i) \/ In j ws2).
      { destruct w; [destruct Hj as [->|Hj]; [left; split; reflexivity | right; exact Hj] | right; exact Hj]. }
      destruct Hcase as [[-> ->]|Hin].
      * split; [lia|]. destruct (W eq_refl) as [l [-> V]]. exists l. rewrite Nat.sub_diag. split; [reflexivity | exact V].
      * destruct (IH st' (S i) _ _ R j Hin) as [Hle [l [Hn V]]].
        split; [lia|]. exists l. split; [|exact V].
        replace (j - i)%nat with (S (j - S i)) by lia. exact Hn.
    + inversion H; subst; clear H. destruct w; [|contradiction].
      destruct Hj as [->|[]]. split; [lia|]. destruct (W eq_refl) as [l [-> V]].
      exists l. rewrite Nat.sub_diag. split; [reflexivity | exact V].
Qed.

(* Non-writing steps leave the remembered key alone. *)
Lemma boss_step_key c wok st ev st' :
  boss_step c wok st ev = Continue st' false -> h_key st' = h_key st.
Proof.
  destruct ev as [s m]. unfold boss_step. destruct m as [l| | |l|l].
  - destruct (has_marker l); intros H; inversion H; reflexivity.
  - discriminate.
  - intros H; inversion H. destruct s; reflexivity.
  - destruct (negb _); [discriminate|]. destruct s; [destruct wok; discriminate|]. intros H; inversion H; reflexivity.
  - destruct (parse_u16 _); [|discriminate].
    destruct (h_out (mark_completed s st) && h_err (mark_completed s st)).
    + destruct (h_key (mark_completed s st)) eqn:K; [discriminate|]. intros H; inversion H; subst. destruct s; reflexivity.
    + intros H; inversion H; subst. destruct s; reflexivity.
Qed.

Lemma boss_step_success c wok st ev p k w :
  boss_step c wok st ev = Done (LSuccess p k) w -> h_key st = Some k /\ w = false.
Proof.
  destruct ev as [s m]. unfold boss_step. destruct m as [l| | |l|l].
  - destruct (has_marker l); discriminate.
  - discriminate.
  - discriminate.
  - destruct (negb _); [discriminate|]. destruct s; [destruct wok|]; discriminate.
  - destruct (parse_u16 _); [|discriminate].
    destruct (h_out (mark_completed s st) && h_err (mark_completed s st)); [|discriminate].
    destruct (h_key (mark_completed s st)) eqn:K; [|discriminate].
    intros H; inversion H; subst. split; [destruct s; exact K | reflexivity].
Qed.

(* Success means a key had been written (before, or in this run). *)
Lemma success_needs_key c wok : forall evs st i p k ws,
  run_from c wok st i evs = (LSuccess p k, ws) -> h_key st <> None \/ ws <> [].
Proof.
  induction evs as [|ev t IH]; intros st i p k ws H; cbn [run_from] in H.
  - destruct (h_tout st && h_terr st); inversion H.
  - destruct (boss_step c wok st ev) as [st' w|r' w] eqn:B.
    + destruct (run_from c wok st' (S i) t) as [r2 ws2] eqn:R. inversion H; subst; clear H.
      destruct w; [right; discriminate|].
      destruct (IH st' (S i) p k ws2 R) as [K|K]; [left|right; exact K].
      rewrite <- (boss_step_key _ _ _ _ _ B). exact K.
    + inversion H; subst; clear H. apply boss_step_success in B as [K _]. left. congruence.
Qed.

(* How many events the loop consumes before it returns. *)
Fixpoint consumed (c : hcfg) (wok : bool) (st : hs) (evs : list (stream * msg)) : nat :=
  match evs with
  | [] => O
  | ev :: t => match boss_step c wok st ev with
               | Done _ _ => 1%nat
               | Continue st' _ => S (consumed c wok st' t)
               end
  end.

Definition started_ok (c : hcfg) (ev : stream * msg) : Prop :=
  match snd ev with MStarted l => version_of c l = own_version c | _ => True end.

Lemma boss_step_started_done c wok st s l :
  version_of c l <> own_version c -> boss_step c wok st (s, MStarted l) = Done (LIncompat (version_of c l)) false.
Proof.
  intros V. unfold boss_step. apply str_eqb_neq in V. unfold version_of in V. rewrite V. reflexivity.
Qed.

(* Every Started line the loop passed on the way to Success carried our version. *)
Lemma success_all_started_ok c wok : forall evs st i p k ws,
  run_from c wok st i evs = (LSuccess p k, ws) ->
  Forall (started_ok c) (firstn (consumed c wok st evs) evs).
Proof.
  induction evs as [|ev t IH]; intros st i p k ws H; cbn [run_from consumed] in *.
  - constructor.
  - assert (Hev : started_ok c ev \/ exists s l, ev = (s, MStarted l) /\ version_of c l <> own_version c).
    { destruct ev as [s m]. destruct m as [l| | |l|l]; try (left; exact I).
      destruct (str_eqb (version_of c l) (own_version c)) eqn:E.
      - left. apply str_eqb_eq in E. exact E.
      - right. exists s, l. split; [reflexivity|]. now apply str_eqb_neq. }
    destruct Hev as [Hok|[s [l [-> V]]]].
    + destruct (boss_step c wok st ev) as [st' w|r' w] eqn:B.
      * destruct (run_from c wok st' (S i) t) as [r2 ws2] eqn:R. inversion H; subst.
        cbn [firstn]. constructor; [exact Hok | eapply IH; exact R].
      * cbn [firstn]. constructor; [exact Hok | constructor].
    + rewrite (boss_step_started_done c wok st s l V) in H. inversion H.
Qed.

(* ---------- a mismatching first Started line ---------- *)
Definition not_started (ev : stream * msg) : Prop := match snd ev with MStarted _ => False | _ => True end.
Definition harmless (ev : stream * msg) : Prop :=
  match snd ev with MLine l => has_marker l = false | MClosed => True | _ => False end.

Lemma no_key_on_mismatch_gen c wok : forall pre st i s l post,
  Forall not_started pre -> h_key st = None -> version_of c l <> own_version c ->
  snd (run_from c wok st i (pre ++ (s, MStarted l) :: post)) = [] /\
  (fst (run_from c wok st i (pre ++ (s, MStarted l) :: post)) = LIncompat (version_of c l) \/
   fst (run_from c wok st i (pre ++ (s, MStarted l) :: post)) = LNotPresent \/
   fst (run_from c wok st i (pre ++ (s, MStarted l) :: post)) = LCommErr) /\
  (Forall harmless pre -> fst (run_from c wok st i (pre ++ (s, MStarted l) :: post)) = LIncompat (version_of c l)).
Proof.
  induction pre as [|ev pre IH]; intros st i s l post Hpre K V; cbn [app run_from].
  - rewrite (boss_step_started_done c wok st s l V). cbn. repeat split; auto.
  - inversion Hpre as [|ev' pre' Hev Hpre']; subst.
    destruct ev as [s0 m]. destruct m as [l0| | |l0|l0]; cbn [not_started snd] in Hev; try contradiction.
    + (* line *) unfold boss_step. destruct (has_marker l0) eqn:M.
      * cbn. repeat split; auto. intros Hh. inversion Hh as [|? ? Hh0 _]; subst. cbn in Hh0. congruence.
      * specialize (IH st (S i) s l post Hpre' K V).
        destruct (run_from c wok st (S i) (pre ++ (s, MStarted l) :: post)) as [r ws]. cbn [fst snd] in *.
        destruct IH as [A [B C]]. repeat split; auto. intros Hh. apply C. inversion Hh; assumption.
    + (* error *) cbn. repeat split; auto. intros Hh. inversion Hh as [|? ? Hh0 _]; subst. cbn in Hh0. contradiction.
    + (* closed *) unfold boss_step.
      assert (K' : h_key (thread_done s0 st) = None) by (destruct s0; exact K).
      specialize (IH (thread_done s0 st) (S i) s l post Hpre' K' V).
      destruct (run_from c wok (thread_done s0 st) (S i) (pre ++ (s, MStarted l) :: post)) as [r ws]. cbn [fst snd] in *.
      destruct IH as [A [B C]]. repeat split; auto. intros Hh. apply C. inversion Hh; assumption.
    + (* completed before any Started *) unfold boss_step.
      assert (K' : h_key (mark_completed s0 st) = None) by (destruct s0; exact K).
      destruct (parse_u16 _).
      * rewrite K'.
        assert (E : (if h_out (mark_completed s0 st) && h_err (mark_completed s0 st)
                     then Continue (mark_completed s0 st) false else Continue (mark_completed s0 st) false)
                    = Continue (mark_completed s0 st) false) by (destruct (_ && _); reflexivity).
        rewrite E.
        specialize (IH (mark_completed s0 st) (S i) s l post Hpre' K' V).
        destruct (run_from c wok (mark_completed s0 st) (S i) (pre ++ (s, MStarted l) :: post)) as [r ws]. cbn [fst snd] in *.
        destruct IH as [A [B C]]. repeat split; auto. intros Hh. inversion Hh as [|? ? Hh0 _]; subst. cbn in Hh0. contradiction.
      * cbn. repeat split; auto. intros Hh. inversion Hh as [|? ? Hh0 _]; subst. cbn in Hh0. contradiction.
Qed.

(* ---------- the causal domain ---------- *)
(* What remains to be delivered of a stream of a doer announcing [v] and listening on [p]:
   noise anywhere, then (unless already delivered: flag true) the Started line, then the Completed line. *)
Inductive good_stream (c : hcfg) (v : str) (p : N) : bool -> list msg -> Prop :=
| gs_noise b l t : is_noise c l = true -> good_stream c v p b t -> good_stream c v p b (MLine l :: t)
| gs_started t : good_stream c v p true t -> good_stream c v p false (MStarted (started_line c v) :: t)
| gs_completed : good_stream c v p true [MCompleted (completed_line c p)].

Lemma good_stream_nonempty c v p b ms : good_stream c v p b ms -> ms <> [].
Proof. intros H; inversion H; discriminate. Qed.

(* Arrival orders: any interleaving of what the two reader threads send. *)
Inductive interleave : list msg -> list msg -> list (stream * msg) -> Prop :=
| il_nil : interleave [] [] []
| il_out m ro re evs : interleave ro re evs -> interleave (m :: ro) re ((Stdout, m) :: evs)
| il_err m ro re evs : interleave ro re evs -> interleave ro (m :: re) ((Stderr, m) :: evs).

Definition is_nil {A} (l : list A) : bool := match l with [] => true | _ => false end.

(* Loop state as a function of what has been delivered. *)
Definition st_of (key_sent out_done err_done : bool) : hs :=
  mkHs out_done err_done (if key_sent then Some O else None) (if key_sent then 1%nat else O) out_done err_done.

Definition stream_inv (c : hcfg) (v : str) (p : N) (ko : bool) (ro : list msg) : Prop :=
  (ro = [] /\ ko = true) \/ good_stream c v p ko ro.

Lemma is_noise_marker c l : is_noise c l = true -> has_marker l = false.
Proof. unfold is_noise. intros H. apply andb_true_iff in H as [_ H]. now apply negb_true_iff in H. Qed.

Lemma is_nil_good c v p b ms : good_stream c v p b ms -> is_nil ms = false.
Proof. intros H; inversion H; reflexivity. Qed.

Lemma handshake_ok c v p :
  v = own_version c -> p < 65536 ->
  forall ro re evs, interleave ro re evs ->
  forall ko be i,
    stream_inv c v p ko ro -> (re = [] \/ good_stream c v p be re) -> (ro <> [] \/ re <> []) ->
    causal_from ko evs = true ->
    exists ws, run_from c true (st_of ko (is_nil ro) (is_nil re)) i evs = (LSuccess p O, ws) /\
      (ko = true -> ws = []) /\
      (ko = false -> exists j, ws = [j] /\ (i <= j)%nat /\
                      nth_error evs (j - i) = Some (Stdout, MStarted (started_line c v))).
Proof.
  intros Hv Hp ro re evs H. induction H as [|m ro re evs H IH|m ro re evs H IH]; intros ko be i Io Ie Hne Hc.
  - destruct Hne as [E|E]; contradiction.
  - (* a stdout message *)
    destruct Io as [[E _]|G]; [discriminate|].
    inversion G as [b l t Hn Gt|t Gt|]; subst.
    + (* noise *)
      cbn [run_from boss_step]. rewrite (is_noise_marker _ _ Hn).
      cbn [causal_from] in Hc.
      pose proof (is_nil_good _ _ _ _ _ Gt) as Nt.
      destruct (IH ko be (S i) (or_intror Gt) Ie (or_introl (good_stream_nonempty _ _ _ _ _ Gt)) Hc) as [ws [R [W1 W2]]].
      cbn [is_nil]. rewrite Nt in R. rewrite R. exists ws. split; [reflexivity|]. split; [exact W1|].
      intros K. destruct (W2 K) as [j [E [Hle Hn']]]. exists j. split; [exact E|]. split; [lia|].
      replace (j - i)%nat with (S (j - S i)) by lia. exact Hn'.
    + (* the Started line on stdout: the key is written *)
      cbn [run_from boss_step]. unfold started_line at 1. rewrite after_prefix_app.
      rewrite str_eqb_refl. cbn [negb].
      cbn [causal_from stream_eqb orb] in Hc.
      pose proof (is_nil_good _ _ _ _ _ Gt) as Nt.
      destruct (IH true be (S i) (or_intror Gt) Ie (or_introl (good_stream_nonempty _ _ _ _ _ Gt)) Hc) as [ws [R [W1 _]]].
      cbn [is_nil]. rewrite Nt in R.
      change (key_written (st_of false false (is_nil re))) with (st_of true false (is_nil re)).
      rewrite R. rewrite (W1 eq_refl). exists [i]. split; [reflexivity|]. split; [discriminate|].
      intros _. exists i. split; [reflexivity|]. split; [lia|]. rewrite Nat.sub_diag. reflexivity.
    + (* the Completed line on stdout *)
      cbn [run_from boss_step]. unfold completed_line at 1. rewrite after_prefix_app, (port_roundtrip p Hp).
      cbn [causal_from] in Hc. apply andb_true_iff in Hc as [_ Hc].
      cbn [is_nil].
      change (mark_completed Stdout (st_of true false (is_nil re))) with (st_of true true (is_nil re)).
      cbn [st_of h_out h_err h_key andb].
      destruct (is_nil re) eqn:Nre.
      * exists []. split; [reflexivity|]. split; [reflexivity | discriminate].
      * assert (Rne : re <> []) by (intros ->; discriminate).
        destruct (IH true be (S i) (or_introl (conj eq_refl eq_refl)) Ie (or_intror Rne) Hc) as [ws [R [W1 _]]].
        change (is_nil (@nil msg)) with true in R. rewrite R.
        exists ws. split; [reflexivity|]. split; [exact W1 | discriminate].
  - (* a stderr message *)
    destruct Ie as [E|G]; [discriminate|].
    inversion G as [b l t Hn Gt|t Gt|]; subst.
    + cbn [run_from boss_step]. rewrite (is_noise_marker _ _ Hn).
      cbn [causal_from] in Hc.
      pose proof (is_nil_good _ _ _ _ _ Gt) as Nt.
      destruct (IH ko be (S i) Io (or_intror Gt) (or_intror (good_stream_nonempty _ _ _ _ _ Gt)) Hc) as [ws [R [W1 W2]]].
      cbn [is_nil]. rewrite Nt in R. rewrite R. exists ws. split; [reflexivity|]. split; [exact W1|].
      intros K. destruct (W2 K) as [j [E [Hle Hn']]]. exists j. split; [exact E|]. split; [lia|].
      replace (j - i)%nat with (S (j - S i)) by lia. exact Hn'.
    + (* Started on stderr: version checked, no key *)
      cbn [run_from boss_step]. unfold started_line at 1. rewrite after_prefix_app.
      rewrite str_eqb_refl. cbn [negb].
      cbn [causal_from stream_eqb] in Hc. rewrite orb_false_r in Hc.
      pose proof (is_nil_good _ _ _ _ _ Gt) as Nt.
      destruct (IH ko true (S i) Io (or_intror Gt) (or_intror (good_stream_nonempty _ _ _ _ _ Gt)) Hc) as [ws [R [W1 W2]]].
      cbn [is_nil]. rewrite Nt in R. rewrite R. exists ws. split; [reflexivity|]. split; [exact W1|].
      intros K. destruct (W2 K) as [j [E [Hle Hn']]]. exists j. split; [exact E|]. split; [lia|].
      replace (j - i)%nat with (S (j - S i)) by lia. exact Hn'.
    + (* Completed on stderr: causality says the key has been sent *)
      cbn [causal_from] in Hc. apply andb_true_iff in Hc as [Hko Hc]. subst ko.
      cbn [run_from boss_step]. unfold completed_line at 1. rewrite after_prefix_app, (port_roundtrip p Hp).
      cbn [is_nil].
      change (mark_completed Stderr (st_of true (is_nil ro) false)) with (st_of true (is_nil ro) true).
      cbn [st_of h_out h_err h_key]. rewrite andb_true_r.
      destruct (is_nil ro) eqn:Nro.
      * exists []. split; [reflexivity|]. split; [reflexivity | discriminate].
      * assert (Rne : ro <> []) by (intros ->; discriminate).
        destruct (IH true true (S i) Io (or_introl eq_refl) (or_introl Rne) Hc) as [ws [R [W1 _]]].
        change (is_nil (@nil msg)) with true in R. rewrite R.
        exists ws. split; [reflexivity|]. split; [exact W1 | discriminate].
Qed.

Lemma handshake_mismatch c v p :
  v <> own_version c ->
  forall ro re evs, interleave ro re evs ->
  forall st i, good_stream c v p false ro -> good_stream c v p false re ->
    run_from c true st i evs = (LIncompat v, []).
Proof.
  intros Hv ro re evs H. induction H as [|m ro re evs H IH|m ro re evs H IH]; intros st i Go Ge.
  - inversion Go.
  - inversion Go as [b l t Hn Gt|t Gt|]; subst.
    + cbn [run_from boss_step]. rewrite (is_noise_marker _ _ Hn). rewrite (IH st (S i) Gt Ge). reflexivity.
    + cbn [run_from]. rewrite boss_step_started_done; unfold version_of, started_line; rewrite after_prefix_app; [reflexivity | exact Hv].
  - inversion Ge as [b l t Hn Gt|t Gt|]; subst.
    + cbn [run_from boss_step]. rewrite (is_noise_marker _ _ Hn). rewrite (IH st (S i) Go Gt). reflexivity.
    + cbn [run_from]. rewrite boss_step_started_done; unfold version_of, started_line; rewrite after_prefix_app; [reflexivity | exact Hv].
Qed.

(* ---------- from what the doer writes to what the reader thread sends ---------- *)
Definition noise_read (l : str) : read := RLine (l ++ nl).

(* Everything a stream carries: noise, the Started line, noise, the Completed line, then anything. *)
Definition transcript (c : hcfg) (v : str) (p : N) (n1 n2 : list str) (rest : list read) : list read :=
  map noise_read n1 ++ RLine (started_line c v ++ nl) :: map noise_read n2 ++ RLine (completed_line c p ++ nl) :: rest.

Lemma classify_noise c l : is_noise c l = true -> classify c (l ++ nl) = MLine l.
Proof.
  unfold is_noise, classify. intros H. apply andb_true_iff in H as [H _]. apply andb_true_iff in H as [H1 H2].
  rewrite pop_line_nl. apply negb_true_iff in H1, H2. rewrite H1, H2. reflexivity.
Qed.

Lemma classify_started c v : classify c (started_line c v ++ nl) = MStarted (started_line c v).
Proof. unfold classify. rewrite pop_line_nl. unfold started_line. rewrite starts_with_app. reflexivity. Qed.

Lemma classify_completed c p : prefixes_ok c -> classify c (completed_line c p ++ nl) = MCompleted (completed_line c p).
Proof.
  intros P. unfold classify. rewrite pop_line_nl. unfold completed_line.
  rewrite (differ_starts_with _ _ P), starts_with_app. reflexivity.
Qed.

Lemma reader_noise_prefix c ns rest : Forall (fun l => is_noise c l = true) ns ->
  reader c (map noise_read ns ++ rest) = map MLine ns ++ reader c rest.
Proof.
  induction 1 as [|l ns Hl Hns IH]; [reflexivity|].
  cbn [map app reader noise_read]. rewrite (classify_noise c l Hl), IH. reflexivity.
Qed.

Lemma reader_transcript c v p n1 n2 rest :
  prefixes_ok c -> Forall (fun l => is_noise c l = true) n1 -> Forall (fun l => is_noise c l = true) n2 ->
  reader c (transcript c v p n1 n2 rest) =
    map MLine n1 ++ MStarted (started_line c v) :: map MLine n2 ++ [MCompleted (completed_line c p)].
Proof.
  intros P H1 H2. unfold transcript. rewrite reader_noise_prefix by assumption.
  cbn [reader]. rewrite classify_started. rewrite reader_noise_prefix by assumption.
  cbn [reader]. rewrite classify_completed by assumption. reflexivity.
Qed.

Lemma good_noise_prefix c v p b ns t : Forall (fun l => is_noise c l = true) ns ->
  good_stream c v p b t -> good_stream c v p b (map MLine ns ++ t).
Proof. induction 1; cbn [map app]; [auto | intros G; constructor; auto]. Qed.

Lemma good_transcript c v p n1 n2 :
  Forall (fun l => is_noise c l = true) n1 -> Forall (fun l => is_noise c l = true) n2 ->
  good_stream c v p false (map MLine n1 ++ MStarted (started_line c v) :: map MLine n2 ++ [MCompleted (completed_line c p)]).
Proof.
  intros H1 H2. apply good_noise_prefix; [assumption|]. constructor. apply good_noise_prefix; [assumption|]. constructor.
Qed.

(* C15, handshake: for every causally possible arrival order of the two streams of a doer that
   announces [v], with noise anywhere, the launch succeeds with the doer's port exactly when [v] is
   our version; exactly one key is written and that happens while processing the stdout Started
   line; a doer of any other version gets no key. *)
Lemma handshake_theorem c v p no1 no2 ne1 ne2 rest_o rest_e evs :
  prefixes_ok c -> p < 65536 ->
  Forall (fun l => is_noise c l = true) no1 -> Forall (fun l => is_noise c l = true) no2 ->
  Forall (fun l => is_noise c l = true) ne1 -> Forall (fun l => is_noise c l = true) ne2 ->
  interleave (reader c (transcript c v p no1 no2 rest_o)) (reader c (transcript c v p ne1 ne2 rest_e)) evs ->
  causal evs = true ->
  (v = own_version c ->
     exists j, run c true evs = (LSuccess p O, [j]) /\
               nth_error evs j = Some (Stdout, MStarted (started_line c v))) /\
  (v <> own_version c -> run c true evs = (LIncompat v, [])).
Proof.
  intros P Hp Ho1 Ho2 He1 He2 Hil Hc.
  rewrite !reader_transcript in Hil by assumption.
  pose proof (good_transcript c v p no1 no2 Ho1 Ho2) as Go.
  pose proof (good_transcript c v p ne1 ne2 He1 He2) as Ge.
  split; intros Hv.
  - destruct (handshake_ok c v p Hv Hp _ _ _ Hil false false O (or_intror Go) (or_intror Ge)
                (or_introl (good_stream_nonempty _ _ _ _ _ Go)) Hc) as [ws [R [_ W]]].
    destruct (W eq_refl) as [j [-> [_ Hn]]]. rewrite Nat.sub_0_r in Hn.
    rewrite (is_nil_good _ _ _ _ _ Go), (is_nil_good _ _ _ _ _ Ge) in R.
    exists j. split; [exact R | exact Hn].
  - unfold run. eapply handshake_mismatch; eauto.
Qed.

(* ---------- corollaries for whole runs ---------- *)
Lemma run_key_only_after_match c wok evs r ws :
  run c wok evs = (r, ws) -> forall j, In j ws ->
  exists l, nth_error evs j = Some (Stdout, MStarted l) /\ version_of c l = own_version c.
Proof.
  intros H j Hj. destruct (key_only_after_match c wok evs hs_init O r ws H j Hj) as [_ [l [N V]]].
  rewrite Nat.sub_0_r in N. eauto.
Qed.

Lemma run_no_key_on_mismatch c wok pre s l post :
  Forall not_started pre -> version_of c l <> own_version c ->
  let r := run c wok (pre ++ (s, MStarted l) :: post) in
  snd r = [] /\
  (fst r = LIncompat (version_of c l) \/ fst r = LNotPresent \/ fst r = LCommErr) /\
  (Forall harmless pre -> fst r = LIncompat (version_of c l)).
Proof. intros P V. apply no_key_on_mismatch_gen; auto. Qed.
