(* Proofs about Model/Histogram.v and Model/Meta.v (C18). *)
From RJ Require Import Base.Prelude Model.Chunk Model.Bincode Model.Progress Model.Histogram Model.Meta
  Proofs.ChunkProofs Proofs.BincodeProofs.
From Coq Require Import String.
Local Open Scope N_scope.

(* ---------------------------------------------------------------------------------------------- *)
(* histogram *)
Fixpoint hsum (h : list N) : N := match h with [] => 0 | x :: t => x + hsum t end.

Lemma lenN_repeat {A} (x : A) n : lenN (repeat x n) = N.of_nat n.
Proof. rewrite lenN_spec, repeat_length. reflexivity. Qed.

Lemma hsum_app a b : hsum (a ++ b) = hsum a + hsum b.
Proof. induction a as [|x a IH]; cbn [app hsum]; lia. Qed.
Lemma hsum_zeros n : hsum (repeat 0 n) = 0.
Proof. induction n as [|n IH]; cbn [repeat hsum]; lia. Qed.

(* after the while loop the vector is longer than the index - whatever the index is *)
Lemma grow_spec h b : b < lenN (grow h b) /\ lenN (grow h b) = N.max (lenN h) (b + 1) /\ hsum (grow h b) = hsum h.
Proof.
  unfold grow. rewrite lenN_app, lenN_repeat, hsum_app, hsum_zeros, N2Nat.id. lia.
Qed.

Lemma elem_le_hsum h x : In x h -> x <= hsum h.
Proof.
  induction h as [|y h IH]; intros Hin; [destruct Hin|]. cbn [hsum].
  destruct Hin as [->|Hin]; [lia | specialize (IH Hin); lia].
Qed.

Lemma incr_at_ok : forall h i, i < lenN h -> hsum h + 1 < u32_lim ->
  exists h', incr_at h i = Ok h' /\ lenN h' = lenN h /\ hsum h' = hsum h + 1.
Proof.
  induction h as [|x t IH]; intros i Hi Hs.
  - rewrite lenN_nil in Hi. lia.
  - cbn [incr_at]. rewrite lenN_cons in Hi. cbn [hsum] in Hs.
    destruct (i =? 0) eqn:E.
    + destruct (x + 1 <? u32_lim) eqn:E2; [|lia].
      eexists. split; [reflexivity|]. rewrite !lenN_cons. cbn [hsum]. lia.
    + destruct (IH (N.pred i)) as (t' & H1 & H2 & H3); [lia|lia|].
      rewrite H1. cbn [obind]. eexists. split; [reflexivity|].
      rewrite !lenN_cons. cbn [hsum]. lia.
Qed.

Lemma hist_add_at_ok h b : hsum h + 1 < u32_lim ->
  exists h', hist_add_at h b = Ok h' /\ b < lenN h' /\ lenN h' = N.max (lenN h) (b + 1) /\ hsum h' = hsum h + 1.
Proof.
  intros Hs. destruct (grow_spec h b) as (G1 & G2 & G3). unfold hist_add_at.
  destruct (incr_at_ok (grow h b) b G1) as (h' & H1 & H2 & H3); [lia|].
  exists h'. split; [assumption|]. lia.
Qed.

(* For every index function and every sequence of values (fewer than 2^32 - 1 of them): no add panics. *)
Theorem hist_adds_ok (bucket_of : N -> N) : forall vals h, hsum h + lenN vals < u32_lim ->
  exists h', hist_adds bucket_of h vals = Ok h' /\ hsum h' = hsum h + lenN vals /\
             (vals <> [] -> h' <> []).
Proof.
  induction vals as [|v t IH]; intros h Hs; cbn [hist_adds].
  - exists h. rewrite lenN_nil. split; [reflexivity|]. split; [lia|congruence].
  - rewrite lenN_cons in Hs.
    destruct (hist_add_at_ok h (bucket_of v)) as (h1 & H1 & Hb & _ & H3); [lia|].
    rewrite H1. cbn [obind].
    destruct (IH h1) as (h' & H4 & H5 & H6); [lia|].
    exists h'. split; [assumption|]. rewrite lenN_cons. split; [lia|].
    intros _ ->. cbn [hsum] in H5. lia.
Qed.

Lemma list_max_pos h : 0 < hsum h -> 0 < list_max h.
Proof.
  induction h as [|x t IH]; [cbn [hsum]; lia|]. change (list_max (x :: t)) with (N.max x (list_max t)). cbn [hsum]. intros H.
  destruct (N.eq_dec x 0) as [->|Hx]; [|lia]. specialize (IH ltac:(lia)). lia.
Qed.

(* Display never panics, and when it gets to the division the maximum is positive for every vector
   that some sequence of adds can produce. *)
Theorem hist_display_total h : exists lines, hist_display h = Ok lines.
Proof. destruct h as [|x t]; unfold hist_display; cbn [is_nil max_opt]; eexists; reflexivity. Qed.

Theorem hist_display_max_positive (bucket_of : N -> N) vals h :
  lenN vals < u32_lim -> hist_adds bucket_of [] vals = Ok h -> h <> [] ->
  exists m, max_opt h = Some m /\ m = list_max h /\ 0 < m.
Proof.
  intros Hl Ha Hne.
  destruct (hist_adds_ok bucket_of vals []) as (h' & H1 & H2 & _); [cbn [hsum]; lia|].
  rewrite Ha in H1. injection H1 as <-. cbn [hsum] in H2.
  destruct vals as [|v t].
  - cbn [hist_adds] in Ha. injection Ha as <-. congruence.
  - rewrite lenN_cons in H2. destruct h as [|x r]; [congruence|]. cbn [max_opt].
    exists (list_max (x :: r)). split; [reflexivity|]. split; [reflexivity|]. apply list_max_pos. lia.
Qed.

(* the ideal index of a u64 is at most 19: the vector never grows beyond 20 buckets *)
Lemma log10_fuel_bound : forall f k v, v < 10 ^ N.of_nat (S k) -> log10_fuel f v <= N.of_nat k.
Proof.
  induction f as [|f IH]; intros k v Hv; cbn [log10_fuel]; [lia|].
  destruct (v <? 10) eqn:E; [lia|].
  destruct k as [|k].
  - change (10 ^ N.of_nat 1) with 10 in Hv. lia.
  - rewrite Nat2N.inj_succ, N.pow_succ_r' in Hv.
    assert (Hd : v / 10 < 10 ^ N.of_nat (S k)) by (apply N.div_lt_upper_bound; lia).
    specialize (IH k (v / 10) Hd). rewrite (Nat2N.inj_succ k). lia.
Qed.

Theorem bucket_ideal_u64 v : v <= u64_max -> bucket_ideal v <= 19.
Proof.
  intros Hv. unfold bucket_ideal. apply (log10_fuel_bound _ 19%nat).
  unfold u64_max in Hv. change (10 ^ N.of_nat 20) with 100000000000000000000. lia.
Qed.

Example bucket_ideal_examples :
  map bucket_ideal [0; 1; 9; 10; 99; 100; 999; 1000; 999999; 1000000; 18446744073709551615]
  = [0; 0; 0; 1; 1; 2; 2; 3; 5; 6; 19].
Proof. vm_compute. reflexivity. Qed.

Example hist_example :
  obind (hist_adds bucket_ideal [] [0; 5; 1500; 1500; 20000000]) (fun h => obind (hist_display h) (fun l => Ok (h, l)))
  = Ok ([2; 0; 0; 2; 0; 0; 0; 1],
        [plit "#  #    "%string; plit "#  #    "%string; plit "#  #   #"%string; plit "#  #   #"%string; plit "#  #   #"%string; plit "012K45M7"%string]).
Proof. vm_compute. reflexivity. Qed.

(* ---------------------------------------------------------------------------------------------- *)
(* entry metadata *)

(* Every entry that the repaired decision lets through can be serialised ... *)
Theorem meta_ok_encodable m d : entry_of_meta true m = Ok d -> details_encodable d = true.
Proof.
  unfold entry_of_meta. destruct (m_type m).
  - intros [= <-]. reflexivity.
  - destruct (m_mtime m) as [t|]; [|discriminate]. cbn [andb].
    destruct (time_encodable t) eqn:E; cbn [negb]; [|discriminate].
    intros [= <-]. exact E.
  - destruct (m_link m) as [kt|]; [|discriminate]. intros [= <-]. reflexivity.
  - discriminate.
Qed.

(* ... hence computing the size of its Entry / RootDetails message cannot panic, nor can the size of
   the Error message sent instead when the decision is an error: for every lstat result. *)
Theorem send_listed_never_panics path m : is_panic (send_listed true path m) = false.
Proof.
  unfold send_listed. destruct (entry_of_meta true m) as [d|e|p] eqn:E.
  - rewrite send_size_panics_iff_response. cbn [response_encodable].
    now rewrite (meta_ok_encodable m d E).
  - rewrite send_size_panics_iff_response. reflexivity.
  - unfold entry_of_meta in E. destruct (m_type m); try discriminate.
    + destruct (m_mtime m) as [t|]; [|discriminate]. destruct (true && negb (time_encodable t)); discriminate.
    + destruct (m_link m); discriminate.
Qed.

Theorem send_root_never_panics m diff sep : is_panic (send_root true m diff sep) = false.
Proof.
  unfold send_root. destruct (entry_of_meta true m) as [d|e|p] eqn:E.
  - rewrite send_size_panics_iff_response. cbn [response_encodable opt_ok].
    now rewrite (meta_ok_encodable m d E).
  - rewrite send_size_panics_iff_response. reflexivity.
  - unfold entry_of_meta in E. destruct (m_type m); try discriminate.
    + destruct (m_mtime m) as [t|]; [|discriminate]. destruct (true && negb (time_encodable t)); discriminate.
    + destruct (m_link m); discriminate.
Qed.

(* Every command whose times are times of listed entries: computing its size cannot panic. *)
Theorem command_from_listed_never_panics listed c :
  Forall (fun d => exists m, entry_of_meta true m = Ok d) listed ->
  cmd_from_listed listed c -> is_panic (send_size_command c) = false.
Proof.
  intros HL Hc. rewrite send_size_panics_iff_command.
  destruct c as [r|f| |p|p data [t|] more|p k t|p|p|p|p k| |mk| ]; cbn [command_encodable opt_ok negb]; try reflexivity.
  cbn [cmd_from_listed] in Hc. destruct Hc as (sz & Hin).
  destruct (proj1 (Forall_forall _ _) HL _ Hin) as (m & Hm).
  pose proof (meta_ok_encodable m _ Hm) as E. cbn [details_encodable] in E. now rewrite E.
Qed.

(* F8: the decision before the repair lets a file dated before the epoch through, and sending it panics. *)
Theorem pre_epoch_unfixed_refuted :
  let m := mkMeta FTFile (Some (mkTime (-315619200) 0)) 3 None in      (* 1960-01-01 *)
  entry_of_meta false m = Ok (EDFile (mkTime (-315619200) 0) 3) /\
  is_panic (send_listed false [] m) = true /\
  is_panic (send_root false m false (wlit "/"%string)) = true /\
  entry_of_meta true m = Err e_pre_epoch /\
  is_panic (send_listed true [] m) = false.
Proof. cbn zeta. repeat split; vm_compute; reflexivity. Qed.

(* non-vacuity: a file at the epoch, one nanosecond after it, far in the future; special files *)
Example meta_examples :
  entry_of_meta true (mkMeta FTFile (Some (mkTime 0 0)) 0 None) = Ok (EDFile (mkTime 0 0) 0) /\
  entry_of_meta true (mkMeta FTFile (Some (mkTime 0 1)) 5 None) = Ok (EDFile (mkTime 0 1) 5) /\
  entry_of_meta true (mkMeta FTFile (Some (mkTime (-1) 999999999)) 5 None) = Err e_pre_epoch /\
  entry_of_meta true (mkMeta FTFile (Some (mkTime 9223372036854775807 999999999)) 5 None)
    = Ok (EDFile (mkTime 9223372036854775807 999999999) 5) /\
  entry_of_meta true (mkMeta FTOther None 0 None) = Err e_file_type /\
  entry_of_meta true (mkMeta FTDir None 0 None) = Ok EDFolder /\
  entry_of_meta true (mkMeta FTSymlink None 0 (Some (SKUnknown, STNormalized (wlit "x"%string)))) = Ok (EDSymlink SKUnknown (STNormalized (wlit "x"%string))).
Proof. repeat split; vm_compute; reflexivity. Qed.
