(* C04 composed: a successful sync without skips, run again, does nothing. *)
From RJ Require Import Base.Prelude Base.OrderedPlan Model.Settings Model.Core Model.Fs Model.Sync
  Spec.PlanSpec Spec.Mirror Proofs.ExecProofs Proofs.MirrorProofs Proofs.IdemProofs.

Section IdemMain.
Variable now_z : N -> Z.
Variable incl : path -> bool.
Variable normalize : str -> target.
Variable chunker : str -> list str.
Hypothesis chunker_ok : forall d, chunker d <> [] /\ concat (chunker d) = d.
Variable dest_fl : flavour.

Notation sync_one := (sync_one now_z normalize chunker).
Notation valid_listing := (valid_listing now_z incl normalize).

Theorem sync_twice cfg S D ans bits ls ld ft ans2 bits2 ld2 ft2 :
  valid_listing S ls -> valid_listing (d_fs D) ld ->
  wf_fs S -> wf_fs (d_fs D) -> src_times_set S -> links_roundtrip normalize dest_fl S -> d_open D = None ->
  let r := sync_one cfg S D ans bits ls ld ft in
  r_ok r = true -> r_skipped r = [] -> r_root_skipped r = false -> cf_dry cfg = false ->
  no_through (d_events (r_dest r)) -> cf_fl cfg = dest_fl ->
  b_same (cf_b cfg) = BSkip ->
  valid_listing (d_fs (r_dest r)) ld2 ->
  let r2 := sync_one cfg S (r_dest r) ans2 bits2 ls ld2 ft2 in
  r_ok r2 = true /\ r_dest r2 = r_dest r /\ filter mutating (r_dest_trace r2) = [] /\
  (forall p, ~ In (CGetFileContent p) (r_src_trace r2)) /\ r_prompts r2 = [] /\ stats_nothing (r_stats r2) = true.
Proof.
  intros HvS HvD HwS HwD Hts Hlk Hop. cbv zeta. intros Hok Hsk Hrs Hdry Hnt Hfl Hsame HvD2.
  pose proof (mirror_theorem now_z incl normalize chunker chunker_ok dest_fl cfg S D ans bits ls ld ft
                HvS HvD HwS Hts Hlk Hop Hok Hsk Hrs Hdry Hnt Hfl) as HM.
  set (r := sync_one cfg S D ans bits ls ld ft) in *.
  assert (Hroot : fget S [] <> None).
  { intro E. unfold r, Sync.sync_one in Hok. rewrite E in Hok. cbn in Hok. discriminate. }
  destruct (fget S []) as [sn|] eqn:ErS; [|congruence].
  assert (HmR : mirror_at now_z normalize (cf_diff cfg) dest_fl S (d_fs D) (d_fs (r_dest r)) []).
  { apply (proj1 (HM [])). left. split; [left; reflexivity|congruence]. }
  assert (HneD : fget (d_fs (r_dest r)) [] <> None) by (eapply mirror_at_some; eauto; congruence).
  destruct (fget (d_fs (r_dest r)) []) as [dn|] eqn:ErD; [|congruence].
  destruct (mirror_at_in_sync now_z normalize (cf_diff cfg) dest_fl S (d_fs D) (d_fs (r_dest r)) [] sn dn HmR ErS ErD) as [Hnd _].
  eapply (empty_plan_noop now_z incl normalize chunker cfg S (r_dest r) ans2 bits2 ls ld2 ft2 sn dn); eauto.
  rewrite Hsame. cbn [beh_eqb].
  eapply in_sync_plan_empty; eauto. congruence.
Qed.

(* the same, with the second run started by a fresh doer on the tree the first one left *)
Theorem sync_twice_from cfg S D ans bits ls ld ft D2 ans2 bits2 ld2 ft2 :
  valid_listing S ls -> valid_listing (d_fs D) ld ->
  wf_fs S -> wf_fs (d_fs D) -> src_times_set S -> links_roundtrip normalize dest_fl S -> d_open D = None ->
  let r := sync_one cfg S D ans bits ls ld ft in
  r_ok r = true -> r_skipped r = [] -> r_root_skipped r = false -> cf_dry cfg = false ->
  no_through (d_events (r_dest r)) -> cf_fl cfg = dest_fl ->
  b_same (cf_b cfg) = BSkip ->
  d_fs D2 = d_fs (r_dest r) ->
  valid_listing (d_fs D2) ld2 ->
  let r2 := sync_one cfg S D2 ans2 bits2 ls ld2 ft2 in
  r_ok r2 = true /\ r_dest r2 = D2 /\ filter mutating (r_dest_trace r2) = [] /\
  (forall p, ~ In (CGetFileContent p) (r_src_trace r2)) /\ r_prompts r2 = [] /\ stats_nothing (r_stats r2) = true.
Proof.
  intros HvS HvD HwS HwD Hts Hlk Hop. cbv zeta. intros Hok Hsk Hrs Hdry Hnt Hfl Hsame Hfs HvD2.
  pose proof (mirror_theorem now_z incl normalize chunker chunker_ok dest_fl cfg S D ans bits ls ld ft
                HvS HvD HwS Hts Hlk Hop Hok Hsk Hrs Hdry Hnt Hfl) as HM.
  set (r := sync_one cfg S D ans bits ls ld ft) in *.
  assert (Hroot : fget S [] <> None).
  { intro E. unfold r, Sync.sync_one in Hok. rewrite E in Hok. cbn in Hok. discriminate. }
  destruct (fget S []) as [sn|] eqn:ErS; [|congruence].
  assert (HmR : mirror_at now_z normalize (cf_diff cfg) dest_fl S (d_fs D) (d_fs (r_dest r)) []).
  { apply (proj1 (HM [])). left. split; [left; reflexivity|congruence]. }
  assert (HneD : fget (d_fs (r_dest r)) [] <> None) by (eapply mirror_at_some; eauto; congruence).
  destruct (fget (d_fs (r_dest r)) []) as [dn|] eqn:ErD; [|congruence].
  destruct (mirror_at_in_sync now_z normalize (cf_diff cfg) dest_fl S (d_fs D) (d_fs (r_dest r)) [] sn dn HmR ErS ErD) as [Hnd _].
  eapply (empty_plan_noop now_z incl normalize chunker cfg S D2 ans2 bits2 ls ld2 ft2 sn dn); eauto.
  - rewrite Hfs. exact ErD.
  - rewrite Hsame. cbn [beh_eqb]. rewrite Hfs in *.
    eapply in_sync_plan_empty; eauto. congruence.
Qed.

End IdemMain.
