(* C04: once the destination mirrors the source, the same sync plans nothing and sends no change. *)
From RJ Require Import Base.Prelude Base.OrderedPlan Model.Settings Model.Core Model.Fs Model.Sync
  Spec.PlanSpec Spec.Mirror Proofs.PlanCProofs Proofs.FsProofs Proofs.SyncProofs Proofs.PathLemmas Proofs.MirrorProofs.

Section Idem.
Variable now_z : N -> Z.
Variable incl : path -> bool.
Variable normalize : str -> target.
Variable chunker : str -> list str.
Variable diff : bool.
Variable fl : flavour.

Notation entry_of := (entry_of now_z normalize).
Notation valid_listing := (valid_listing now_z incl normalize).
Notation side_listing := (side_listing now_z normalize).
Notation takes_part := (takes_part incl).
Notation mirror := (mirror now_z incl normalize diff fl).
Notation mirror_at := (mirror_at now_z normalize diff fl).

Lemma mirror_at_some S D D' p : mirror_at S D D' p -> fget S p <> None -> fget D' p <> None.
Proof.
  unfold Mirror.mirror_at. destruct (fget S p) as [[m b| |t k]|]; intros H Hne; try congruence.
  - destruct H as [->|(b0 & m0 & E & _ & ->)]; congruence.
  - destruct H as (t' & k' & -> & _). discriminate.
Qed.

Lemma mirror_at_folder S D D' p : mirror_at S D D' p -> fget S p <> None -> (fget S p = Some NFolder <-> fget D' p = Some NFolder).
Proof.
  unfold Mirror.mirror_at. destruct (fget S p) as [[m b| |t k]|]; intros H Hne; try congruence.
  - split; [discriminate|]. destruct H as [->|(b0 & m0 & E & _ & ->)]; [discriminate|rewrite E; discriminate].
  - tauto.
  - split; [discriminate|]. destruct H as (t' & k' & -> & _). discriminate.
Qed.

(* entries compatible and up to date *)
Lemma mirror_at_in_sync S D D' p ns nd :
  mirror_at S D D' p -> fget S p = Some ns -> fget D' p = Some nd ->
  needs_delete diff (entry_of ns) (entry_of nd) = false /\ needs_copy true (entry_of ns) (entry_of nd) = None.
Proof.
  unfold Mirror.mirror_at. intros H ES ED. rewrite ES in H. destruct ns as [m b| |t k].
  - assert (exists m' b', nd = NFile m' b' /\ stamp_z now_z m' = stamp_z now_z m) as (m' & b' & -> & Em).
    { destruct H as [H|(b0 & m0 & E & Em & H)]; [rewrite H in ED; inversion ED; eauto|].
      rewrite H, E in ED. inversion ED; subst. eauto. }
    cbn [Fs.entry_of needs_delete needs_copy]. rewrite Em, Z.compare_refl. auto.
  - rewrite H in ED. inversion ED; subst. auto.
  - destruct H as (t' & k' & E & Et & Ek). rewrite E in ED. inversion ED; subst.
    cbn [Fs.entry_of needs_delete needs_copy]. rewrite Et.
    assert (Hte : target_eqb (normalize t) (normalize t) = true) by (destruct (normalize t); cbn; apply str_eqb_refl).
    rewrite Hte. cbn [negb]. split; [|reflexivity].
    destruct Ek as [ -> | -> ]; [rewrite andb_false_r; reflexivity|].
    assert (Hk : skind_eqb k k = true) by (destruct k; reflexivity). rewrite Hk. reflexivity.
Qed.

Lemma transfer_A S D D' : mirror S D D' -> forall p,
  takes_part S p /\ fget S p <> None -> takes_part D' p /\ fget D' p <> None.
Proof.
  intros HM p [Ht Hne].
  assert (Hm : forall q, takes_part S q /\ fget S q <> None -> mirror_at S D D' q) by (intros q Hq; apply (proj1 (HM q)); left; exact Hq).
  split; [|eapply mirror_at_some; eauto].
  destruct Ht as [->|[Hr Hv]]; [left; reflexivity|]. right.
  assert (HrD : fget D' [] = Some NFolder).
  { apply (mirror_at_folder S D D' []); [apply Hm; split; [left; reflexivity|congruence] | congruence | exact Hr]. }
  split; [exact HrD|].
  apply visible_iff in Hv as (Hp & Hi & Hq). apply visible_iff. split; [exact Hp|]. split; [exact Hi|].
  intros q Hq1 Hq2. destruct (Hq q Hq1 Hq2) as [Hiq Hfq]. split; [exact Hiq|].
  apply (mirror_at_folder S D D' q); [|congruence|exact Hfq].
  apply Hm. split; [|congruence]. right. split; [exact Hr|].
  apply visible_iff. split; [exact Hq1|]. split; [exact Hiq|].
  intros q' Hq'1 Hq'2. apply Hq; [exact Hq'1|]. eapply strict_prefix_trans; eauto.
Qed.

Lemma transfer_B S D D' : mirror S D D' -> wf_fs S -> wf_fs D -> fget S [] <> None -> forall n p, length p = n ->
  takes_part D' p /\ fget D' p <> None -> takes_part S p /\ fget S p <> None.
Proof.
  intros HM HwS HwD Hroot.
  assert (Hm : forall q, takes_part S q /\ fget S q <> None -> mirror_at S D D' q) by (intros q Hq; apply (proj1 (HM q)); left; exact Hq).
  induction n as [n IH] using lt_wf_ind. intros p Hlen [Ht Hne].
  destruct Ht as [->|[HrD Hv]]; [split; [left; reflexivity|exact Hroot]|].
  apply visible_iff in Hv as (Hp & Hi & Hq).
  (* every non-root strict prefix of p takes part in S and is a folder there *)
  assert (Hpre : forall q, q <> [] -> is_strict_prefix q p = true -> takes_part S q /\ fget S q = Some NFolder).
  { intros q Hq1 Hq2. destruct (Hq q Hq1 Hq2) as [Hiq HfD].
    assert (Hlt : length q < n).
    { apply strict_prefix_iff in Hq2 as (k & Hk & ->). rewrite firstn_length. lia. }
    assert (HtD : takes_part D' q /\ fget D' q <> None).
    { split; [|congruence]. right. split; [exact HrD|]. apply visible_iff. split; [exact Hq1|]. split; [exact Hiq|].
      intros q' Hq'1 Hq'2. apply Hq; [exact Hq'1|]. eapply strict_prefix_trans; eauto. }
    destruct (IH (length q) Hlt q eq_refl HtD) as [HtS HneS]. split; [exact HtS|].
    apply (mirror_at_folder S D D' q); [apply Hm; auto|exact HneS|exact HfD]. }
  assert (HrS : fget S [] = Some NFolder).
  { destruct (IH 0 ltac:(destruct p; [congruence|cbn in Hlen; lia]) [] eq_refl) as [_ HneS]; [split; [left; reflexivity|congruence]|].
    apply (mirror_at_folder S D D' []); [apply Hm; split; [left; reflexivity|exact HneS]|exact HneS|exact HrD]. }
  assert (HtS : takes_part S p).
  { right. split; [exact HrS|]. apply visible_iff. split; [exact Hp|]. split; [exact Hi|].
    intros q Hq1 Hq2. destruct (Hq q Hq1 Hq2) as [Hiq _]. split; [exact Hiq|]. apply Hpre; assumption. }
  split; [exact HtS|].
  destruct (fget S p) as [ns|] eqn:ES; [discriminate|]. exfalso.
  (* S has nothing at p but D' has: p must have been a destination entry, which the mirror removes *)
  destruct (HM p) as [H1 H2].
  assert (HD : takes_part D p /\ fget D p <> None \/ ~ (takes_part D p /\ fget D p <> None)).
  { destruct (fget D p) as [nd|] eqn:ED; [|right; intros [_ X]; congruence].
    left. split; [|discriminate]. right.
    assert (HrD0 : fget D [] = Some NFolder).
    { apply (HwD _ _ ED). apply nil_strict_prefix. exact Hp. }
    split; [exact HrD0|]. apply visible_iff. split; [exact Hp|]. split; [exact Hi|].
    intros q Hq1 Hq2. destruct (Hq q Hq1 Hq2) as [Hiq _]. split; [exact Hiq|]. apply (HwD _ _ ED). exact Hq2. }
  destruct HD as [HD|HD].
  - specialize (H1 (or_intror HD)). unfold Mirror.mirror_at in H1. rewrite ES in H1. congruence.
  - assert (HnS : ~ (takes_part S p /\ fget S p <> None)) by (intros [_ X]; congruence).
    specialize (H2 HnS HD). rewrite H2 in Hne. apply HD. split; [|exact Hne].
    destruct (fget D p) as [nd|] eqn:ED; [|congruence]. right.
    assert (HrD0 : fget D [] = Some NFolder) by (apply (HwD _ _ ED); apply nil_strict_prefix; exact Hp).
    split; [exact HrD0|]. apply visible_iff. split; [exact Hp|]. split; [exact Hi|].
    intros q Hq1 Hq2. destruct (Hq q Hq1 Hq2) as [Hiq _]. split; [exact Hiq|]. apply (HwD _ _ ED). exact Hq2.
Qed.

Lemma flat_map_nil {A B} (f : A -> list B) l : (forall x, In x l -> f x = []) -> flat_map f l = [].
Proof. induction l as [|a l IH]; intros H; cbn; [reflexivity|]. rewrite H by (left; reflexivity). apply IH. intros; apply H; right; assumption. Qed.

(* the second plan is empty *)
Theorem in_sync_plan_empty S D D' ls ld' :
  mirror S D D' -> wf_fs S -> wf_fs D -> fget S [] <> None ->
  valid_listing S ls -> valid_listing D' ld' ->
  plan_spec diff true (side_listing S ls) (side_listing D' ld') = mkActions [] [].
Proof.
  intros HM HwS HwD Hroot HvS HvD.
  destruct (side_listing_spec now_z incl normalize S ls HvS) as (HndS & HeS & HkS).
  destruct (side_listing_spec now_z incl normalize D' ld' HvD) as (HndD & HeD & HkD).
  assert (Hm : forall q, takes_part S q /\ fget S q <> None -> mirror_at S D D' q) by (intros q Hq; apply (proj1 (HM q)); left; exact Hq).
  unfold plan_spec. f_equal.
  - replace (flat_map (delete_dec diff (side_listing S ls)) (side_listing D' ld')) with (@nil (path * (entry * dreason))); [reflexivity|].
    symmetry. apply flat_map_nil. intros [p e] Hin.
    destruct (HeD _ _ Hin) as (nd & ED & ->).
    assert (HtD : takes_part D' p /\ fget D' p <> None) by (apply HkD; change p with (fst (p, entry_of nd)); apply in_map; exact Hin).
    destruct (transfer_B S D D' HM HwS HwD Hroot (length p) p eq_refl HtD) as [HtS HneS].
    destruct (fget S p) as [ns|] eqn:ES; [|congruence].
    assert (HinS : In p (lkeys (side_listing S ls))) by (apply HkS; split; [exact HtS|congruence]).
    apply in_map_iff in HinS as ([p' e'] & Hp' & HinS). cbn [fst] in Hp'. subst p'.
    destruct (HeS _ _ HinS) as (ns' & ES' & ->). rewrite ES in ES'. inversion ES'; subst ns'.
    unfold delete_dec, delete_decision. rewrite (alookup_in _ p (entry_of ns) HndS HinS).
    assert (HneS2 : fget S p <> None) by congruence.
    destruct (mirror_at_in_sync S D D' p ns nd (Hm p (conj HtS HneS2)) ES ED) as [-> _]. reflexivity.
  - apply flat_map_nil. intros [p e] Hin.
    destruct (HeS _ _ Hin) as (ns & ES & ->).
    assert (HtS : takes_part S p /\ fget S p <> None) by (apply HkS; change p with (fst (p, entry_of ns)); apply in_map; exact Hin).
    destruct (transfer_A S D D' HM p HtS) as [HtD HneD].
    destruct (fget D' p) as [nd|] eqn:ED; [|congruence].
    assert (HinD : In p (lkeys (side_listing D' ld'))) by (apply HkD; split; [exact HtD|congruence]).
    apply in_map_iff in HinD as ([p' e'] & Hp' & HinD). cbn [fst] in Hp'. subst p'.
    destruct (HeD _ _ HinD) as (nd' & ED' & ->). rewrite ED in ED'. inversion ED'; subst nd'.
    unfold copy_dec, copy_decision. rewrite (alookup_in _ p (entry_of nd) HndD HinD).
    destruct (mirror_at_in_sync S D D' p ns nd (Hm p HtS) ES ED) as [-> ->]. reflexivity.
Qed.


(* a sync whose plan is empty does nothing *)
Theorem empty_plan_noop cfg S D2 ans bits ls ld2 ft sn dn :
  fget S [] = Some sn -> fget (d_fs D2) [] = Some dn ->
  needs_delete (cf_diff cfg) (entry_of sn) (entry_of dn) = false ->
  valid_listing S ls -> valid_listing (d_fs D2) ld2 ->
  plan_spec (cf_diff cfg) (beh_eqb (b_same (cf_b cfg)) BSkip) (side_listing S ls) (side_listing (d_fs D2) ld2) = mkActions [] [] ->
  let r := sync_one now_z normalize chunker cfg S D2 ans bits ls ld2 ft in
  r_ok r = true /\ r_dest r = D2 /\ filter mutating (r_dest_trace r) = [] /\
  (forall p, ~ In (CGetFileContent p) (r_src_trace r)) /\ r_prompts r = [] /\ stats_nothing (r_stats r) = true.
Proof.
  intros ErS ErD Hnd HvS HvD Hplan. cbv zeta. unfold Sync.sync_one.
  destruct (side_listing_spec now_z incl normalize S ls HvS) as (HndS & _ & _).
  destruct (side_listing_spec now_z incl normalize (d_fs D2) ld2 HvD) as (HndD & _ & _).
  unfold Mirror.side_listing in HndS, HndD, Hplan.
  rewrite ErS, ErD in *. cbn [option_map]. rewrite Hnd.
  match goal with |- context [actions_of ?d ?s ?a] => set (arr := a) end.
  set (Ls := ([], entry_of sn) :: match sn with NFolder => ls | _ => [] end) in *.
  set (Ld := ([], entry_of dn) :: match dn with NFolder => ld2 | _ => [] end) in *.
  assert (Hsrcs : srcs path entry arr = Ls).
  { unfold arr, Ls. rewrite srcs_cons_src. f_equal. rewrite srcs_app_c.
    match goal with |- context [interleave bits ?a ?b] => destruct (interleave_projections bits a b) as [I1 _]; rewrite I1 end.
    cbn. destruct sn; reflexivity. }
  assert (Hdests : dests path entry arr = Ld).
  { unfold arr, Ld. rewrite dests_cons_src, dests_app_c.
    match goal with |- context [interleave bits ?a ?b] => destruct (interleave_projections bits a b) as [_ I2]; rewrite I2 end.
    cbn. destruct dn; reflexivity. }
  rewrite (actions_of_spec (cf_diff cfg) _ arr) by (rewrite ?Hsrcs, ?Hdests; assumption).
  rewrite Hsrcs, Hdests, Hplan.
  assert (Hc : forall b a, confirm b a (mkActions [] []) = CDone (mkActions [] []) [] b a []).
  { intros [b1 b2 b3 b4] a. reflexivity. }
  rewrite Hc.
  assert (Hnoget : forall p (x : entry), ~ In (CGetFileContent p) (CSetRoot :: match x with EFolder => [CGetEntries] | _ => [] end)).
  { intros p x [H|H]; [discriminate|]. destruct x; simpl in H; intuition congruence. }
  assert (Hnomut : forall (x : entry), filter mutating (CSetRoot :: match x with EFolder => [CGetEntries] | _ => [] end) = []).
  { intros []; reflexivity. }
  destruct (cf_dry cfg); cbn [run_steps fold_left exec_steps a_delete a_copy map flat_map app
                              r_ok r_dest r_dest_trace r_src_trace r_prompts r_stats rs_d rs_sent rs_src rs_errs rs_srcfail negb plan_stats];
    (split; [reflexivity|]; split; [reflexivity|]; split; [apply Hnomut|]; split; [intros p; apply Hnoget|]; split; reflexivity).
Qed.

End Idem.
