(* The concrete instances used by the executable model satisfy the hypotheses of the general theorems:
   the growing chunker, the sorted listing function, Unix link-text normalisation. *)
From RJ Require Import Base.Prelude Base.OrderedPlan Model.Settings Model.Core Model.Fs Model.Paths Model.Sync Model.SyncTop
  Spec.PlanSpec Spec.Mirror Proofs.PlanCProofs Proofs.FsProofs Proofs.PathsProofs Proofs.PathLemmas Proofs.ExecProofs Proofs.MirrorProofs
  Proofs.QuietProofs Proofs.ConfinedMain.

(* ---- chunker ---- *)
Lemma chunk_grow_ok fuel : forall k s, chunk_grow fuel k s <> [] /\ concat (chunk_grow fuel k s) = s.
Proof.
  induction fuel as [|fuel IH]; intros k s; cbn [chunk_grow].
  - split; [discriminate|]. cbn. apply app_nil_r.
  - destruct (Nat.leb (length s) (buf_size k)).
    + split; [discriminate|]. cbn. apply app_nil_r.
    + split; [discriminate|]. cbn [concat]. destruct (IH (S k) (skipn (buf_size k) s)) as [_ ->]. apply firstn_skipn.
Qed.
Theorem chunk_real_ok d : chunk_real d <> [] /\ concat (chunk_real d) = d.
Proof. apply chunk_grow_ok. Qed.

(* ---- the sorted listing is a valid listing ---- *)
Definition unique_keys (f : fs) : Prop := NoDup (map fst f).

Lemma fget_in f p n : unique_keys f -> (In (p, n) f <-> fget f p = Some n).
Proof.
  intros Hu. split; [apply alookup_in; exact Hu | apply alookup_some_in].
Qed.

Section ListFs.
Variable now_z : N -> Z.
Variable incl : path -> bool.
Variable normalize : str -> target.
Notation entry_of := (entry_of now_z normalize).
Notation list_fs := (list_fs now_z incl normalize).

Definition pick (vis : path -> bool) (d : nat) (l : fs) : listing :=
  flat_map (fun e => if Nat.eqb (length (fst e)) d && vis (fst e) then [(fst e, entry_of (snd e))] else []) l.

Lemma pick_in vis d l p e : In (p, e) (pick vis d l) <->
  exists n, In (p, n) l /\ length p = d /\ vis p = true /\ e = entry_of n.
Proof.
  unfold pick. rewrite in_flat_map. split.
  - intros ([q n] & Hin & H). cbn [fst snd] in H.
    destruct (Nat.eqb (length q) d) eqn:El; cbn [andb] in H; [|destruct H].
    destruct (vis q) eqn:Ev; [|destruct H]. destruct H as [H|[]]. inversion H; subst.
    exists n. apply Nat.eqb_eq in El. auto.
  - intros (n & Hin & Hl & Hv & ->). exists (p, n). split; [exact Hin|]. cbn [fst snd].
    rewrite (proj2 (Nat.eqb_eq _ _) Hl), Hv. left; reflexivity.
Qed.

Lemma pick_keys_subseq vis d l : subseq path (lkeys (pick vis d l)) (map fst l).
Proof.
  unfold pick, lkeys. induction l as [|[q n] l IH]; cbn [flat_map map]; [constructor|].
  rewrite map_app. cbn [fst snd].
  destruct (Nat.eqb (length q) d && vis q); cbn [map app fst]; [apply ss_take|apply ss_skip]; exact IH.
Qed.

Lemma nodup_app {A} (l1 l2 : list A) :
  NoDup l1 -> NoDup l2 -> (forall x, In x l1 -> In x l2 -> False) -> NoDup (l1 ++ l2).
Proof.
  induction l1 as [|a l1 IH]; intros H1 H2 Hd; [exact H2|]. cbn [app].
  inversion H1; subst. constructor.
  - intros Hin. apply in_app_or in Hin as [Hin|Hin]; [contradiction|]. apply (Hd a); [left; reflexivity|exact Hin].
  - apply IH; auto. intros x Hx1 Hx2. apply (Hd x); [right; exact Hx1|exact Hx2].
Qed.

Lemma nodup_flat_map_levels (g : nat -> listing) ds :
  NoDup ds -> (forall d, NoDup (lkeys (g d))) ->
  (forall d p, In p (lkeys (g d)) -> length p = d) ->
  NoDup (lkeys (flat_map g ds)).
Proof.
  intros Hds Hg Hlen. induction ds as [|d ds IH]; cbn [flat_map]; [constructor|].
  inversion Hds as [|? ? Hn Hds']; subst. unfold lkeys in *. rewrite map_app.
  apply nodup_app; auto.
  intros p H1 H2. apply Hlen in H1. apply in_map_iff in H2 as ([q e] & <- & Hq). cbn [fst] in H1.
  apply in_flat_map in Hq as (d' & Hd' & Hq). assert (length q = d') by (apply Hlen; change q with (fst (q, e)); apply in_map; exact Hq).
  subst. contradiction.
Qed.

Lemma length_le_max_depth (f : fs) p n : In (p, n) f -> length p <= max_depth f.
Proof.
  unfold max_depth. induction f as [|[q m] f IH]; intros Hin; [contradiction|]. cbn [fold_right fst].
  destruct Hin as [H|H]; [inversion H; subst; lia | specialize (IH H); lia].
Qed.

Theorem list_fs_valid f : unique_keys f -> wf_fs f -> valid_listing now_z incl normalize f (list_fs f).
Proof.
  intros Hu Hwf.
  assert (Hshape : list_fs f = match fget f [] with
                               | Some NFolder => flat_map (fun d => pick (visible incl f) d f) (seq 1 (max_depth f))
                               | _ => [] end) by reflexivity.
  rewrite Hshape. clear Hshape.
  destruct (fget f []) as [[| |]|] eqn:Er.
  1,3,4: (split; [constructor|]; split; [intros []|]; intros p e; split; [intros []|];
          intros (Hv & n & En & _); exfalso;
          destruct p as [|c p]; [discriminate|];
          assert (X : fget f [] = Some NFolder) by
            (apply (Hwf _ _ En); unfold is_strict_prefix, path_eqb; cbn; destruct (path_eq_dec [] (c :: p)); [discriminate|reflexivity]);
          congruence).
  split; [|split].
  - apply nodup_flat_map_levels.
    + apply seq_NoDup.
    + intros d. eapply subseq_nodup; [apply pick_keys_subseq|exact Hu].
    + intros d p Hp. apply in_map_iff in Hp as ([q e] & <- & Hq). apply pick_in in Hq as (n & _ & Hl & _). exact Hl.
  - intros Hin. apply in_map_iff in Hin as ([q e] & Hq & Hin). cbn [fst] in Hq. subst q.
    apply in_flat_map in Hin as (d & Hd & Hin). apply pick_in in Hin as (n & _ & Hl & _).
    apply in_seq in Hd. cbn in Hl. lia.
  - intros p e. rewrite in_flat_map. split.
    + intros (d & Hd & Hin). apply pick_in in Hin as (n & Hin & _ & Hv & ->).
      split; [exact Hv|]. exists n. split; [apply fget_in; auto|reflexivity].
    + intros (Hv & n & En & ->). apply fget_in in En; [|exact Hu].
      exists (length p). split.
      * apply in_seq. pose proof (length_le_max_depth f p n En).
        destruct p; [discriminate|]. cbn [length] in *. lia.
      * apply pick_in. exists n. auto.
Qed.


(* the sorted listing reports parents first *)
Lemma before_levels (g : nat -> list path) : forall n s a b da db,
  (forall d p, In p (g d) -> length p = d) ->
  s <= da -> da < db -> db < s + n -> In a (g da) -> In b (g db) ->
  before a b (flat_map g (seq s n)).
Proof.
  induction n as [|n IH]; intros s a b da db Hlen H1 H2 H3 Ha Hb; [lia|].
  cbn [seq flat_map]. destruct (Nat.eq_dec da s) as [->|Hne].
  - apply before_app_r; [exact Ha|]. apply in_flat_map. exists db. split; [apply in_seq; lia|exact Hb].
  - apply before_app_rr. apply (IH (S s) a b da db); auto; lia.
Qed.

Theorem list_fs_parents_first f :
  parents_first (lkeys (side_listing now_z normalize f (list_fs f))).
Proof.
  unfold Mirror.side_listing. destruct (fget f []) as [n|] eqn:Er; [|intros a b []].
  cbn [lkeys map fst]. intros a b Ha Hb Hpre.
  destruct Hb as [<-|Hb].
  { (* b is the root: it has no strict prefix *)
    apply strict_prefix_iff in Hpre as (k & Hk & _). cbn in Hk. lia. }
  destruct Ha as [<-|Ha]; [apply before_here; exact Hb|].
  apply before_skip.
  destruct n; try contradiction.
  assert (Hshape : list_fs f = match fget f [] with
                               | Some NFolder => flat_map (fun d => pick (visible incl f) d f) (seq 1 (max_depth f))
                               | _ => [] end) by reflexivity.
  rewrite Hshape, Er in *. clear Hshape.
  set (g := fun d => lkeys (pick (visible incl f) d f)).
  assert (Hflat : forall ds, lkeys (flat_map (fun d => pick (visible incl f) d f) ds) = flat_map g ds).
  { induction ds as [|d ds IH]; cbn [flat_map]; [reflexivity|]. unfold lkeys in *. rewrite map_app, IH. reflexivity. }
  unfold lkeys in Ha, Hb. fold (lkeys (flat_map (fun d => pick (visible incl f) d f) (seq 1 (max_depth f)))) in Ha, Hb |- *.
  rewrite Hflat in *.
  assert (Hlen : forall d p, In p (g d) -> length p = d).
  { intros d p Hp. unfold g in Hp. apply in_map_iff in Hp as ([q e] & <- & Hq). apply pick_in in Hq as (nn & _ & Hl & _). exact Hl. }
  apply in_flat_map in Ha as (da & Hda & Ha). apply in_flat_map in Hb as (db & Hdb & Hb).
  apply in_seq in Hda. apply in_seq in Hdb.
  assert (length a < length b).
  { apply strict_prefix_iff in Hpre as (k & Hk & ->). rewrite firstn_length. lia. }
  rewrite (Hlen _ _ Ha), (Hlen _ _ Hb) in H.
  apply (before_levels g (max_depth f) 1 a b da db); auto; lia.
Qed.

End ListFs.

(* ---- the mirror theorem for the executable instance (Unix destination) ---- *)
(* the domain outside known finding F7: every source link text is well-formed UTF-8 *)
Definition links_utf8 (S : fs) : Prop := forall p t k, fget S p = Some (NLink t k) -> utf8_valid t = true.
Lemma links_utf8_roundtrip S : links_utf8 S -> links_roundtrip normalize_unix Unix S.
Proof. intros H p t k E. apply normalize_unix_idem. apply lossy_valid. eapply H; eauto. Qed.

Theorem run_top_mirror cfg S D a ans bits ex ft :
  unique_keys S -> wf_fs S -> unique_keys D -> wf_fs D -> src_times_set S -> links_utf8 S ->
  let r := run_top cfg S D a ans bits ex ft in
  r_ok r = true -> r_skipped r = [] -> r_root_skipped r = false -> cf_dry cfg = false ->
  ExecProofs.no_through (d_events (r_dest r)) -> cf_fl cfg = Unix ->
  mirror now_far (excl_incl ex) normalize_unix (cf_diff cfg) Unix S D (d_fs (r_dest r)).
Proof.
  intros HuS HwS HuD HwD Hts Hlk. cbv zeta. unfold run_top. intros Hok Hsk Hrs Hdry Hnt Hfl.
  exact (mirror_theorem now_far (excl_incl ex) normalize_unix chunk_real chunk_real_ok Unix
           cfg S (world D a []) ans bits _ _ ft
           (list_fs_valid now_far (excl_incl ex) normalize_unix S HuS HwS)
           (list_fs_valid now_far (excl_incl ex) normalize_unix D HuD HwD)
           HwS Hts (links_utf8_roundtrip S Hlk) eq_refl Hok Hsk Hrs Hdry Hnt Hfl).
Qed.

(* ---- the executable model never reaches outside the destination in a clean run, and then mirrors ---- *)
Theorem run_top_confined cfg S D a ans bits ex ft :
  unique_keys S -> wf_fs S -> unique_keys D -> wf_fs D ->
  let r := run_top cfg S D a ans bits ex ft in
  r_ok r = true -> r_skipped r = [] -> r_root_skipped r = false -> cf_dry cfg = false ->
  no_through (d_events (r_dest r)).
Proof.
  intros HuS HwS HuD HwD. cbv zeta. unfold run_top. intros Hok Hsk Hrs Hdry.
  exact (clean_run_confined now_far (excl_incl ex) normalize_unix chunk_real chunk_real_ok
           cfg S (world D a []) ans bits _ _ ft
           (list_fs_valid now_far (excl_incl ex) normalize_unix S HuS HwS)
           (list_fs_valid now_far (excl_incl ex) normalize_unix D HuD HwD)
           (list_fs_parents_first now_far (excl_incl ex) normalize_unix S)
           (list_fs_parents_first now_far (excl_incl ex) normalize_unix D)
           HwD eq_refl eq_refl Hok Hsk Hrs Hdry).
Qed.

Theorem run_top_mirror_unconditional cfg S D a ans bits ex ft :
  unique_keys S -> wf_fs S -> unique_keys D -> wf_fs D -> src_times_set S -> links_utf8 S ->
  let r := run_top cfg S D a ans bits ex ft in
  r_ok r = true -> r_skipped r = [] -> r_root_skipped r = false -> cf_dry cfg = false -> cf_fl cfg = Unix ->
  mirror now_far (excl_incl ex) normalize_unix (cf_diff cfg) Unix S D (d_fs (r_dest r)).
Proof.
  intros HuS HwS HuD HwD Hts Hlk. cbv zeta. intros Hok Hsk Hrs Hdry Hfl.
  apply run_top_mirror; auto. apply run_top_confined; auto.
Qed.
