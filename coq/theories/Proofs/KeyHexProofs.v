(* Round trip of the key codec: what the doer parses is what the boss printed, for every key. *)
From RJ Require Import Base.Prelude Model.KeyHex.
Local Open Scope N_scope.

Definition bytes_ok (k : list N) : Prop := Forall (fun b => b < 256) k.

Lemma N_of_ascii_of_N (n : N) : n < 256 -> N_of_ascii (ascii_of_N n) = n.
Proof. intros H. apply N_ascii_embedding. exact H. Qed.

Lemma digit_val_hex_char (n : N) : n < 16 -> digit_val (hex_char n) = Some n.
Proof.
  intros H. unfold digit_val, hex_char.
  destruct (n <? 10) eqn:E.
  - rewrite N_of_ascii_of_N by lia.
    replace ((48 <=? 48 + n) && (48 + n <=? 57)) with true by lia.
    f_equal. lia.
  - rewrite N_of_ascii_of_N by lia.
    replace ((48 <=? 87 + n) && (87 + n <=? 57)) with false by lia.
    replace ((97 <=? 87 + n) && (87 + n <=? 102)) with true by lia.
    f_equal. lia.
Qed.

Lemma hex_char_not_plus (n : N) : n < 16 -> Ascii.eqb (hex_char n) "+"%char = false.
Proof.
  intros H. apply Ascii.eqb_neq. intros E.
  apply (f_equal N_of_ascii) in E. unfold hex_char in E.
  destruct (n <? 10) eqn:L; rewrite N_of_ascii_of_N in E by lia; cbn in E; lia.
Qed.

Lemma be_val_ge (k : list N) : forall acc, acc <= be_val acc k.
Proof.
  induction k as [|b k IH]; intros acc; cbn [be_val fold_left].
  - lia.
  - specialize (IH (acc * 256 + b)). unfold be_val in IH. lia.
Qed.

Lemma be_val_cons acc b k : be_val acc (b :: k) = be_val (acc * 256 + b) k.
Proof. reflexivity. Qed.

(* Parsing the printed form of [k] continues the accumulator exactly, as long as the final value
   fits in 128 bits (then so does every intermediate value). *)
Lemma parse_digits_print (k : list N) : forall acc rest,
  bytes_ok k -> be_val acc k < u128_limit ->
  parse_digits acc (print_hex k ++ rest) = parse_digits (be_val acc k) rest.
Proof.
  induction k as [|b k IH]; intros acc rest Hk Hlim.
  - reflexivity.
  - inversion Hk as [|b' k' Hb Hk']; subst.
    rewrite be_val_cons in Hlim |- *.
    pose proof (be_val_ge k (acc * 256 + b)) as Hge.
    unfold print_hex. cbn [flat_map print_byte app].
    cbn [parse_digits].
    rewrite digit_val_hex_char by lia.
    cbv zeta.
    replace (acc * 16 + b / 16 <? u128_limit) with true by (unfold u128_limit in *; lia).
    cbn [parse_digits].
    rewrite digit_val_hex_char by lia.
    cbv zeta.
    replace ((acc * 16 + b / 16) * 16 + b mod 16) with (acc * 256 + b) by lia.
    replace (acc * 256 + b <? u128_limit) with true by (unfold u128_limit in *; lia).
    apply IH; assumption.
Qed.

Lemma be_val_bound (k : list N) : forall acc,
  bytes_ok k -> be_val acc k < (acc + 1) * 256 ^ (N.of_nat (length k)).
Proof.
  induction k as [|b k IH]; intros acc Hk.
  - cbn. lia.
  - inversion Hk as [|b' k' Hb Hk']; subst.
    rewrite be_val_cons. specialize (IH (acc * 256 + b) Hk').
    cbn [length]. rewrite Nat2N.inj_succ, N.pow_succ_r'.
    assert (H1 : (acc * 256 + b + 1) * 256 ^ N.of_nat (length k)
                 <= (acc + 1) * 256 * 256 ^ N.of_nat (length k)).
    { apply N.mul_le_mono_r. lia. }
    lia.
Qed.

Lemma be_val_snoc acc k b : be_val acc (k ++ [b]) = be_val acc k * 256 + b.
Proof. unfold be_val. rewrite fold_left_app. reflexivity. Qed.

(* to_be_bytes cuts the value to its [length k] low bytes, which are exactly [k] whatever came before. *)
Lemma be_bytes_be_val (k : list N) : forall acc,
  bytes_ok k -> be_bytes (length k) (be_val acc k) = k.
Proof.
  induction k as [|b k IH] using rev_ind; intros acc Hk.
  - reflexivity.
  - apply Forall_app in Hk as [Hk Hb]. inversion Hb as [|b' x Hb256 _]; subst.
    rewrite be_val_snoc, app_length. cbn [length]. rewrite Nat.add_1_r.
    cbn [be_bytes].
    replace ((be_val acc k * 256 + b) / 256) with (be_val acc k) by lia.
    replace ((be_val acc k * 256 + b) mod 256) with b by lia.
    rewrite IH by assumption. reflexivity.
Qed.

Lemma print_hex_length (k : list N) : length (print_hex k) = (2 * length k)%nat.
Proof. induction k as [|b k IH]; cbn [print_hex flat_map print_byte app length] in *; [reflexivity|]. unfold print_hex in IH. lia. Qed.

Lemma from_str_radix16_print (k : list N) :
  k <> [] -> bytes_ok k -> be_val 0 k < u128_limit ->
  from_str_radix16 (print_hex k) = Some (be_val 0 k).
Proof.
  intros Hne Hk Hlim. destruct k as [|b k]; [contradiction|].
  pose proof (parse_digits_print (b :: k) 0 [] Hk Hlim) as P. rewrite app_nil_r in P.
  cbn [parse_digits] in P.
  inversion Hk as [|b' k' Hb Hk']; subst.
  unfold from_str_radix16.
  change (print_hex (b :: k)) with (hex_char (b / 16) :: hex_char (b mod 16) :: print_hex k) in *.
  cbv beta iota. rewrite hex_char_not_plus by lia. exact P.
Qed.

(* C15: the doer reconstructs the key bit-exactly, whatever its value. *)
Lemma key_roundtrip (k : list N) :
  length k = 16%nat -> bytes_ok k -> parse_hex_u128_be (print_hex k) = Some k.
Proof.
  intros Hlen Hk. unfold parse_hex_u128_be.
  assert (Hlim : be_val 0 k < u128_limit).
  { pose proof (be_val_bound k 0 Hk) as B. rewrite Hlen in B. unfold u128_limit.
    change (256 ^ N.of_nat 16) with 340282366920938463463374607431768211456 in B. lia. }
  rewrite from_str_radix16_print; try assumption.
  - cbn [option_map]. f_equal. rewrite <- Hlen. apply be_bytes_be_val. exact Hk.
  - intros ->. discriminate.
Qed.

(* ... and through the line protocol: boss appends '\n', doer pops it. *)
Lemma key_line_roundtrip (k : list N) :
  length k = 16%nat -> bytes_ok k -> doer_key_of_line (key_line k) = Some k.
Proof.
  intros Hlen Hk. unfold doer_key_of_line, key_line, pop_last.
  rewrite removelast_last. apply key_roundtrip; assumption.
Qed.

(* The printed key always has 32 characters: two per byte, leading zero bytes kept. *)
Lemma key_print_width (k : list N) : length k = 16%nat -> length (print_hex k) = 32%nat.
Proof. intros H. rewrite print_hex_length, H. reflexivity. Qed.

(* Different keys give different lines (so "newly generated" keys are visibly different on the wire). *)
Lemma print_hex_injective (k1 k2 : list N) :
  length k1 = 16%nat -> length k2 = 16%nat -> bytes_ok k1 -> bytes_ok k2 ->
  print_hex k1 = print_hex k2 -> k1 = k2.
Proof.
  intros L1 L2 B1 B2 E.
  pose proof (key_roundtrip k1 L1 B1) as R1. pose proof (key_roundtrip k2 L2 B2) as R2.
  rewrite E in R1. congruence.
Qed.
