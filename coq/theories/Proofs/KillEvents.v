(* The event log of every state a kill can leave behind is a prefix of the event log at the end of the run, so a
   run that ends without a Through event has none in any of its kill states: the "nothing went through a link"
   premise of C07/C08 is discharged by C02's general confinement theorem for syncs in which nothing is skipped. *)
From RJ Require Import Base.Prelude Base.OrderedPlan Model.Settings Model.Core Model.Fs Model.Paths Model.Sync Model.SyncTop
  Spec.PlanSpec Spec.Mirror Proofs.FsProofs Proofs.ExecProofs Proofs.MirrorProofs Proofs.InstanceProofs
  Proofs.CrashProofs Proofs.CrashMain Proofs.TouchedProofs Proofs.WfProofs Proofs.ConfineAll Proofs.RepairMain.

Lemma cmd_states_before_final fl st c s :
  In s (cmd_states fl st c) -> exists l, d_events (fst (doer_exec fl st c)) = d_events s ++ l.
Proof.
  assert (Hfin : exists l, d_events (fst (doer_exec fl st c)) = d_events (fst (doer_exec fl st c)) ++ l)
    by (exists []; rewrite app_nil_r; reflexivity).
  destruct c; try (intros [<-|[]]; exact Hfin).
  cbn [cmd_states]. destruct (blocked_at st p) eqn:Hb; [intros [<-|[]]; exact Hfin|].
  destruct (refuses st p) eqn:Hr; [intros [<-|[]]; exact Hfin|].
  set (st0 := with_failed st (if more then Some p else None)).
  assert (Hexec : forall st1, (open_for_write st0 p = OpFile st1 \/ open_for_write st0 p = OpOutside st1) ->
            d_events (fst (doer_exec fl st (CCreateOrUpdateFile p data set_mt more))) = d_events st1).
  { intros st1 Ho. cbn [doer_exec]. rewrite Hb, Hr. fold st0. destruct Ho as [Ho|Ho]; rewrite Ho; cbn [fst].
    - rewrite fst_if. destruct (write_fails st1); cbn [fst]; [|destruct set_mt]; unfold stamp_file, write_chunk; reflexivity.
    - reflexivity. }
  destruct (open_for_write st0 p) as [st1|st1|e] eqn:Eo.
  - intros [<-|Hin]; [exists []; rewrite app_nil_r; apply Hexec; left; reflexivity|].
    apply in_app_or in Hin as [Hin|[<-|[]]]; [|exact Hfin].
    apply in_map_iff in Hin as (k & <- & _). exists []. rewrite app_nil_r. rewrite (Hexec st1 (or_introl eq_refl)). reflexivity.
  - intros [<-|[<-|[]]]; [exists []; rewrite app_nil_r; apply Hexec; right; reflexivity|exact Hfin].
  - intros [<-|[]]; exact Hfin.
Qed.

Section Steps.
Variable fl : flavour.
Variable ft : faults.

Lemma steps_states_before_final steps : forall r s, In s (steps_states fl ft r steps) ->
  exists l, d_events (rs_d (run_steps fl ft r steps)) = d_events s ++ l.
Proof.
  induction steps as [|st rest IH]; intros r s; cbn [steps_states]; [intros []|].
  change (run_steps fl ft r (st :: rest)) with (run_steps fl ft (run_step fl ft r st) rest).
  intros Hin. apply in_app_or in Hin as [Hin|Hin]; [|apply IH; exact Hin].
  unfold step_states in Hin. pose proof (run_step_d fl ft r st) as Hd.
  destruct (executes ft r st) as [c|] eqn:E; [|destruct Hin].
  destruct (cmd_states_before_final fl (rs_d r) c s Hin) as (l1 & E1).
  destruct (run_steps_events fl ft rest (run_step fl ft r st)) as (l2 & E2).
  exists (l1 ++ l2). rewrite E2, Hd, E1, app_assoc. reflexivity.
Qed.

End Steps.

(* C08 and C07's last clause for the executable sync, with NO premise about links: every kill
   state and the final state satisfy Good and Touched. *)
Theorem kill_states_good_unconditional cfg S D a ans bits ex ft :
  unique_keys S -> wf_fs S -> unique_keys D -> wf_fs D ->
  let ls := list_fs now_far (excl_incl ex) normalize_unix S in
  let ld := list_fs now_far (excl_incl ex) normalize_unix D in
  let r := run_top cfg S D a ans bits ex ft in
  (forall s, In s (sync_kill_states now_far normalize_unix chunk_real cfg S (world D a []) ans bits ls ld ft) ->
     Good S D s /\ no_through (d_events s)) /\
  Good S D (r_dest r).
Proof.
  intros HuS HwS HuD HwD ls ld r.
  pose proof (run_top_never_through cfg S D a ans bits ex ft HuS HwS HuD HwD) as Hnt.
  destruct (crash_safe now_far normalize_unix chunk_real chunk_real_ok cfg S (world D a []) ans bits ls ld ft eq_refl) as [G1 G2].
  split; [|apply G2; exact Hnt].
  intros s Hin.
  assert (Hs : no_through (d_events s)).
  { unfold sync_kill_states in Hin. destruct (steps_states_before_final (cf_fl cfg) ft _ _ _ Hin) as (l & El).
    unfold run_top in Hnt. rewrite (sync_one_runs_plan now_far normalize_unix chunk_real) in Hnt.
    fold ls ld in Hnt. rewrite El in Hnt. eapply nt_prefix; exact Hnt. }
  split; [apply G1; assumption|exact Hs].
Qed.

Theorem kill_states_touched_unconditional cfg S D a ans bits ex ft :
  unique_keys S -> wf_fs S -> unique_keys D -> wf_fs D ->
  let ls := list_fs now_far (excl_incl ex) normalize_unix S in
  let ld := list_fs now_far (excl_incl ex) normalize_unix D in
  let steps := snd (sync_plan now_far normalize_unix chunk_real cfg S (world D a []) ans bits ls ld) in
  let T := Touched (cf_fl cfg) S D (cmd_of_plan steps) (file_of_plan steps) in
  (forall s, In s (sync_kill_states now_far normalize_unix chunk_real cfg S (world D a []) ans bits ls ld ft) -> T s) /\
  T (r_dest (run_top cfg S D a ans bits ex ft)).
Proof.
  intros HuS HwS HuD HwD ls ld steps T.
  pose proof (run_top_never_through cfg S D a ans bits ex ft HuS HwS HuD HwD) as Hnt.
  destruct (only_planned_changes now_far normalize_unix chunk_real chunk_real_ok cfg S (world D a []) ans bits ls ld ft eq_refl) as [G1 G2].
  split; [|apply G2; exact Hnt].
  intros s Hin. apply G1; [exact Hin|].
  unfold sync_kill_states in Hin. destruct (steps_states_before_final (cf_fl cfg) ft _ _ _ Hin) as (l & El).
  unfold run_top in Hnt. rewrite (sync_one_runs_plan now_far normalize_unix chunk_real) in Hnt.
  fold ls ld in Hnt. rewrite El in Hnt. eapply nt_prefix; exact Hnt.
Qed.

(* C03 end to end for the executable sync: in every kill state and at the end of every run, an existing entry
   that is no longer what it was had the consent of its category. *)
From RJ Require Import Proofs.ConsentAll.
Theorem consent_executable cfg S D a ans bits ex ft s :
  unique_keys S -> wf_fs S -> unique_keys D -> wf_fs D ->
  let ls := list_fs now_far (excl_incl ex) normalize_unix S in
  let ld := list_fs now_far (excl_incl ex) normalize_unix D in
  (In s (sync_kill_states now_far normalize_unix chunk_real cfg S (world D a []) ans bits ls ld ft) \/
   s = r_dest (run_top cfg S D a ans bits ex ft)) ->
  forall p n, fget D p = Some n -> fget (d_fs s) p <> Some n ->
    entry_consent cfg ans \/
    ((exists m d m' d', n = NFile m d /\ fget (d_fs s) p = Some (NFile m' d')) /\ overwrite_consent cfg ans).
Proof.
  intros HuS HwS HuD HwD ls ld Hs p n HD Hch.
  destruct (kill_states_touched_unconditional cfg S D a ans bits ex ft HuS HwS HuD HwD) as [T1 T2].
  assert (HT : Touched (cf_fl cfg) S D
                 (cmd_of_plan (snd (sync_plan now_far normalize_unix chunk_real cfg S (world D a []) ans bits ls ld)))
                 (file_of_plan (snd (sync_plan now_far normalize_unix chunk_real cfg S (world D a []) ans bits ls ld))) s)
    by (destruct Hs as [Hs| ->]; [apply T1; exact Hs|exact T2]).
  exact (consent_end_to_end now_far (excl_incl ex) normalize_unix chunk_real cfg S (world D a []) ans bits ls ld
           (list_fs_valid now_far (excl_incl ex) normalize_unix S HuS HwS)
           (list_fs_valid now_far (excl_incl ex) normalize_unix D HuD HwD) HwD eq_refl s HT p n HD Hch).
Qed.
