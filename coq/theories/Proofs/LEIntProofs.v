(* Lemmas about little-endian integers and the list primitives of Model/LEInt.v. *)
From RJ Require Import Base.Prelude Model.LEInt.
Local Open Scope N_scope.

Fixpoint pow256 (n : nat) : N := match n with O => 1 | S k => 256 * pow256 k end.

Lemma le_bytes_length n v : List.length (le_bytes n v) = n.
Proof. revert v; induction n as [|n IH]; intros v; cbn [le_bytes List.length]; [reflexivity | now rewrite IH]. Qed.

Lemma of_le_bytes_le_bytes n v : v < pow256 n -> of_le_bytes (le_bytes n v) = v.
Proof.
  revert v; induction n as [|n IH]; intros v Hv; cbn [le_bytes of_le_bytes pow256] in *.
  - lia.
  - rewrite N_ascii_embedding by (apply N.mod_lt; lia).
    rewrite IH.
    + pose proof (N.div_mod v 256) as E. lia.
    + apply N.div_lt_upper_bound; lia.
Qed.

Lemma of_le_bytes_bound l : of_le_bytes l < pow256 (List.length l).
Proof.
  induction l as [|b t IH]; cbn [of_le_bytes pow256 List.length]; [lia|].
  pose proof (N_ascii_bounded b) as Hb. lia.
Qed.

Lemma le_bytes_of_le_bytes l : le_bytes (List.length l) (of_le_bytes l) = l.
Proof.
  induction l as [|b t IH]; cbn [of_le_bytes le_bytes List.length]; [reflexivity|].
  pose proof (N_ascii_bounded b) as Hb.
  assert (E1 : (N_of_ascii b + 256 * of_le_bytes t) mod 256 = N_of_ascii b).
  { rewrite N.mul_comm, N.mod_add by lia. apply N.mod_small; exact Hb. }
  assert (E2 : (N_of_ascii b + 256 * of_le_bytes t) / 256 = of_le_bytes t).
  { rewrite N.mul_comm, N.div_add by lia. rewrite N.div_small by exact Hb. lia. }
  rewrite E1, E2, IH, ascii_N_embedding. reflexivity.
Qed.

Lemma take_nat_app n a r : List.length a = n -> take_nat n (a ++ r) = Some (a, r).
Proof.
  revert a; induction n as [|n IH]; intros [|b a] H; cbn [List.length] in H; try discriminate; cbn [take_nat app].
  - reflexivity.
  - rewrite IH by congruence. reflexivity.
Qed.

Lemma take_nat_some n l a r : take_nat n l = Some (a, r) -> l = a ++ r /\ List.length a = n.
Proof.
  revert l a r; induction n as [|n IH]; intros l a r H; cbn [take_nat] in H.
  - inversion H; subst. split; reflexivity.
  - destruct l as [|b t]; [discriminate|].
    destruct (take_nat n t) as [[a' r']|] eqn:E; [|discriminate].
    inversion H; subst. apply IH in E as [-> <-]. split; reflexivity.
Qed.

Lemma lenN_length {A} (l : list A) : lenN l = N.of_nat (List.length l).
Proof. induction l as [|x t IH]; cbn [lenN List.length]; [reflexivity | rewrite IH; lia]. Qed.

Lemma lenN_app {A} (a b : list A) : lenN (a ++ b) = lenN a + lenN b.
Proof. rewrite !lenN_length, app_length. lia. Qed.

Lemma lenN_le_bytes n v : lenN (le_bytes n v) = N.of_nat n.
Proof. rewrite lenN_length, le_bytes_length. reflexivity. Qed.

Lemma take_N_app a r : take_N (a ++ r) (lenN a) = Some (a, r).
Proof.
  induction a as [|b a IH]; cbn [app lenN].
  - destruct r; cbn [take_N]; rewrite N.eqb_refl; reflexivity.
  - cbn [take_N]. destruct (N.eqb_spec (N.succ (lenN a)) 0) as [E|_]; [lia|].
    rewrite N.pred_succ, IH. reflexivity.
Qed.

Lemma take_N_some l n a r : take_N l n = Some (a, r) -> l = a ++ r /\ lenN a = n.
Proof.
  revert n a r; induction l as [|b t IH]; intros n a r H; cbn [take_N] in H.
  - destruct (N.eqb_spec n 0); [|discriminate]. inversion H; subst. split; reflexivity.
  - destruct (N.eqb_spec n 0) as [->|Hn].
    + inversion H; subst. split; reflexivity.
    + destruct (take_N t (N.pred n)) as [[a' r']|] eqn:E; [|discriminate].
      inversion H; subst. apply IH in E as [-> E]. split; [reflexivity|]. cbn [lenN]. lia.
Qed.

Lemma sumN_app a b : sumN (a ++ b) = sumN a + sumN b.
Proof. induction a as [|x a IH]; cbn [sumN app]; [lia | rewrite IH; lia]. Qed.
