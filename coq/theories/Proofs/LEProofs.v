(* Lemmas about the byte-sequence primitives of Model/LE.v: lengths, sublist algebra
   (get/set laws of subN/updN/insN), little-endian codec round trips, "never panics" for the
   checked primitives. *)
From RJ Require Import Base.Prelude Model.LE.
Local Open Scope N_scope.

(* ------------------------------------------------------------------ nat-level sublist algebra *)
Definition sub {A} (l : list A) (o n : nat) : list A := firstn n (skipn o l).

Lemma sub_app_l {A} (a b : list A) o n : (o + n <= length a)%nat -> sub (a ++ b) o n = sub a o n.
Proof.
  intros H. unfold sub. rewrite skipn_app, firstn_app, skipn_length.
  replace (n - (length a - o))%nat with 0%nat by lia. cbn [firstn]. now rewrite app_nil_r.
Qed.

Lemma sub_app_r {A} (a b : list A) o n : (length a <= o)%nat -> sub (a ++ b) o n = sub b (o - length a) n.
Proof.
  intros H. unfold sub. rewrite skipn_app, (skipn_all2 a) by lia. reflexivity.
Qed.

Lemma sub_firstn {A} (l : list A) k o n : (o + n <= k)%nat -> sub (firstn k l) o n = sub l o n.
Proof.
  intros H. unfold sub. rewrite skipn_firstn_comm, firstn_firstn. f_equal. lia.
Qed.

Lemma skipn_skipn' {A} (l : list A) a b : skipn a (skipn b l) = skipn (b + a) l.
Proof.
  revert l; induction b as [|b IH]; intros l; [reflexivity|].
  destruct l as [|x l]; cbn [skipn Nat.add]; [now rewrite skipn_nil | apply IH].
Qed.

Lemma sub_skipn {A} (l : list A) k o n : sub (skipn k l) o n = sub l (k + o) n.
Proof. unfold sub. now rewrite skipn_skipn'. Qed.

Lemma sub_all {A} (l : list A) n : n = length l -> sub l 0 n = l.
Proof. intros ->. unfold sub. cbn [skipn]. apply firstn_all. Qed.

Lemma sub_prefix {A} (a b : list A) : sub (a ++ b) 0 (length a) = a.
Proof.
  unfold sub. cbn [skipn]. rewrite firstn_app, firstn_all, Nat.sub_diag. cbn [firstn]. apply app_nil_r.
Qed.

Lemma sub_length {A} (l : list A) o n : (o + n <= length l)%nat -> length (sub l o n) = n.
Proof. intros H. unfold sub. rewrite firstn_length, skipn_length. lia. Qed.

(* ------------------------------------------------------------------ lengths *)
Lemma len_acc_spec {A} (l : list A) : forall acc, len_acc l acc = acc + N.of_nat (length l).
Proof.
  induction l as [|x l IH]; intros acc; cbn [len_acc length]; [lia|]. rewrite IH. lia.
Qed.
Lemma flen_eq {A} (l : list A) : flen l = lenN l.
Proof. unfold flen, lenN. now rewrite len_acc_spec. Qed.

Lemma lenN_app {A} (a b : list A) : lenN (a ++ b) = lenN a + lenN b.
Proof. unfold lenN. rewrite app_length. lia. Qed.
Lemma lenN_nil {A} : lenN (@nil A) = 0.
Proof. reflexivity. Qed.
Lemma lenN_cons {A} (x : A) l : lenN (x :: l) = 1 + lenN l.
Proof. unfold lenN. cbn [length]. lia. Qed.
Lemma lenN_takeN {A} n (l : list A) : lenN (takeN n l) = N.min n (lenN l).
Proof. unfold lenN, takeN. rewrite firstn_length. lia. Qed.
Lemma lenN_takeN_le {A} n (l : list A) : n <= lenN l -> lenN (takeN n l) = n.
Proof. intros H. rewrite lenN_takeN. lia. Qed.
Lemma lenN_dropN {A} n (l : list A) : lenN (dropN n l) = lenN l - n.
Proof. unfold lenN, dropN. rewrite skipn_length. lia. Qed.
Lemma lenN_zerosN n : lenN (zerosN n) = n.
Proof. unfold lenN, zerosN. rewrite repeat_length. lia. Qed.
Lemma encode_length sz v : length (encode_le sz v) = sz.
Proof. revert v; induction sz as [|k IH]; intros v; cbn [encode_le length]; [reflexivity | now rewrite IH]. Qed.
Lemma lenN_encode sz v : lenN (encode_le sz v) = N.of_nat sz.
Proof. unfold lenN. now rewrite encode_length. Qed.
Lemma lenN_subN bs off n : off + n <= lenN bs -> lenN (subN bs off n) = n.
Proof. intros H. unfold subN. rewrite lenN_takeN, lenN_dropN. lia. Qed.
Lemma lenN_updN bs off vs : off + lenN vs <= lenN bs -> lenN (updN bs off vs) = lenN bs.
Proof. intros H. unfold updN. rewrite !lenN_app, lenN_takeN, lenN_dropN. lia. Qed.
Lemma lenN_insN bs off vs : lenN (insN bs off vs) = lenN bs + lenN vs.
Proof.
  unfold insN. rewrite !lenN_app, lenN_takeN, lenN_dropN. lia.
Qed.
Lemma takeN_dropN {A} n (l : list A) : takeN n l ++ dropN n l = l.
Proof. apply firstn_skipn. Qed.
Lemma takeN_all {A} n (l : list A) : lenN l <= n -> takeN n l = l.
Proof. intros H. unfold takeN. apply firstn_all2. unfold lenN in H. lia. Qed.
Lemma dropN_0 {A} (l : list A) : dropN 0 l = l.
Proof. reflexivity. Qed.
Lemma dropN_app_exact {A} (a b : list A) : dropN (lenN a) (a ++ b) = b.
Proof.
  unfold dropN, lenN. rewrite Nat2N.id, skipn_app, skipn_all, Nat.sub_diag. reflexivity.
Qed.
Lemma takeN_app_exact {A} (a b : list A) : takeN (lenN a) (a ++ b) = a.
Proof.
  unfold takeN, lenN. rewrite Nat2N.id, firstn_app, firstn_all, Nat.sub_diag. cbn [firstn]. apply app_nil_r.
Qed.
Lemma dropN_app_l {A} n (a b : list A) : n <= lenN a -> dropN n (a ++ b) = dropN n a ++ b.
Proof.
  intros H. unfold dropN, lenN in *. rewrite skipn_app.
  replace (N.to_nat n - length a)%nat with 0%nat by lia. reflexivity.
Qed.
Lemma dropN_dropN {A} a b (l : list A) : dropN a (dropN b l) = dropN (b + a) l.
Proof. unfold dropN. rewrite skipn_skipn'. f_equal. lia. Qed.

(* ------------------------------------------------------------------ subN bridge *)
Lemma subN_sub bs off n : subN bs off n = sub bs (N.to_nat off) (N.to_nat n).
Proof. reflexivity. Qed.

Lemma subN_app_l a b off n : off + n <= lenN a -> subN (a ++ b) off n = subN a off n.
Proof. intros H. rewrite !subN_sub. apply sub_app_l. unfold lenN in H. lia. Qed.

Lemma subN_app_r a b off n : lenN a <= off -> subN (a ++ b) off n = subN b (off - lenN a) n.
Proof.
  intros H. rewrite !subN_sub, sub_app_r by (unfold lenN in H; lia).
  f_equal. unfold lenN. lia.
Qed.

Lemma subN_takeN bs k off n : off + n <= k -> subN (takeN k bs) off n = subN bs off n.
Proof. intros H. rewrite !subN_sub. unfold takeN. apply sub_firstn. lia. Qed.

Lemma subN_dropN bs k off n : subN (dropN k bs) off n = subN bs (k + off) n.
Proof. rewrite !subN_sub. unfold dropN. rewrite sub_skipn. f_equal. lia. Qed.

Lemma subN_prefix a b : subN (a ++ b) 0 (lenN a) = a.
Proof. rewrite subN_sub. unfold lenN. rewrite Nat2N.id. apply sub_prefix. Qed.

Lemma subN_all bs : subN bs 0 (lenN bs) = bs.
Proof. rewrite <- (app_nil_r bs) at 1. apply subN_prefix. Qed.

Lemma subN_updN_same bs off vs : off + lenN vs <= lenN bs -> subN (updN bs off vs) off (lenN vs) = vs.
Proof.
  intros H. unfold updN. rewrite subN_app_r by (rewrite lenN_takeN; lia).
  rewrite lenN_takeN. replace (off - N.min off (lenN bs)) with 0 by lia. apply subN_prefix.
Qed.

Lemma subN_updN_disj bs off vs o2 n : off + lenN vs <= lenN bs ->
  o2 + n <= off \/ off + lenN vs <= o2 ->
  subN (updN bs off vs) o2 n = subN bs o2 n.
Proof.
  intros H [D|D]; unfold updN.
  - rewrite subN_app_l by (rewrite lenN_takeN; lia). apply subN_takeN. exact D.
  - rewrite subN_app_r by (rewrite lenN_takeN; lia). rewrite lenN_takeN.
    rewrite subN_app_r by lia. rewrite subN_dropN. f_equal. lia.
Qed.

Lemma subN_insN_before bs pos vs o2 n : pos <= lenN bs -> o2 + n <= pos ->
  subN (insN bs pos vs) o2 n = subN bs o2 n.
Proof.
  intros H D. unfold insN. rewrite subN_app_l by (rewrite lenN_takeN; lia). now apply subN_takeN.
Qed.

Lemma subN_insN_at bs pos vs : pos <= lenN bs -> subN (insN bs pos vs) pos (lenN vs) = vs.
Proof.
  intros H. unfold insN. rewrite subN_app_r by (rewrite lenN_takeN; lia).
  rewrite lenN_takeN. replace (pos - N.min pos (lenN bs)) with 0 by lia. apply subN_prefix.
Qed.

Lemma subN_insN_after bs pos vs o2 n : pos <= lenN bs -> pos + lenN vs <= o2 ->
  subN (insN bs pos vs) o2 n = subN bs (o2 - lenN vs) n.
Proof.
  intros H D. unfold insN. rewrite subN_app_r by (rewrite lenN_takeN; lia). rewrite lenN_takeN.
  rewrite subN_app_r by lia. rewrite subN_dropN. f_equal. lia.
Qed.

Lemma updN_app_l a b off vs : off + lenN vs <= lenN a -> updN (a ++ b) off vs = updN a off vs ++ b.
Proof.
  intros H. unfold updN. rewrite <- !app_assoc. f_equal.
  - unfold takeN. rewrite firstn_app. replace (N.to_nat off - length a)%nat with 0%nat by (unfold lenN in H; lia).
    cbn [firstn]. now rewrite app_nil_r.
  - f_equal. apply dropN_app_l. lia.
Qed.

(* ------------------------------------------------------------------ little-endian codec *)
Lemma b2n_n2b v : b2n (n2b v) = v mod 256.
Proof. unfold b2n, n2b. apply N_ascii_embedding. apply N.mod_lt. discriminate. Qed.

Lemma b2n_lt b : b2n b < 256.
Proof. apply N_ascii_bounded. Qed.

Lemma n2b_b2n b : n2b (b2n b) = b.
Proof. unfold n2b, b2n. rewrite N.mod_small by apply N_ascii_bounded. apply ascii_N_embedding. Qed.

Lemma decode_encode sz v : decode_le (encode_le sz v) = v mod 256 ^ N.of_nat sz.
Proof.
  revert v; induction sz as [|k IH]; intros v.
  - cbn [encode_le decode_le]. change (256 ^ N.of_nat 0) with 1. now rewrite N.mod_1_r.
  - cbn [encode_le decode_le]. rewrite IH, b2n_n2b, Nat2N.inj_succ, N.pow_succ_r'.
    rewrite N.mod_mul_r; [reflexivity | discriminate | apply N.pow_nonzero; discriminate].
Qed.

Lemma decode_lt bs : decode_le bs < 256 ^ lenN bs.
Proof.
  induction bs as [|b r IH].
  - cbn. lia.
  - cbn [decode_le]. rewrite lenN_cons, N.add_1_l, N.pow_succ_r'. pose proof (b2n_lt b). lia.
Qed.

Lemma encode_decode bs : encode_le (length bs) (decode_le bs) = bs.
Proof.
  induction bs as [|b r IH]; [reflexivity|].
  cbn [length encode_le decode_le]. pose proof (b2n_lt b) as Hb. f_equal.
  - unfold n2b. replace ((b2n b + 256 * decode_le r) mod 256) with (b2n b) by lia.
    apply ascii_N_embedding.
  - replace ((b2n b + 256 * decode_le r) / 256) with (decode_le r) by lia. exact IH.
Qed.

Lemma decode_encode_1 v : v < 256 -> decode_le (encode_le 1 v) = v.
Proof. intros H. rewrite decode_encode. change (256 ^ N.of_nat 1) with 256. now apply N.mod_small. Qed.
Lemma decode_encode_2 v : v < 65536 -> decode_le (encode_le 2 v) = v.
Proof. intros H. rewrite decode_encode. change (256 ^ N.of_nat 2) with 65536. now apply N.mod_small. Qed.
Lemma decode_encode_4 v : v < 4294967296 -> decode_le (encode_le 4 v) = v.
Proof. intros H. rewrite decode_encode. change (256 ^ N.of_nat 4) with 4294967296. now apply N.mod_small. Qed.
Lemma decode_encode_8 v : v < 18446744073709551616 -> decode_le (encode_le 8 v) = v.
Proof. intros H. rewrite decode_encode. change (256 ^ N.of_nat 8) with 18446744073709551616. now apply N.mod_small. Qed.

(* ------------------------------------------------------------------ the checked primitives *)
Definition np {A} (x : outcome A) : Prop := is_panic x = false.

Lemma np_bind {A B} (x : outcome A) (f : A -> outcome B) :
  np x -> (forall a, np (f a)) -> np (obind x f).
Proof. unfold np. destruct x; cbn; auto. Qed.

Lemma np_uadd m M a b : np (uadd true m M a b).
Proof. unfold np, uadd. destruct (a + b <? M); reflexivity. Qed.
Lemma np_usub m M a b : np (usub true m M a b).
Proof. unfold np, usub. destruct (b <=? a); reflexivity. Qed.
Lemma np_umul m M a b : np (umul true m M a b).
Proof. unfold np, umul. destruct (a * b <? M); reflexivity. Qed.
Lemma np_udiv a b : np (udiv true a b).
Proof. unfold np, udiv. destruct (b =? 0); reflexivity. Qed.
Lemma np_ucast M x : np (ucast true M x).
Proof. unfold np, ucast. destruct (x <? M); reflexivity. Qed.
Lemma np_align m M x k : np (align true m M x k).
Proof.
  unfold np, align. destruct (k =? 0); [reflexivity|]. destruct (x =? 0); [reflexivity|].
  cbv zeta. destruct (_ <? M); reflexivity.
Qed.
Lemma np_read_field m sz bs off : np (read_field true m sz bs off).
Proof. unfold np, read_field. destruct (_ <=? _); [reflexivity|]. destruct (_ <=? _); reflexivity. Qed.
Lemma np_write_field m sz bs off v : np (write_field true m sz bs off v).
Proof. unfold np, write_field. destruct (_ <=? _); [reflexivity|]. destruct (_ <=? _); reflexivity. Qed.
Lemma np_rs bs fuel : np (rs bs fuel).
Proof.
  revert bs; induction fuel as [|f IH]; intros bs; [reflexivity|].
  cbn [rs]. destruct bs as [|c r]; [reflexivity|]. destruct (Ascii.eqb c zero); [reflexivity|].
  specialize (IH r). unfold np in *. destruct (rs r f); [reflexivity | reflexivity | discriminate].
Qed.
Lemma np_read_string bs off fuel : np (read_string bs off fuel).
Proof. unfold read_string. destruct (off <? flen bs); [apply np_rs | reflexivity]. Qed.
Lemma np_split_trunc bs a s : np (split_trunc true bs a s).
Proof. unfold np, split_trunc. destruct (a <=? flen bs); reflexivity. Qed.
Lemma np_splice_ins bs pos ins : np (splice_ins true bs pos ins).
Proof. unfold np, splice_ins. destruct (pos <=? flen bs); reflexivity. Qed.
Lemma np_overwrite bs off vs : np (overwrite true bs off vs).
Proof. unfold np, overwrite. destruct (_ <=? _); reflexivity. Qed.

Lemma np_ok {A} (a : A) : np (Ok a).
Proof. reflexivity. Qed.
Lemma np_err {A} e : np (@Err A e).
Proof. reflexivity. Qed.

Lemma np_not_panic {A} (x : outcome A) : np x -> forall s, x <> Panic s.
Proof. unfold np. intros H s ->. discriminate. Qed.

Lemma np_total {A} (x : outcome A) : np x -> (exists a, x = Ok a) \/ (exists e, x = Err e).
Proof. unfold np. destruct x; cbn; intros H; [left; eauto | right; eauto | discriminate]. Qed.

Global Hint Resolve np_uadd np_usub np_umul np_udiv np_ucast np_align np_read_field np_write_field
  np_read_string np_split_trunc np_splice_ins np_overwrite np_ok np_err : np.

(* one step of a "never panics" proof over a monadic chain *)
Ltac np_step :=
  lazymatch goal with
  | |- np (obind _ _) => apply np_bind; [ | intros ? ]
  | |- np (if ?c then _ else _) => destruct c
  | |- np (let _ := _ in _) => cbv zeta
  | |- np _ => solve [ auto with np ]
  end.

(* ------------------------------------------------------------------ field access laws *)
Lemma le_roundtrip : forall (sz : nat) (v : N) (bs : list byte),
  decode_le (encode_le sz v) = v mod 256 ^ N.of_nat sz /\ encode_le (length bs) (decode_le bs) = bs.
Proof. intros. split; [apply decode_encode | apply encode_decode]. Qed.

Lemma read_field_ok m sz bs off v :
  read_field true m sz bs off = Ok v <->
  off + N.of_nat sz <= lenN bs /\ off + N.of_nat sz < 18446744073709551616 /\ v = decode_le (subN bs off (N.of_nat sz)).
Proof.
  unfold read_field. rewrite flen_eq. destruct (N.leb_spec 18446744073709551616 (off + N.of_nat sz)) as [H|H].
  - split; [discriminate | lia].
  - destruct (N.leb_spec (off + N.of_nat sz) (lenN bs)) as [H2|H2].
    + split; [intros [= <-]; auto | intros (_ & _ & ->); reflexivity].
    + split; [discriminate | lia].
Qed.

Lemma write_field_ok m sz bs off v bs' :
  write_field true m sz bs off v = Ok bs' <->
  off + N.of_nat sz <= lenN bs /\ off + N.of_nat sz < 18446744073709551616 /\ bs' = updN bs off (encode_le sz v).
Proof.
  unfold write_field. rewrite flen_eq. destruct (N.leb_spec 18446744073709551616 (off + N.of_nat sz)) as [H|H].
  - split; [discriminate | lia].
  - destruct (N.leb_spec (off + N.of_nat sz) (lenN bs)) as [H2|H2].
    + split; [intros [= <-]; auto | intros (_ & _ & ->); reflexivity].
    + split; [discriminate | lia].
Qed.

Lemma field_roundtrip : forall m sz bs off v bs',
  write_field true m sz bs off v = Ok bs' ->
  read_field true m sz bs' off = Ok (v mod 256 ^ N.of_nat sz) /\ lenN bs' = lenN bs.
Proof.
  intros m sz bs off v bs' H. apply write_field_ok in H as (H1 & H2 & ->).
  assert (L : lenN (updN bs off (encode_le sz v)) = lenN bs) by (apply lenN_updN; rewrite lenN_encode; exact H1).
  split; [|exact L]. apply read_field_ok. rewrite L. repeat split; try assumption.
  pose proof (subN_updN_same bs off (encode_le sz v)) as X. rewrite lenN_encode in X.
  rewrite X by exact H1. symmetry. apply decode_encode.
Qed.

Lemma field_frame : forall m sz bs off v bs' sz2 off2,
  write_field true m sz bs off v = Ok bs' ->
  off2 + N.of_nat sz2 <= off \/ off + N.of_nat sz <= off2 ->
  read_field true m sz2 bs' off2 = read_field true m sz2 bs off2.
Proof.
  intros m sz bs off v bs' sz2 off2 H D. apply write_field_ok in H as (H1 & H2 & ->).
  unfold read_field. rewrite !flen_eq. rewrite lenN_updN by (rewrite lenN_encode; exact H1).
  rewrite subN_updN_disj; [reflexivity | rewrite lenN_encode; exact H1 | rewrite lenN_encode; exact D].
Qed.
