(* Proofs about the launch / deploy decision (Model/Launch.v). *)
From RJ Require Import Base.Prelude Model.Handshake Model.Launch Proofs.HandshakeProofs.

(* The deploy behaviour and the prompt answer permit an upload. *)
Definition consent (b : dbeh) (e : denv) : Prop :=
  b = DbOk \/ b = DbForce \/ (b = DbPrompt /\ d_answer e = AnsDeploy).

Definition refused (b : dbeh) (e : denv) : Prop :=
  b = DbError \/ (b = DbPrompt /\ d_answer e = AnsCancel).

Definition is_success (l : lres) : Prop := exists p k, l = LSuccess p k.

Ltac destr_env e := destruct e as [[|win avail] stg ans scp chm]; try destruct win; try destruct avail;
                    destruct stg, ans, scp, chm.

Ltac in_fin H := cbn in H; repeat (destruct H as [H|H]; try discriminate H); try contradiction.
Ltac succ := eexists; eexists; reflexivity.

(* ---------- deploy_to_remote ---------- *)
Lemma deploy_upload_consent b e : In AUpload (fst (deploy b e)) -> consent b e.
Proof.
  unfold consent. destruct b; destr_env e; cbn; intros H;
    repeat (destruct H as [H|H]; try discriminate H); try contradiction; auto.
Qed.

Lemma deploy_refused b e : refused b e -> ~ In AUpload (fst (deploy b e)) /\ exists m, snd (deploy b e) = Err m.
Proof.
  intros [->|[-> A]]; destr_env e; cbn in *; try discriminate A;
    (split; [intros H; repeat (destruct H as [H|H]; try discriminate H); contradiction | eexists; reflexivity]).
Qed.

Lemma deploy_no_panic b e : is_panic (snd (deploy b e)) = false.
Proof. destruct b; destr_env e; reflexivity. Qed.

Lemma deploy_ok_uploaded b e : snd (deploy b e) = Ok tt -> In AUpload (fst (deploy b e)).
Proof. destruct b; destr_env e; cbn; intros H; try discriminate H; auto 6. Qed.

Lemma deploy_no_launch b e : count_action ALaunch (fst (deploy b e)) = 0%nat /\ ~ In AConnect (fst (deploy b e)).
Proof.
  destruct b; destr_env e; cbn; (split; [reflexivity|]); intros H;
    repeat (destruct H as [H|H]; try discriminate H); contradiction.
Qed.

(* ---------- the second launch ---------- *)
Lemma second_launch_facts l2 c2 :
  count_action ALaunch (fst (second_launch l2 c2)) = 1%nat /\
  ~ In AUpload (fst (second_launch l2 c2)) /\
  (In AConnect (fst (second_launch l2 c2)) -> is_success l2) /\
  (forall n, snd (second_launch l2 c2) = SConnected n -> n = 2%nat /\ is_success l2 /\ c2 = true) /\
  snd (second_launch l2 c2) <> SPanic /\
  (~ is_success l2 -> l2 <> LBlocked -> snd (second_launch l2 c2) = SErr).
Proof.
  destruct l2 as [p k|v| | | | |], c2; cbn [second_launch after_success fst snd count_action Nat.add];
    (split; [reflexivity|]);
    (split; [intros H; in_fin H|]);
    (split; [first [intros _; succ | intros H; in_fin H]|]);
    (split; [intros n E; first [discriminate E | inversion E; subst; repeat split; first [reflexivity | succ]]|]);
    (split; [discriminate|]);
    intros N1 N2; first [reflexivity | exfalso; apply N1; succ | exfalso; apply N2; reflexivity].
Qed.

Lemma count_action_app a x y : count_action a (x ++ y) = (count_action a x + count_action a y)%nat.
Proof. induction x as [|z x IH]; cbn [app count_action]; [reflexivity | rewrite IH; lia]. Qed.

Lemma deploy_and_retry_facts b e l2 c2 :
  (count_action ALaunch (fst (deploy_and_retry b e l2 c2)) <= 1)%nat /\
  (In AUpload (fst (deploy_and_retry b e l2 c2)) -> consent b e) /\
  (refused b e -> ~ In AUpload (fst (deploy_and_retry b e l2 c2)) /\ snd (deploy_and_retry b e l2 c2) = SErr /\
                  count_action ALaunch (fst (deploy_and_retry b e l2 c2)) = 0%nat) /\
  (In AConnect (fst (deploy_and_retry b e l2 c2)) -> is_success l2) /\
  (forall n, snd (deploy_and_retry b e l2 c2) = SConnected n ->
             n = 2%nat /\ is_success l2 /\ In AUpload (fst (deploy_and_retry b e l2 c2))) /\
  snd (deploy_and_retry b e l2 c2) <> SPanic /\
  (count_action ALaunch (fst (deploy_and_retry b e l2 c2)) = 1%nat -> ~ is_success l2 -> l2 <> LBlocked ->
     snd (deploy_and_retry b e l2 c2) = SErr).
Proof.
  unfold deploy_and_retry.
  pose proof (deploy_upload_consent b e) as DU. pose proof (deploy_refused b e) as DR.
  pose proof (deploy_no_panic b e) as DP. pose proof (deploy_ok_uploaded b e) as DO.
  pose proof (deploy_no_launch b e) as [DL DC].
  destruct (deploy b e) as [da dr]. cbn [fst snd] in *.
  pose proof (second_launch_facts l2 c2) as [S1 [S2 [S3 [S4 [S5 S6]]]]].
  destruct dr as [[]|m|m]; [| |discriminate DP].
  - destruct (second_launch l2 c2) as [a r]. cbn [fst snd] in *.
    rewrite count_action_app, DL, S1.
    split; [lia|]. split.
    { intros H. apply in_app_or in H as [H|H]; [auto | contradiction]. }
    split.
    { intros R. destruct (DR R) as [_ [m E]]. discriminate E. }
    split.
    { intros H. apply in_app_or in H as [H|H]; [contradiction | auto]. }
    split.
    { intros n E. destruct (S4 n E) as [-> [Sx _]]. repeat split; auto. apply in_or_app. left. apply DO. reflexivity. }
    split; [exact S5|].
    intros _ N1 N2. apply S6; assumption.
  - cbn [fst snd]. rewrite DL. split; [lia|]. split; [exact DU|]. split.
    { intros R. destruct (DR R) as [NU _]. repeat split; auto. }
    split; [intros H; contradiction|].
    split; [intros n E; discriminate E|]. split; [discriminate|].
    intros E. discriminate E.
Qed.

(* ---------- setup_comms ---------- *)
Definition needs_deploy (l : lres) : Prop := l = LNotPresent \/ exists v, l = LIncompat v.

(* The four shapes of a setup_comms run. *)
Lemma setup_cases b l1 l2 c1 c2 e :
  (b = DbForce /\ setup_comms_r b l1 l2 c1 c2 e = deploy_and_retry b e l2 c2) \/
  (b <> DbForce /\ is_success l1 /\
     setup_comms_r b l1 l2 c1 c2 e = ([ALaunch; AConnect], if c1 then SConnected 1 else SErr)) \/
  (b <> DbForce /\ needs_deploy l1 /\
     setup_comms_r b l1 l2 c1 c2 e = (ALaunch :: fst (deploy_and_retry b e l2 c2), snd (deploy_and_retry b e l2 c2))) \/
  (b <> DbForce /\ ~ is_success l1 /\ ~ needs_deploy l1 /\
     (setup_comms_r b l1 l2 c1 c2 e = ([ALaunch], SErr) \/ setup_comms_r b l1 l2 c1 c2 e = ([ALaunch], SHang))).
Proof.
  assert (NS : forall l, (forall p k, l <> LSuccess p k) -> ~ is_success l) by (intros l H [p [k E]]; eapply H; eauto).
  assert (ND : forall l, l <> LNotPresent -> (forall v, l <> LIncompat v) -> ~ needs_deploy l)
    by (intros l H1 H2 [E|[v E]]; [auto | eapply H2; eauto]).
  destruct b; [| | |left; split; reflexivity]; right;
    (destruct l1 as [p k|v| | | | |];
     [ left; split; [discriminate|]; split; [succ|]; unfold setup_comms_r, after_success; destruct c1; reflexivity
     | right; left; split; [discriminate|]; split; [right; eexists; reflexivity|]; unfold setup_comms_r;
       destruct (deploy_and_retry _ e l2 c2); reflexivity
     | right; left; split; [discriminate|]; split; [left; reflexivity|]; unfold setup_comms_r;
       destruct (deploy_and_retry _ e l2 c2); reflexivity
     | right; right; split; [discriminate|]; split; [apply NS; discriminate|]; split; [apply ND; discriminate|]; left; reflexivity
     | right; right; split; [discriminate|]; split; [apply NS; discriminate|]; split; [apply ND; discriminate|]; left; reflexivity
     | right; right; split; [discriminate|]; split; [apply NS; discriminate|]; split; [apply ND; discriminate|]; right; reflexivity
     | right; right; split; [discriminate|]; split; [apply NS; discriminate|]; split; [apply ND; discriminate|]; left; reflexivity ]).
Qed.

Lemma setup_upload_consent b l1 l2 c1 c2 e :
  In AUpload (fst (setup_comms_r b l1 l2 c1 c2 e)) -> consent b e.
Proof.
  pose proof (deploy_and_retry_facts b e l2 c2) as [_ [U _]].
  destruct (setup_cases b l1 l2 c1 c2 e) as [[_ E]|[[_ [_ E]]|[[_ [_ E]]|[_ [_ [_ [E|E]]]]]]]; rewrite E; cbn [fst].
  - exact U.
  - intros H; in_fin H.
  - intros [H|H]; [discriminate H | auto].
  - intros H; in_fin H.
  - intros H; in_fin H.
Qed.

Lemma setup_refused b l1 l2 c1 c2 e :
  refused b e ->
  ~ In AUpload (fst (setup_comms_r b l1 l2 c1 c2 e)) /\
  (count_action ALaunch (fst (setup_comms_r b l1 l2 c1 c2 e)) <= 1)%nat /\
  (forall n, snd (setup_comms_r b l1 l2 c1 c2 e) = SConnected n -> n = 1%nat /\ is_success l1) /\
  (needs_deploy l1 -> snd (setup_comms_r b l1 l2 c1 c2 e) = SErr).
Proof.
  intros R. pose proof (deploy_and_retry_facts b e l2 c2) as [_ [_ [F _]]].
  destruct (F R) as [NU [RE L0]].
  assert (Hb : b <> DbForce) by (destruct R as [->|[-> _]]; discriminate).
  destruct (setup_cases b l1 l2 c1 c2 e) as [[Bf _]|[[_ [S E]]|[[_ [D E]]|[_ [NS [ND [E|E]]]]]]]; [contradiction| | | |];
    rewrite E; cbn [fst snd count_action Nat.add].
  - split; [intros H; in_fin H|]. split; [lia|]. split.
    + intros n En. destruct c1; inversion En; subst. split; [reflexivity | exact S].
    + intros D. destruct S as [p [k ->]]. destruct D as [D|[v D]]; discriminate D.
  - rewrite L0, RE. split; [intros [H|H]; [discriminate H | contradiction]|]. split; [lia|].
    split; [intros n En; discriminate En | reflexivity].
  - split; [intros H; in_fin H|]. split; [lia|]. split; [intros n En; discriminate En | reflexivity].
  - split; [intros H; in_fin H|]. split; [lia|]. split; [intros n En; discriminate En | intros D; contradiction].
Qed.

Lemma setup_retry_once b l1 l2 c1 c2 e :
  (count_action ALaunch (fst (setup_comms_r b l1 l2 c1 c2 e)) <= 2)%nat /\
  (forall n, snd (setup_comms_r b l1 l2 c1 c2 e) = SConnected n ->
     (n = 1%nat /\ is_success l1 /\ b <> DbForce /\ count_action ALaunch (fst (setup_comms_r b l1 l2 c1 c2 e)) = 1%nat) \/
     (n = 2%nat /\ is_success l2 /\ In AUpload (fst (setup_comms_r b l1 l2 c1 c2 e)))) /\
  (count_action ALaunch (fst (setup_comms_r b l1 l2 c1 c2 e)) = 2%nat -> ~ is_success l2 -> l2 <> LBlocked ->
     snd (setup_comms_r b l1 l2 c1 c2 e) = SErr) /\
  snd (setup_comms_r b l1 l2 c1 c2 e) <> SPanic.
Proof.
  pose proof (deploy_and_retry_facts b e l2 c2) as [L1 [_ [_ [_ [CN [NP SE]]]]]].
  destruct (setup_cases b l1 l2 c1 c2 e) as [[Bf E]|[[Bn [S E]]|[[Bn [D E]]|[Bn [NS [ND [E|E]]]]]]];
    rewrite E; cbn [fst snd count_action Nat.add].
  - split; [lia|]. split.
    { intros n En. destruct (CN n En) as [-> [S2 U]]. right. repeat split; auto. }
    split; [intros En; lia | exact NP].
  - split; [lia|]. split.
    { intros n En. destruct c1; inversion En; subst. left. repeat split; auto. }
    split; [intros En; discriminate En | destruct c1; discriminate].
  - split; [lia|]. split.
    { intros n En. destruct (CN n En) as [-> [S2 U]]. right. repeat split; auto. right. exact U. }
    split; [intros En N1 N2; apply SE; auto; lia | exact NP].
  - split; [lia|]. split; [intros n En; discriminate En|]. split; [intros En; discriminate En | discriminate].
  - split; [lia|]. split; [intros n En; discriminate En|]. split; [intros En; discriminate En | discriminate].
Qed.

Lemma setup_connect_needs_success b l1 l2 c1 c2 e :
  In AConnect (fst (setup_comms_r b l1 l2 c1 c2 e)) -> is_success l1 \/ is_success l2.
Proof.
  pose proof (deploy_and_retry_facts b e l2 c2) as [_ [_ [_ [C _]]]].
  destruct (setup_cases b l1 l2 c1 c2 e) as [[_ E]|[[_ [S E]]|[[_ [_ E]]|[_ [_ [_ [E|E]]]]]]]; rewrite E; cbn [fst].
  - intros H. right. auto.
  - intros _. left. exact S.
  - intros [H|H]; [discriminate H | right; auto].
  - intros H; in_fin H.
  - intros H; in_fin H.
Qed.

(* What a successful launch implies about the doer that was launched. *)
Definition matched_launch (c : hcfg) (evs : list (stream * msg)) : Prop :=
  exists p k ws, run c true evs = (LSuccess p k, ws) /\
    (exists i l, In i ws /\ nth_error evs i = Some (Stdout, MStarted l) /\ version_of c l = own_version c) /\
    Forall (started_ok c) (firstn (consumed c true hs_init evs) evs).

Lemma success_matched c evs : is_success (fst (run c true evs)) -> matched_launch c evs.
Proof.
  intros [p [k E]]. destruct (run c true evs) as [r ws] eqn:R. cbn [fst] in E. subst r.
  exists p, k, ws. split; [exact R|]. unfold run in R. split.
  - destruct (success_needs_key _ _ _ _ _ _ _ _ R) as [K|K]; [cbn in K; congruence|].
    destruct ws as [|i ws]; [congruence|].
    destruct (key_only_after_match _ _ _ _ _ _ _ R i (or_introl eq_refl)) as [_ [l [N V]]].
    rewrite Nat.sub_0_r in N. exists i, l. repeat split; auto. left; reflexivity.
  - eapply success_all_started_ok. exact R.
Qed.

(* Sync traffic (a connection) only with a doer that announced exactly our version. *)
Lemma traffic_only_after_match c b evs1 evs2 c1 c2 e :
  (forall n, snd (setup_comms c b evs1 evs2 c1 c2 e) = SConnected n ->
     (n = 1%nat /\ matched_launch c evs1) \/ (n = 2%nat /\ matched_launch c evs2)) /\
  (In AConnect (fst (setup_comms c b evs1 evs2 c1 c2 e)) -> matched_launch c evs1 \/ matched_launch c evs2).
Proof.
  unfold setup_comms. split.
  - intros n E. destruct (setup_retry_once b (fst (run c true evs1)) (fst (run c true evs2)) c1 c2 e) as [_ [H _]].
    destruct (H n E) as [[-> [S _]]|[-> [S _]]]; [left|right]; split; auto using success_matched.
  - intros H. apply setup_connect_needs_success in H as [S|S]; [left|right]; apply success_matched; exact S.
Qed.

(* ---------- both doers ---------- *)
Lemma connect_both_facts src dest :
  (snd (connect_both src dest) = BothConnected ->
     (exists n, snd src = SConnected n) /\ (exists n, snd dest = SConnected n)) /\
  (snd src = SErr -> connect_both src dest = (fst src, BothExit 10)) /\
  ((exists n, snd src = SConnected n) -> snd dest = SErr -> snd (connect_both src dest) = BothExit 11).
Proof.
  unfold connect_both. destruct src as [a [n| | |]], dest as [a' [n'| | |]]; cbn; repeat split;
    try discriminate; try (eexists; reflexivity); try (intros [m E]; discriminate E); try (intros; discriminate);
    try (intros _ E; discriminate E); auto.
Qed.
