(* The composed system (Model/LaunchSystem.v): safety, absence of deadlock, termination. *)
From RJ Require Import Base.Prelude Model.Handshake Model.LaunchSystem Proofs.HandshakeProofs.
Local Open Scope N_scope.

Section System.
Variable c : hcfg.
Variable v : str.
Variable p : N.
Hypothesis Hp : p < 65536.

(* Invariant for a doer that announces our version. *)
Definition sys_inv (y : sys) : Prop :=
  (s_res y = None /\ exists ko be,
      stream_inv c v p ko (s_ro y) /\ (s_re y = [] \/ good_stream c v p be (s_re y)) /\
      (s_ro y <> [] \/ s_re y <> []) /\
      s_st y = st_of ko (is_nil (s_ro y)) (is_nil (s_re y)) /\
      s_writes y = (if ko then 1 else 0)%nat)
  \/ (s_res y = Some (LSuccess p O) /\ s_writes y = 1%nat).

Lemma good_head_deliverable ko be ro re od ed :
  stream_inv c v p ko ro -> (re = [] \/ good_stream c v p be re) -> (ro <> [] \/ re <> []) ->
  deliverable (st_of ko od ed) ro = true \/ deliverable (st_of ko od ed) re = true.
Proof.
  intros Io Ie Hne. destruct Io as [[-> ->]|G].
  - right. destruct Ie as [->|G]; [destruct Hne; contradiction|].
    inversion G; subst; cbn; reflexivity.
  - left. inversion G; subst; cbn; reflexivity.
Qed.

Lemma mk_inv y ko be :
  s_res y = None -> stream_inv c v p ko (s_ro y) -> (s_re y = [] \/ good_stream c v p be (s_re y)) ->
  (s_ro y <> [] \/ s_re y <> []) -> s_st y = st_of ko (is_nil (s_ro y)) (is_nil (s_re y)) ->
  s_writes y = (if ko then 1 else 0)%nat -> sys_inv y.
Proof. intros. left. split; [assumption|]. exists ko, be. repeat split; assumption. Qed.

Lemma sys_step_inv (Hv : v = own_version c) s y y' : sys_inv y -> sys_step c s y = Some y' -> sys_inv y'.
Proof.
  intros [[Rn [ko [be [Io [Ie [Hne [St W]]]]]]]|[Rs _]] H; unfold sys_step in H; [|rewrite Rs in H; discriminate].
  rewrite Rn in H. destruct (deliverable (s_st y) (queue_of s y)) eqn:D; [|discriminate].
  destruct y as [ro re st res wr]. cbn [s_ro s_re s_st s_res s_writes queue_of] in *. subst st res.
  destruct s; cbn [queue_of s_ro s_re] in *.
  - (* stdout *)
    destruct ro as [|m ro']; [discriminate|]. inversion H; subst y'; clear H.
    destruct Io as [[E _]|G]; [discriminate|].
    inversion G as [b l t Hn Gt|t Gt|]; subst.
    + cbn [boss_step]. rewrite (is_noise_marker _ _ Hn).
      apply (mk_inv _ ko be); cbn [s_res s_ro s_re s_st s_writes].
      * reflexivity.
      * right; exact Gt.
      * exact Ie.
      * left. eapply good_stream_nonempty; eauto.
      * cbn [is_nil]. rewrite (is_nil_good _ _ _ _ _ Gt). reflexivity.
      * lia.
    + cbn [boss_step]. unfold started_line at 1. rewrite after_prefix_app, Hv, str_eqb_refl. cbn [negb].
      apply (mk_inv _ true be); cbn [s_res s_ro s_re s_st s_writes].
      * reflexivity.
      * right. exact Gt.
      * exact Ie.
      * left. eapply good_stream_nonempty; eauto.
      * cbn [is_nil]. rewrite (is_nil_good _ _ _ _ _ Gt). reflexivity.
      * lia.
    + cbn [boss_step]. unfold completed_line at 1. rewrite after_prefix_app, (port_roundtrip p Hp).
      cbn [is_nil].
      change (mark_completed Stdout (st_of true false (is_nil re))) with (st_of true true (is_nil re)).
      cbn [st_of h_out h_err h_key andb].
      destruct (is_nil re) eqn:Nre.
      * right. cbn. split; [reflexivity | lia].
      * apply (mk_inv _ true be); cbn [s_res s_ro s_re s_st s_writes].
        -- reflexivity.
        -- left; split; reflexivity.
        -- exact Ie.
        -- right. intros ->. discriminate.
        -- cbn [is_nil]. rewrite Nre. reflexivity.
        -- lia.
  - (* stderr *)
    destruct re as [|m re']; [discriminate|]. inversion H; subst y'; clear H.
    destruct Ie as [E|G]; [discriminate|].
    inversion G as [b l t Hn Gt|t Gt|]; subst.
    + cbn [boss_step]. rewrite (is_noise_marker _ _ Hn).
      apply (mk_inv _ ko be); cbn [s_res s_ro s_re s_st s_writes].
      * reflexivity.
      * exact Io.
      * right; exact Gt.
      * right. eapply good_stream_nonempty; eauto.
      * cbn [is_nil]. rewrite (is_nil_good _ _ _ _ _ Gt). reflexivity.
      * lia.
    + cbn [boss_step]. unfold started_line at 1. rewrite after_prefix_app, Hv, str_eqb_refl. cbn [negb].
      apply (mk_inv _ ko true); cbn [s_res s_ro s_re s_st s_writes].
      * reflexivity.
      * exact Io.
      * right. exact Gt.
      * right. eapply good_stream_nonempty; eauto.
      * cbn [is_nil]. rewrite (is_nil_good _ _ _ _ _ Gt). reflexivity.
      * lia.
    + (* Completed on stderr is only deliverable when the key is there *)
      cbn [deliverable is_completed negb orb] in D. unfold key_available, st_of in D. cbn [h_key] in D.
      destruct ko; [|discriminate].
      cbn [boss_step]. unfold completed_line at 1. rewrite after_prefix_app, (port_roundtrip p Hp).
      cbn [is_nil].
      change (mark_completed Stderr (st_of true (is_nil ro) false)) with (st_of true (is_nil ro) true).
      cbn [st_of h_out h_err h_key]. rewrite andb_true_r.
      destruct (is_nil ro) eqn:Nro.
      * right. cbn. split; [reflexivity | lia].
      * apply (mk_inv _ true true); cbn [s_res s_ro s_re s_st s_writes].
        -- reflexivity.
        -- exact Io.
        -- left; reflexivity.
        -- left. intros ->. discriminate.
        -- cbn [is_nil]. rewrite Nro. reflexivity.
        -- lia.
Qed.

Lemma sys_run_inv (Hv : v = own_version c) sched : forall y, sys_inv y -> sys_inv (sys_run c sched y).
Proof.
  induction sched as [|s t IH]; intros y I; cbn [sys_run]; [exact I|].
  destruct (sys_step c s y) as [y'|] eqn:E; [apply IH; eapply sys_step_inv; eauto | apply IH; exact I].
Qed.

Lemma sys_inv_init ro re : good_stream c v p false ro -> good_stream c v p false re -> sys_inv (sys_init ro re).
Proof.
  intros Go Ge. left. split; [reflexivity|]. exists false, false. cbn [sys_init s_ro s_re s_st s_writes].
  repeat split; auto.
  - right; exact Go.
  - left. eapply good_stream_nonempty; eauto.
  - rewrite (is_nil_good _ _ _ _ _ Go), (is_nil_good _ _ _ _ _ Ge). reflexivity.
Qed.

(* No deadlock: while the loop has not returned, some stream can deliver its next message. *)
Lemma sys_inv_progress y : sys_inv y -> s_res y = None -> sys_stuck c y = false.
Proof.
  intros [[Rn [ko [be [Io [Ie [Hne [St W]]]]]]]|[Rs _]] Hn; [|congruence].
  destruct (good_head_deliverable ko be _ _ (is_nil (s_ro y)) (is_nil (s_re y)) Io Ie Hne) as [D|D];
    unfold sys_stuck, sys_step; rewrite Rn, St; cbn [queue_of]; rewrite D.
  - destruct (s_ro y); [discriminate D | reflexivity].
  - destruct (s_re y) eqn:E; [discriminate D|].
    destruct (deliverable _ (s_ro y)); [destruct (s_ro y)|]; reflexivity.
Qed.
End System.

(* Every effective step consumes one message: at most |stdout| + |stderr| of them. *)
Lemma sys_step_measure c s y y' : sys_step c s y = Some y' -> (sys_measure y' < sys_measure y)%nat.
Proof.
  unfold sys_step, sys_measure. destruct (s_res y); [discriminate|].
  destruct (deliverable (s_st y) (queue_of s y)); [|discriminate].
  destruct s; cbn [queue_of].
  - destruct (s_ro y) as [|m q]; [discriminate|].
    destruct (boss_step c true (s_st y) (Stdout, m)); intros H; inversion H; subst; cbn; lia.
  - destruct (s_re y) as [|m q]; [discriminate|].
    destruct (boss_step c true (s_st y) (Stderr, m)); intros H; inversion H; subst; cbn; lia.
Qed.

(* A doer of another version: the loop returns IncompatibleVersion (or is still running), no key is written. *)
Definition sys_inv_mismatch (c : hcfg) (v : str) (p : N) (y : sys) : Prop :=
  s_writes y = 0%nat /\
  ((s_res y = None /\ good_stream c v p false (s_ro y) /\ good_stream c v p false (s_re y)) \/ s_res y = Some (LIncompat v)).

Lemma sys_step_inv_mismatch c v p s y y' :
  v <> own_version c -> sys_inv_mismatch c v p y -> sys_step c s y = Some y' -> sys_inv_mismatch c v p y'.
Proof.
  intros Hv [W [[Rn [Go Ge]]|Rs]] H; unfold sys_step in H; [|rewrite Rs in H; discriminate].
  rewrite Rn in H. destruct (deliverable (s_st y) (queue_of s y)); [|discriminate].
  destruct y as [ro re st res wr]. cbn [s_ro s_re s_st s_res s_writes queue_of] in *. subst res wr.
  destruct s; cbn [queue_of s_ro s_re] in *.
  - destruct ro as [|m ro']; [discriminate|]. injection H as <-.
    inversion Go as [b l t Hn Gt|t Gt|]; subst.
    + cbn [boss_step]. rewrite (is_noise_marker _ _ Hn). split; [reflexivity|]. left. auto.
    + unfold started_line. rewrite !after_prefix_app.
      pose proof (proj2 (str_eqb_neq _ _) Hv) as E. rewrite E. cbn [negb].
      split; [reflexivity | right; reflexivity].
  - destruct re as [|m re']; [discriminate|]. injection H as <-.
    inversion Ge as [b l t Hn Gt|t Gt|]; subst.
    + cbn [boss_step]. rewrite (is_noise_marker _ _ Hn). split; [reflexivity|]. left. auto.
    + unfold started_line. rewrite !after_prefix_app.
      pose proof (proj2 (str_eqb_neq _ _) Hv) as E. rewrite E. cbn [negb].
      split; [reflexivity | right; reflexivity].
Qed.

Lemma sys_run_inv_mismatch c v p sched : v <> own_version c ->
  forall y, sys_inv_mismatch c v p y -> sys_inv_mismatch c v p (sys_run c sched y).
Proof.
  intros Hv. induction sched as [|s t IH]; intros y I; cbn [sys_run]; [exact I|].
  destruct (sys_step c s y) as [y'|] eqn:E; [apply IH; eapply sys_step_inv_mismatch; eauto | apply IH; exact I].
Qed.

(* ---------- the statements used by Props/C15.v ---------- *)
Definition doer_streams (c : hcfg) (v : str) (p : N) (no1 no2 ne1 ne2 : list str) (rest_o rest_e : list read) : sys :=
  sys_init (reader c (transcript c v p no1 no2 rest_o)) (reader c (transcript c v p ne1 ne2 rest_e)).

Lemma system_safe c v p no1 no2 ne1 ne2 rest_o rest_e sched :
  prefixes_ok c -> p < 65536 ->
  Forall (fun l => is_noise c l = true) no1 -> Forall (fun l => is_noise c l = true) no2 ->
  Forall (fun l => is_noise c l = true) ne1 -> Forall (fun l => is_noise c l = true) ne2 ->
  let y := sys_run c sched (doer_streams c v p no1 no2 ne1 ne2 rest_o rest_e) in
  (v = own_version c ->
     (s_res y = None /\ (s_writes y <= 1)%nat) \/ (s_res y = Some (LSuccess p O) /\ s_writes y = 1%nat)) /\
  (v <> own_version c ->
     s_writes y = 0%nat /\ (s_res y = None \/ s_res y = Some (LIncompat v))).
Proof.
  intros P Hp Ho1 Ho2 He1 He2 y. subst y. unfold doer_streams. rewrite !reader_transcript by assumption.
  pose proof (good_transcript c v p no1 no2 Ho1 Ho2) as Go.
  pose proof (good_transcript c v p ne1 ne2 He1 He2) as Ge.
  split; intros Hv.
  - pose proof (sys_run_inv c v p Hp Hv sched _ (sys_inv_init c v p _ _ Go Ge)) as [[Rn [ko [be [_ [_ [_ [_ W]]]]]]]|[Rs W]].
    + left. split; [exact Rn|]. rewrite W. destruct ko; lia.
    + right. auto.
  - assert (I0 : sys_inv_mismatch c v p (sys_init (map MLine no1 ++ MStarted (started_line c v) :: map MLine no2 ++ [MCompleted (completed_line c p)])
                                                 (map MLine ne1 ++ MStarted (started_line c v) :: map MLine ne2 ++ [MCompleted (completed_line c p)])))
      by (split; [reflexivity | left; repeat split; assumption]).
    destruct (sys_run_inv_mismatch c v p sched Hv _ I0) as [W [[Rn _]|Rs]]; auto.
Qed.

Lemma system_progress c v p no1 no2 ne1 ne2 rest_o rest_e sched :
  prefixes_ok c -> p < 65536 -> v = own_version c ->
  Forall (fun l => is_noise c l = true) no1 -> Forall (fun l => is_noise c l = true) no2 ->
  Forall (fun l => is_noise c l = true) ne1 -> Forall (fun l => is_noise c l = true) ne2 ->
  let y := sys_run c sched (doer_streams c v p no1 no2 ne1 ne2 rest_o rest_e) in
  sys_stuck c y = true -> s_res y = Some (LSuccess p O) /\ s_writes y = 1%nat.
Proof.
  intros P Hp Hv Ho1 Ho2 He1 He2 y Hs. subst y. unfold doer_streams in *. rewrite !reader_transcript in * by assumption.
  pose proof (good_transcript c v p no1 no2 Ho1 Ho2) as Go.
  pose proof (good_transcript c v p ne1 ne2 He1 He2) as Ge.
  pose proof (sys_run_inv c v p Hp Hv sched _ (sys_inv_init c v p _ _ Go Ge)) as I.
  destruct I as [[Rn X]|[Rs W]]; [|auto].
  pose proof (sys_inv_progress c v p _ (or_introl (conj Rn X)) Rn) as Pg. congruence.
Qed.
