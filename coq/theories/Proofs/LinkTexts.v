(* Every link text on the destination stays well-formed UTF-8: a link the run writes carries the text the doer
   derives from a source link (Proofs/Utf8Join.written_text_valid), everything else is as it was.  With this the
   destination of a sync is fit to be the source of the next one (spec files, chains A -> B, B -> C). *)
From RJ Require Import Base.Prelude Base.OrderedPlan Model.Settings Model.Core Model.Fs Model.Paths Model.Sync Model.SyncTop
  Spec.PlanSpec Spec.Mirror Proofs.PlanCProofs Proofs.FsProofs Proofs.PathLemmas Proofs.ExecProofs
  Proofs.ConfirmProofs Proofs.SyncProofs Proofs.MirrorProofs Proofs.InstanceProofs
  Proofs.CrashProofs Proofs.CrashMain Proofs.TouchedProofs Proofs.ConfineAll Proofs.ConsentAll Proofs.RepairMain Proofs.KillEvents
  Proofs.PathsProofs Proofs.Utf8Join.

Section PlanLinks.
Variable now_z : N -> Z.
Variable incl : path -> bool.
Variable normalize : str -> target.
Variable chunker : str -> list str.
Notation entry_of := (entry_of now_z normalize).
Notation valid_listing := (valid_listing now_z incl normalize).
Notation side_listing := (side_listing now_z normalize).
Notation sync_plan := (sync_plan now_z normalize chunker).

(* a CreateSymlink of the step list carries the normalised text of the source link of that path *)
Lemma plan_symlink_source cfg S D ans bits ls ld q k t :
  valid_listing S ls -> valid_listing (d_fs D) ld ->
  cmd_of_plan (snd (sync_plan cfg S D ans bits ls ld)) (CCreateSymlink q k t) ->
  exists text, fget S q = Some (NLink text k) /\ t = normalize text.
Proof.
  intros HvS HvD Hc.
  destruct (side_listing_spec now_z incl normalize S ls HvS) as (HndS & HeS & HkS).
  destruct (side_listing_spec now_z incl normalize (d_fs D) ld HvD) as (HndD & HeD & HkD).
  set (Ls := side_listing S ls) in *. set (Ld := side_listing (d_fs D) ld) in *. unfold Mirror.side_listing in Ls, Ld.
  unfold CrashMain.sync_plan, cmd_of_plan in Hc. cbv zeta in Hc.
  destruct (fget S []) as [sn|] eqn:ErS; [|destruct Hc].
  match type of Hc with context [match ?g with Some _ => _ | None => _ end] => destruct g as [ans1|] end; [|destruct Hc].
  match type of Hc with context [actions_of ?d ?sk ?a] => set (arr := a) in *; set (ss := sk) in * end.
  set (pre := match option_map entry_of (fget (d_fs D) []) with None => if cf_dry cfg then [] else [DestCmd CCreateRootAncestors] | Some _ => [] end) in *.
  assert (Hpre : ~ In (DestCmd (CCreateSymlink q k t)) pre).
  { unfold pre. destruct (option_map entry_of (fget (d_fs D) [])); [intros []|]. destruct (cf_dry cfg); [intros []|].
    intros [H|[]]; discriminate. }
  assert (Hsrcs : srcs path entry arr = Ls).
  { unfold arr, Ls. rewrite srcs_cons_src. f_equal. rewrite srcs_app_c.
    match goal with |- context [interleave bits ?a ?b] => destruct (interleave_projections bits a b) as [I1 _]; rewrite I1 end.
    destruct (option_map entry_of (fget (d_fs D) [])); cbn; destruct sn; reflexivity. }
  assert (Hdests : dests path entry arr = Ld).
  { unfold arr, Ld. rewrite dests_cons_src, dests_app_c.
    match goal with |- context [interleave bits ?a ?b] => destruct (interleave_projections bits a b) as [_ I2]; rewrite I2 end.
    destruct (fget (d_fs D) []) as [[| |]|]; reflexivity. }
  rewrite (actions_of_spec (cf_diff cfg) ss arr) in Hc by (rewrite ?Hsrcs, ?Hdests; assumption).
  rewrite Hsrcs, Hdests in Hc.
  set (acts := plan_spec (cf_diff cfg) ss Ls Ld) in *.
  destruct (confirm (cf_b cfg) ans1 acts) as [|acts' skipped b2 a2 np2] eqn:Ec; [cbn [snd] in Hc; contradiction|].
  destruct (cf_dry cfg); [cbn [snd] in Hc; contradiction|]. cbn [snd] in Hc.
  apply in_app_or in Hc as [Hc|Hc]; [contradiction|].
  (* the copy list after confirmation is a sub-list of the planned copies *)
  unfold confirm in Ec.
  destruct (confirm_deletes (b_entry (cf_b cfg)) ans1 (a_delete acts) []) as [[[[rmd be] ansd] nd]|]; [|discriminate].
  destruct (confirm_copies _ ansd _ nd) as [[[[rmc bc] ansc] nc]|]; [|discriminate].
  inversion Ec; subst acts'. clear Ec.
  apply (exec_steps_cmd chunker S) in Hc as [(e & _ & He)|(p & e & r & Hin & Hce)].
  { destruct e as [p0 [[mt sz| |k0 t0] r0]]; discriminate He. }
  destruct Hce as [(_ & Hx)|[(k1 & t1 & -> & Hx)|(mt & sz & d & smt & more & _ & Hx)]]; try discriminate.
  inversion Hx; subst p k1 t1.
  apply remove_paths_in in Hin as [Hin _]. apply filter_In in Hin as [Hin _].
  (* the plan is plan_spec of the two listings, whatever the interleaving: its copies are source entries *)
  assert (HinA : In (q, (ESymlink k t, r)) (a_copy (plan_spec (cf_diff cfg) ss Ls Ld))) by exact Hin.
  assert (HinLs : In (q, ESymlink k t) Ls) by (apply in_copy_iff in HinA as [H _]; exact H).
  destruct (HeS _ _ HinLs) as (n & En & He). destruct n as [m d| |text k']; cbn in He; try discriminate.
  inversion He; subst. exists text. split; [exact En|reflexivity].
Qed.
End PlanLinks.

(* For the executable sync and EVERY outcome: whatever state a run ends in - or a kill leaves behind - every link
   text on the destination is well-formed UTF-8 if those of the source and of the old destination were. *)
Theorem run_top_keeps_links_utf8 cfg S D a ans bits ex ft :
  unique_keys S -> wf_fs S -> unique_keys D -> wf_fs D -> links_utf8 S -> links_utf8 D -> cf_fl cfg = Unix ->
  let ls := list_fs now_far (excl_incl ex) normalize_unix S in
  let ld := list_fs now_far (excl_incl ex) normalize_unix D in
  (forall s, In s (sync_kill_states now_far normalize_unix chunk_real cfg S (world D a []) ans bits ls ld ft) -> links_utf8 (d_fs s)) /\
  links_utf8 (d_fs (r_dest (run_top cfg S D a ans bits ex ft))).
Proof.
  intros HuS HwS HuD HwD HlS HlD Hfl ls ld.
  destruct (kill_states_touched_unconditional cfg S D a ans bits ex ft HuS HwS HuD HwD) as [T1 T2].
  fold ls ld in T1, T2.
  assert (Hgen : forall s, Touched (cf_fl cfg) S D
                   (cmd_of_plan (snd (sync_plan now_far normalize_unix chunk_real cfg S (world D a []) ans bits ls ld)))
                   (file_of_plan (snd (sync_plan now_far normalize_unix chunk_real cfg S (world D a []) ans bits ls ld))) s ->
                 links_utf8 (d_fs s)).
  { intros s HT q text k Hq.
    destruct (HT q) as [H|[(Hn & _)|[(Hn & _)|[(k1 & t1 & Hn & Hc)|[(k1 & d & mt & Hn & _)|(mt & fu & m & Hn & _)]]]]]; try congruence.
    - rewrite H in Hq. exact (HlD q text k Hq).
    - rewrite Hn in Hq. inversion Hq; subst text k1.
      destruct (plan_symlink_source now_far (excl_incl ex) normalize_unix chunk_real cfg S (world D a []) ans bits ls ld q k t1
                  (list_fs_valid now_far (excl_incl ex) normalize_unix S HuS HwS)
                  (list_fs_valid now_far (excl_incl ex) normalize_unix D HuD HwD) Hc) as (text0 & HS & ->).
      rewrite Hfl. apply written_text_valid. exact (HlS q text0 k HS). }
  split; [intros s Hin; apply Hgen; apply T1; exact Hin|apply Hgen; exact T2].
Qed.
