(* C01: a successful sync without skips makes the destination a mirror of the source. *)
From RJ Require Import Base.Prelude Base.OrderedPlan Model.Settings Model.Core Model.Fs Model.Sync
  Spec.PlanSpec Spec.Mirror Proofs.PlanCProofs Proofs.FsProofs Proofs.ConfirmProofs Proofs.SyncProofs
  Proofs.DryProofs Proofs.ExecProofs.

(* ---- projections of the arrival sequence ---- *)
Lemma srcs_app_c (a b : list arrival_t) : srcs path entry (a ++ b) = srcs path entry a ++ srcs path entry b.
Proof. unfold srcs. apply flat_map_app. Qed.
Lemma dests_app_c (a b : list arrival_t) : dests path entry (a ++ b) = dests path entry a ++ dests path entry b.
Proof. unfold dests. apply flat_map_app. Qed.
Lemma srcs_map_dest (ld : listing) : srcs path entry (map (fun e => FromDest path entry (fst e) (snd e)) ld) = [].
Proof. induction ld as [|[p e] l IH]; cbn; auto. Qed.
Lemma dests_map_dest (ld : listing) : dests path entry (map (fun e => FromDest path entry (fst e) (snd e)) ld) = ld.
Proof. induction ld as [|[p e] l IH]; cbn; [reflexivity|]. f_equal. exact IH. Qed.

Lemma interleave_projections bits : forall (ls ld : listing),
  srcs path entry (interleave bits ls ld) = ls /\ dests path entry (interleave bits ls ld) = ld.
Proof.
  assert (Hnil_l : forall bits ld, interleave bits [] ld = map (fun e => FromDest path entry (fst e) (snd e)) ld).
  { intros [|[|] bs] [|e ld]; reflexivity. }
  assert (Hnil_r : forall bits e ls, interleave bits (e :: ls) [] = map (fun e => FromSrc path entry (fst e) (snd e)) (e :: ls)).
  { intros [|[|] bs] e ls; reflexivity. }
  induction bits as [|b bits IH]; intros ls ld.
  - destruct ls as [|e ls]; [rewrite Hnil_l, srcs_map_dest, dests_map_dest; auto|].
    destruct ld as [|e' ld]; [rewrite Hnil_r, srcs_map_src, dests_map_src; auto|].
    change (interleave [] (e :: ls) (e' :: ld)) with
      (map (fun e => FromSrc path entry (fst e) (snd e)) (e :: ls) ++ map (fun e => FromDest path entry (fst e) (snd e)) (e' :: ld)).
    rewrite srcs_app_c, dests_app_c, srcs_map_src, dests_map_src, srcs_map_dest, dests_map_dest.
    rewrite app_nil_r. auto.
  - destruct ls as [|[p e] ls]; [rewrite Hnil_l, srcs_map_dest, dests_map_dest; auto|].
    destruct ld as [|[p' e'] ld]; [rewrite Hnil_r, srcs_map_src, dests_map_src; auto|].
    destruct b.
    + change (interleave (true :: bits) ((p, e) :: ls) ((p', e') :: ld)) with
        (FromSrc path entry p e :: interleave bits ls ((p', e') :: ld)).
      destruct (IH ls ((p', e') :: ld)) as [I1 I2]. split.
      * rewrite srcs_cons_src, I1. reflexivity.
      * rewrite dests_cons_src, I2. reflexivity.
    + change (interleave (false :: bits) ((p, e) :: ls) ((p', e') :: ld)) with
        (FromDest path entry p' e' :: interleave bits ((p, e) :: ls) ld).
      destruct (IH ((p, e) :: ls) ld) as [I1 I2]. split.
      * change (srcs path entry (FromDest path entry p' e' :: interleave bits ((p, e) :: ls) ld))
          with (srcs path entry (interleave bits ((p, e) :: ls) ld)). exact I1.
      * change (dests path entry (FromDest path entry p' e' :: interleave bits ((p, e) :: ls) ld))
          with ((p', e') :: dests path entry (interleave bits ((p, e) :: ls) ld)). rewrite I2. reflexivity.
Qed.

(* ---- a confirmation that skipped nothing changed nothing ---- *)
Lemma remove_paths_nil {V} (l : list (path * V)) : remove_paths [] l = l.
Proof. unfold remove_paths. induction l; cbn; auto. f_equal; auto. Qed.

Lemma confirm_no_skip b ans a a' sk b' ans' np :
  confirm b ans a = CDone a' sk b' ans' np -> sk = [] -> a' = a.
Proof.
  unfold confirm. intros H Hs.
  destruct (confirm_deletes _ _ _ _) as [[[[rmd be] ans1] n1]|]; [|discriminate].
  destruct (confirm_copies _ _ _ _) as [[[[rmc b2] ans2] n2]|]; [|discriminate].
  inversion H; subst. apply app_eq_nil in H2 as [-> ->]. rewrite !remove_paths_nil.
  assert (Hk : kept_in_the_way [] (a_delete a) = []).
  { unfold kept_in_the_way. induction (a_delete a) as [|e l IH]; cbn; auto. }
  rewrite Hk.
  assert (Hnb : forall V (l : list (path * V)), filter (not_blocked []) l = l).
  { intros V l. induction l; cbn; auto. f_equal; auto. }
  rewrite Hnb. destruct a; reflexivity.
Qed.

(* ---- an error-free run of boss steps is the plain execution of their commands ---- *)
Lemma run_steps_exec fl ft steps : forall r,
  rs_budget r = None -> rs_srcfail r = false ->
  rs_errs (run_steps fl ft r steps) = rs_errs r -> rs_srcfail (run_steps fl ft r steps) = false ->
  rs_d (run_steps fl ft r steps) = exec_all fl (rs_d r) (dest_cmds steps) /\
  all_ok fl (rs_d r) (dest_cmds steps).
Proof.
  induction steps as [|s steps IH]; intros r Hb Hs He Hf; cbn [run_steps fold_left dest_cmds flat_map] in *.
  - cbn. auto.
  - assert (Estep : run_step fl ft r s = do_step fl ft r s) by (unfold run_step; rewrite Hs, Hb; reflexivity).
    rewrite Estep in *.
    destruct (run_steps_errs fl ft steps (do_step fl ft r s)) as (l2 & E2). unfold run_steps in E2.
    destruct (do_step_mono fl ft r s) as [(l1 & E1) Hbud].
    assert (Hl : l1 = [] /\ l2 = []).
    { rewrite E2, E1, <- app_assoc in He.
      assert (L : length (rs_errs r ++ l1 ++ l2) = length (rs_errs r)) by (rewrite He; reflexivity).
      rewrite !app_length in L. destruct l1, l2; cbn in L; try lia; auto. }
    destruct Hl as [-> ->]. rewrite app_nil_r in E1, E2.
    assert (Hs1 : rs_srcfail (do_step fl ft r s) = false).
    { destruct (rs_srcfail (do_step fl ft r s)) eqn:Esf; auto.
      pose proof (run_steps_srcfail fl ft steps _ Esf) as Hx. unfold run_steps in Hx. rewrite Hx in Hf. congruence. }
    assert (E2' : rs_errs (run_steps fl ft (do_step fl ft r s) steps) = rs_errs (do_step fl ft r s)) by exact E2.
    assert (Hf' : rs_srcfail (run_steps fl ft (do_step fl ft r s) steps) = false) by exact Hf.
    destruct (IH (do_step fl ft r s) (Hbud Hb E1) Hs1 E2' Hf') as (I1 & I2).
    unfold run_steps in I1. rewrite I1. clear I1.
    unfold do_step in *. destruct s as [c|p]; cbn [rs_d rs_errs app exec_all all_ok] in *.
    + destruct (mutating c && match ft_stop ft with Some n => Nat.leb n (rs_mut r) | None => false end) eqn:Estop; cbn [fst snd rs_d rs_errs] in *.
      { exfalso. apply (f_equal (@length _)) in E1. rewrite app_length in E1. cbn in E1. lia. }
      destruct (mutating c && negb (is_chunk c) && mem_nat (rs_mut r) (ft_dest ft)) eqn:Einj; cbn [fst snd rs_d rs_errs] in *.
      * exfalso. apply (f_equal (@length _)) in E1. rewrite app_length in E1. cbn in E1. lia.
      * destruct (doer_exec fl (rs_d r) c) as [d' [e|]] eqn:Ed; cbn [fst snd rs_d rs_errs] in *.
        -- exfalso. apply (f_equal (@length _)) in E1. rewrite app_length in E1. cbn in E1. lia.
        -- split; [reflexivity|]. split; [reflexivity|exact I2].
    + split; [reflexivity|exact I2].
Qed.

(* ---- lookups in duplicate-free listings ---- *)
Lemma alookup_in {V} (l : list (path * V)) p v :
  NoDup (map fst l) -> In (p, v) l -> alookup path path_eq_dec p l = Some v.
Proof.
  induction l as [|[k w] l IH]; intros Hnd Hin; [contradiction|]. cbn [alookup].
  inversion Hnd as [|? ? Hn Hnd']; subst. destruct Hin as [Heq|Hin].
  - inversion Heq; subst. destruct (path_eq_dec p p); [reflexivity|congruence].
  - destruct (path_eq_dec p k) as [->|Hne]; [|auto].
    exfalso. apply Hn. change k with (fst (k, v)). apply in_map. exact Hin.
Qed.
Lemma alookup_none {V} (l : list (path * V)) p : ~ In p (map fst l) -> alookup path path_eq_dec p l = None.
Proof.
  induction l as [|[k w] l IH]; intros Hn; [reflexivity|]. cbn [alookup].
  destruct (path_eq_dec p k) as [->|Hne]; [exfalso; apply Hn; left; reflexivity | apply IH; intro; apply Hn; right; assumption].
Qed.
Lemma alookup_some_in {V} (l : list (path * V)) p v : alookup path path_eq_dec p l = Some v -> In (p, v) l.
Proof.
  induction l as [|[k w] l IH]; cbn [alookup]; [discriminate|].
  destruct (path_eq_dec p k) as [->|Hne]; intros H; [inversion H; left; reflexivity | right; auto].
Qed.

Lemma subseq_nodup (l1 l2 : list path) : subseq path l1 l2 -> NoDup l2 -> NoDup l1.
Proof.
  induction 1 as [|x l1 l2 Hs IH|x l1 l2 Hs IH]; intros Hnd; [constructor| |]; inversion Hnd; subst; auto.
  constructor; auto. intro Hin. eapply subseq_in in Hin; eauto.
Qed.

Lemma target_eqb_eq a b : target_eqb a b = true -> a = b.
Proof. destruct a, b; cbn; try discriminate; intros H; apply str_eqb_eq in H; congruence. Qed.

Section MirrorMain.
Variable now_z : N -> Z.
Variable incl : path -> bool.
Variable normalize : str -> target.
Variable chunker : str -> list str.
Hypothesis chunker_ok : forall d, chunker d <> [] /\ concat (chunker d) = d.
Variable dest_fl : flavour.        (* the destination's flavour: its doer writes link text back with [denormalize dest_fl] *)
(* the link texts of a source tree survive the round trip through the destination (for the Unix
   normaliser: exactly the texts that to_string_lossy leaves alone, i.e. well-formed UTF-8 - see
   PathsProofs and known finding F7) *)
Definition links_roundtrip (S : fs) : Prop :=
  forall p t k, fget S p = Some (NLink t k) -> normalize (denormalize dest_fl (normalize t)) = normalize t.

Notation entry_of := (entry_of now_z normalize).
Notation valid_listing := (valid_listing now_z incl normalize).
Notation side_listing := (side_listing now_z normalize).
Notation takes_part := (takes_part incl).
Notation sync_one := (sync_one now_z normalize chunker).

Definition wf_fs (f : fs) : Prop :=
  forall p n, fget f p = Some n -> forall q, is_strict_prefix q p = true -> fget f q = Some NFolder.
Definition src_times_set (f : fs) : Prop := forall p m d, fget f p = Some (NFile m d) -> exists t, m = TSet t.

Lemma entry_of_folder n : entry_of n = EFolder -> n = NFolder.
Proof. destruct n; cbn; intros H; try discriminate; reflexivity. Qed.

(* ---- what one side reports ---- *)
Lemma side_listing_spec f L : valid_listing f L ->
  NoDup (lkeys (side_listing f L)) /\
  (forall p e, In (p, e) (side_listing f L) -> exists n, fget f p = Some n /\ e = entry_of n) /\
  (forall p, In p (lkeys (side_listing f L)) <-> (takes_part f p /\ fget f p <> None)).
Proof.
  intros (Hnd & Hnr & Hval). unfold Mirror.side_listing.
  destruct (fget f []) as [n|] eqn:Er.
  2:{ split; [constructor|]. split; [intros p e []|]. intros p. split; [intros []|].
      intros [[->|[Hf _]] Hne]; congruence. }
  split; [|split].
  - cbn [lkeys map fst]. destruct n; constructor; auto; try (intros []); constructor.
  - intros p e [Heq|Hin].
    + inversion Heq; subst. exists n. auto.
    + destruct n; try contradiction. apply (proj1 (Hval p e)) in Hin. destruct Hin as (_ & n' & E & He). exists n'. auto.
  - intros p. split.
    + cbn [lkeys map fst]. intros [<-|Hin].
      * split; [left; reflexivity | congruence].
      * destruct n; try contradiction. apply in_map_iff in Hin as ([p' e] & <- & Hin).
        apply (proj1 (Hval p' e)) in Hin. destruct Hin as (Hv & n' & E & _). cbn [fst]. split; [right; auto | congruence].
    + intros [[->|[Hf Hv]] Hne].
      * left. reflexivity.
      * right. rewrite Er in Hf. inversion Hf; subst. destruct (fget f p) as [n'|] eqn:Ep; [|congruence].
        change p with (fst (p, entry_of n')). apply in_map. apply Hval. split; auto. exists n'. auto.
Qed.

(* membership in the planned lists *)
Lemma in_copy_iff diff ss Ls Ld p e r :
  In (p, (e, r)) (a_copy (plan_spec diff ss Ls Ld)) <-> In (p, e) Ls /\ In (p, (e, r)) (copy_dec diff ss Ld (p, e)).
Proof.
  cbn [plan_spec a_copy]. rewrite in_flat_map. split.
  - intros ([p' e'] & Hin & Hd). assert (p' = p /\ e' = e) as [-> ->].
    { unfold copy_dec, copy_decision in Hd. destruct (alookup _ _ _ _) as [d|].
      - destruct (needs_delete diff e' d); [destruct Hd as [H|[]]; inversion H; auto|].
        destruct (needs_copy ss e' d); [destruct Hd as [H|[]]; inversion H; auto|destruct Hd].
      - destruct Hd as [H|[]]; inversion H; auto. }
    auto.
  - intros [H1 H2]. exists (p, e). auto.
Qed.
Lemma in_delete_iff diff ss Ls Ld p e r :
  In (p, (e, r)) (a_delete (plan_spec diff ss Ls Ld)) <-> In (p, e) Ld /\ In (p, (e, r)) (delete_dec diff Ls (p, e)).
Proof.
  cbn [plan_spec a_delete]. rewrite <- in_rev, in_flat_map. split.
  - intros ([p' e'] & Hin & Hd). assert (p' = p /\ e' = e) as [-> ->].
    { unfold delete_dec, delete_decision in Hd. destruct (alookup _ _ _ _) as [s|].
      - destruct (needs_delete diff s e'); [destruct Hd as [H|[]]; inversion H; auto|destruct Hd].
      - destruct Hd as [H|[]]; inversion H; auto. }
    auto.
  - intros [H1 H2]. exists (p, e). auto.
Qed.

Lemma nodup_copy_keys diff ss Ls Ld : NoDup (lkeys Ls) -> NoDup (map fst (a_copy (plan_spec diff ss Ls Ld))).
Proof. intros H. eapply subseq_nodup; [apply keys_copy_subseq | exact H]. Qed.
Lemma nodup_delete_keys diff ss Ls Ld : NoDup (lkeys Ld) -> NoDup (map fst (a_delete (plan_spec diff ss Ls Ld))).
Proof.
  intros H. cbn [plan_spec a_delete]. rewrite map_rev. apply NoDup_rev.
  eapply subseq_nodup; [apply keys_delete_subseq | exact H].
Qed.


(* ---- from the effect of the executed commands to the mirror property ---- *)
Lemma mirror_from_effects diff ss S D0 D' (Ls Ld : listing) :
  NoDup (lkeys Ls) -> NoDup (lkeys Ld) ->
  (forall p e, In (p, e) Ls -> exists n, fget S p = Some n /\ e = entry_of n) ->
  (forall p e, In (p, e) Ld -> exists n, fget D0 p = Some n /\ e = entry_of n) ->
  (forall p, In p (lkeys Ls) <-> (takes_part S p /\ fget S p <> None)) ->
  (forall p, In p (lkeys Ld) <-> (takes_part D0 p /\ fget D0 p <> None)) ->
  wf_fs S -> src_times_set S -> links_roundtrip S -> fget S [] <> None ->
  let acts := plan_spec diff ss Ls Ld in
  (forall p e r, In (p, (e, r)) (a_copy acts) -> fget D' p = Some (planned_node dest_fl S p e)) ->
  (forall p, ~ In p (map fst (a_copy acts)) -> In p (map fst (a_delete acts)) -> fget D' p = None) ->
  (forall p, ~ In p (map fst (a_copy acts)) -> ~ In p (map fst (a_delete acts)) -> fget D' p = fget D0 p) ->
  mirror now_z incl normalize diff dest_fl S D0 D'.
Proof.
  intros HndS HndD HeS HeD HkS HkD Hwf Hts Hlinks Hroot acts E1 E2 E3 p.
  assert (HinS : forall q, In q (lkeys Ls) -> exists n, fget S q = Some n /\ In (q, entry_of n) Ls).
  { intros q Hq. apply in_map_iff in Hq as ([q' e] & <- & Hin). destruct (HeS _ _ Hin) as (n & En & ->). eauto. }
  assert (HinD : forall q, In q (lkeys Ld) -> exists n, fget D0 q = Some n /\ In (q, entry_of n) Ld).
  { intros q Hq. apply in_map_iff in Hq as ([q' e] & <- & Hin). destruct (HeD _ _ Hin) as (n & En & ->). eauto. }
  (* keys of the action lists come from the listings *)
  assert (HcS : forall q, In q (map fst (a_copy acts)) -> In q (lkeys Ls)).
  { intros q Hq. eapply subseq_in; [apply keys_copy_subseq | exact Hq]. }
  assert (HdD : forall q, In q (map fst (a_delete acts)) -> In q (lkeys Ld)).
  { intros q Hq. unfold acts in Hq. cbn [plan_spec a_delete] in Hq. rewrite map_rev in Hq. apply in_rev in Hq.
    eapply subseq_in; [apply keys_delete_subseq | exact Hq]. }
  split.
  - intros Htp.
    (* a path that exists on the destination side and takes part there, but has a node on the source,
       also takes part on the source (same filter, well-formed source tree) *)
    assert (HS_or : In p (lkeys Ls) \/ fget S p = None).
    { destruct (fget S p) as [n|] eqn:Ep; [left|right; reflexivity]. apply HkS. split; [|congruence].
      destruct Htp as [[Ht _]|[Ht _]]; [exact Ht|].
      destruct Ht as [->|[Hrf Hv]]; [left; reflexivity|]. right.
      destruct p as [|c p']; [discriminate|].
      assert (Hr : fget S [] = Some NFolder).
      { apply (Hwf _ _ Ep). unfold is_strict_prefix, path_eqb. cbn. destruct (path_eq_dec [] (c :: p')); [discriminate|reflexivity]. }
      split; [exact Hr|].
      (* visibility only depends on incl and on the prefixes being folders, which wf gives *)
      unfold visible in *. apply andb_true_iff in Hv as [Hi Hva]. rewrite Hi. cbn [andb].
      clear Hi Hrf. revert Hva.
      assert (G : forall pre rest, fget S (pre ++ rest) = Some n -> rest <> [] ->
                    visible_above incl D0 pre rest = true -> visible_above incl S pre rest = true).
      { intros pre rest. revert pre. induction rest as [|c0 rest IH]; intros pre Hg Hne Hv0; [reflexivity|].
        destruct rest as [|c1 rest]; [reflexivity|].
        cbn [visible_above] in *. apply andb_true_iff in Hv0 as [Hi0 Hv0]. rewrite Hi0. cbn [andb].
        assert (Hq : fget S (pre ++ [c0]) = Some NFolder).
        { apply (Hwf _ _ Hg). unfold is_strict_prefix.
          assert (Hp : is_prefix (pre ++ [c0]) (pre ++ c0 :: c1 :: rest) = true).
          { clear. induction pre as [|x pre IHp]; cbn; [destruct (str_eq_dec c0 c0); [reflexivity|congruence]|].
            destruct (str_eq_dec x x); [exact IHp|congruence]. }
          rewrite Hp. cbn [andb]. unfold path_eqb. destruct (path_eq_dec (pre ++ [c0]) (pre ++ c0 :: c1 :: rest)) as [Heq|]; [|reflexivity].
          exfalso. apply app_inv_head in Heq. discriminate. }
        rewrite Hq. destruct (fget D0 (pre ++ [c0])) as [[| |]|]; try discriminate.
        apply IH; auto; [|discriminate]. rewrite <- app_assoc. exact Hg. }
      apply (G [] (c :: p')); [exact Ep|discriminate]. }
    unfold mirror_at.
    destruct HS_or as [HpS|HpN].
    + (* the source has p *)
      destruct (HinS p HpS) as (ns & EnS & HinLs). rewrite EnS.
      assert (HaS : alookup path path_eq_dec p Ls = Some (entry_of ns)) by (apply alookup_in; auto).
      destruct (alookup path path_eq_dec p Ld) as [ed|] eqn:HaD.
      * (* ... and so has the destination listing *)
        apply alookup_some_in in HaD as HinLd. destruct (HeD _ _ HinLd) as (nd & EnD & ->).
        destruct (needs_delete diff (entry_of ns) (entry_of nd)) eqn:Hnd.
        -- (* incompatible: deleted and re-created *)
           assert (Hc : In (p, (entry_of ns, NotOnDest)) (a_copy acts)).
           { apply in_copy_iff. split; auto. unfold copy_dec, copy_decision. rewrite (alookup_in Ld p (entry_of nd)) by auto. rewrite Hnd. left; reflexivity. }
           specialize (E1 _ _ _ Hc). rewrite E1. clear -Hts EnS Hlinks.
           destruct ns as [m b| |t k]; cbn [Fs.entry_of planned_node].
           ++ left. destruct (Hts _ _ _ EnS) as (t & ->). cbn [stamp_z]. unfold file_data. rewrite EnS. reflexivity.
           ++ reflexivity.
           ++ eexists; eexists. split; [reflexivity|]. split; [eapply Hlinks; eauto|right; reflexivity].
        -- destruct (needs_copy ss (entry_of ns) (entry_of nd)) as [r|] eqn:Hnc.
           ++ assert (Hc : In (p, (entry_of ns, r)) (a_copy acts)).
              { apply in_copy_iff. split; auto. unfold copy_dec, copy_decision. rewrite (alookup_in Ld p (entry_of nd)) by auto. rewrite Hnd, Hnc. left; reflexivity. }
              specialize (E1 _ _ _ Hc). rewrite E1. clear -Hts EnS Hlinks.
              destruct ns as [m b| |t k]; cbn [Fs.entry_of planned_node].
              ** left. destruct (Hts _ _ _ EnS) as (t & ->). cbn [stamp_z]. unfold file_data. rewrite EnS. reflexivity.
              ** reflexivity.
              ** eexists; eexists. split; [reflexivity|]. split; [eapply Hlinks; eauto|right; reflexivity].
           ++ (* up to date: neither copied nor deleted *)
              assert (Hnc' : ~ In p (map fst (a_copy acts))).
              { intros Hq. apply in_map_iff in Hq as ([q [e r]] & Hq1 & Hq2). cbn [fst] in Hq1. subst q.
                apply in_copy_iff in Hq2 as [Hq2 Hq3]. unfold copy_dec, copy_decision in Hq3.
                rewrite (alookup_in Ld p (entry_of nd)) in Hq3 by auto.
                assert (e = entry_of ns) by (rewrite (alookup_in Ls p e) in HaS by auto; congruence). subst e.
                rewrite Hnd, Hnc in Hq3. destruct Hq3. }
              assert (Hnd' : ~ In p (map fst (a_delete acts))).
              { intros Hq. apply in_map_iff in Hq as ([q [e r]] & Hq1 & Hq2). cbn [fst] in Hq1. subst q.
                apply in_delete_iff in Hq2 as [Hq2 Hq3]. unfold delete_dec, delete_decision in Hq3. rewrite HaS in Hq3.
                assert (e = entry_of nd) by (pose proof (alookup_in Ld p e HndD Hq2) as X; rewrite (alookup_in Ld p (entry_of nd)) in X by auto; congruence). subst e.
                rewrite Hnd in Hq3. destruct Hq3. }
              rewrite (E3 p Hnc' Hnd'). clear -Hnd Hnc EnD.
              destruct ns as [m b| |t k], nd as [m' b'| |t' k']; cbn [Fs.entry_of needs_delete needs_copy] in *; try discriminate.
              ** right. exists b', m'. split; [exact EnD|]. split; [|reflexivity].
                 destruct (Z.compare_spec (stamp_z now_z m) (stamp_z now_z m')); try discriminate; try (destruct ss; discriminate). symmetry; assumption.
              ** exact EnD.
              ** exists t', k'. split; [exact EnD|].
                 destruct (target_eqb (normalize t) (normalize t')) eqn:Et; cbn [negb] in Hnd; [|discriminate].
                 apply target_eqb_eq in Et. split; [congruence|].
                 destruct diff; [right|left; reflexivity].
                 destruct (skind_eqb k k') eqn:Ek; cbn [negb andb] in Hnd; [|discriminate].
                 destruct k, k'; try discriminate; reflexivity.
      * (* the destination does not list p: p is new *)
        assert (Hc : In (p, (entry_of ns, NotOnDest)) (a_copy acts)).
        { apply in_copy_iff. split; auto. unfold copy_dec, copy_decision. rewrite HaD. left; reflexivity. }
        specialize (E1 _ _ _ Hc). rewrite E1. clear -Hts EnS Hlinks.
        destruct ns as [m b| |t k]; cbn [Fs.entry_of planned_node].
        -- left. destruct (Hts _ _ _ EnS) as (t & ->). cbn [stamp_z]. unfold file_data. rewrite EnS. reflexivity.
        -- reflexivity.
        -- eexists; eexists. split; [reflexivity|]. split; [eapply Hlinks; eauto|right; reflexivity].
    + (* the source has nothing at p: p must be a destination entry, and it is deleted *)
      rewrite HpN.
      assert (HpD : In p (lkeys Ld)).
      { destruct Htp as [[_ Hne]|Ht]; [congruence|]. apply HkD. exact Ht. }
      assert (HnS : ~ In p (lkeys Ls)) by (intros Hq; destruct (HinS p Hq) as (n & En & _); congruence).
      destruct (HinD p HpD) as (nd & EnD & HinLd).
      apply E2.
      * intros Hq. apply HnS. apply HcS. exact Hq.
      * change p with (fst (p, (entry_of nd, NotOnSource))). apply in_map. apply in_delete_iff. split; auto.
        unfold delete_dec, delete_decision. rewrite (alookup_none Ls p HnS). left; reflexivity.
  - (* p takes part on neither side: no command names it *)
    intros HnS HnD. apply E3.
    + intros Hq. apply HnS. apply HkS. apply HcS. exact Hq.
    + intros Hq. apply HnD. apply HkD. apply HdD. exact Hq.
Qed.


(* ---- the execution phase as a command list ---- *)
Lemma dest_cmds_map_delete (dl : list (path * (entry * dreason))) :
  dest_cmds (map (fun e => DestCmd (delete_cmd e)) dl) = map delete_cmd dl.
Proof. induction dl as [|e dl IH]; [reflexivity|]. unfold dest_cmds in *. cbn [map flat_map app]. rewrite IH. reflexivity. Qed.

Lemma anc_effect fl st :
  d_fs (fst (doer_exec fl st CCreateRootAncestors)) = d_fs st /\ d_open (fst (doer_exec fl st CCreateRootAncestors)) = d_open st.
Proof. cbn [doer_exec]. destruct (d_anc st); cbn; auto. Qed.

(* What a successful, skip-free, non-dry run is: the plan of the two side listings, executed completely
   and without any error, from a state that differs from the initial one at most by the created ancestors. *)
Lemma sync_success_shape cfg S D ans bits ls ld ft :
  valid_listing S ls -> valid_listing (d_fs D) ld -> d_open D = None ->
  let r := sync_one cfg S D ans bits ls ld ft in
  r_ok r = true -> r_skipped r = [] -> r_root_skipped r = false -> cf_dry cfg = false ->
  exists stP,
    let acts := plan_spec (cf_diff cfg) (beh_eqb (b_same (cf_b cfg)) BSkip) (side_listing S ls) (side_listing (d_fs D) ld) in
    fget S [] <> None /\
    d_fs stP = d_fs D /\ d_open stP = None /\
    (d_events stP = d_events D \/ d_events stP = d_events D ++ [CreatedAncestors]) /\
    r_dest r = exec_all (cf_fl cfg) (exec_all (cf_fl cfg) stP (map delete_cmd (a_delete acts)))
                 (dest_cmds (flat_map (copy_steps chunker S) (a_copy acts))) /\
    all_ok (cf_fl cfg) stP (map delete_cmd (a_delete acts)) /\
    all_ok (cf_fl cfg) (exec_all (cf_fl cfg) stP (map delete_cmd (a_delete acts)))
       (dest_cmds (flat_map (copy_steps chunker S) (a_copy acts))).
Proof.
  intros HvS HvD Hopen. cbv zeta. unfold Sync.sync_one.
  destruct (side_listing_spec S ls HvS) as (HndS & HeS & HkS).
  destruct (side_listing_spec (d_fs D) ld HvD) as (HndD & HeD & HkD).
  unfold Mirror.side_listing in HndS, HeS, HkS, HndD, HeD, HkD.
  destruct (fget S []) as [sn|] eqn:ErS; [|cbn; discriminate].
  match goal with |- context [match ?g with inl _ => _ | inr _ => _ end] => destruct g as [[ans1 np1]|[[|] np]] end;
    try (cbn; discriminate).
  intros Hok Hsk Hrs Hdry. revert Hok Hsk Hrs. rewrite Hdry.
  set (Ls := ([], entry_of sn) :: match sn with NFolder => ls | _ => [] end) in *.
  set (Ld := match fget (d_fs D) [] with Some n => ([], entry_of n) :: match n with NFolder => ld | _ => [] end | None => [] end) in *.
  (* the projections of the arrival sequence are the two side listings *)
  match goal with |- context [actions_of ?d ?s ?a] => set (arr := a); set (ss := s) end.
  assert (Hsrcs : srcs path entry arr = Ls).
  { unfold arr, Ls. rewrite srcs_cons_src. f_equal. rewrite srcs_app_c.
    match goal with |- context [interleave bits ?a ?b] => destruct (interleave_projections bits a b) as [I1 _]; rewrite I1 end.
    destruct (option_map entry_of (fget (d_fs D) [])); cbn; destruct sn; reflexivity. }
  assert (Hdests : dests path entry arr = Ld).
  { unfold arr, Ld. rewrite dests_cons_src, dests_app_c.
    match goal with |- context [interleave bits ?a ?b] => destruct (interleave_projections bits a b) as [_ I2]; rewrite I2 end.
    destruct (fget (d_fs D) []) as [[| |]|]; reflexivity. }
  rewrite (actions_of_spec (cf_diff cfg) ss arr) by (rewrite ?Hsrcs, ?Hdests; assumption).
  rewrite Hsrcs, Hdests.
  set (acts := plan_spec (cf_diff cfg) ss Ls Ld).
  destruct (confirm (cf_b cfg) ans1 acts) as [|acts' skipped b2 a2 np2] eqn:Ec; [cbn; discriminate|].
  cbn [r_ok r_skipped r_root_skipped r_dest].
  set (pre := match option_map entry_of (fget (d_fs D) []) with Some _ => [] | None => [DestCmd CCreateRootAncestors] end).
  set (r0 := mkR D _ _ [] false 0 0 None).
  set (r1 := run_steps (cf_fl cfg) ft r0 pre).
  set (r2 := run_steps (cf_fl cfg) ft r1 (exec_steps chunker S acts')).
  intros Hok Hsk _.
  assert (acts' = acts) by (eapply confirm_no_skip; eauto). subst acts'.
  assert (Herrs : rs_errs r2 = [] /\ rs_srcfail r2 = false).
  { revert Hok. destruct (rs_errs r2); [|discriminate]. intros Hok. split; auto.
    revert Hok. destruct (rs_srcfail r2); [discriminate|reflexivity]. }
  destruct Herrs as [He2 Hf2].
  destruct (run_steps_errs (cf_fl cfg) ft (exec_steps chunker S acts) r1) as (l2 & E2).
  change (run_steps (cf_fl cfg) ft r1 (exec_steps chunker S acts)) with r2 in E2.
  assert (He1 : rs_errs r1 = []) by (rewrite He2 in E2; destruct (rs_errs r1); [reflexivity|discriminate]).
  assert (Hf1 : rs_srcfail r1 = false).
  { destruct (rs_srcfail r1) eqn:E; auto.
    pose proof (run_steps_srcfail (cf_fl cfg) ft (exec_steps chunker S acts) r1 E) as Hx.
    change (run_steps (cf_fl cfg) ft r1 (exec_steps chunker S acts)) with r2 in Hx. rewrite Hx in Hf2. congruence. }
  assert (Hpre_ok : rs_sent r1 = rs_sent r0 ++ dest_cmds pre /\ rs_src r1 = rs_src r0 ++ src_fetches pre /\ rs_budget r1 = None)
    by (apply (run_steps_ok (cf_fl cfg) ft pre r0); auto).
  destruct Hpre_ok as (_ & _ & Hb1).
  destruct (run_steps_exec (cf_fl cfg) ft pre r0) as [X1 _]; auto.
  destruct (run_steps_exec (cf_fl cfg) ft (exec_steps chunker S acts) r1) as [X2 A2]; auto.
  { change (run_steps (cf_fl cfg) ft r1 (exec_steps chunker S acts)) with r2. rewrite He2, He1. reflexivity. }
  change (run_steps (cf_fl cfg) ft r1 (exec_steps chunker S acts)) with r2 in X2.
  change (run_steps (cf_fl cfg) ft r0 pre) with r1 in X1. cbn [rs_d] in X1.
  (* the state after the (possible) CreateRootAncestors *)
  assert (Hst1 : d_fs (rs_d r1) = d_fs D /\ d_open (rs_d r1) = None /\
                 (d_events (rs_d r1) = d_events D \/ d_events (rs_d r1) = d_events D ++ [CreatedAncestors])).
  { rewrite X1. unfold pre. destruct (option_map entry_of (fget (d_fs D) [])); cbn [dest_cmds flat_map app exec_all]; [auto|].
    change (rs_d r0) with D.
    destruct (anc_effect (cf_fl cfg) D) as [F1 F2]. rewrite F1, F2. split; [reflexivity|]. split; [exact Hopen|].
    cbn [doer_exec]. destruct (d_anc D); cbn; auto. }
  destruct Hst1 as (Hfs1 & Hop1 & Hev1).
  (* split the execution phase *)
  unfold exec_steps in X2, A2. rewrite dest_cmds_app, dest_cmds_map_delete in X2, A2.
  rewrite exec_all_app in X2. apply all_ok_app in A2 as [Ad Ac].
  exists (rs_d r1). cbv zeta. unfold Mirror.side_listing. rewrite ErS. fold Ls Ld ss acts.
  split; [congruence|]. split; [exact Hfs1|]. split; [exact Hop1|]. split; [exact Hev1|].
  split; [exact X2|]. split; [exact Ad|exact Ac].
Qed.

Theorem mirror_theorem cfg S D ans bits ls ld ft :
  valid_listing S ls -> valid_listing (d_fs D) ld ->
  wf_fs S -> src_times_set S -> links_roundtrip S -> d_open D = None ->
  let r := sync_one cfg S D ans bits ls ld ft in
  r_ok r = true -> r_skipped r = [] -> r_root_skipped r = false -> cf_dry cfg = false ->
  no_through (d_events (r_dest r)) -> cf_fl cfg = dest_fl ->
  mirror now_z incl normalize (cf_diff cfg) dest_fl S (d_fs D) (d_fs (r_dest r)).
Proof.
  intros HvS HvD Hwf Hts Hlinks Hopen. cbv zeta. intros Hok Hsk Hrs Hdry Hnt Hflv.
  destruct (sync_success_shape cfg S D ans bits ls ld ft HvS HvD Hopen Hok Hsk Hrs Hdry)
    as (stP & Hroot & Hfs1 & Hop1 & _ & X2 & Ad & Ac).
  destruct (side_listing_spec S ls HvS) as (HndS & HeS & HkS).
  destruct (side_listing_spec (d_fs D) ld HvD) as (HndD & HeD & HkD).
  set (Ls := side_listing S ls) in *. set (Ld := side_listing (d_fs D) ld) in *.
  set (ss := beh_eqb (b_same (cf_b cfg)) BSkip) in *.
  set (acts := plan_spec (cf_diff cfg) ss Ls Ld) in *.
  set (stD := exec_all (cf_fl cfg) stP (map delete_cmd (a_delete acts))) in *.
  rewrite X2 in Hnt.
  assert (HntD : no_through (d_events stD)) by (eapply no_through_prefix; eauto).
  assert (NdD : NoDup (map fst (a_delete acts))) by (apply nodup_delete_keys; auto).
  assert (NdC : NoDup (map fst (a_copy acts))) by (apply nodup_copy_keys; auto).
  destruct (deletes_effect (cf_fl cfg) (a_delete acts) stP NdD Ad HntD) as (D1 & D2 & D3).
  fold stD in D1, D2, D3.
  assert (Hfl : forall p e r, In (p, (e, r)) (a_copy acts) -> file_listed S p e).
  { intros p e r Hin. apply in_copy_iff in Hin as [Hin _]. destruct (HeS _ _ Hin) as (n & En & ->).
    destruct n; cbn; auto. eexists; eexists; eauto. }
  assert (HopD : d_open stD = None) by (rewrite D3; exact Hop1).
  destruct (copies_effect chunker chunker_ok (cf_fl cfg) S (a_copy acts) stD NdC Hfl HopD Ac Hnt) as (C1 & C2 & _).
  rewrite X2.
  rewrite Hflv in *.
  apply (mirror_from_effects (cf_diff cfg) ss S (d_fs D) _ Ls Ld); auto.
  - intros p Hnc Hd. rewrite C2 by assumption. apply D1. assumption.
  - intros p Hnc Hnd. rewrite C2 by assumption. rewrite D2 by assumption. rewrite Hfs1. reflexivity.
Qed.

End MirrorMain.
