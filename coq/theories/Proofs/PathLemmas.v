(* Prefixes and visibility, characterised by first-k components. *)
From RJ Require Import Base.Prelude Base.OrderedPlan Model.Settings Model.Core Model.Fs.

Lemma is_prefix_firstn q p : is_prefix q p = true <-> q = firstn (length q) p.
Proof.
  revert p; induction q as [|x q IH]; intros p; cbn [is_prefix length firstn]; [tauto|].
  destruct p as [|y p]; [split; discriminate|].
  destruct (str_eq_dec x y) as [->|Hne].
  - rewrite IH. split; [intros <-; reflexivity | intros H; inversion H; congruence].
  - split; [discriminate|]. intros H. inversion H. contradiction.
Qed.

Lemma is_prefix_firstn_k k p : is_prefix (firstn k p) p = true.
Proof.
  revert p; induction k as [|k IH]; intros [|y p]; cbn [firstn is_prefix]; try reflexivity.
  destruct (str_eq_dec y y); [apply IH|congruence].
Qed.

Lemma strict_prefix_iff q p : is_strict_prefix q p = true <-> exists k, k < length p /\ q = firstn k p.
Proof.
  unfold is_strict_prefix, path_eqb. split.
  - intros H. apply andb_true_iff in H as [H1 H2]. apply is_prefix_firstn in H1.
    exists (length q). split; [|exact H1].
    destruct (path_eq_dec q p) as [->|Hne]; [discriminate|].
    destruct (Nat.lt_ge_cases (length q) (length p)) as [Hlt|Hge]; [exact Hlt|].
    exfalso. apply Hne. rewrite H1. apply firstn_all2. exact Hge.
  - intros (k & Hk & ->). rewrite is_prefix_firstn_k. cbn [andb].
    destruct (path_eq_dec (firstn k p) p) as [Heq|]; [|reflexivity].
    exfalso. apply (f_equal (@length _)) in Heq. rewrite firstn_length in Heq. lia.
Qed.

Section Vis.
Variable incl : path -> bool.

(* visible_above f pre rest checks pre ++ firstn k rest for 1 <= k < |rest| *)
Lemma visible_above_iff f : forall rest pre,
  visible_above incl f pre rest = true <->
  forall k, 1 <= k -> k < length rest ->
    incl (pre ++ firstn k rest) = true /\ fget f (pre ++ firstn k rest) = Some NFolder.
Proof.
  induction rest as [|c rest IH]; intros pre.
  - cbn. split; [intros _ k H1 H2; lia | reflexivity].
  - destruct rest as [|c1 rest].
    + cbn. split; [intros _ k H1 H2; lia | reflexivity].
    + change (visible_above incl f pre (c :: c1 :: rest)) with
        (incl (pre ++ [c]) && match fget f (pre ++ [c]) with Some NFolder => visible_above incl f (pre ++ [c]) (c1 :: rest) | _ => false end).
      split.
      * intros H. apply andb_true_iff in H as [Hi H].
        destruct (fget f (pre ++ [c])) as [[| |]|] eqn:E; try discriminate.
        pose proof (proj1 (IH (pre ++ [c])) H) as H'. clear H. rename H' into H. intros k H1 H2.
        destruct k as [|[|k]]; [lia| |].
        -- cbn [firstn]. split; [exact Hi|exact E].
        -- cbn [length] in H2. specialize (H (S k) ltac:(lia) ltac:(cbn [length]; lia)).
           change (firstn (S (S k)) (c :: c1 :: rest)) with (c :: firstn (S k) (c1 :: rest)).
           replace (pre ++ c :: firstn (S k) (c1 :: rest)) with ((pre ++ [c]) ++ firstn (S k) (c1 :: rest)) by (rewrite <- app_assoc; reflexivity).
           exact H.
      * intros H. destruct (H 1 ltac:(lia) ltac:(cbn [length]; lia)) as [Hi E]. cbn [firstn] in Hi, E.
        rewrite Hi, E. cbn [andb]. apply IH. intros k H1 H2.
        specialize (H (S k) ltac:(lia) ltac:(cbn [length] in *; lia)).
        change (firstn (S k) (c :: c1 :: rest)) with (c :: firstn k (c1 :: rest)) in H.
        replace (pre ++ c :: firstn k (c1 :: rest)) with ((pre ++ [c]) ++ firstn k (c1 :: rest)) in H by (rewrite <- app_assoc; reflexivity).
        exact H.
Qed.

(* visibility in terms of strict prefixes *)
Lemma visible_iff f p :
  visible incl f p = true <->
  p <> [] /\ incl p = true /\
  forall q, q <> [] -> is_strict_prefix q p = true -> incl q = true /\ fget f q = Some NFolder.
Proof.
  unfold visible. destruct p as [|c p]; [split; [discriminate|intros [H _]; congruence]|].
  rewrite andb_true_iff, visible_above_iff. cbn [app]. split.
  - intros [Hi H]. split; [discriminate|]. split; [exact Hi|].
    intros q Hq Hs. apply strict_prefix_iff in Hs as (k & Hk & ->).
    destruct k; [cbn in Hq; congruence|]. apply H; lia.
  - intros (_ & Hi & H). split; [exact Hi|]. intros k H1 H2. apply H.
    + destruct k; [lia|]. cbn. discriminate.
    + apply strict_prefix_iff. exists k. auto.
Qed.
End Vis.

Lemma strict_prefix_trans a b c : is_strict_prefix a b = true -> is_strict_prefix b c = true -> is_strict_prefix a c = true.
Proof.
  intros H1 H2. apply strict_prefix_iff in H1 as (k1 & L1 & ->). apply strict_prefix_iff in H2 as (k2 & L2 & ->).
  apply strict_prefix_iff. rewrite firstn_length in L1. exists k1. split; [lia|].
  rewrite firstn_firstn. f_equal. lia.
Qed.

Lemma nil_strict_prefix p : p <> [] -> is_strict_prefix [] p = true.
Proof. intros H. apply strict_prefix_iff. exists 0. split; [destruct p; [congruence|cbn; lia]|reflexivity]. Qed.
