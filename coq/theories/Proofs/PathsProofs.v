(* Link-text normalisation round trips (C04, C12) for the Unix flavour. *)
From RJ Require Import Base.Prelude Model.Core Model.Fs Model.Paths.

Definition nosep (sep : ascii) (w : str) : Prop := contains sep w = false.

Lemma contains_app c a b : contains c (a ++ b) = contains c a || contains c b.
Proof. unfold contains. apply existsb_app. Qed.

Lemma split_on_nonnil sep s : split_on sep s <> [].
Proof.
  induction s as [|c r IH]; cbn [split_on]; [discriminate|].
  destruct (Ascii.eqb c sep); [discriminate|]. destruct (split_on sep r); discriminate.
Qed.

Lemma split_on_nosep sep s : Forall (nosep sep) (split_on sep s).
Proof.
  induction s as [|c r IH]; cbn [split_on]; [constructor; [reflexivity|constructor]|].
  destruct (Ascii.eqb c sep) eqn:E.
  - constructor; [reflexivity|exact IH].
  - destruct (split_on sep r) as [|w ws]; [constructor; [|constructor]|].
    + unfold nosep, contains. cbn. rewrite Ascii.eqb_sym, E. reflexivity.
    + inversion IH; subst. constructor; auto. unfold nosep, contains in *. cbn. rewrite Ascii.eqb_sym, E. assumption.
Qed.

Lemma split_on_single sep w : nosep sep w -> split_on sep w = [w].
Proof.
  induction w as [|c r IH]; intros H; [reflexivity|]. unfold nosep, contains in H. cbn in H.
  apply orb_false_iff in H as [H1 H2]. cbn [split_on]. rewrite Ascii.eqb_sym, H1. rewrite IH by exact H2. reflexivity.
Qed.

Lemma split_on_app sep w r : nosep sep w -> split_on sep (w ++ sep :: r) = w :: split_on sep r.
Proof.
  induction w as [|c w IH]; intros H.
  - cbn [app split_on]. rewrite Ascii.eqb_refl. reflexivity.
  - unfold nosep, contains in H. cbn in H. apply orb_false_iff in H as [H1 H2].
    cbn [app split_on]. rewrite Ascii.eqb_sym, H1. rewrite IH by exact H2. reflexivity.
Qed.

Lemma split_join sep comps : comps <> [] -> Forall (nosep sep) comps -> split_on sep (join_with sep comps) = comps.
Proof.
  induction comps as [|x r IH]; intros Hne HF; [congruence|].
  inversion HF as [|? ? Hx Hr]; subst. destruct r as [|y r].
  - cbn [join_with]. apply split_on_single. exact Hx.
  - change (join_with sep (x :: y :: r)) with (x ++ sep :: join_with sep (y :: r)).
    rewrite split_on_app by exact Hx. rewrite IH; [reflexivity|discriminate|exact Hr].
Qed.

(* canonical component lists: what unix_components produces *)
Definition canon (comps : list str) : Prop :=
  Forall (fun w => nonempty w = true) comps /\ Forall (nosep slash) comps /\
  match comps with _ :: r => Forall (fun w => is_dot w = false) r | [] => True end.

Lemma Forall_filter {A} (P : A -> Prop) f l : Forall P l -> Forall P (filter f l).
Proof. induction 1; cbn; [constructor|]. destruct (f x); [constructor|]; auto. Qed.
Lemma filter_true {A} (f : A -> bool) l : Forall (fun x => f x = true) l -> filter f l = l.
Proof. induction 1; cbn; [reflexivity|]. rewrite H. f_equal. assumption. Qed.
Lemma Forall_filter_self {A} (f : A -> bool) l : Forall (fun x => f x = true) (filter f l).
Proof. induction l; cbn; [constructor|]. destruct (f a) eqn:E; [constructor|]; auto. Qed.

Lemma unix_components_canon s : canon (unix_components s).
Proof.
  unfold unix_components.
  assert (H1 : Forall (fun w => nonempty w = true) (filter nonempty (split_on slash s))) by apply Forall_filter_self.
  assert (H2 : Forall (nosep slash) (filter nonempty (split_on slash s))) by (apply Forall_filter, split_on_nosep).
  destruct (filter nonempty (split_on slash s)) as [|c r]; [repeat split; constructor|].
  inversion H1; subst. inversion H2; subst.
  assert (Hnd : Forall (fun w => is_dot w = false) (filter (fun x => negb (is_dot x)) r)).
  { eapply Forall_impl; [|apply Forall_filter_self]. cbn. intros a Ha. apply negb_true_iff in Ha. exact Ha. }
  destruct (is_dot c) eqn:Ed.
  - split; [|split].
    + constructor; [assumption | apply Forall_filter; assumption].
    + constructor; [assumption | apply Forall_filter; assumption].
    + exact Hnd.
  - cbn [filter]. rewrite Ed. cbn [negb]. split; [|split].
    + constructor; [assumption | apply Forall_filter; assumption].
    + constructor; [assumption | apply Forall_filter; assumption].
    + exact Hnd.
Qed.

Lemma unix_components_join comps : canon comps -> unix_components (join_with slash comps) = comps.
Proof.
  intros (Hne & Hns & Hd). destruct comps as [|c r]; [reflexivity|].
  unfold unix_components. rewrite split_join by (discriminate || assumption).
  rewrite (filter_true nonempty) by exact Hne.
  assert (Hr : filter (fun x => negb (is_dot x)) r = r).
  { apply filter_true. eapply Forall_impl; [|exact Hd]. cbn. intros a ->. reflexivity. }
  destruct (is_dot c) eqn:Ed; [rewrite Hr; reflexivity|].
  cbn [filter]. rewrite Ed. cbn [negb]. rewrite Hr. reflexivity.
Qed.

Lemma join_not_absolute comps : canon comps -> is_absolute_unix (join_with slash comps) = false.
Proof.
  intros (Hne & Hns & _). destruct comps as [|c r]; [reflexivity|].
  inversion Hne; subst. inversion Hns; subst. destruct c as [|a c]; [discriminate|].
  assert (Ha : Ascii.eqb a slash = false).
  { unfold nosep, contains in H3. cbn in H3. apply orb_false_iff in H3 as [H3 _]. rewrite Ascii.eqb_sym. exact H3. }
  destruct r; cbn; exact Ha.
Qed.

(* well-formed UTF-8 is left alone by the lossy conversion *)
Lemma lossy_fuel_valid fuel : forall s, utf8_valid_fuel fuel s = true -> length s < fuel -> lossy_fuel fuel s = s.
Proof.
  induction fuel as [|fuel IH]; intros s Hv Hl; [lia|].
  destruct s as [|c0 r]; [reflexivity|]. cbn [utf8_valid_fuel lossy_fuel] in *. cbn [length] in Hl.
  destruct (Nat.leb (b c0) 127); [rewrite IH by (auto; lia); reflexivity|].
  destruct (Nat.leb 194 (b c0) && Nat.leb (b c0) 223).
  { destruct r as [|c1 r1]; [discriminate|]. apply andb_true_iff in Hv as [H1 H2]. rewrite H1.
    cbn [length] in Hl. rewrite IH by (auto; lia). reflexivity. }
  destruct (Nat.leb 224 (b c0) && Nat.leb (b c0) 239).
  { destruct r as [|c1 [|c2 r2]]; try discriminate.
    apply andb_true_iff in Hv as [Hv H3]. apply andb_true_iff in Hv as [Hv H2]. apply andb_true_iff in Hv as [H0 H1].
    unfold in_range. rewrite H0, H1, H2. cbn [andb length] in *. rewrite IH by (auto; lia). reflexivity. }
  destruct (Nat.leb 240 (b c0) && Nat.leb (b c0) 244); [|discriminate].
  destruct r as [|c1 [|c2 [|c3 r3]]]; try discriminate.
  apply andb_true_iff in Hv as [Hv H4]. apply andb_true_iff in Hv as [Hv H3]. apply andb_true_iff in Hv as [Hv H2].
  apply andb_true_iff in Hv as [H0 H1].
  unfold in_range. rewrite H0, H1, H2, H3. cbn [andb length] in *. rewrite IH by (auto; lia). reflexivity.
Qed.
Theorem lossy_valid s : utf8_valid s = true -> lossy s = s.
Proof. intros H. apply lossy_fuel_valid; [exact H|lia]. Qed.

(* what the destination writes back normalises to the same target, for every text that the lossy
   conversion leaves alone (in particular every well-formed UTF-8 text) *)
Theorem normalize_unix_idem t : lossy t = t -> normalize_unix (denormalize Unix (normalize_unix t)) = normalize_unix t.
Proof.
  intros HL. unfold normalize_unix at 2.
  destruct (is_absolute_unix t) eqn:Ea.
  - cbn [denormalize]. rewrite HL. unfold normalize_unix. rewrite Ea. reflexivity.
  - destruct (forallb utf8_valid (unix_components t) && negb (existsb (contains backslash) (unix_components t))) eqn:Ec.
    + cbn [denormalize]. unfold normalize_unix.
      rewrite join_not_absolute by apply unix_components_canon.
      rewrite unix_components_join by apply unix_components_canon. rewrite Ea, Ec. reflexivity.
    + cbn [denormalize]. rewrite HL. unfold normalize_unix. rewrite Ea, Ec. reflexivity.
Qed.

(* relative link text reaches the destination with the same components; any other text verbatim *)
Theorem link_text_preserved t : lossy t = t -> same_path_text t (denormalize Unix (normalize_unix t)) = true.
Proof.
  intros HL. unfold normalize_unix, same_path_text.
  destruct (is_absolute_unix t) eqn:Ea; [cbn [denormalize]; rewrite HL, Ea; cbn [orb]; apply str_eqb_refl|].
  destruct (forallb utf8_valid (unix_components t) && negb (existsb (contains backslash) (unix_components t))) eqn:Ec.
  - cbn [denormalize]. rewrite join_not_absolute by apply unix_components_canon. cbn [orb].
    rewrite unix_components_join by apply unix_components_canon.
    destruct (list_eq_dec str_eq_dec (unix_components t) (unix_components t)); [reflexivity|congruence].
  - cbn [denormalize]. rewrite HL, Ea. cbn [orb].
    destruct (list_eq_dec str_eq_dec (unix_components t) (unix_components t)); [reflexivity|congruence].
Qed.
Theorem raw_text_verbatim t s : lossy t = t -> normalize_unix t = TRaw s -> denormalize Unix (normalize_unix t) = t.
Proof.
  intros HL. unfold normalize_unix. destruct (is_absolute_unix t); [intros _; cbn [denormalize]; exact HL|].
  destruct (_ && _); [discriminate|intros _; cbn [denormalize]; exact HL].
Qed.

(* F7: ill-formed text does NOT survive - the replacement character turns a raw text into a
   normalisable one, so the link looks different on every later run *)
Theorem link_text_roundtrip_refuted :
  exists t, normalize_unix (denormalize Unix (normalize_unix t)) <> normalize_unix t.
Proof. exists [ascii_of_nat 116; ascii_of_nat 255; ascii_of_nat 120]. vm_compute. discriminate. Qed.
