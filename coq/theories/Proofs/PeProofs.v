(* PE: the shape of the file produced by the fixed add_section_to_pe (both layouts: room for the new
   section header in the padding after the section headers, or contents moved up), the round trip
   add -> extract, and what is preserved. *)
From RJ Require Import Base.Prelude Model.LE Model.Pe Proofs.LEProofs Proofs.ExeLemmas.
Local Open Scope N_scope.

(* ------------------------------------------------------------------ reading a PE file *)
Definition pe_sig bs := fieldN bs 60 4.                      (* e_lfanew *)
Definition pe_fh bs := pe_sig bs + 4.                        (* COFF file header *)
Definition pe_n bs := fieldN bs (pe_fh bs + 2) 2.            (* NumberOfSections *)
Definition pe_soh bs := fieldN bs (pe_fh bs + 16) 2.         (* SizeOfOptionalHeader *)
Definition pe_oh bs := pe_fh bs + 20.
Definition pe_sa bs := fieldN bs (pe_oh bs + 32) 4.          (* SectionAlignment *)
Definition pe_fa bs := fieldN bs (pe_oh bs + 36) 4.          (* FileAlignment *)
Definition pe_sh bs := pe_oh bs + pe_soh bs.                 (* first section header *)
Definition pe_hend bs := pe_sh bs + pe_n bs * 40.            (* end of the section headers *)
Definition pe_sec_name bs idx := read_string bs (pe_sh bs + idx * 40) 8.
Definition pe_ptr bs idx := fieldN bs (pe_sh bs + idx * 40 + 20) 4.    (* PointerToRawData *)

(* Beyond what a successful add implies: the PE header lies after the DOS header (so e_lfanew itself
   is not inside it) and the optional header is long enough to contain SizeOfImage/SizeOfHeaders. *)
Definition wf_pe (e : list byte) : Prop := 64 <= pe_sig e /\ 64 <= pe_soh e.
Definition pe_has_section (e name : list byte) : Prop :=
  exists idx, idx < pe_n e /\ pe_sec_name e idx = Ok name.
Definition pe_name_ok (name : list byte) : Prop := ~ In zero name.

Ltac invb H E v :=
  match type of H with
  | obind ?x _ = Ok _ => destruct x as [v|?|?] eqn:E; cbn [obind] in H; [ | discriminate H | discriminate H]
  end.
Ltac invc H C :=
  match type of H with
  | (if ?c then _ else _) = Ok _ => destruct c eqn:C; cbv beta iota in H; [try discriminate H | try discriminate H]
  end.
Ltac nn := change (N.of_nat 8) with 8 in *; change (N.of_nat 4) with 4 in *; change (N.of_nat 2) with 2 in *.

Lemma write_field_inv m sz bs off v bs' : write_field true m sz bs off v = Ok bs' ->
  off + N.of_nat sz <= lenN bs /\ bs' = updN bs off (encode_le sz v) /\ lenN bs' = lenN bs.
Proof.
  intros H. apply write_field_ok in H as (L & _ & ->). repeat split; auto.
  apply lenN_updN. now rewrite lenN_encode.
Qed.

Lemma fieldN_updN_same bs off sz v : off + N.of_nat sz <= lenN bs ->
  fieldN (updN bs off (encode_le sz v)) off sz = v mod 256 ^ N.of_nat sz.
Proof.
  intros L. unfold fieldN. pose proof (subN_updN_same bs off (encode_le sz v)) as X.
  rewrite lenN_encode in X. rewrite X by exact L. apply decode_encode.
Qed.

Lemma validate_pe_ok m e f : validate_pe true m e = Ok f ->
  f = pe_fh e /\ 64 <= lenN e /\ pe_sig e + 4 <= lenN e /\ fieldN e (pe_sig e) 4 = 17744.
Proof.
  unfold validate_pe. intros H. invb H E1 so. invb H E2 sg. invc H C.
  apply read_field_ok' in E1 as (L1 & _ & ->). apply read_field_ok' in E2 as (L2 & _ & ->). nn.
  injection H as <-. apply negb_false_iff, N.eqb_eq in C. unfold pe_fh, pe_sig. auto.
Qed.

(* ------------------------------------------------------------------ bump_ptrs *)
Lemma bump_ptrs_spec m sh fa count : forall bs idx bs',
  bump_ptrs true m bs sh fa idx count = Ok bs' ->
  lenN bs' = lenN bs /\
  (forall o n, (forall j, idx <= j < idx + N.of_nat count -> o + n <= sh + j * 40 + 20 \/ sh + j * 40 + 24 <= o) ->
               subN bs' o n = subN bs o n) /\
  (forall j, idx <= j < idx + N.of_nat count -> fieldN bs' (sh + j * 40 + 20) 4 = fieldN bs (sh + j * 40 + 20) 4 + fa).
Proof.
  induction count as [|c IH]; intros bs idx bs' H.
  - cbn in H. injection H as <-. split; [reflexivity|]. split; [intros; reflexivity | intros j Hj; lia].
  - cbn [bump_ptrs] in H. cbv zeta in H.
    invb H E1 orig. invb H E2 new. invb H E3 bs1.
    apply read_field_ok' in E1 as (L1 & _ & ->). apply uadd_ok in E2 as (-> & B2).
    apply write_field_inv in E3 as (L3 & X3 & LL3).
    apply IH in H as (H1 & H2 & H3). split; [congruence|]. split.
    + intros o n D. rewrite H2 by (intros j Hj; apply D; lia). rewrite X3.
      apply subN_updN_disj.
      * rewrite lenN_encode. exact L3.
      * rewrite lenN_encode. specialize (D idx). nn. lia.
    + intros j Hj. destruct (N.eq_dec j idx) as [->|Hne].
      * transitivity (fieldN bs1 (sh + idx * 40 + 20) 4).
        { unfold fieldN. f_equal. apply H2. intros j Hj'. nn. lia. }
        rewrite X3. rewrite fieldN_updN_same by exact L3. change (256 ^ N.of_nat 4) with 4294967296.
        apply N.mod_small. exact B2.
      * rewrite H3 by lia. f_equal. unfold fieldN. nn. rewrite X3.
        rewrite subN_updN_disj; [reflexivity | rewrite lenN_encode; exact L3 | rewrite lenN_encode; nn; lia].
Qed.

Lemma fieldN_updN_disj bs off sz v o2 sz2 : off + N.of_nat sz <= lenN bs ->
  o2 + N.of_nat sz2 <= off \/ off + N.of_nat sz <= o2 ->
  fieldN (updN bs off (encode_le sz v)) o2 sz2 = fieldN bs o2 sz2.
Proof.
  intros L D. unfold fieldN. rewrite subN_updN_disj; [reflexivity | | ]; rewrite lenN_encode; assumption.
Qed.

Section Shape.
Variables (m : mode) (e name p e' : list byte).
Let fh := pe_fh e.
Let n := pe_n e.
Let soh := pe_soh e.
Let oh := pe_oh e.
Let sa := pe_sa e.
Let fa := pe_fa e.
Let sh := pe_sh e.
Let hend := pe_hend e.

Lemma add_pe_shape : wf_pe e -> add_pe m e name p = Ok e' ->
  exists bs2 shift hdr4 nraw noff Y Z,
    64 <= lenN e /\ fieldN e (pe_sig e) 4 = 17744 /\ n + 1 < 65536 /\ fa <> 0 /\ lenN name <= 8 /\
    (shift = 0 \/ 40 <= shift) /\ lenN bs2 = lenN e + shift /\ hend + 40 <= lenN bs2 /\ hend <= lenN e /\
    (forall o k, o + k <= hend -> (forall j, j < n -> o + k <= sh + j * 40 + 20 \/ sh + j * 40 + 24 <= o) ->
                 (o + k <= fh + 2 \/ fh + 4 <= o) -> subN bs2 o k = subN e o k) /\
    fieldN bs2 (fh + 2) 2 = n + 1 /\
    (forall o k, hend <= o -> subN bs2 (o + shift) k = subN e o k) /\
    (forall j, j < n -> fieldN bs2 (sh + j * 40 + 20) 4 = pe_ptr e j + shift) /\
    lenN hdr4 = 40 /\ subN hdr4 0 8 = name ++ zerosN (8 - lenN name) /\ fieldN hdr4 16 4 = nraw /\
    lenN p <= nraw /\ nraw - lenN p < fa /\ nraw < 4294967296 /\
    lenN bs2 <= noff /\ noff < 4294967296 /\ lenN Y = 4 /\ lenN Z = 4 /\
    e' = updN (updN (updN (updN bs2 hend hdr4 ++ zerosN (noff - lenN bs2) ++ p ++ zerosN (nraw - lenN p))
                          (hend + 20) (encode_le 4 noff)) (oh + 56) Y) (oh + 60) Z.
Proof.
  intros (WS & WO) H. fold soh in WO. unfold add_pe, add_pe_gen in H.
  invb H Hv fh'. apply validate_pe_ok in Hv as (-> & L0 & Ls & Sg). fold fh in H.
  invb H E1 n'. apply read_field_ok' in E1 as (L1 & _ & X1). change (fieldN e (fh + 2) 2) with n in X1. subst n'.
  invb H E2 n1. apply uadd_ok in E2 as (-> & B2).
  invb H E3 bs1. apply write_field_inv in E3 as (L3 & X3 & LL3). nn.
  assert (FB1 : forall o k, o + k <= fh + 2 \/ fh + 4 <= o -> subN bs1 o k = subN e o k).
  { intros o k D. rewrite X3. apply subN_updN_disj; rewrite lenN_encode; nn; lia. }
  invb H E4 soh'. apply read_field_ok' in E4 as (L4 & _ & X4). nn.
  assert (soh' = soh) as -> by (rewrite X4; unfold fieldN; nn; rewrite FB1 by lia; reflexivity).
  cbv zeta in H. fold oh sh in H.
  invb H E5 sa'. invb H E6 fa'.
  apply read_field_ok' in E5 as (L5 & _ & X5). apply read_field_ok' in E6 as (L6 & _ & X6). nn.
  assert (fa' = fa) as -> by (rewrite X6; unfold fieldN; nn; rewrite FB1 by (unfold oh; lia); reflexivity).
  clear X4 X5 X6. fold oh in H. change (fh + 20) with oh in H. fold sh in H. change (oh + soh) with sh in H.
  change (sh + n * 40) with hend in H.
  invb H E7 al. apply align_inv in E7 as (FA & X7 & _).
  invb H E8 gap. apply usub_ok in E8 as (-> & B8).
  invb H E9 bs2.
  assert (HS : hend = sh + n * 40) by reflexivity.
  assert (SH : sh = fh + 20 + soh) by reflexivity.
  assert (PB : exists shift, (shift = 0 \/ 40 <= shift) /\ lenN bs2 = lenN e + shift /\ (40 <= shift -> hend <= lenN e) /\
     (forall o k, o + k <= hend -> (forall j, j < n -> o + k <= sh + j * 40 + 20 \/ sh + j * 40 + 24 <= o) ->
                 (o + k <= fh + 2 \/ fh + 4 <= o) -> subN bs2 o k = subN e o k) /\
     fieldN bs2 (fh + 2) 2 = n + 1 /\
     (forall o k, hend <= o -> subN bs2 (o + shift) k = subN e o k) /\
     (forall j, j < n -> fieldN bs2 (sh + j * 40 + 20) 4 = pe_ptr e j + shift)).
  { assert (F2 : fieldN bs1 (fh + 2) 2 = n + 1).
    { rewrite X3. rewrite fieldN_updN_same by (nn; lia). change (256 ^ N.of_nat 2) with 65536. apply N.mod_small. lia. }
    destruct (al - hend <? 40) eqn:G in E9.
    - invb E9 Eb bump. apply align_inv in Eb as (_ & Xb & _).
      change (40 =? 0) with false in Xb. cbv iota in Xb.
      assert (BG : 40 <= bump).
      { pose proof (align_spec 40 fa FA) as Q. cbv zeta in Q. rewrite <- Xb in Q. apply Q. lia. }
      invb E9 Es b. apply splice_ok in Es as (Ls' & ->). rewrite LL3 in Ls'.
      apply bump_ptrs_spec in E9 as (Q1 & Q2 & Q3). rewrite N2Nat.id in Q2, Q3.
      exists bump. split; [now right|]. split; [rewrite Q1, lenN_insN, lenN_zerosN; lia|].
      split; [intros _; exact Ls'|]. split; [|split; [|split]].
      + intros o k D1 D2 D3. rewrite Q2 by (intros j Hj; apply D2; lia).
        rewrite subN_insN_before by lia. apply FB1. exact D3.
      + unfold fieldN. nn. rewrite Q2 by (intros j Hj; left; lia).
        rewrite subN_insN_before by lia. exact F2.
      + intros o k D. rewrite Q2 by (intros j Hj; right; lia).
        rewrite subN_insN_after by (rewrite ?lenN_zerosN; lia). rewrite lenN_zerosN.
        replace (o + bump - bump) with o by lia. apply FB1. right. lia.
      + intros j Hj. rewrite Q3 by lia. f_equal. unfold pe_ptr. fold sh. unfold fieldN. nn.
        rewrite subN_insN_before by lia. f_equal. apply FB1. right. lia.
    - injection E9 as <-. exists 0. split; [now left|]. split; [lia|]. split; [lia|].
      split; [|split; [|split]].
      + intros o k D1 D2 D3. apply FB1. exact D3.
      + exact F2.
      + intros o k D. rewrite N.add_0_r. apply FB1. right. lia.
      + intros j Hj. rewrite N.add_0_r. unfold pe_ptr. fold sh. unfold fieldN. nn. f_equal. apply FB1. right. lia. }
  destruct PB as (shift & SH0 & LB2 & HLc & S5 & S6 & S7 & S8).
  invc H C. apply N.ltb_ge in C. rewrite flen_eq in C. cbv zeta in H. rewrite !flen_eq in H.
  set (hdr0 := name ++ zerosN (40 - lenN name)) in *.
  assert (L0' : lenN hdr0 = 40) by (unfold hdr0; rewrite lenN_app, lenN_zerosN; lia).
  invb H E10 hdr1. apply write_field_inv in E10 as (L10 & X10 & LL10).
  invb H E11 nm1. invb H E12 t. invb H E13 t2. invb H E14 pva_off. invb H E15 pva.
  invb H E16 pvs_off. invb H E17 pvs. invb H E18 s0. invb H E19 nva.
  invb H E20 hdr2. apply write_field_inv in E20 as (L20 & X20 & LL20).
  invb H E21 plen32. rewrite ?flen_eq in E21. apply ucast_ok in E21 as (-> & B21).
  invb H E22 nraw. apply align_inv in E22 as (_ & X22 & B22).
  invb H E23 hdr3. apply write_field_inv in E23 as (L23 & X23 & LL23).
  invb H E24 hdr4. apply write_field_inv in E24 as (L24 & X24 & LL24).
  invb H E25 bs3. apply overwrite_ok in E25 as (L25 & X25).
  assert (LH4 : lenN hdr4 = 40) by lia. rewrite LH4 in L25.
  assert (LB3 : lenN bs3 = lenN bs2) by (rewrite X25; apply lenN_updN; lia).
  invb H E26 noff. rewrite ?flen_eq in E26. apply align_inv in E26 as (_ & X26 & B26). rewrite LB3 in X26, B26.
  replace (lenN bs2 =? 0) with false in X26 by (symmetry; apply N.eqb_neq; lia).
  cbv zeta in H.
  invb H E27 noff32. apply ucast_ok in E27 as (-> & B27).
  invb H E28 bs6. apply write_field_inv in E28 as (L28 & X28 & LL28).
  invb H E29 nsoi0. invb H E30 nsoi.
  invb H E31 bs7. apply write_field_inv in E31 as (L31 & X31 & LL31).
  invb H E32 nsoh. invb H E33 nsoh32.
  apply write_field_inv in H as (L34 & X34 & LL34). nn.
  assert (NO : lenN bs2 <= noff).
  { pose proof (align_spec (lenN bs2) fa FA) as Q. cbv zeta in Q. rewrite <- X26 in Q. apply Q. lia. }
  assert (NR : lenN p <= nraw /\ nraw - lenN p < fa /\ nraw < 4294967296).
  { destruct (N.eqb_spec (lenN p) 0) as [Z|NZ].
    - rewrite X22, Z. lia.
    - pose proof (align_spec (lenN p) fa FA NZ) as Q. cbv zeta in Q. rewrite <- X22 in Q.
      specialize (B22 NZ). lia. }
  exists bs2, shift, hdr4, nraw, noff, (encode_le 4 nsoi), (encode_le 4 nsoh32).
  split; [exact L0|]. split; [exact Sg|]. split; [lia|]. split; [exact FA|]. split; [exact C|].
  split; [exact SH0|]. split; [exact LB2|]. split; [lia|].
  split; [destruct SH0 as [->|G]; [lia | now apply HLc]|].
  split; [exact S5|]. split; [exact S6|]. split; [exact S7|]. split; [exact S8|].
  split; [exact LH4|]. split; [|split].
  - rewrite X24. rewrite subN_updN_disj by (rewrite lenN_encode; nn; lia).
    rewrite X23. rewrite subN_updN_disj by (rewrite lenN_encode; nn; lia).
    rewrite X20. rewrite subN_updN_disj by (rewrite lenN_encode; nn; lia).
    rewrite X10. rewrite subN_updN_disj by (rewrite lenN_encode; nn; lia).
    unfold hdr0. replace (40 - lenN name) with ((8 - lenN name) + 32) by lia.
    rewrite zerosN_split, app_assoc.
    pose proof (subN_prefix (name ++ zerosN (8 - lenN name)) (zerosN 32)) as Q.
    rewrite lenN_app, lenN_zerosN in Q. replace (lenN name + (8 - lenN name)) with 8 in Q by lia. exact Q.
  - rewrite X24. rewrite fieldN_updN_disj by (nn; lia).
    rewrite X23. rewrite fieldN_updN_same by (nn; lia).
    change (256 ^ N.of_nat 4) with 4294967296. apply N.mod_small. lia.
  - split; [apply NR|]. split; [apply NR|]. split; [apply NR|]. split; [exact NO|]. split; [exact B27|].
    split; [now rewrite lenN_encode|]. split; [now rewrite lenN_encode|].
    rewrite X34, X31, X28. rewrite (resizeN_grow bs3) by lia. rewrite (resizeN_grow p) by apply NR.
    rewrite LB3, X25. rewrite <- !app_assoc. reflexivity.
Qed.
End Shape.

Lemma fieldN_lt' bs off sz : off + N.of_nat sz <= lenN bs -> fieldN bs off sz < 256 ^ N.of_nat sz.
Proof.
  intros L. unfold fieldN. pose proof (decode_lt (subN bs off (N.of_nat sz))) as D.
  rewrite lenN_subN in D by exact L. exact D.
Qed.

Lemma subN_updN_inside bs off vs x k : off + lenN vs <= lenN bs -> x + k <= lenN vs ->
  subN (updN bs off vs) (off + x) k = subN vs x k.
Proof.
  intros L I. unfold updN.
  replace (off + x) with (lenN (takeN off bs) + x) by (rewrite lenN_takeN; lia).
  rewrite subN_app_r'. apply subN_app_l. exact I.
Qed.

Section Roundtrip.
Variables (m' : mode) (e name p bs2 hdr4 Y Z : list byte) (shift nraw noff : N).
Let fh := pe_fh e.
Let n := pe_n e.
Let soh := pe_soh e.
Let oh := pe_oh e.
Let fa := pe_fa e.
Let sh := pe_sh e.
Let hend := pe_hend e.
Let bs3 := updN bs2 hend hdr4.
Let Zs := zerosN (noff - lenN bs2).
Let Zp := zerosN (nraw - lenN p).
Let Xn := encode_le 4 noff.
Let e' := updN (updN (updN (bs3 ++ Zs ++ p ++ Zp) (hend + 20) Xn) (oh + 56) Y) (oh + 60) Z.

Hypothesis W : wf_pe e.
Hypothesis NOSEC : ~ pe_has_section e name.
Hypothesis NOK : pe_name_ok name.
Hypothesis L0 : 64 <= lenN e.
Hypothesis SG : fieldN e (pe_sig e) 4 = 17744.
Hypothesis N16 : n + 1 < 65536.
Hypothesis LN : lenN name <= 8.
Hypothesis LB2 : lenN bs2 = lenN e + shift.
Hypothesis HE : hend + 40 <= lenN bs2.
Hypothesis HL : hend <= lenN e.
Hypothesis S5 : forall o k, o + k <= hend -> (forall j, j < n -> o + k <= sh + j * 40 + 20 \/ sh + j * 40 + 24 <= o) ->
                 (o + k <= fh + 2 \/ fh + 4 <= o) -> subN bs2 o k = subN e o k.
Hypothesis S6 : fieldN bs2 (fh + 2) 2 = n + 1.
Hypothesis SHIFT : shift = 0 \/ 40 <= shift.
Hypothesis S7 : forall o k, hend <= o -> subN bs2 (o + shift) k = subN e o k.
Hypothesis S8 : forall j, j < n -> fieldN bs2 (sh + j * 40 + 20) 4 = pe_ptr e j + shift.
Hypothesis LH4 : lenN hdr4 = 40.
Hypothesis HN : subN hdr4 0 8 = name ++ zerosN (8 - lenN name).
Hypothesis HR : fieldN hdr4 16 4 = nraw.
Hypothesis NR1 : lenN p <= nraw.
Hypothesis NR3 : nraw < 4294967296.
Hypothesis NO1 : lenN bs2 <= noff.
Hypothesis NO2 : noff < 4294967296.
Hypothesis LY : lenN Y = 4.
Hypothesis LZ : lenN Z = 4.

Let Q1 := updN bs3 (hend + 20) Xn.
Let Q2 := updN Q1 (oh + 56) Y.
Let Q := updN Q2 (oh + 60) Z.

Local Lemma SHd : sh = fh + 20 + soh. Proof. reflexivity. Qed.
Local Lemma OHd : oh = fh + 20. Proof. reflexivity. Qed.
Local Lemma FHd : fh = pe_sig e + 4. Proof. reflexivity. Qed.
Local Lemma HEd : hend = sh + n * 40. Proof. reflexivity. Qed.
Local Lemma WS : 64 <= pe_sig e. Proof. apply W. Qed.
Local Lemma WO : 64 <= soh. Proof. apply W. Qed.
Local Lemma LXn : lenN Xn = 4. Proof. unfold Xn. now rewrite lenN_encode. Qed.
Local Lemma LB3 : lenN bs3 = lenN bs2. Proof. unfold bs3. apply lenN_updN. lia. Qed.
Local Lemma SIG32 : pe_sig e < 4294967296.
Proof. apply (fieldN_lt' e 60 4). change (N.of_nat 4) with 4. lia. Qed.
Local Lemma SOH16 : soh < 65536.
Proof.
  pose proof SHd. pose proof HEd. pose proof FHd.
  apply (fieldN_lt' e (fh + 16) 2). change (N.of_nat 2) with 2. lia.
Qed.

Local Lemma LQ1 : lenN Q1 = lenN bs2.
Proof.
  pose proof SHd. pose proof OHd. pose proof HEd. pose proof WO. pose proof LXn. pose proof LB3.
  unfold Q1. rewrite lenN_updN; lia.
Qed.
Local Lemma LQ2 : lenN Q2 = lenN bs2.
Proof.
  pose proof SHd. pose proof OHd. pose proof HEd. pose proof WO. pose proof LQ1.
  unfold Q2. rewrite lenN_updN; lia.
Qed.
Local Lemma LQ : lenN Q = lenN bs2.
Proof.
  pose proof SHd. pose proof OHd. pose proof HEd. pose proof WO. pose proof LQ2.
  unfold Q. rewrite lenN_updN; lia.
Qed.

Local Lemma NF : e' = Q ++ Zs ++ p ++ Zp.
Proof.
  pose proof SHd. pose proof OHd. pose proof HEd. pose proof WO. pose proof LXn. pose proof LB3.
  unfold e', Q, Q2, Q1. apply updN3_app_l; lia.
Qed.

Local Lemma LZs : lenN (Q ++ Zs) = noff.
Proof. rewrite lenN_app, LQ. unfold Zs. rewrite lenN_zerosN. lia. Qed.

Local Lemma Le' : lenN e' = noff + nraw.
Proof.
  rewrite NF, app_assoc, lenN_app, LZs, lenN_app. unfold Zp. rewrite lenN_zerosN. lia.
Qed.

(* reads below the new header, away from SizeOfImage/SizeOfHeaders: as in bs2 *)
Local Lemma chain_sub o k : o + k <= hend + 20 -> (o + k <= oh + 56 \/ oh + 64 <= o) -> subN e' o k = subN bs3 o k.
Proof.
  intros D1 D2.
  pose proof SHd. pose proof OHd. pose proof HEd. pose proof WO. pose proof LXn. pose proof LB3.
  pose proof LQ1. pose proof LQ2.
  rewrite NF. rewrite subN_app_l by (rewrite LQ; lia). unfold Q.
  rewrite subN_updN_disj by lia. unfold Q2.
  rewrite subN_updN_disj by lia. unfold Q1.
  rewrite subN_updN_disj by lia. reflexivity.
Qed.

Local Lemma hdr_sub o k : o + k <= hend -> (forall j, j < n -> o + k <= sh + j * 40 + 20 \/ sh + j * 40 + 24 <= o) ->
  (o + k <= fh + 2 \/ fh + 4 <= o) -> (o + k <= oh + 56 \/ oh + 64 <= o) -> subN e' o k = subN e o k.
Proof.
  intros D1 D2 D3 D4. rewrite chain_sub by lia. unfold bs3.
  rewrite subN_updN_disj by lia. now apply S5.
Qed.

Local Lemma newhdr_sub x k : x + k <= 20 -> subN e' (hend + x) k = subN hdr4 x k.
Proof.
  intros D. pose proof SHd. pose proof OHd. pose proof HEd. pose proof WO.
  rewrite chain_sub by lia. unfold bs3. apply subN_updN_inside; lia.
Qed.

Local Lemma rf sz off v : off + N.of_nat sz <= lenN e' -> off < 4294967296 * 4 -> fieldN e' off sz = v ->
  read_field true m' sz e' off = Ok v.
Proof.
  intros L B <-. apply read_field_eq; [exact L|].
  assert (N.of_nat sz <= lenN e') by lia. pose proof Le'. lia.
Qed.

Local Lemma f_ptr : fieldN e' (hend + 20) 4 = noff.
Proof.
  pose proof SHd. pose proof OHd. pose proof HEd. pose proof WO. pose proof LXn. pose proof LB3.
  pose proof LQ1. pose proof LQ2.
  unfold fieldN. change (N.of_nat 4) with 4. rewrite NF. rewrite subN_app_l by (rewrite LQ; lia). unfold Q.
  rewrite subN_updN_disj by lia. unfold Q2.
  rewrite subN_updN_disj by lia. unfold Q1.
  rewrite <- LXn. rewrite subN_updN_same by lia. unfold Xn. apply decode_encode_4. exact NO2.
Qed.

Local Lemma old_name j : j < n -> exists s, read_string e' (sh + j * 40) 8 = Ok s /\ s <> name.
Proof.
  intros Hj. pose proof SHd. pose proof OHd. pose proof HEd. pose proof WO. pose proof Le'.
  assert (R : read_string e' (sh + j * 40) 8 = read_string e (sh + j * 40) 8).
  { apply read_string_sub; change (N.of_nat 8) with 8; try lia.
    apply hdr_sub; try lia; try (intros j' Hj'; destruct (N.le_gt_cases j j'); [left | right]; lia). }
  destruct (read_string_enough e (sh + j * 40) 8) as [s Hs]; [change (N.of_nat 8) with 8; lia | lia|].
  exists s. split; [now rewrite R|]. intros ->. apply NOSEC. exists j. split; [exact Hj | exact Hs].
Qed.

Local Lemma new_name : read_string e' hend 8 = Ok name.
Proof.
  pose proof SHd. pose proof OHd. pose proof HEd. pose proof WO. pose proof Le'.
  unfold read_string. rewrite flen_eq.
  replace (hend <? lenN e') with true by (symmetry; apply N.ltb_lt; lia).
  rewrite (dropN_split e' hend (hend + 8)) by lia.
  replace (hend + 8 - hend) with 8 by lia.
  replace hend with (hend + 0) at 1 by lia. rewrite newhdr_sub by lia. rewrite HN.
  destruct (N.eq_dec (lenN name) 8) as [E8|N8].
  - rewrite E8. cbn [N.sub zerosN N.to_nat repeat]. replace (8 - 8) with 0 by lia. cbn [zerosN N.to_nat repeat].
    rewrite app_nil_r. replace 8%nat with (length name) by (unfold lenN in E8; lia). apply rs_cap. exact NOK.
  - replace (8 - lenN name) with (1 + (7 - lenN name)) by lia. rewrite zerosN_split.
    change (zerosN 1) with [zero]. rewrite <- !app_assoc. cbn [app].
    apply rs_name; [exact NOK | unfold lenN in LN; lia].
Qed.

Local Lemma loop_from i : i <= n ->
  extract_pe_loop true m' e' name sh i (N.to_nat (n + 1 - i)) = Ok (p ++ Zp).
Proof.
  intros Hi. remember (N.to_nat (n - i)) as d eqn:Hd'.
  revert i Hi Hd'. induction d as [|d IH]; intros i Hi Hd'.
  - assert (i = n) by lia. subst i. replace (N.to_nat (n + 1 - n)) with 1%nat by lia.
    cbn [extract_pe_loop]. cbv zeta. change (sh + n * 40) with hend.
    pose proof SHd. pose proof OHd. pose proof HEd. pose proof WO. pose proof Le' as Le. pose proof FHd.
    pose proof SIG32. pose proof SOH16.
    rewrite new_name. cbn [obind]. rewrite str_eqb_refl.
    rewrite (rf 4 (hend + 16) nraw).
    2:{ change (N.of_nat 4) with 4. lia. }
    2:{ lia. }
    2:{ unfold fieldN. change (N.of_nat 4) with 4. rewrite newhdr_sub by lia. exact HR. }
    cbn [obind].
    rewrite (rf 4 (hend + 20) noff).
    2:{ change (N.of_nat 4) with 4. lia. }
    2:{ lia. }
    2:{ exact f_ptr. }
    cbn [obind]. unfold split_trunc. rewrite flen_eq.
    replace (noff <=? lenN e') with true by (symmetry; apply N.leb_le; lia).
    f_equal. rewrite NF, app_assoc.
    pose proof (dropN_app_exact (Q ++ Zs) (p ++ Zp)) as DA. rewrite LZs in DA. rewrite DA.
    rewrite flen_eq, lenN_app. unfold Zp at 1. rewrite lenN_zerosN.
    replace (nraw <? lenN p + (nraw - lenN p)) with false by (symmetry; apply N.ltb_ge; lia).
    reflexivity.
  - assert (i < n) as Hlt by lia.
    replace (N.to_nat (n + 1 - i)) with (S (N.to_nat (n + 1 - (i + 1)))) by lia.
    cbn [extract_pe_loop]. cbv zeta.
    destruct (old_name i Hlt) as (s & Hs & Hne). rewrite Hs. cbn [obind].
    replace (str_eqb s name) with false by (symmetry; now apply str_eqb_neq).
    apply IH; lia.
Qed.

Lemma pe_roundtrip_core : extract_pe m' e' name = Ok (p ++ zerosN (nraw - lenN p)).
Proof.
  unfold extract_pe, extract_pe_gen, validate_pe.
  pose proof SHd. pose proof OHd. pose proof HEd. pose proof WO. pose proof WS. pose proof Le' as Le. pose proof FHd.
  pose proof SIG32. pose proof SOH16.
  rewrite (rf 4 60 (pe_sig e)).
  2:{ change (N.of_nat 4) with 4. lia. }
  2:{ lia. }
  2:{ unfold fieldN. change (N.of_nat 4) with 4. rewrite hdr_sub by (try (intros j Hj); lia). reflexivity. }
  cbn [obind].
  rewrite (rf 4 (pe_sig e) 17744).
  2:{ change (N.of_nat 4) with 4. lia. }
  2:{ lia. }
  2:{ rewrite <- SG. unfold fieldN. change (N.of_nat 4) with 4. rewrite hdr_sub by (try (intros j Hj); lia). reflexivity. }
  cbn [obind]. change (17744 =? 17744) with true. cbn [negb]. cbv iota. cbn [obind].
  change (pe_sig e + 4) with fh.
  rewrite (rf 2 (fh + 2) (n + 1)).
  2:{ change (N.of_nat 2) with 2. lia. }
  2:{ lia. }
  2:{ rewrite <- S6. unfold fieldN. change (N.of_nat 2) with 2. rewrite chain_sub by lia.
      unfold bs3. rewrite subN_updN_disj by lia. reflexivity. }
  cbn [obind].
  rewrite (rf 2 (fh + 16) soh).
  2:{ change (N.of_nat 2) with 2. lia. }
  2:{ lia. }
  2:{ unfold fieldN. change (N.of_nat 2) with 2. rewrite hdr_sub by (try (intros j Hj); lia). reflexivity. }
  cbn [obind]. cbv zeta. change (fh + 20 + soh) with sh.
  replace (N.to_nat (n + 1)) with (N.to_nat (n + 1 - 0)) by (f_equal; lia).
  apply loop_from. lia.
Qed.

(* every old section header is kept, except that PointerToRawData moves with the contents *)
Lemma pe_sections_core :
  (forall j, j < n -> fieldN e' (sh + j * 40 + 20) 4 = pe_ptr e j + shift) /\
  (forall j x k, j < n -> x + k <= 20 \/ (24 <= x /\ x + k <= 40) -> subN e' (sh + j * 40 + x) k = subN e (sh + j * 40 + x) k) /\
  (forall o k, hend + (if shift =? 0 then 40 else 0) <= o -> o + k <= lenN e -> subN e' (o + shift) k = subN e o k) /\
  (* the rest of the headers: everything below the section headers except NumberOfSections, SizeOfImage, SizeOfHeaders *)
  (forall o k, o + k <= sh -> (o + k <= fh + 2 \/ fh + 4 <= o) -> (o + k <= oh + 56 \/ oh + 64 <= o) -> subN e' o k = subN e o k) /\
  fieldN e' (fh + 2) 2 = n + 1.
Proof.
  pose proof SHd. pose proof OHd. pose proof HEd. pose proof WO. pose proof LQ1. pose proof LQ2. pose proof LQ.
  pose proof LXn. pose proof LB3.
  split; [|split; [|split; [|split]]].
  - intros j Hj. rewrite <- S8 by exact Hj. unfold fieldN. change (N.of_nat 4) with 4.
    rewrite chain_sub by lia. unfold bs3. rewrite subN_updN_disj by lia. reflexivity.
  - intros j x k Hj Hx. apply hdr_sub; try lia;
    try (intros j' Hj'; destruct (N.lt_trichotomy j j') as [G|[->|G]]; lia).
  - intros o k D1 D2.
    assert (hend + 40 <= o + shift /\ hend <= o) as [? ?].
    { destruct (N.eqb_spec shift 0) as [E0|NE0]; [lia|]. destruct SHIFT as [?|G]; lia. }
    rewrite NF. rewrite subN_app_l by (rewrite LQ; lia). unfold Q.
    rewrite subN_updN_disj by lia. unfold Q2. rewrite subN_updN_disj by lia. unfold Q1.
    rewrite subN_updN_disj by lia. unfold bs3. rewrite subN_updN_disj by lia. now apply S7.
  - intros o k D1 D2 D3. apply hdr_sub; try lia; try (intros j Hj; left; lia).
  - rewrite <- S6. unfold fieldN. change (N.of_nat 2) with 2. rewrite chain_sub by lia.
    unfold bs3. rewrite subN_updN_disj by lia. reflexivity.
Qed.
End Roundtrip.

Lemma pe_roundtrip m m' e name p e' :
  wf_pe e -> ~ pe_has_section e name -> pe_name_ok name ->
  add_pe m e name p = Ok e' ->
  exists pad, extract_pe m' e' name = Ok (p ++ zerosN pad) /\ pad < pe_fa e.
Proof.
  intros W NS NK H.
  destruct (add_pe_shape m e name p e' W H) as (bs2 & shift & hdr4 & nraw & noff & Y & Z & A1 & A2 & A3 & A4 & A5 &
    A6 & A7 & A8 & A9 & A10 & A11 & A12 & A13 & A14 & A15 & A16 & A17 & A18 & A19 & A20 & A21 & A22 & A23 & ->).
  exists (nraw - lenN p). split; [|exact A18].
  eapply (pe_roundtrip_core m' e name p bs2 hdr4 Y Z shift nraw noff); eauto.
Qed.

Lemma pe_sections m e name p e' :
  wf_pe e -> add_pe m e name p = Ok e' ->
  let fh := pe_fh e in let oh := pe_oh e in let sh := pe_sh e in let n := pe_n e in let hend := pe_hend e in
  exists shift, (shift = 0 \/ 40 <= shift) /\
  (forall j, j < n -> fieldN e' (sh + j * 40 + 20) 4 = pe_ptr e j + shift) /\
  (forall j x k, j < n -> x + k <= 20 \/ (24 <= x /\ x + k <= 40) -> subN e' (sh + j * 40 + x) k = subN e (sh + j * 40 + x) k) /\
  (forall o k, hend + (if shift =? 0 then 40 else 0) <= o -> o + k <= lenN e -> subN e' (o + shift) k = subN e o k) /\
  (forall o k, o + k <= sh -> (o + k <= fh + 2 \/ fh + 4 <= o) -> (o + k <= oh + 56 \/ oh + 64 <= o) -> subN e' o k = subN e o k) /\
  fieldN e' (fh + 2) 2 = n + 1.
Proof.
  intros W H.
  destruct (add_pe_shape m e name p e' W H) as (bs2 & shift & hdr4 & nraw & noff & Y & Z & A1 & A2 & A3 & A4 & A5 &
    A6 & A7 & A8 & A9 & A10 & A11 & A12 & A13 & A14 & A15 & A16 & A17 & A18 & A19 & A20 & A21 & A22 & A23 & ->).
  cbv zeta. exists shift. split; [exact A6|].
  eapply pe_sections_core; eauto.
Qed.

