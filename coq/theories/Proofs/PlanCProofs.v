From RJ Require Import Base.Prelude Base.OrderedPlan Model.Settings Model.Core Spec.PlanSpec.
From Coq Require Import Permutation.

Notation srcs_c := (srcs path entry).
Notation dests_c := (dests path entry).
Notation subseq_c := (subseq path).

(* ---- the planner computes plan_spec, whatever the interleaving ---- *)
Theorem actions_of_spec diff ss (sg : list arrival_t) :
  NoDup (lkeys (srcs_c sg)) -> NoDup (lkeys (dests_c sg)) ->
  actions_of diff ss sg = Some (plan_spec diff ss (srcs_c sg) (dests_c sg)).
Proof.
  intros Hs Hd. unfold actions_of, plan_c.
  destruct (plan_char path path_eq_dec entry (needs_delete diff) (needs_copy ss) sg Hs Hd) as (st & Hp & Hc & Hdel).
  rewrite Hp. unfold plan_spec, copy_dec, delete_dec. rewrite Hc, Hdel. reflexivity.
Qed.

Corollary interleaving_independent diff ss sg1 sg2 :
  srcs_c sg1 = srcs_c sg2 -> dests_c sg1 = dests_c sg2 ->
  NoDup (lkeys (srcs_c sg1)) -> NoDup (lkeys (dests_c sg1)) ->
  actions_of diff ss sg1 = actions_of diff ss sg2.
Proof.
  intros E1 E2 Hs Hd. rewrite (actions_of_spec diff ss sg1 Hs Hd).
  rewrite E1, E2 in *. rewrite (actions_of_spec diff ss sg2 Hs Hd). reflexivity.
Qed.

(* ---- [before] ---- *)
Lemma before_in_l {A} (a b : A) l : before a b l -> In a l.
Proof. induction 1; simpl; auto. Qed.
Lemma before_in_r {A} (a b : A) l : before a b l -> In b l.
Proof. induction 1; simpl; auto. Qed.
Lemma before_app_r {A} (a b : A) l1 l2 : In a l1 -> In b l2 -> before a b (l1 ++ l2).
Proof.
  induction l1 as [|x l1 IH]; simpl; intros Ha Hb; [contradiction|].
  destruct Ha as [->|Ha].
  - apply before_here. apply in_or_app; auto.
  - apply before_skip; auto.
Qed.
Lemma before_app_ll {A} (a b : A) l1 l2 : before a b l1 -> before a b (l1 ++ l2).
Proof. induction 1; simpl; [apply before_here; apply in_or_app; auto | apply before_skip; auto]. Qed.
Lemma before_app_rr {A} (a b : A) l1 l2 : before a b l2 -> before a b (l1 ++ l2).
Proof. induction l1; simpl; auto. intros; apply before_skip; auto. Qed.
Lemma before_rev {A} (a b : A) l : before a b l -> before b a (rev l).
Proof.
  induction 1 as [l Hb|x l H IH]; simpl.
  - apply before_app_r; [rewrite <- in_rev; auto | simpl; auto].
  - apply before_app_ll; auto.
Qed.
Lemma before_subseq (a b : path) l1 l2 : subseq_c l1 l2 -> before a b l1 -> before a b l2.
Proof.
  induction 1 as [|x l1 l2 Hs IH|x l1 l2 Hs IH]; intros Hb.
  - inversion Hb.
  - apply before_skip; auto.
  - inversion Hb; subst.
    + apply before_here. eapply subseq_in; eauto.
    + apply before_skip; auto.
Qed.
Lemma before_not_refl_nodup {A} (a b : A) l : NoDup l -> before a b l -> before b a l -> False.
Proof.
  induction 1 as [|x l Hx Hnd IH]; intros H1 H2; [inversion H1|].
  inversion H1; subst; inversion H2; subst.
  - contradiction.
  - apply before_in_r in H3. contradiction.
  - apply before_in_r in H0. contradiction.
  - auto.
Qed.
Lemma before_total {A} (eq_dec : forall x y : A, {x = y} + {x <> y}) (a b : A) l :
  In a l -> In b l -> a <> b -> before a b l \/ before b a l.
Proof.
  induction l as [|x l IH]; simpl; intros Ha Hb Hne; [contradiction|].
  destruct Ha as [->|Ha], Hb as [->|Hb]; try congruence.
  - left. apply before_here; auto.
  - right. apply before_here; auto.
  - destruct (IH Ha Hb Hne); [left|right]; apply before_skip; auto.
Qed.
Lemma before_subseq_inv (a b : path) l1 l2 :
  subseq_c l1 l2 -> NoDup l2 -> In a l1 -> In b l1 -> a <> b -> before a b l2 -> before a b l1.
Proof.
  intros Hs Hnd Ha Hb Hne H2.
  destruct (before_total path_eq_dec a b l1 Ha Hb Hne) as [H|H]; auto.
  exfalso. apply (before_subseq _ _ _ _ Hs) in H. eapply before_not_refl_nodup; eauto.
Qed.

(* ---- the action lists are sub-sequences of the listings ---- *)
Lemma subseq_refl (l : list path) : subseq_c l l.
Proof. induction l; [apply ss_nil | apply ss_take; auto]. Qed.

Lemma keys_copy_subseq diff ss Ld Ls :
  subseq_c (map fst (flat_map (copy_dec diff ss Ld) Ls)) (lkeys Ls).
Proof.
  induction Ls as [|[p s] Ls IH]; simpl; [constructor|].
  rewrite map_app. unfold copy_dec at 1, copy_decision.
  destruct (alookup path path_eq_dec p Ld) as [d|]; simpl.
  - destruct (needs_delete diff s d); simpl; [apply ss_take; auto|].
    destruct (needs_copy ss s d); simpl; [apply ss_take; auto | apply ss_skip; auto].
  - apply ss_take; auto.
Qed.
Lemma keys_delete_subseq diff Ls Ld :
  subseq_c (map fst (flat_map (delete_dec diff Ls) Ld)) (lkeys Ld).
Proof.
  induction Ld as [|[p d] Ld IH]; simpl; [constructor|].
  rewrite map_app. unfold delete_dec at 1, delete_decision.
  destruct (alookup path path_eq_dec p Ls) as [s|]; simpl.
  - destruct (needs_delete diff s d); simpl; [apply ss_take; auto | apply ss_skip; auto].
  - apply ss_take; auto.
Qed.

Lemma strict_prefix_neq a b : is_strict_prefix a b = true -> a <> b.
Proof.
  unfold is_strict_prefix, path_eqb. intros H Heq. apply andb_true_iff in H as [_ H].
  destruct (path_eq_dec a b); [discriminate|contradiction].
Qed.

(* every folder is created before its contents *)
Theorem copy_order diff ss Ls Ld :
  NoDup (lkeys Ls) -> parents_first (lkeys Ls) ->
  parents_first (map fst (a_copy (plan_spec diff ss Ls Ld))).
Proof.
  intros Hnd Hpf a b Ha Hb Hpre. cbn [plan_spec a_copy] in *.
  pose proof (keys_copy_subseq diff ss Ld Ls) as Hs.
  eapply before_subseq_inv; eauto.
  - apply strict_prefix_neq; auto.
  - apply Hpf; auto; eapply subseq_in; eauto.
Qed.

(* each entry is deleted before its parent folder *)
Theorem delete_order diff ss Ls Ld :
  NoDup (lkeys Ld) -> parents_first (lkeys Ld) ->
  children_first (map fst (a_delete (plan_spec diff ss Ls Ld))).
Proof.
  intros Hnd Hpf a b Ha Hb Hpre. cbn [plan_spec a_delete] in *.
  rewrite map_rev in *. apply before_rev.
  pose proof (keys_delete_subseq diff Ls Ld) as Hs.
  apply in_rev in Ha. apply in_rev in Hb.
  eapply before_subseq_inv; eauto.
  - apply strict_prefix_neq; auto.
  - apply Hpf; auto; eapply subseq_in; eauto.
Qed.

(* ---- sibling order inside a listing does not change the sets ---- *)
Lemma alookup_perm {V} (l l' : list (path * V)) k :
  Permutation l l' -> NoDup (map fst l) -> alookup path path_eq_dec k l = alookup path path_eq_dec k l'.
Proof.
  induction 1 as [|[k1 v1] l l' HP IH|[k1 v1] [k2 v2] l|l l' l'' HP1 IH1 HP2 IH2]; intros Hnd; simpl in *.
  - reflexivity.
  - inversion Hnd; subst. destruct (path_eq_dec k k1); auto.
  - inversion Hnd as [|? ? Hn1 Hnd']; subst. destruct (path_eq_dec k k2), (path_eq_dec k k1); auto.
    subst. exfalso. apply Hn1. simpl. auto.
  - rewrite IH1 by auto. apply IH2. eapply Permutation_NoDup; [apply Permutation_map; eauto|auto].
Qed.

Lemma Permutation_flat_map_ext {A B} (f g : A -> list B) l l' :
  Permutation l l' -> (forall a, f a = g a) -> Permutation (flat_map f l) (flat_map g l').
Proof.
  intros HP Hfg. rewrite (flat_map_ext f g Hfg). apply Permutation_flat_map. exact HP.
Qed.

Theorem sibling_order_irrelevant diff ss Ls Ls' Ld Ld' :
  Permutation Ls Ls' -> Permutation Ld Ld' -> NoDup (lkeys Ls) -> NoDup (lkeys Ld) ->
  Permutation (a_copy (plan_spec diff ss Ls Ld)) (a_copy (plan_spec diff ss Ls' Ld')) /\
  Permutation (a_delete (plan_spec diff ss Ls Ld)) (a_delete (plan_spec diff ss Ls' Ld')).
Proof.
  intros PS PD HS HD. cbn [plan_spec a_copy a_delete]. split.
  - apply Permutation_flat_map_ext; auto. intros [p s]. unfold copy_dec, copy_decision.
    rewrite (alookup_perm Ld Ld' p PD HD). reflexivity.
  - rewrite <- !Permutation_rev. apply Permutation_flat_map_ext; auto. intros [p d].
    unfold delete_dec, delete_decision. rewrite (alookup_perm Ls Ls' p PS HS). reflexivity.
Qed.

(* OrderedMap::update never hits a missing key (the two unwraps of ordered_map.rs:50) *)
Corollary planner_never_panics diff ss sg :
  NoDup (lkeys (srcs_c sg)) -> NoDup (lkeys (dests_c sg)) -> actions_of diff ss sg <> None.
Proof. intros Hs Hd. rewrite actions_of_spec by auto. discriminate. Qed.
